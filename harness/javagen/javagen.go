// Package javagen renders abstract Java compilation units to source text and records
// "rendered facts": where every member starts and where every call site's callee
// identifier lies (line, rune and byte columns), plus the declarations of the receiver's
// name visible at that point. It makes no judgement; scoping priority and type
// resolution are decided by the TLA+ Reference from these facts.
package javagen

import (
	"fmt"
	"math/rand"
	"strings"
	"unicode/utf8"
)

type KV struct {
	Key   string `json:"key"`
	Value string `json:"value"`
}

type Ann struct {
	Name string `json:"name"`
	Form string `json:"form"` // marker | single | pairs
	Args []KV   `json:"args"`
}

type Param struct {
	Type string `json:"type"`
	Name string `json:"name"`
	// Array: the parameter is declared with the brackets after its name (String argv[]): the name is still argv
	Array bool `json:"array"`
}

type Import struct {
	Pkg    string `json:"pkg"`
	Name   string `json:"name"`   // simple name (member name for a static import), "*" for wildcard
	Static bool   `json:"static"` // import static pkg.Name;
	Before string `json:"before"` // raw text written before the import line ("" | "\n" | "// note\n" ...)
}

type Expr struct {
	K        string `json:"k"` // lit | var | call | new | lambda | mref
	Text     string `json:"text"`
	RecvKind string `json:"recvKind"` // none | this | var | static | call
	Recv     string `json:"recv"`
	RecvCall *Expr  `json:"recvCall,omitempty"`
	Callee   string `json:"callee"`
	Args     []Expr `json:"args"`
	Type     string `json:"type"`
	Body     *Expr  `json:"body,omitempty"`
}

type Stmt struct {
	K     string   `json:"k"` // decl | assign | expr | if | for | while | switch | try | return
	Type  string   `json:"type"`
	Name  string   `json:"name"`
	E     *Expr    `json:"e,omitempty"`
	Then  []Stmt   `json:"then"`
	Els   []Stmt   `json:"els"`
	Cases [][]Stmt `json:"cases"`
	Final bool     `json:"final"` // decl: the local is declared final
}

type Member struct {
	Kind     string   `json:"kind"` // field | ctor | method
	Name     string   `json:"name"`
	Type     string   `json:"type"` // field type / return type ("" for ctor)
	Params   []Param  `json:"params"`
	Mods     []string `json:"mods"`
	Anns     []Ann    `json:"anns"`
	Generic  string   `json:"generic"` // "" or "<T>"
	Body     []Stmt   `json:"body"`
	SameLine bool     `json:"sameLine"` // starts on the line the previous member ends on
	Throws   []string `json:"throws"`
	// Init (fields): an initialiser expression `Type name = <expr>;` - calls and creations in it belong to no method
	Init *Expr `json:"init,omitempty"`
	// OneLine: the whole member (header, body, closing brace) is written on one line; the line facts of call sites inside it are NOT valid
	OneLine bool `json:"oneLine"`
}

type Unit struct {
	Kind    string   `json:"kind"` // class | interface
	Name    string   `json:"name"`
	TParams string   `json:"tparams"` // "" or "<T>"
	Ext     string   `json:"ext"`     // simple name of the superclass or ""
	Extq    string   `json:"extq"`    // its qualified name as Java resolves it
	Impls   []string `json:"impls"`
	Anns    []Ann    `json:"anns"`
	Members []Member `json:"members"`
}

type File struct {
	Id       string   `json:"id"`
	PathKind string   `json:"pathKind"` // main | maven | testname | teststname | testdir | ignoredir | ignoreglob | testdata | nonjava
	Dirs     string   `json:"dirs"`
	Pkg      string   `json:"pkg"`
	Imports  []Import `json:"imports"`
	Unit     Unit     `json:"unit"`
}

type SiteFact struct {
	Fn       int    `json:"fn"` // index of the member (1-based) whose body contains the site
	FnName   string `json:"fnName"`
	Kind     string `json:"kind"` // call | new
	Callee   string `json:"callee"`
	Line     int    `json:"line"`
	C0       int    `json:"c0"` // rune columns [c0, c1) of the callee identifier
	C1       int    `json:"c1"`
	B0       int    `json:"b0"` // byte columns
	B1       int    `json:"b1"`
	RecvKind string `json:"recvKind"`
	Recv     string `json:"recv"`
	LocalT   string `json:"localT"` // declared type of the innermost visible local named Recv declared earlier ("" if none)
	ParamT   string `json:"paramT"`
	FieldT   string `json:"fieldT"` // declared type of a field named Recv declared earlier in the class
	InLambda bool   `json:"inLambda"`
	// LambdaT: the receiver is the explicitly typed parameter of the enclosing lambda, `(T it) -> it.m()`: its declared type
	LambdaT string `json:"lambdaT"`
}

type MemberFact struct {
	Line    int `json:"line"`    // line the member's declaration (first modifier/annotation) starts on
	EndLine int `json:"endLine"` // line of its closing brace / semicolon
	IdLine  int `json:"idLine"`  // line and columns of the declared identifier
	IdC0    int `json:"idC0"`
	IdB0    int `json:"idB0"`
}

type Facts struct {
	RelPath string       `json:"relPath"`
	Members []MemberFact `json:"members"`
	Sites   []SiteFact   `json:"sites"`
	// ImportLines[i] = line of the i-th import declaration
	ImportLines []int `json:"importLines"`
	// Refs: every identifier the renderer wrote outside the package/import header in a position where a simple name
	// refers to a type or a statically imported member: type texts (tokenised), annotation names, created types,
	// static receivers, catch/throws/extends/implements names and unqualified callee names.
	Refs []string `json:"refs"`
}

// ---------------------------------------------------------------------------

type writer struct {
	b    strings.Builder
	line int // 1-based current line
	colR int // rune column (0-based) of the next character
	colB int
}

func (w *writer) s(str string) {
	for _, r := range str {
		if r == '\n' {
			w.line++
			w.colR, w.colB = 0, 0
		} else {
			w.colR++
			w.colB += utf8.RuneLen(r)
		}
	}
	w.b.WriteString(str)
}

type scope struct {
	locals []map[string]string
	params map[string]string
	fields map[string]string
}

func (sc *scope) local(name string) string {
	for i := len(sc.locals) - 1; i >= 0; i-- {
		if t, ok := sc.locals[i][name]; ok {
			return t
		}
	}
	return ""
}

func identTokens(text string) []string {
	var out []string
	cur := []rune{}
	flush := func() {
		if len(cur) > 0 {
			out = append(out, string(cur))
			cur = cur[:0]
		}
	}
	for _, ch := range text {
		if ch == '_' || ch == '$' || (ch >= 'a' && ch <= 'z') || (ch >= 'A' && ch <= 'Z') || (ch >= '0' && ch <= '9' && len(cur) > 0) || ch > 127 {
			cur = append(cur, ch)
		} else {
			flush()
		}
	}
	flush()
	return out
}

func (rd *renderer) ref(text string) {
	for _, t := range identTokens(text) {
		if !rd.refSeen[t] {
			rd.refSeen[t] = true
			rd.facts.Refs = append(rd.facts.Refs, t)
		}
	}
}

type renderer struct {
	refSeen map[string]bool
	w       *writer
	r       *rand.Rand
	facts   *Facts
	sc      *scope
	fn      int
	fnName  string
	lambda  int
	style   int
	// the explicitly typed parameter of the innermost enclosing lambda ("" if none)
	lambdaParam, lambdaType string
}

func annText(a Ann) string {
	switch a.Form {
	case "single":
		if len(a.Args) > 0 {
			return "@" + a.Name + "(" + a.Args[0].Value + ")"
		}
	case "pairs":
		var ps []string
		for _, kv := range a.Args {
			ps = append(ps, kv.Key+" = "+kv.Value)
		}
		return "@" + a.Name + "(" + strings.Join(ps, ", ") + ")"
	}
	return "@" + a.Name
}

func (rd *renderer) expr(e *Expr) {
	w := rd.w
	switch e.K {
	case "lit":
		w.s(e.Text)
	case "sfield": // static field access  Type.FIELD
		rd.ref(e.Recv)
		w.s(e.Recv + "." + e.Text)
	case "var":
		w.s(e.Text)
	case "call":
		switch e.RecvKind {
		case "this":
			w.s("this.")
			if e.Recv != "" {
				w.s(e.Recv + ".")
			}
		case "var", "static":
			if e.RecvKind == "static" {
				rd.ref(e.Recv)
			}
			w.s(e.Recv + ".")
		case "call":
			rd.expr(e.RecvCall)
			if rd.style%7 == 3 {
				w.s("\n" + strings.Repeat(" ", 16))
			}
			w.s(".")
		}
		sf := SiteFact{Fn: rd.fn, FnName: rd.fnName, Kind: "call", Callee: e.Callee, Line: w.line, C0: w.colR, B0: w.colB,
			RecvKind: e.RecvKind, Recv: e.Recv, InLambda: rd.lambda > 0}
		if e.RecvKind == "var" && rd.lambdaParam != "" && e.Recv == rd.lambdaParam {
			sf.LambdaT = rd.lambdaType
		}
		if e.RecvKind == "var" {
			sf.LocalT = rd.sc.local(e.Recv)
			sf.ParamT = rd.sc.params[e.Recv]
			sf.FieldT = rd.sc.fields[e.Recv]
		}
		if e.RecvKind == "none" {
			rd.ref(e.Callee)
		}
		w.s(e.Callee)
		sf.C1, sf.B1 = w.colR, w.colB
		idx := len(rd.facts.Sites)
		rd.facts.Sites = append(rd.facts.Sites, sf)
		_ = idx
		w.s("(")
		rd.args(e.Args)
		w.s(")")
	case "new":
		w.s("new ")
		sf := SiteFact{Fn: rd.fn, FnName: rd.fnName, Kind: "new", Callee: e.Type, Line: w.line, C0: w.colR, B0: w.colB, RecvKind: "none", InLambda: rd.lambda > 0}
		rd.ref(e.Type)
		w.s(e.Type)
		sf.C1, sf.B1 = w.colR, w.colB
		rd.facts.Sites = append(rd.facts.Sites, sf)
		w.s("(")
		rd.args(e.Args)
		w.s(")")
	case "mref": // a method reference whose receiver is a type: Objects::nonNull
		rd.ref(e.Type)
		w.s(e.Type + "::" + e.Callee)
	case "lambda":
		if e.Type != "" {
			// an explicitly typed parameter: a declaration like any other parameter, visible in the body
			rd.ref(e.Type)
			w.s("(" + e.Type + " " + e.Text + ") -> ")
			rd.sc.locals = append(rd.sc.locals, map[string]string{e.Text: e.Type})
			oldP, oldT := rd.lambdaParam, rd.lambdaType
			rd.lambdaParam, rd.lambdaType = e.Text, e.Type
			rd.lambda++
			rd.expr(e.Body)
			rd.lambda--
			rd.lambdaParam, rd.lambdaType = oldP, oldT
			rd.sc.locals = rd.sc.locals[:len(rd.sc.locals)-1]
			break
		}
		w.s(e.Text + " -> ")
		rd.lambda++
		rd.expr(e.Body)
		rd.lambda--
	default:
		panic("javagen: unknown expr kind " + e.K)
	}
}

func (rd *renderer) args(as []Expr) {
	for i := range as {
		if i > 0 {
			if rd.style%5 == 2 && len(as) > 1 {
				rd.w.s(",\n" + strings.Repeat(" ", 20))
			} else {
				rd.w.s(", ")
			}
		}
		rd.expr(&as[i])
	}
}

func (rd *renderer) block(stmts []Stmt, ind int) {
	rd.sc.locals = append(rd.sc.locals, map[string]string{})
	for i := range stmts {
		rd.stmt(&stmts[i], ind)
	}
	rd.sc.locals = rd.sc.locals[:len(rd.sc.locals)-1]
}

func (rd *renderer) stmt(s *Stmt, ind int) {
	w := rd.w
	pad := strings.Repeat(" ", ind)
	if rd.style%11 == 5 && rd.r.Intn(3) == 0 {
		w.s(pad + "// \u6ce8\u91ca foo.bar() new Baz()\n")
	}
	switch s.K {
	case "decl":
		rd.ref(s.Type)
		if s.Final {
			w.s(pad + "final " + s.Type + " " + s.Name)
		} else {
			w.s(pad + s.Type + " " + s.Name)
		}
		if s.E != nil {
			w.s(" = ")
			rd.expr(s.E)
		}
		w.s(";\n")
		rd.sc.locals[len(rd.sc.locals)-1][s.Name] = s.Type
	case "assign":
		w.s(pad + s.Name + " = ")
		rd.expr(s.E)
		w.s(";\n")
	case "expr":
		w.s(pad)
		rd.expr(s.E)
		w.s(";")
		if rd.style%13 == 4 && rd.r.Intn(2) == 0 {
			w.s(" ") // the next statement may share the line
			return
		}
		w.s("\n")
	case "return":
		w.s(pad + "return")
		if s.E != nil {
			w.s(" ")
			rd.expr(s.E)
		}
		w.s(";\n")
	case "if":
		w.s(pad + "if (")
		rd.expr(s.E)
		w.s(") {\n")
		rd.block(s.Then, ind+4)
		if len(s.Els) > 0 {
			w.s(pad + "} else {\n")
			rd.block(s.Els, ind+4)
		}
		w.s(pad + "}\n")
	case "while":
		w.s(pad + "while (")
		rd.expr(s.E)
		w.s(") {\n")
		rd.block(s.Then, ind+4)
		w.s(pad + "}\n")
	case "for":
		w.s(pad + "for (int " + s.Name + " = 0; " + s.Name + " < ")
		rd.expr(s.E)
		w.s("; " + s.Name + "++) {\n")
		rd.block(s.Then, ind+4)
		w.s(pad + "}\n")
	case "switch":
		w.s(pad + "switch (")
		rd.expr(s.E)
		w.s(") {\n")
		for i, c := range s.Cases {
			if i == len(s.Cases)-1 {
				w.s(pad + "    default:\n")
			} else {
				w.s(fmt.Sprintf("%s    case %d:\n", pad, i))
			}
			rd.sc.locals = append(rd.sc.locals, map[string]string{})
			for j := range c {
				rd.stmt(&c[j], ind+8)
			}
			rd.sc.locals = rd.sc.locals[:len(rd.sc.locals)-1]
			if len(c) == 0 || c[len(c)-1].K != "return" {
				w.s(pad + "        break;\n")
			}
		}
		w.s(pad + "}\n")
	case "try":
		w.s(pad + "try {\n")
		rd.block(s.Then, ind+4)
		ct := s.Type
		if ct == "" {
			ct = "Exception"
		}
		rd.ref(ct)
		w.s(pad + "} catch (" + ct + " ex) {\n")
		rd.block(s.Els, ind+4)
		if len(s.Cases) > 0 {
			w.s(pad + "} finally {\n")
			rd.block(s.Cases[0], ind+4)
		}
		w.s(pad + "}\n")
	default:
		panic("javagen: unknown stmt kind " + s.K)
	}
}

func hasMod(mods []string, m string) bool {
	for _, x := range mods {
		if x == m {
			return true
		}
	}
	return false
}

func relPath(f File) string {
	pkgDir := strings.ReplaceAll(f.Pkg, ".", "/")
	name := f.Unit.Name
	base := ""
	if f.Dirs != "" {
		base = f.Dirs + "/"
	}
	switch f.PathKind {
	case "main":
		return base + name + ".java"
	case "maven":
		return base + "src/main/java/" + pkgDir + "/" + name + ".java"
	case "neartest": // a source root whose name merely begins like the test root (src/test/java8): these are not test files
		return base + "src/test/java8/" + pkgDir + "/" + name + ".java"
	case "testname", "teststname": // the unit is itself named ...Test / ...Tests
		return base + pkgDir + "/" + name + ".java"
	case "testdir":
		return base + "src/test/java/" + pkgDir + "/" + name + ".java"
	case "ignoredir":
		return base + "gen/" + name + ".java"
	case "ignoreglob":
		return base + pkgDir + "/" + name + ".java" // name ends in Generated
	case "testdata":
		return base + "testData/" + name + ".java"
	case "nonjava":
		return base + pkgDir + "/" + name + ".jav"
	}
	panic("javagen: unknown pathKind " + f.PathKind)
}

// Render turns one abstract file into source text plus facts. layout seeds cosmetic choices only.
func Render(f File, layout int) (string, Facts) {
	w := &writer{line: 1}
	facts := Facts{RelPath: relPath(f), Members: []MemberFact{}, Sites: []SiteFact{}, ImportLines: []int{}, Refs: []string{}}
	rd := &renderer{refSeen: map[string]bool{}, w: w, r: rand.New(rand.NewSource(int64(layout)*31 + int64(len(f.Unit.Name)))), facts: &facts, style: layout,
		sc: &scope{params: map[string]string{}, fields: map[string]string{}}}
	if layout%4 == 1 {
		w.s("/*\n * Copyright \u00a9 acme. call foo.bar(); new Qux();\n */\n")
	}
	if f.Pkg != "" {
		w.s("package " + f.Pkg + ";\n\n")
	}
	for _, im := range f.Imports {
		w.s(im.Before)
		facts.ImportLines = append(facts.ImportLines, w.line)
		if im.Static {
			w.s("import static " + im.Pkg + "." + im.Name + ";\n")
		} else {
			w.s("import " + im.Pkg + "." + im.Name + ";\n")
		}
	}
	if len(f.Imports) > 0 {
		w.s("\n")
	}
	u := f.Unit
	for _, a := range u.Anns {
		rd.ref(a.Name)
		w.s(annText(a))
		if layout%6 == 2 {
			w.s(" ")
		} else {
			w.s("\n")
		}
	}
	// what separates the type keyword from the name is layout too: a blank, a tab, a line break, a comment
	sep := " "
	switch layout % 11 {
	case 4:
		sep = "\t"
	case 7:
		sep = "\n        "
	case 9:
		sep = " /* type */ "
	}
	w.s("public " + u.Kind + sep + u.Name + u.TParams)
	if u.Ext != "" {
		rd.ref(u.Ext)
		w.s(" extends " + u.Ext)
	}
	for _, im := range u.Impls {
		rd.ref(im)
	}
	if len(u.Impls) > 0 {
		if u.Kind == "interface" {
			w.s(" extends " + strings.Join(u.Impls, ", "))
		} else {
			w.s(" implements " + strings.Join(u.Impls, ", "))
		}
	}
	if layout%3 == 2 {
		w.s("\n{\n")
	} else {
		w.s(" {\n")
	}
	ind := 4
	if layout%9 == 7 {
		ind = 2
	}
	pad := strings.Repeat(" ", ind)
	for i := range u.Members {
		m := &u.Members[i]
		rd.fn = i + 1
		rd.fnName = m.Name
		if m.SameLine && i > 0 {
			// undo the newline the previous member ended with
			s := w.b.String()
			if strings.HasSuffix(s, "\n") {
				w.b.Reset()
				w.b.WriteString(s[:len(s)-1])
				w.line--
				last := s[:len(s)-1]
				if k := strings.LastIndexByte(last, '\n'); k >= 0 {
					last = last[k+1:]
				}
				w.colB = len(last)
				w.colR = utf8.RuneCountInString(last)
				w.s(" ")
			}
		} else {
			if layout%2 == 0 && i > 0 {
				w.s("\n")
			}
			if layout%8 == 3 {
				w.s(pad + "// member " + m.Name + "() \u2014 d\u00e9claration\n")
			}
			w.s(pad)
		}
		mf := MemberFact{Line: w.line}
		for _, a := range m.Anns {
			rd.ref(a.Name)
			w.s(annText(a))
			if layout%6 == 4 || m.SameLine {
				w.s(" ")
			} else {
				w.s("\n" + pad)
			}
		}
		for _, md := range m.Mods {
			w.s(md + " ")
		}
		switch m.Kind {
		case "field":
			rd.ref(m.Type)
			w.s(m.Type + " ")
			mf.IdLine, mf.IdC0, mf.IdB0 = w.line, w.colR, w.colB
			if m.Init != nil {
				w.s(m.Name + " = ")
				rd.expr(m.Init)
				w.s(";\n")
			} else {
				w.s(m.Name + ";\n")
			}
			mf.EndLine = w.line - 1
			rd.sc.fields[m.Name] = m.Type
		case "ctor", "method":
			if m.Generic != "" {
				w.s(m.Generic + " ")
			}
			if m.Kind == "method" {
				rd.ref(m.Type)
				w.s(m.Type + " ")
			}
			mf.IdLine, mf.IdC0, mf.IdB0 = w.line, w.colR, w.colB
			w.s(m.Name + "(")
			rd.sc.params = map[string]string{}
			for j, p := range m.Params {
				if j > 0 {
					if layout%5 == 1 && len(m.Params) > 2 {
						w.s(",\n" + pad + pad + pad)
					} else {
						w.s(", ")
					}
				}
				rd.ref(p.Type)
				if p.Array {
					w.s(p.Type + " " + p.Name + "[]")
					rd.sc.params[p.Name] = p.Type + "[]"
				} else {
					w.s(p.Type + " " + p.Name)
					rd.sc.params[p.Name] = p.Type
				}
			}
			w.s(")")
			if len(m.Throws) > 0 {
				for _, t := range m.Throws {
					rd.ref(t)
				}
				w.s(" throws " + strings.Join(m.Throws, ", "))
			}
			if u.Kind == "interface" && !hasMod(m.Mods, "default") && !hasMod(m.Mods, "static") {
				w.s(";\n")
				mf.EndLine = w.line - 1
			} else {
				w.s(" {\n")
				bodyStart := w.b.Len() - 1
				startLine := w.line - 1
				rd.sc.locals = nil
				rd.block(m.Body, ind*2)
				// a statement may have left the line open
				if w.colR != 0 {
					w.s("\n")
				}
				w.s(pad + "}\n")
				if m.OneLine {
					all := w.b.String()
					body := strings.Join(strings.Fields(all[bodyStart:]), " ")
					w.b.Reset()
					w.b.WriteString(all[:bodyStart] + " " + body + "\n")
					w.line = startLine + 1
					w.colR, w.colB = 0, 0
				}
				mf.EndLine = w.line - 1
			}
			rd.sc.params = map[string]string{}
		default:
			panic("javagen: unknown member kind " + m.Kind)
		}
		facts.Members = append(facts.Members, mf)
	}
	w.s("}\n")
	return w.b.String(), facts
}

// Normalize replaces nil slices by empty ones so that every record field exists in JSON.
func Normalize(f *File) {
	if f.Imports == nil {
		f.Imports = []Import{}
	}
	if f.Unit.Impls == nil {
		f.Unit.Impls = []string{}
	}
	if f.Unit.Anns == nil {
		f.Unit.Anns = []Ann{}
	}
	for i := range f.Unit.Anns {
		if f.Unit.Anns[i].Args == nil {
			f.Unit.Anns[i].Args = []KV{}
		}
	}
	if f.Unit.Members == nil {
		f.Unit.Members = []Member{}
	}
	for i := range f.Unit.Members {
		m := &f.Unit.Members[i]
		if m.Params == nil {
			m.Params = []Param{}
		}
		if m.Mods == nil {
			m.Mods = []string{}
		}
		if m.Anns == nil {
			m.Anns = []Ann{}
		}
		if m.Throws == nil {
			m.Throws = []string{}
		}
		for j := range m.Anns {
			if m.Anns[j].Args == nil {
				m.Anns[j].Args = []KV{}
			}
		}
		m.Body = normStmts(m.Body)
		if m.Init != nil {
			normExpr(m.Init)
		}
	}
}

func normStmts(ss []Stmt) []Stmt {
	if ss == nil {
		return []Stmt{}
	}
	for i := range ss {
		ss[i].Then = normStmts(ss[i].Then)
		ss[i].Els = normStmts(ss[i].Els)
		if ss[i].Cases == nil {
			ss[i].Cases = [][]Stmt{}
		}
		for j := range ss[i].Cases {
			ss[i].Cases[j] = normStmts(ss[i].Cases[j])
		}
		normExpr(ss[i].E)
	}
	return ss
}

func normExpr(e *Expr) {
	if e == nil {
		return
	}
	if e.Args == nil {
		e.Args = []Expr{}
	}
	for i := range e.Args {
		normExpr(&e.Args[i])
	}
	normExpr(e.RecvCall)
	normExpr(e.Body)
}
