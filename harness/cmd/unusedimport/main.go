// Harness for unused-import removal (C06).
package main

import (
	"encoding/json"
	"fmt"
	"math/rand"
	"os"
	"path/filepath"
	"sort"
	"strings"

	"github.com/modernizing/coca/pkg/application/refactor/unused"

	"verifharness/javagen"
	"verifharness/javaproj"
	"verifharness/lib"
)

type Case struct {
	Case   string         `json:"case"`
	Files  []javagen.File `json:"files"`
	Layout int            `json:"layout"`
	// Bystander: a file of the directory that declares no class or interface (an enum, an annotation type, a
	// package-info), visited first by the directory walk; it has no imports, is not judged, and must not keep the other
	// files from being cleaned
	Bystander string `json:"bystander"` // "" | enum | anntype | pkginfo
	// Crlf: every file is written with CRLF line ends; NoFinal: without a final line break (every other byte must stay)
	Crlf    bool `json:"crlf"`
	NoFinal bool `json:"noFinal"`
}

type ImportFact struct {
	Name   string `json:"name"` // simple name (member name for static imports)
	Wild   bool   `json:"wild"`
	Static bool   `json:"static"`
	Line   int    `json:"line"`
}

type Text struct {
	Path    string       `json:"path"`
	Before  []string     `json:"before"`
	After1  []string     `json:"after1"`
	After2  []string     `json:"after2"`
	Imports []ImportFact `json:"imports"`
	Refs    []string     `json:"refs"`
}

type Record struct {
	Case  string `json:"case"`
	Texts []Text `json:"texts"`
	Panic bool   `json:"panic"`
	Note  string `json:"note"`
	// evidence of non-triviality
	Unused int `json:"unused"`
	NFiles int `json:"nfiles"`
}

func readLines(p string) []string {
	b, err := os.ReadFile(p)
	if err != nil {
		return []string{"<unreadable>"}
	}
	return strings.Split(string(b), "\n")
}

func one(raw json.RawMessage) interface{} {
	var c Case
	if err := json.Unmarshal(raw, &c); err != nil {
		panic(err)
	}
	for i := range c.Files {
		javagen.Normalize(&c.Files[i])
	}
	scratch, err := os.MkdirTemp(os.Getenv("VERIF_SCRATCH"), "ui-")
	if err != nil {
		panic(err)
	}
	defer os.RemoveAll(scratch)
	root := filepath.Join(scratch, "proj")
	rec := Record{Case: c.Case, Texts: []Text{}}
	var paths []string
	for _, f := range c.Files {
		text, facts := javagen.Render(f, c.Layout)
		p := filepath.Join(root, filepath.FromSlash(facts.RelPath))
		os.MkdirAll(filepath.Dir(p), 0o755)
		if c.NoFinal {
			text = strings.TrimRight(text, "\n")
		}
		if c.Crlf {
			text = strings.ReplaceAll(text, "\n", "\r\n")
		}
		os.WriteFile(p, []byte(text), 0o644)
		if !javaproj.Selected(f) {
			continue
		}
		t := Text{Path: facts.RelPath, Imports: []ImportFact{}, Refs: facts.Refs}
		refs := map[string]bool{}
		for _, r := range facts.Refs {
			refs[r] = true
		}
		for i, im := range f.Imports {
			t.Imports = append(t.Imports, ImportFact{Name: im.Name, Wild: im.Name == "*", Static: im.Static, Line: facts.ImportLines[i]})
			if im.Name != "*" && !im.Static && !refs[im.Name] {
				rec.Unused++
			}
		}
		rec.Texts = append(rec.Texts, t)
		paths = append(paths, p)
	}
	switch c.Bystander {
	case "enum":
		os.MkdirAll(filepath.Join(root, "0first"), 0o755)
		os.WriteFile(filepath.Join(root, "0first", "Colour.java"), []byte("package zero;\n\npublic enum Colour {\n    RED, GREEN\n}\n"), 0o644)
	case "anntype":
		os.MkdirAll(filepath.Join(root, "0first"), 0o755)
		os.WriteFile(filepath.Join(root, "0first", "Marker.java"), []byte("package zero;\n\npublic @interface Marker {\n    String value() default \"\";\n}\n"), 0o644)
	case "pkginfo":
		os.MkdirAll(filepath.Join(root, "0first"), 0o755)
		os.WriteFile(filepath.Join(root, "0first", "package-info.java"), []byte("/** docs */\npackage zero;\n"), 0o644)
	}
	rec.NFiles = len(paths)
	// the directory walk decides the processing order; texts are reported in path order as well
	order := make([]int, len(paths))
	for i := range order {
		order[i] = i
	}
	sort.Slice(order, func(a, b int) bool { return paths[order[a]] < paths[order[b]] })
	st := make([]Text, len(order))
	sp := make([]string, len(order))
	for k, i := range order {
		st[k], sp[k] = rec.Texts[i], paths[i]
	}
	rec.Texts, paths = st, sp
	os.WriteFile(filepath.Join(root, ".gitignore"), []byte("gen/\n*Generated.java\n"), 0o644)
	for i := range rec.Texts {
		rec.Texts[i].Before = readLines(paths[i])
	}
	run := func() (bool, string) {
		return lib.Guard(func() {
			app := unused.NewRemoveUnusedImportApp(root)
			res := app.Analysis()
			app.Refactoring(res)
		})
	}
	p1, m1 := run()
	for i := range rec.Texts {
		rec.Texts[i].After1 = readLines(paths[i])
	}
	p2, m2 := run()
	for i := range rec.Texts {
		rec.Texts[i].After2 = readLines(paths[i])
	}
	if p1 || p2 {
		rec.Panic = true
		rec.Note = m1 + m2
	}
	return rec
}

func abnormal(raw json.RawMessage, timeout bool, stderr string) interface{} {
	var c Case
	json.Unmarshal(raw, &c)
	return Record{Case: c.Case, Texts: []Text{}, Panic: true, Note: "process died: " + stderr}
}

// ---------------------------------------------------------------- generator

func gen(seed int64, n int, tier string) []interface{} {
	r := rand.New(rand.NewSource(seed))
	var out []interface{}
	for k := 0; k < n; k++ {
		p := javaproj.Gen(r, true)
		orphan := 0
		for i := range p.Files {
			f := &p.Files[i]
			have := map[string]bool{}
			for _, im := range f.Imports {
				have[im.Name] = true
			}
			add := func(im javagen.Import) {
				if im.Name != "*" && have[im.Name] {
					return
				}
				have[im.Name] = true
				f.Imports = append(f.Imports, im)
			}
			// imports used only as an annotation
			for _, a := range f.Unit.Anns {
				if r.Intn(3) > 0 {
					add(javagen.Import{Pkg: "org.ann", Name: a.Name})
				}
			}
			for j := range f.Unit.Members {
				m := &f.Unit.Members[j]
				for _, a := range m.Anns {
					if r.Intn(2) == 0 {
						add(javagen.Import{Pkg: "org.ann", Name: a.Name})
					}
				}
				if m.Kind == "method" && f.Unit.Kind == "class" {
					if r.Intn(5) == 0 { // used only in a throws clause
						m.Throws = []string{"IOException"}
						add(javagen.Import{Pkg: "java.io", Name: "IOException"})
					}
					if r.Intn(5) == 0 { // used only as a catch type
						e := javagen.Expr{K: "call", RecvKind: "none", Callee: "risky", Args: []javagen.Expr{}}
						st := javagen.Stmt{K: "try", Type: "SQLException", Then: []javagen.Stmt{{K: "expr", E: &e}}, Els: []javagen.Stmt{}}
						m.Body = append([]javagen.Stmt{st}, m.Body...)
						add(javagen.Import{Pkg: "java.sql", Name: "SQLException"})
					}
				}
			}
			if r.Intn(4) == 0 { // used only as the receiver of a static FIELD access
				for j := range f.Unit.Members {
					m := &f.Unit.Members[j]
					if m.Kind == "method" && f.Unit.Kind == "class" {
						e := javagen.Expr{K: "sfield", Recv: "File", Text: "separator", Args: []javagen.Expr{}}
						m.Body = append([]javagen.Stmt{{K: "decl", Type: "String", Name: "sepv", E: &e}}, m.Body...)
						add(javagen.Import{Pkg: "java.io", Name: "File"})
						break
					}
				}
			}
			if r.Intn(5) == 0 && f.Unit.Kind == "class" { // an import used only as the OUTER part of a nested type name
				f.Unit.Members = append([]javagen.Member{{Kind: "field", Name: "entryv", Type: "Map.Entry<String, Integer>", Mods: []string{"private"}}}, f.Unit.Members...)
				add(javagen.Import{Pkg: "java.util", Name: "Map"})
			}
			if r.Intn(5) == 0 && f.Unit.Kind == "class" { // a USED name that merely starts with the simple name of an unused import
				orphan++
				un := fmt.Sprintf("Orphan%d", orphan)
				f.Unit.Members = append([]javagen.Member{{Kind: "field", Name: "holderv", Type: un + "Holder", Mods: []string{"private"}}}, f.Unit.Members...)
				add(javagen.Import{Pkg: "unused.pkg", Name: un + "Holder"})
				add(javagen.Import{Pkg: "unused.pkg", Name: un})
			}
			if r.Intn(4) == 0 { // an all-capitals class name used only as a static receiver
				for j := range f.Unit.Members {
					m := &f.Unit.Members[j]
					if m.Kind == "method" && f.Unit.Kind == "class" {
						nm := []string{"UUID", "URI", "A"}[r.Intn(3)]
						e := javagen.Expr{K: "call", RecvKind: "static", Recv: nm, Callee: "create", Args: []javagen.Expr{}}
						m.Body = append([]javagen.Stmt{{K: "decl", Type: "Object", Name: "capv", E: &e}}, m.Body...)
						add(javagen.Import{Pkg: "java.net", Name: nm})
						break
					}
				}
			}
			if r.Intn(3) == 0 { // static receivers the random bodies use
				add(javagen.Import{Pkg: "java.util", Name: "Collections"})
			}
			if r.Intn(4) == 0 {
				add(javagen.Import{Pkg: "java.lang", Name: "Math"})
			}
			if r.Intn(3) == 0 { // static import, used when the body calls log(..) unqualified
				add(javagen.Import{Pkg: "ext.lib.Helper", Name: "log", Static: true})
			}
			if r.Intn(4) == 0 {
				add(javagen.Import{Pkg: "org.junit.Assert", Name: "assertTrue", Static: true})
			}
			if r.Intn(3) == 0 {
				f.Imports = append(f.Imports, javagen.Import{Pkg: "java.io", Name: "*"})
			}
			if r.Intn(5) == 0 {
				f.Imports = append(f.Imports, javagen.Import{Pkg: "ext.lib.Util", Name: "*", Static: true})
			}
			for u := r.Intn(4); u > 0; u-- { // unused single-type imports
				orphan++
				add(javagen.Import{Pkg: []string{"unused.pkg", "com.acme.blog", "java.util"}[r.Intn(3)], Name: fmt.Sprintf("Orphan%d", orphan)})
				switch r.Intn(6) {
				case 0: // a second unused import of the same simple name from another package
					f.Imports = append(f.Imports, javagen.Import{Pkg: "other.place", Name: fmt.Sprintf("Orphan%d", orphan)})
				case 1: // the same import line twice
					f.Imports = append(f.Imports, f.Imports[len(f.Imports)-1])
				}
			}
			if r.Intn(8) == 0 { // two unused static imports of the same member name
				f.Imports = append(f.Imports, javagen.Import{Pkg: "org.junit.Assert", Name: "assertSame", Static: true},
					javagen.Import{Pkg: "org.testng.Assert", Name: "assertSame", Static: true})
			}
			r.Shuffle(len(f.Imports), func(a, b int) { f.Imports[a], f.Imports[b] = f.Imports[b], f.Imports[a] })
			for j := range f.Imports {
				switch r.Intn(8) {
				case 0:
					f.Imports[j].Before = "\n"
				case 1:
					f.Imports[j].Before = "// imports of " + f.Unit.Name + "\n"
				}
			}
		}
		// a file of the unnamed package: its imports begin on the first line of the file; the first one is unused, the
		// second is used only as the receiver of a method reference (Objects::nonNull), the third as a field type
		if r.Intn(5) == 0 {
			mref := javagen.Expr{K: "mref", Type: "Objects", Callee: "nonNull", Args: []javagen.Expr{}}
			use := javagen.Expr{K: "call", RecvKind: "var", Recv: "items", Callee: "removeIf", Args: []javagen.Expr{mref}}
			np := javagen.File{Id: "nopkg", PathKind: "main", Dirs: "", Pkg: "", Imports: []javagen.Import{
				{Pkg: "unused.pkg", Name: "NeverUsed"}, {Pkg: "java.util", Name: "Objects"}, {Pkg: "java.util", Name: "List"},
				// a type whose name begins with an upper-case letter outside Latin-1, used only as a static receiver
				{Pkg: "vn.app", Name: "ỨngDụng"}}}
			viet := javagen.Expr{K: "call", RecvKind: "static", Recv: "ỨngDụng", Callee: "run", Args: []javagen.Expr{}}
			np.Unit = javagen.Unit{Kind: "class", Name: "NoPackage", Members: []javagen.Member{
				{Kind: "field", Name: "items", Type: "List", Mods: []string{"private"}},
				{Kind: "method", Name: "clean", Type: "void", Mods: []string{"public"}, Body: []javagen.Stmt{{K: "expr", E: &use}, {K: "expr", E: &viet}}}}}
			p.Files = append(p.Files, np)
		}
		out = append(out, Case{Case: fmt.Sprintf("rand-%d-%d", seed, k), Files: p.Files, Layout: p.Layout,
			Bystander: []string{"", "", "", "enum", "anntype", "pkginfo"}[r.Intn(6)], Crlf: r.Intn(5) == 0, NoFinal: r.Intn(7) == 0})
	}
	return out
}

func main() {
	lib.Main(lib.Handler{One: one, Gen: gen, Abnormal: abnormal})
}
