// Harness for the bad-smell part of C07: the bad-smell entry of a source file depends only on that file -
// not on the other files of the directory, their order, or how often the pass already ran in the process.
package main

import (
	"encoding/json"
	"fmt"
	"math/rand"
	"os"
	"path/filepath"
	"strings"

	"github.com/modernizing/coca/pkg/application/bs"

	"verifharness/javagen"
	"verifharness/javaproj"
	"verifharness/lib"
)

type Case struct {
	Case   string         `json:"case"`
	Files  []javagen.File `json:"files"`
	Layout int            `json:"layout"`
	Runs   [][]int        `json:"runs"`  // 1-based indices of the files in the directory of that run, in walk order
	Fresh  []bool         `json:"fresh"` // run executed in a fresh OS process
}

type Slice struct {
	File  int    `json:"file"`  // 1-based index of the abstract file
	Entry string `json:"entry"` // canonical JSON of the file's bad-smell node (path removed) + the smells reported for it
}

type RunObs struct {
	Panic  bool    `json:"panic"`
	Slices []Slice `json:"slices"`
	Note   string  `json:"note"`
}

type Record struct {
	Case     string   `json:"case"`
	NFiles   int      `json:"nfiles"`
	Runs     [][]int  `json:"runs"`
	Fresh    []bool   `json:"fresh"`
	Observed []RunObs `json:"observed"`
}

func runOnce(c Case, ri int, scratch string) RunObs {
	o := RunObs{Slices: []Slice{}}
	dir := filepath.Join(scratch, fmt.Sprintf("run%d", ri))
	byBase := map[string]int{}
	for i, k := range c.Runs[ri] {
		f := c.Files[k-1]
		text, _ := javagen.Render(f, c.Layout)
		d := filepath.Join(dir, fmt.Sprintf("o%02d", i))
		os.MkdirAll(d, 0o755)
		os.WriteFile(filepath.Join(d, f.Unit.Name+".java"), []byte(text), 0o644)
		byBase[f.Unit.Name+".java"] = k
	}
	p, msg := lib.Guard(func() {
		app := bs.NewBadSmellApp()
		nodes := app.AnalysisPath(dir)
		smells := app.IdentifyBadSmell(nodes, nil)
		for _, n := range *nodes {
			k := byBase[filepath.Base(n.FilePath)]
			path := n.FilePath
			n.FilePath = ""
			entry, _ := json.Marshal(n)
			var mine []string
			for _, s := range smells {
				if s.File == path {
					s.File = ""
					b, _ := json.Marshal(s)
					mine = append(mine, string(b))
				}
			}
			o.Slices = append(o.Slices, Slice{File: k, Entry: string(entry) + "|" + strings.Join(mine, ";")})
		}
	})
	if p {
		return RunObs{Panic: true, Slices: []Slice{}, Note: msg}
	}
	return o
}

func one(raw json.RawMessage) interface{} {
	var c Case
	if err := json.Unmarshal(raw, &c); err != nil {
		panic(err)
	}
	for i := range c.Files {
		javagen.Normalize(&c.Files[i])
	}
	if c.Fresh == nil {
		c.Fresh = []bool{}
	}
	scratch, err := os.MkdirTemp(os.Getenv("VERIF_SCRATCH"), "bsp-")
	if err != nil {
		panic(err)
	}
	defer os.RemoveAll(scratch)
	rec := Record{Case: c.Case, NFiles: len(c.Files), Runs: c.Runs, Fresh: c.Fresh, Observed: []RunObs{}}
	for ri := range c.Runs {
		if ri < len(c.Fresh) && c.Fresh[ri] {
			sub := Case{Case: c.Case, Files: c.Files, Layout: c.Layout, Runs: [][]int{c.Runs[ri]}}
			raw, err := lib.Fresh(sub)
			var sr Record
			if err == nil {
				err = json.Unmarshal(raw, &sr)
			}
			if err != nil || len(sr.Observed) != 1 {
				rec.Observed = append(rec.Observed, RunObs{Panic: true, Slices: []Slice{}, Note: fmt.Sprint("fresh run failed: ", err)})
			} else {
				rec.Observed = append(rec.Observed, sr.Observed[0])
			}
			continue
		}
		rec.Observed = append(rec.Observed, runOnce(c, ri, scratch))
	}
	return rec
}

func abnormal(raw json.RawMessage, timeout bool, stderr string) interface{} {
	var c Case
	json.Unmarshal(raw, &c)
	if c.Fresh == nil {
		c.Fresh = []bool{}
	}
	rec := Record{Case: c.Case, NFiles: len(c.Files), Runs: c.Runs, Fresh: c.Fresh, Observed: []RunObs{}}
	for range c.Runs {
		rec.Observed = append(rec.Observed, RunObs{Panic: true, Slices: []Slice{}, Note: "process died: " + stderr})
	}
	return rec
}

func gen(seed int64, n int, tier string) []interface{} {
	r := rand.New(rand.NewSource(seed))
	var out []interface{}
	for k := 0; k < n; k++ {
		p := javaproj.Gen(r, true)
		var files []javagen.File
		for _, f := range p.Files {
			if javaproj.Selected(f) {
				f.PathKind, f.Dirs = "main", ""
				// names reused across files with different types; @Override on some methods (the per-class counters)
				if f.Unit.Kind == "class" && r.Intn(2) == 0 {
					for j := range f.Unit.Members {
						if f.Unit.Members[j].Kind == "method" && r.Intn(3) == 0 {
							f.Unit.Members[j].Anns = append([]javagen.Ann{{Name: "Override", Form: "marker", Args: []javagen.KV{}}}, f.Unit.Members[j].Anns...)
						}
					}
				}
				files = append(files, f)
			}
		}
		// an interface whose default method has a parameter named like a field of a class of another file, of a different
		// type, and calls a method on it: whatever table the class file left behind must not type that receiver
		if r.Intn(3) == 0 {
			for i := range files {
				f := &files[i]
				if f.Unit.Kind != "class" {
					continue
				}
				fname := ""
				for _, m := range f.Unit.Members {
					if m.Kind == "field" {
						fname = m.Name
						break
					}
				}
				if fname == "" {
					fname = "carrier"
					f.Unit.Members = append([]javagen.Member{{Kind: "field", Name: fname, Type: "Truck", Params: []javagen.Param{}, Mods: []string{"private"},
						Anns: []javagen.Ann{}, Body: []javagen.Stmt{}, Throws: []string{}}}, f.Unit.Members...)
				}
				e := javagen.Expr{K: "call", RecvKind: "var", Recv: fname, Callee: "load", Args: []javagen.Expr{}}
				dm := javagen.Member{Kind: "method", Name: "ship", Type: "void", Params: []javagen.Param{{Type: "Carrier", Name: fname}}, Mods: []string{"default"},
					Anns: []javagen.Ann{}, Body: []javagen.Stmt{{K: "expr", E: &e}}, Throws: []string{}}
				placed := false
				for j := range files {
					if files[j].Unit.Kind == "interface" {
						files[j].Unit.Members = append(files[j].Unit.Members, dm)
						placed = true
						break
					}
				}
				if !placed {
					files = append(files, javagen.File{Id: "shipping", PathKind: "main", Pkg: "zz.shipping", Imports: []javagen.Import{{Pkg: "com.acme.fleet", Name: "Carrier"}},
						Unit: javagen.Unit{Kind: "interface", Name: "Shipping", Impls: []string{}, Anns: []javagen.Ann{}, Members: []javagen.Member{dm}}})
				}
				break
			}
		}
		all := []int{}
		for i := range files {
			all = append(all, i+1)
		}
		c := Case{Case: fmt.Sprintf("rand-%d-%d", seed, k), Files: files, Layout: p.Layout}
		rev := append([]int{}, all...)
		for i, j := 0, len(rev)-1; i < j; i, j = i+1, j-1 {
			rev[i], rev[j] = rev[j], rev[i]
		}
		perm := append([]int{}, all...)
		r.Shuffle(len(perm), func(a, b int) { perm[a], perm[b] = perm[b], perm[a] })
		sub := perm[:1+r.Intn(len(perm))]
		c.Runs = [][]int{all, rev, all, sub, perm}
		c.Fresh = []bool{false, true, false, true, false}
		out = append(out, c)
	}
	return out
}

func main() {
	lib.Main(lib.Handler{One: one, Gen: gen, Abnormal: abnormal})
}
