// Harness for the visual suite (extension X03): the D3 data of `coca arch -v` (visual.FromDeps).
// An abstract case is a list of classes with their recorded calls. It is turned into the
// []core_domain.CodeDataStruct handed to the real visual.FromDeps in one of three ways:
//
//	via "model"  the structs are built directly (and passed through JSON as the commands do)
//	via "java"   a Java project is rendered from the case and analysed by the real identifier + full passes
//	via "cli"    deps.json is written and the coca binary runs `coca arch -v`; coca_reporter/visual.json is read back
//
// The record carries `model` = the projection (package, class, calls) of exactly the structs that were
// handed to FromDeps, and `observed` = the projected nodes and links. No expected values here:
// TLC (X03VisualRef!Diff) judges.
package main

import (
	"encoding/json"
	"fmt"
	"os"
	"os/exec"
	"path/filepath"
	"strings"

	"github.com/modernizing/coca/pkg/application/analysis/javaapp"
	"github.com/modernizing/coca/pkg/application/visual"
	"github.com/modernizing/coca/pkg/domain/core_domain"

	"verifharness/lib"
)

type Ref struct {
	Pkg  string `json:"pkg"`
	Name string `json:"name"`
}

type Dep struct {
	Pkg   string `json:"pkg"`
	Name  string `json:"name"`
	Calls []Ref  `json:"calls"`
}

type Input struct {
	Via  string `json:"via"` // "model" | "java" | "cli"
	Deps []Dep  `json:"deps"`
}

type Case struct {
	Case  string `json:"case"`
	Input Input  `json:"input"`
}

type Node struct {
	ID    string `json:"id"`
	Group int    `json:"group"`
}

type Link struct {
	Source string `json:"source"`
	Target string `json:"target"`
	Value  int    `json:"value"`
}

type Obs struct {
	Panic      bool   `json:"panic"`
	Wellformed bool   `json:"wellformed"`
	Nodes      []Node `json:"nodes"`
	Links      []Link `json:"links"`
	Note       string `json:"note,omitempty"`
}

type Record struct {
	Case     string            `json:"case"`
	Input    Input             `json:"input"`
	Model    []Dep             `json:"model"`
	Rendered map[string]string `json:"rendered,omitempty"`
	Observed Obs               `json:"observed"`
}

func normalize(in *Input) {
	if in.Via == "" {
		in.Via = "model"
	}
	if in.Deps == nil {
		in.Deps = []Dep{}
	}
	for i := range in.Deps {
		if in.Deps[i].Calls == nil {
			in.Deps[i].Calls = []Ref{}
		}
	}
}

func short(s string, n int) string {
	if len(s) > n {
		return s[len(s)-n:]
	}
	return s
}

// ---------------------------------------------------------------- render

func buildModel(in Input) []core_domain.CodeDataStruct {
	out := []core_domain.CodeDataStruct{}
	for _, d := range in.Deps {
		ds := core_domain.CodeDataStruct{Package: d.Pkg, NodeName: d.Name, Type: "Class", FilePath: strings.ReplaceAll(d.Pkg, ".", "/") + "/" + d.Name + ".java"}
		for _, c := range d.Calls {
			ds.FunctionCalls = append(ds.FunctionCalls, core_domain.CodeCall{Package: c.Pkg, NodeName: c.Name, FunctionName: "run"})
		}
		out = append(out, ds)
	}
	return out
}

// roundTrip passes a model through JSON exactly as the commands do (analysis writes deps.json, arch reads it).
func roundTrip(v []core_domain.CodeDataStruct) []core_domain.CodeDataStruct {
	b, _ := json.MarshalIndent(v, "", "\t")
	var out []core_domain.CodeDataStruct
	_ = json.Unmarshal(b, &out)
	return out
}

func lower(s string) string {
	if s == "" {
		return s
	}
	return strings.ToLower(s[:1]) + s[1:]
}

// renderJava: one file per class of the case. Every call with a class name becomes one field declaration
// of that type (the full pass records one class-level call per field whose type it can resolve; the type is
// imported when it lives in another package, written qualified when its simple name is already taken) and one
// statement of the method `work`; a call without class name is a call on an undeclared receiver.
func renderJava(root string, in Input) (map[string]string, error) {
	texts := map[string]string{}
	for _, d := range in.Deps {
		var b strings.Builder
		if d.Pkg != "" {
			fmt.Fprintf(&b, "package %s;\n\n", d.Pkg)
		}
		simple := map[string]string{d.Name: d.Pkg} // simple name -> package it denotes in this file
		imports := []string{}
		typeOf := func(c Ref) string {
			if p, ok := simple[c.Name]; ok {
				if p == c.Pkg {
					return c.Name
				}
				if c.Pkg == "" {
					return c.Name
				}
				return c.Pkg + "." + c.Name
			}
			simple[c.Name] = c.Pkg
			if c.Pkg != "" && c.Pkg != d.Pkg {
				imports = append(imports, "import "+c.Pkg+"."+c.Name+";\n")
			}
			return c.Name
		}
		var fields, stmts []string
		for k, c := range d.Calls {
			if c.Name == "" {
				stmts = append(stmts, "        somewhere.run();\n")
				continue
			}
			fn := fmt.Sprintf("%s%d", lower(c.Name), k)
			fields = append(fields, fmt.Sprintf("    private %s %s;\n", typeOf(c), fn))
			stmts = append(stmts, fmt.Sprintf("        %s.run();\n", fn))
		}
		for _, im := range imports {
			b.WriteString(im)
		}
		if len(imports) > 0 {
			b.WriteString("\n")
		}
		fmt.Fprintf(&b, "public class %s {\n", d.Name)
		b.WriteString(strings.Join(fields, ""))
		b.WriteString("\n    public void run() {\n    }\n\n    public void work() {\n")
		b.WriteString(strings.Join(stmts, ""))
		b.WriteString("    }\n}\n")
		rel := filepath.Join(filepath.FromSlash(strings.ReplaceAll(d.Pkg, ".", "/")), d.Name+".java")
		p := filepath.Join(root, rel)
		if err := os.MkdirAll(filepath.Dir(p), 0o755); err != nil {
			return nil, err
		}
		if err := os.WriteFile(p, []byte(b.String()), 0o644); err != nil {
			return nil, err
		}
		texts[filepath.ToSlash(rel)] = b.String()
	}
	return texts, nil
}

// ---------------------------------------------------------------- project

func projectModel(deps []core_domain.CodeDataStruct) []Dep {
	out := []Dep{}
	for _, d := range deps {
		pd := Dep{Pkg: d.Package, Name: d.NodeName, Calls: []Ref{}}
		for _, c := range d.FunctionCalls {
			pd.Calls = append(pd.Calls, Ref{Pkg: c.Package, Name: c.NodeName})
		}
		out = append(out, pd)
	}
	return out
}

func projectData(d visual.DData, o *Obs) {
	for _, n := range d.Nodes {
		o.Nodes = append(o.Nodes, Node{ID: n.ID, Group: n.Group})
	}
	for _, l := range d.Links {
		o.Links = append(o.Links, Link{Source: l.Source, Target: l.Target, Value: l.Value})
	}
	o.Wellformed = true
}

// ---------------------------------------------------------------- drive

func viaCLI(scratch string, deps []core_domain.CodeDataStruct, o *Obs) {
	bin := os.Getenv("VERIF_COCA")
	if bin == "" {
		fmt.Fprintln(os.Stderr, "harness: VERIF_COCA not set")
		os.Exit(2)
	}
	rep := filepath.Join(scratch, "coca_reporter")
	if err := os.MkdirAll(rep, 0o755); err != nil {
		panic("harness: " + err.Error())
	}
	b, _ := json.MarshalIndent(deps, "", "\t")
	for _, f := range []string{"deps.json", "identify.json"} {
		if err := os.WriteFile(filepath.Join(rep, f), b, 0o644); err != nil {
			panic("harness: " + err.Error())
		}
	}
	cmd := exec.Command(bin, "arch", "-v")
	cmd.Dir = scratch
	cmd.Env = append(os.Environ(), "TMPDIR="+scratch, "HOME="+scratch)
	out, err := cmd.CombinedOutput()
	if err != nil {
		o.Panic = true
		o.Note = short(string(out), 300)
		return
	}
	raw, err := os.ReadFile(filepath.Join(rep, "visual.json"))
	if err != nil {
		o.Note = "no visual.json: " + err.Error()
		return
	}
	// strict reader: exactly the two lists of the D3 format, unknown fields rejected
	var d struct {
		Nodes []struct {
			ID    string `json:"id"`
			Group int    `json:"group"`
		} `json:"nodes"`
		Links []struct {
			Source string `json:"source"`
			Target string `json:"target"`
			Value  int    `json:"value"`
		} `json:"links"`
	}
	dec := json.NewDecoder(strings.NewReader(string(raw)))
	dec.DisallowUnknownFields()
	if err := dec.Decode(&d); err != nil {
		o.Note = "visual.json: " + err.Error()
		return
	}
	for _, n := range d.Nodes {
		o.Nodes = append(o.Nodes, Node{ID: n.ID, Group: n.Group})
	}
	for _, l := range d.Links {
		o.Links = append(o.Links, Link{Source: l.Source, Target: l.Target, Value: l.Value})
	}
	o.Wellformed = true
}

func one(raw json.RawMessage) interface{} {
	var c Case
	if err := json.Unmarshal(raw, &c); err != nil {
		panic(err)
	}
	normalize(&c.Input)
	rec := Record{Case: c.Case, Input: c.Input, Model: []Dep{}, Observed: Obs{Nodes: []Node{}, Links: []Link{}}}
	scratch, err := os.MkdirTemp(os.Getenv("VERIF_SCRATCH"), "visual-")
	if err != nil {
		fmt.Fprintln(os.Stderr, "harness:", err)
		os.Exit(2)
	}
	defer os.RemoveAll(scratch)
	o := &rec.Observed
	var deps []core_domain.CodeDataStruct
	if c.Input.Via == "java" {
		src := filepath.Join(scratch, "src")
		texts, err := renderJava(src, c.Input)
		if err != nil {
			fmt.Fprintln(os.Stderr, "harness: render:", err)
			os.RemoveAll(scratch)
			os.Exit(2)
		}
		rec.Rendered = texts
		p, msg := lib.Guard(func() {
			identApp := javaapp.NewJavaIdentifierApp()
			idents := identApp.AnalysisPath(src)
			fullApp := javaapp.NewJavaFullApp()
			deps = roundTrip(fullApp.AnalysisPath(src, idents))
		})
		if p {
			// the pipeline (not the code under test here) failed: nothing was handed to FromDeps
			o.Panic = true
			o.Note = "analysis: " + short(msg, 300)
			return rec
		}
	} else {
		deps = roundTrip(buildModel(c.Input))
	}
	rec.Model = projectModel(deps)
	if c.Input.Via == "cli" {
		viaCLI(scratch, deps, o)
	} else {
		p, msg := lib.Guard(func() { projectData(visual.FromDeps(deps), o) })
		if p {
			o.Panic = true
			o.Wellformed = false
			o.Nodes, o.Links = []Node{}, []Link{}
			o.Note = short(msg, 300)
		}
	}
	return rec
}

func abnormal(raw json.RawMessage, timeout bool, stderr string) interface{} {
	var c Case
	json.Unmarshal(raw, &c)
	normalize(&c.Input)
	note := "process died: "
	if timeout {
		note = "timeout: "
	}
	return Record{Case: c.Case, Input: c.Input, Model: []Dep{},
		Observed: Obs{Panic: true, Nodes: []Node{}, Links: []Link{}, Note: note + short(stderr, 300)}}
}

func main() {
	lib.Main(lib.Handler{One: one, Gen: gen, Abnormal: abnormal})
}
