package main

import (
	"fmt"
	"math/rand"
)

// gen: seeded random abstract cases, wider than TLC's constants: up to 8 classes in up to 4 packages, up to
// 12 recorded calls per class, repeated pairs, self calls, calls to classes outside the model, calls without
// class name, names containing the separator of the code's counter key, classes listed twice.
func gen(seed int64, n int, tier string) []interface{} {
	r := rand.New(rand.NewSource(seed*7919 + 17))
	pkgsJava := []string{"com.acme.shop", "com.acme.pay", "org.demo", "org.demo.coca.util"}
	namesJava := []string{"Order", "Cart", "Invoice", "Ledger", "Clock", "Mailer", "Order"}
	pkgsModel := []string{"", "x", "x.y", "x.y.coca.x", "com.acme", "org.coca.demo"}
	namesModel := []string{"y", "Z", "Order", "Cart", "coca", "Ünï"}
	out := []interface{}{}
	for i := 0; i < n; i++ {
		via := "model"
		switch k := r.Intn(20); {
		case k < 6:
			via = "java"
		case k < 7:
			via = "cli"
		}
		pkgs, names := pkgsModel, namesModel
		if via == "java" {
			pkgs, names = pkgsJava, namesJava
		}
		nd := 1 + r.Intn(8)
		if r.Intn(12) == 0 {
			nd = 0
		}
		type cls struct{ p, n string }
		var pool []cls
		seen := map[string]bool{}
		for len(pool) < nd {
			c := cls{pkgs[r.Intn(len(pkgs))], names[r.Intn(len(names))]}
			if seen[c.p+"."+c.n] && (via == "java" || r.Intn(4) != 0) {
				if len(seen) >= len(pkgs)*len(names)-4 {
					break
				}
				continue
			}
			seen[c.p+"."+c.n] = true
			pool = append(pool, c)
		}
		// callees outside the model
		outside := []cls{{pkgs[r.Intn(len(pkgs))], "Outside"}, {"java.util", "List"}}
		deps := []Dep{}
		for _, c := range pool {
			d := Dep{Pkg: c.p, Name: c.n, Calls: []Ref{}}
			nc := r.Intn(5)
			if r.Intn(4) == 0 {
				nc = r.Intn(13)
			}
			var favourite *cls
			for k := 0; k < nc; k++ {
				var t cls
				switch x := r.Intn(10); {
				case x < 5 && len(pool) > 0:
					t = pool[r.Intn(len(pool))]
				case x < 7 && favourite != nil:
					t = *favourite
				case x < 8:
					t = outside[r.Intn(len(outside))]
				case x < 9:
					t = cls{"", ""} // a call without class (and without package)
					if via != "java" && r.Intn(2) == 0 {
						t.p = pkgs[r.Intn(len(pkgs))]
					}
				default:
					t = c // self call
				}
				if favourite == nil && t.n != "" {
					tt := t
					favourite = &tt
				}
				d.Calls = append(d.Calls, Ref{Pkg: t.p, Name: t.n})
			}
			deps = append(deps, d)
		}
		out = append(out, Case{Case: fmt.Sprintf("rand-%d-%d", seed, i), Input: Input{Via: via, Deps: deps}})
	}
	return out
}
