package main

import (
	"fmt"
	"math/rand"

	"verifharness/javagen"
	"verifharness/javaproj"
)

// twins: files of ONE package that use the same simple type name, each resolved by its own import (or by the
// package itself), with the same variable names; analysed in both orders, alone and repeatedly in one process.
func twins(r *rand.Rand, id string) Case {
	simple := []string{"Formatter", "Repository", "Helper"}[r.Intn(3)]
	srcs := []string{"billing", "legacy", "ext.lib"}
	n := 2 + r.Intn(2)
	c := Case{Case: id, Layout: r.Intn(10000), Runs: [][]int{}}
	for i := 0; i < n; i++ {
		f := javagen.File{Id: fmt.Sprintf("f%d", i+1), PathKind: "main", Dirs: "app", Pkg: "app"}
		f.Unit = javagen.Unit{Kind: "class", Name: fmt.Sprintf("Twin%d", i+1)}
		f.Imports = []javagen.Import{{Pkg: srcs[(i+r.Intn(2))%len(srcs)], Name: simple}}
		v := []string{"x", "svc"}[r.Intn(2)]
		call := javagen.Expr{K: "call", RecvKind: "var", Recv: v, Callee: "format", Args: []javagen.Expr{}}
		m := javagen.Member{Kind: "method", Name: "run", Type: "void", Mods: []string{"public"}}
		switch r.Intn(3) {
		case 0:
			m.Params = []javagen.Param{{Type: simple, Name: v}}
		case 1:
			f.Unit.Members = append(f.Unit.Members, javagen.Member{Kind: "field", Name: v, Type: simple, Mods: []string{"private"}})
		default:
			m.Body = append(m.Body, javagen.Stmt{K: "decl", Type: simple, Name: v})
		}
		m.Body = append(m.Body, javagen.Stmt{K: "expr", E: &call})
		f.Unit.Members = append(f.Unit.Members, m)
		c.Files = append(c.Files, f)
	}
	all := []int{}
	for i := range c.Files {
		all = append(all, i+1)
	}
	rev := []int{}
	for i := len(all) - 1; i >= 0; i-- {
		rev = append(rev, all[i])
	}
	if r.Intn(3) > 0 {
		// the reversed order and the single file are analysed in fresh processes, the rest in this one
		c.Runs = [][]int{all, rev, {all[len(all)-1]}, all}
		c.Fresh = []bool{false, true, true, false}
		c.Prelude = r.Intn(2) == 0
	}
	return c
}

func gen(seed int64, n int, tier string) []interface{} {
	r := rand.New(rand.NewSource(seed))
	var out []interface{}
	for k := 0; k < n; k++ {
		if k%6 == 5 {
			out = append(out, twins(r, fmt.Sprintf("twins-%d-%d", seed, k)))
			continue
		}
		p := javaproj.Gen(r, k%2 == 0)
		// shadow: a class that extends a type imported from another package while its own package declares a type of the
		// same simple name (the single-type import wins in Java)
		if r.Intn(5) == 0 {
			for _, f := range p.Files {
				if !selected(f) || f.Unit.Ext == "" || f.Unit.Extq == f.Pkg+"."+f.Unit.Ext {
					continue
				}
				clash := false
				for _, g := range p.Files {
					if g.Pkg == f.Pkg && g.Unit.Name == f.Unit.Ext {
						clash = true
					}
				}
				if !clash {
					sh := javagen.File{Id: "shadow", PathKind: f.PathKind, Dirs: f.Dirs, Pkg: f.Pkg}
					sh.Unit = javagen.Unit{Kind: "class", Name: f.Unit.Ext}
					p.Files = append(p.Files, sh)
				}
				break
			}
		}
		// fields with an initialiser that creates an object or calls a static method, written AFTER the methods: those
		// invocations belong to no method
		if r.Intn(4) == 0 {
			for i := range p.Files {
				f := &p.Files[i]
				if !selected(*f) || f.Unit.Kind != "class" || len(f.Unit.Members) == 0 {
					continue
				}
				nw := javagen.Expr{K: "new", Type: "Object", Args: []javagen.Expr{}}
				st := javagen.Expr{K: "call", RecvKind: "static", Recv: "Collections", Callee: "emptyList", Args: []javagen.Expr{}}
				f.Unit.Members = append(f.Unit.Members,
					javagen.Member{Kind: "field", Name: "lateObj", Type: "Object", Mods: []string{"private"}, Init: &nw},
					javagen.Member{Kind: "field", Name: "lateList", Type: "Object", Mods: []string{"private"}, Init: &st})
				break
			}
		}
		// a superclass of the same package (no import needed) next to an import whose simple name merely ENDS with the
		// superclass name (extends Repo + import ext.lib.AbstractRepo): the import is not the superclass
		if r.Intn(5) == 0 {
		findSuper:
			for i := range p.Files {
				f := &p.Files[i]
				if !selected(*f) || f.Unit.Kind != "class" || f.Unit.Ext != "" {
					continue
				}
				for _, b := range p.Files {
					if selected(b) && b.Unit.Kind == "class" && b.Pkg == f.Pkg && b.Unit.Name != f.Unit.Name {
						f.Unit.Ext = b.Unit.Name
						f.Unit.Extq = f.Pkg + "." + b.Unit.Name
						f.Imports = append(f.Imports, javagen.Import{Pkg: "ext.lib", Name: "Abstract" + b.Unit.Name})
						break findSuper
					}
				}
			}
		}
		// a project class named like a library type: an EARLIER file (in walk order) imports the library's Helper and uses
		// it; a LATER file of another package uses its own package's Helper without any import. What one file imports says
		// nothing about the next file.
		if r.Intn(5) == 0 {
			call := func(recv string) javagen.Stmt {
				e := javagen.Expr{K: "call", RecvKind: "var", Recv: recv, Callee: "run", Args: []javagen.Expr{}}
				return javagen.Stmt{K: "expr", E: &e}
			}
			first := javagen.File{Id: "lib-user", PathKind: "main", Dirs: "aaa/first", Pkg: "aaa.first",
				Imports: []javagen.Import{{Pkg: "ext.lib", Name: "Helper"}}}
			first.Unit = javagen.Unit{Kind: "class", Name: "FirstUser", Members: []javagen.Member{
				{Kind: "field", Name: "h", Type: "Helper", Mods: []string{"private"}},
				{Kind: "method", Name: "go1", Type: "void", Mods: []string{"public"}, Body: []javagen.Stmt{call("h")}}}}
			own := javagen.File{Id: "own-helper", PathKind: "main", Dirs: "zzz/last", Pkg: "zzz.last"}
			own.Unit = javagen.Unit{Kind: "class", Name: "Helper", Members: []javagen.Member{
				{Kind: "method", Name: "run", Type: "void", Mods: []string{"public"}}}}
			last := javagen.File{Id: "own-user", PathKind: "main", Dirs: "zzz/last", Pkg: "zzz.last"}
			mk := javagen.Expr{K: "new", Type: "Helper", Args: []javagen.Expr{}}
			last.Unit = javagen.Unit{Kind: "class", Name: "LastUser", Members: []javagen.Member{
				{Kind: "field", Name: "mine", Type: "Helper", Mods: []string{"private"}},
				{Kind: "method", Name: "go2", Type: "void", Mods: []string{"public"}, Params: []javagen.Param{{Type: "Helper", Name: "given"}},
					Body: []javagen.Stmt{call("mine"), call("given"), {K: "decl", Type: "Helper", Name: "made", E: &mk}, call("made")}}}}
			p.Files = append(p.Files, first, own, last)
		}
		// a second module: another compilation unit of the tree declares the same package and type name (a copied or
		// generated module) with other members; both are declared types of the tree
		if k%4 != 3 && r.Intn(6) == 0 {
			for _, f := range p.Files {
				if !selected(f) || f.Unit.Kind != "class" {
					continue
				}
				cp := javagen.File{Id: "copy", PathKind: f.PathKind, Dirs: "zz-copy-module", Pkg: f.Pkg}
				if f.PathKind == "main" {
					cp.Dirs = "zz-copy-module/" + f.Dirs
				}
				cp.Unit = javagen.Unit{Kind: "class", Name: f.Unit.Name}
				cp.Unit.Members = []javagen.Member{{Kind: "method", Name: "onlyInTheCopy", Type: "void", Mods: []string{"public"}}}
				p.Files = append(p.Files, cp)
				break
			}
		}
		c := Case{Case: fmt.Sprintf("rand-%d-%d", seed, k), Files: p.Files, Layout: p.Layout, Runs: [][]int{}}
		if k%7 == 1 || k%5 == 2 {
			c.Via = "cli"
		}
		if k%4 == 3 {
			// a history inside one process: permutations / subsets / repetitions of the selected files
			var sel []int
			for i, f := range c.Files {
				if selected(f) {
					sel = append(sel, i+1)
				}
			}
			nr := 2 + r.Intn(2)
			for j := 0; j < nr; j++ {
				p := append([]int{}, sel...)
				r.Shuffle(len(p), func(a, b int) { p[a], p[b] = p[b], p[a] })
				if r.Intn(3) == 0 && len(p) > 1 {
					p = p[:1+r.Intn(len(p)-1)]
				}
				if j > 0 && r.Intn(4) == 0 {
					p = append([]int{}, c.Runs[j-1]...)
				}
				c.Runs = append(c.Runs, p)
				c.Fresh = append(c.Fresh, j > 0 && r.Intn(2) == 0)
			}
		}
		c.LongLine = r.Intn(12) == 0
		c.Prelude = len(c.Runs) > 0 && r.Intn(2) == 0
		if len(c.Runs) > 0 && r.Intn(3) == 0 {
			// one of the processed files is not part of the identifier set (files beyond a fixed identifier set)
			var sel []int
			for i, f := range c.Files {
				if selected(f) {
					sel = append(sel, i+1)
				}
			}
			if len(sel) >= 2 {
				c.Outsider = sel[r.Intn(len(sel))]
			}
		}
		out = append(out, c)
	}
	return out
}
