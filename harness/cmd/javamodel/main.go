// Harness for the Java code model: identifier pass + full pass (C01 declarations, C02 call sites,
// C07 independence of a file's entries from other files / order / repetition).
package main

import (
	"encoding/json"
	"fmt"
	"os"
	"os/exec"
	"path/filepath"
	"sort"
	"strings"

	"github.com/modernizing/coca/pkg/application/analysis/javaapp"
	"github.com/modernizing/coca/pkg/domain/core_domain"

	"verifharness/javagen"
	"verifharness/lib"
)

type Case struct {
	Case   string         `json:"case"`
	Files  []javagen.File `json:"files"`
	Layout int            `json:"layout"`
	// Runs: each run is a list of 1-based file indices analysed, in that order, through AnalysisFiles.
	// An empty list of runs means: one run of AnalysisPath over the whole rendered directory.
	Runs [][]int `json:"runs"`
	// Fresh[i]: run i is executed in a fresh OS process (its result is compared with the other runs all the same)
	Fresh []bool `json:"fresh"`
	// Via "cli": (no runs) the tree is analysed by `coca analysis -p <dir>` as a separate process and identify.json /
	// deps.json are read back, instead of calling the two apps in-process
	Via string `json:"via"`
	// LongLine: the first line of every file that ends in ';' (package / import) carries a trailing comment of 70 000
	// characters ("any layout/comments"): no line or column of any declaration moves
	LongLine bool `json:"longLine"`
	// Prelude (histories): before the recorded runs the same process analyses ANOTHER project - the same files, except
	// that a class in the middle of the walk order lives in another package (as many classes, the same first and last
	// one). The recorded runs must not notice: their entries depend on their own files and identifier set only.
	Prelude bool `json:"prelude"`
	// Outsider (histories): the 1-based index of a selected file that is PROCESSED by the runs that list it but is not part
	// of the identifier set handed to the full pass (a superset of files with the identifier set held fixed); 0 = none
	Outsider int `json:"outsider"`
}

type KVObs struct {
	Key   string `json:"key"`
	Value string `json:"value"`
}
type AnnObs struct {
	Name string  `json:"name"`
	Kvs  []KVObs `json:"kvs"`
}
type ParamObs struct {
	Type string `json:"type"`
	Name string `json:"name"`
}
type CallObs struct {
	Callee string `json:"callee"`
	Node   string `json:"node"`
	Pkg    string `json:"pkg"`
	Kind   string `json:"kind"`
	Line   int    `json:"line"`
	C0     int    `json:"c0"`
	C1     int    `json:"c1"`
}
type FnObs struct {
	Name   string     `json:"name"`
	Ret    string     `json:"ret"`
	Ctor   bool       `json:"ctor"`
	Params []ParamObs `json:"params"`
	Line   int        `json:"line"`
	Calls  []CallObs  `json:"calls"`
	// further attributes of the entry: not part of what C01/C02 state, but part of "the model entries produced for a file"
	// that C07 compares between runs (same file, other neighbours / order / repetition)
	Override bool     `json:"override"`
	Null     bool     `json:"null"`
	Mods     []string `json:"mods"`
	Anns     []AnnObs `json:"anns"`
}
type TypeObs struct {
	Pkg   string   `json:"pkg"`
	Name  string   `json:"name"`
	Kind  string   `json:"kind"`
	Ext   string   `json:"ext"`
	Impls []string `json:"impls"`
	Anns  []AnnObs `json:"anns"`
	File  string   `json:"file"`
	Fns   []FnObs  `json:"fns"`
}
type PassObs struct {
	Panic bool      `json:"panic"`
	Types []TypeObs `json:"types"`
	Note  string    `json:"note,omitempty"`
}
type RunObs struct {
	Ident PassObs `json:"ident"`
	Full  PassObs `json:"full"`
}
type Record struct {
	Case     string          `json:"case"`
	Files    []javagen.File  `json:"files"`
	Layout   int             `json:"layout"`
	Runs     [][]int         `json:"runs"`
	Fresh    []bool          `json:"fresh"`
	Facts    []javagen.Facts `json:"facts"`
	Outsider int             `json:"outsider"`
	Observed []RunObs        `json:"observed"`
}

func project(nodes []core_domain.CodeDataStruct, root string) []TypeObs {
	out := []TypeObs{}
	for _, n := range nodes {
		t := TypeObs{Pkg: n.Package, Name: n.NodeName, Kind: n.Type, Ext: n.Extend, Impls: []string{}, Anns: []AnnObs{}, Fns: []FnObs{}}
		t.Impls = append(t.Impls, n.Implements...)
		rel := n.FilePath
		if strings.HasPrefix(rel, root) {
			rel = strings.TrimPrefix(strings.TrimPrefix(rel, root), string(filepath.Separator))
		}
		t.File = filepath.ToSlash(rel)
		for _, a := range n.Annotations {
			ao := AnnObs{Name: a.Name, Kvs: []KVObs{}}
			for _, kv := range a.KeyValues {
				ao.Kvs = append(ao.Kvs, KVObs{kv.Key, kv.Value})
			}
			t.Anns = append(t.Anns, ao)
		}
		for _, f := range n.Functions {
			fo := FnObs{Name: f.Name, Ret: f.ReturnType, Ctor: f.IsConstructor, Params: []ParamObs{}, Line: f.Position.StartLine, Calls: []CallObs{},
				Override: f.Override, Null: f.IsReturnNull, Mods: append([]string{}, f.Modifiers...), Anns: []AnnObs{}}
			for _, a := range f.Annotations {
				ao := AnnObs{Name: a.Name, Kvs: []KVObs{}}
				for _, kv := range a.KeyValues {
					ao.Kvs = append(ao.Kvs, KVObs{kv.Key, kv.Value})
				}
				fo.Anns = append(fo.Anns, ao)
			}
			for _, p := range f.Parameters {
				fo.Params = append(fo.Params, ParamObs{p.TypeType, p.TypeValue})
			}
			for _, c := range f.FunctionCalls {
				fo.Calls = append(fo.Calls, CallObs{Callee: c.FunctionName, Node: c.NodeName, Pkg: c.Package, Kind: c.Type,
					Line: c.Position.StartLine, C0: c.Position.StartLinePosition, C1: c.Position.StopLinePosition})
			}
			t.Fns = append(t.Fns, fo)
		}
		// the order of functions inside a type is not promised (C08): canonical order by (line, name)
		key := func(f FnObs) string {
			k := fmt.Sprintf("%06d|%s|%s|", f.Line, f.Name, f.Ret)
			for _, p := range f.Params {
				k += p.Type + " " + p.Name + ","
			}
			return k
		}
		sort.SliceStable(t.Fns, func(i, j int) bool { return key(t.Fns[i]) < key(t.Fns[j]) })
		out = append(out, t)
	}
	return out
}

func selected(f javagen.File) bool {
	return f.PathKind == "main" || f.PathKind == "maven" || f.PathKind == "neartest"
}

func one(raw json.RawMessage) interface{} {
	var c Case
	if err := json.Unmarshal(raw, &c); err != nil {
		panic(err)
	}
	for i := range c.Files {
		javagen.Normalize(&c.Files[i])
	}
	if c.Runs == nil {
		c.Runs = [][]int{}
	}
	scratch, err := os.MkdirTemp(os.Getenv("VERIF_SCRATCH"), "jm-")
	if err != nil {
		panic(err)
	}
	defer os.RemoveAll(scratch)
	// the name of the analysed directory is layout: every third tree lives in a directory whose name contains the
	// letters of the ignored directory `gen` (a root called engine-generated next to a pattern `gen/`)
	rootName := "proj"
	if c.Layout%3 == 0 {
		rootName = "engine-generated"
	}
	root := filepath.Join(scratch, rootName)
	if c.Fresh == nil {
		c.Fresh = []bool{}
	}
	rec := Record{Case: c.Case, Files: c.Files, Layout: c.Layout, Runs: c.Runs, Fresh: c.Fresh, Facts: []javagen.Facts{}, Observed: []RunObs{}}
	if len(c.Runs) > 0 && c.Outsider >= 1 && c.Outsider <= len(c.Files) && selected(c.Files[c.Outsider-1]) {
		rec.Outsider = c.Outsider
	}
	paths := make([]string, len(c.Files))
	for i, f := range c.Files {
		text, facts := javagen.Render(f, c.Layout)
		if c.LongLine {
			if k := strings.Index(text, ";\n"); k >= 0 && !strings.Contains(text[:k], "/*") {
				text = text[:k+1] + " // " + strings.Repeat("long line ", 7000) + text[k+1:]
			}
		}
		p := filepath.Join(root, filepath.FromSlash(facts.RelPath))
		os.MkdirAll(filepath.Dir(p), 0o755)
		if err := os.WriteFile(p, []byte(text), 0o644); err != nil {
			panic(err)
		}
		paths[i] = p
		rec.Facts = append(rec.Facts, facts)
	}
	os.WriteFile(filepath.Join(root, ".gitignore"), []byte("gen/\n*Generated.java\n"), 0o644)

	runIdent := func(f func() []core_domain.CodeDataStruct) (PassObs, []core_domain.CodeDataStruct) {
		var nodes []core_domain.CodeDataStruct
		o := PassObs{Types: []TypeObs{}}
		p, msg := lib.Guard(func() { nodes = f() })
		if p {
			return PassObs{Panic: true, Types: []TypeObs{}, Note: msg}, nil
		}
		o.Types = project(nodes, root)
		return o, nodes
	}
	if len(c.Runs) == 0 && c.Via == "cli" {
		var ro RunObs
		// every other command-line case is run from INSIDE the project (`coca analysis -p .`, or with no -p at all): the
		// walked paths then begin with src/... and carry no directory in front
		cwd, arg, prefix := scratch, []string{"analysis", "-p", rootName}, rootName
		switch c.Layout % 4 {
		case 1:
			cwd, arg, prefix = root, []string{"analysis", "-p", "."}, ""
		case 3:
			cwd, arg, prefix = root, []string{"analysis"}, ""
		}
		read := func(name string) PassObs {
			b, err := os.ReadFile(filepath.Join(cwd, "coca_reporter", name))
			var nodes []core_domain.CodeDataStruct
			if err != nil || json.Unmarshal(b, &nodes) != nil {
				return PassObs{Panic: true, Types: []TypeObs{}, Note: "cannot read " + name}
			}
			if prefix == "" {
				for i := range nodes { // "./src/.." and "src/.." name the same file
					nodes[i].FilePath = strings.TrimPrefix(filepath.ToSlash(nodes[i].FilePath), "./")
				}
			}
			return PassObs{Types: project(nodes, prefix)}
		}
		cmd := exec.Command(os.Getenv("VERIF_COCA"), arg...)
		cmd.Dir = cwd
		cmd.Env = append(os.Environ(), "TMPDIR="+scratch)
		if out, err := cmd.CombinedOutput(); err != nil {
			po := PassObs{Panic: true, Types: []TypeObs{}, Note: fmt.Sprint("coca analysis failed: ", err, " ", string(out))}
			ro.Ident, ro.Full = po, po
		} else {
			ro.Ident, ro.Full = read("identify.json"), read("deps.json")
		}
		rec.Observed = append(rec.Observed, ro)
		return rec
	}
	if len(c.Runs) == 0 {
		var ro RunObs
		var idn []core_domain.CodeDataStruct
		ro.Ident, idn = runIdent(func() []core_domain.CodeDataStruct {
			app := javaapp.NewJavaIdentifierApp()
			return app.AnalysisPath(root)
		})
		ro.Full, _ = runIdent(func() []core_domain.CodeDataStruct {
			app := javaapp.NewJavaFullApp()
			return app.AnalysisPath(root, idn)
		})
		rec.Observed = append(rec.Observed, ro)
		return rec
	}
	// histories: the identifier set is that of the whole pool (held fixed), computed once
	var all []string
	for i, f := range c.Files {
		if selected(f) && i+1 != rec.Outsider {
			all = append(all, paths[i])
		}
	}
	var fixedIdent []core_domain.CodeDataStruct
	lib.Guard(func() {
		app := javaapp.NewJavaIdentifierApp()
		fixedIdent = app.AnalysisFiles(all)
	})
	if c.Prelude && len(all) >= 3 {
		var sel []int
		for i, f := range c.Files {
			if selected(f) {
				sel = append(sel, i)
			}
		}
		mid := sel[len(sel)/2]
		other := filepath.Join(scratch, "earlier")
		var files2 []string
		for _, i := range sel {
			f := c.Files[i]
			if i == mid {
				f.Pkg = "zz.moved"
			}
			text, facts := javagen.Render(f, c.Layout)
			p := filepath.Join(other, filepath.FromSlash(facts.RelPath))
			os.MkdirAll(filepath.Dir(p), 0o755)
			if err := os.WriteFile(p, []byte(text), 0o644); err != nil {
				panic("harness: " + err.Error())
			}
			files2 = append(files2, p)
		}
		lib.Guard(func() {
			ia := javaapp.NewJavaIdentifierApp()
			id2 := ia.AnalysisFiles(files2)
			app := javaapp.NewJavaFullApp()
			app.AnalysisFiles(id2, files2)
		})
	}
	for ri, run := range c.Runs {
		if ri < len(c.Fresh) && c.Fresh[ri] {
			sub := Case{Case: c.Case, Files: c.Files, Layout: c.Layout, Runs: [][]int{run}, Outsider: rec.Outsider}
			raw, err := lib.Fresh(sub)
			var sr Record
			if err == nil {
				err = json.Unmarshal(raw, &sr)
			}
			if err != nil || len(sr.Observed) != 1 {
				po := PassObs{Panic: true, Types: []TypeObs{}, Note: fmt.Sprint("fresh run failed: ", err)}
				rec.Observed = append(rec.Observed, RunObs{Ident: po, Full: po})
			} else {
				rec.Observed = append(rec.Observed, sr.Observed[0])
			}
			continue
		}
		var files []string
		for _, k := range run {
			files = append(files, paths[k-1])
		}
		var ro RunObs
		ro.Ident, _ = runIdent(func() []core_domain.CodeDataStruct {
			app := javaapp.NewJavaIdentifierApp()
			return app.AnalysisFiles(files)
		})
		ro.Full, _ = runIdent(func() []core_domain.CodeDataStruct {
			app := javaapp.NewJavaFullApp()
			return app.AnalysisFiles(fixedIdent, files)
		})
		rec.Observed = append(rec.Observed, ro)
	}
	return rec
}

func abnormal(raw json.RawMessage, timeout bool, stderr string) interface{} {
	var c Case
	json.Unmarshal(raw, &c)
	for i := range c.Files {
		javagen.Normalize(&c.Files[i])
	}
	if c.Runs == nil {
		c.Runs = [][]int{}
	}
	if c.Fresh == nil {
		c.Fresh = []bool{}
	}
	rec := Record{Case: c.Case, Files: c.Files, Layout: c.Layout, Runs: c.Runs, Fresh: c.Fresh, Facts: []javagen.Facts{}, Observed: []RunObs{}}
	for _, f := range c.Files {
		_, facts := javagen.Render(f, c.Layout)
		rec.Facts = append(rec.Facts, facts)
	}
	n := len(c.Runs)
	if n == 0 {
		n = 1
	}
	for i := 0; i < n; i++ {
		po := PassObs{Panic: true, Types: []TypeObs{}, Note: "process died: " + stderr}
		rec.Observed = append(rec.Observed, RunObs{Ident: po, Full: po})
	}
	return rec
}

func main() {
	lib.Main(lib.Handler{One: one, Gen: gen, Abnormal: abnormal})
}
