package main

import (
	"fmt"
	"math/rand"
)

// gen: seeded random histories, wider than TLC's constants: up to 6 classes in up to 3 packages (services by many
// spellings, plain classes, namesakes), up to 8 functions per class with names assembled from word pieces (lower-case
// words, stop words, capitalised words, upper-case runs, digits, `_`, `$`), overloads, return types that are project
// classes / built-in names / generic / outside the project, 0..6 parameters from a small pool of names (so that groups of
// four recur), constructors, and histories of 1..3 Analysis calls in one process.
//
// Scenario quotas (so that the two known-finding shapes stay a minority and never sit in the cases probing the rest):
//
//	"single"  one service only                                   45%
//	"quiet"   several services, at most one has a shared word    30%
//	"many"    several services with shared words                 15%   (known finding last-service-wins)
//	"ctors"   a service with two constructors                    10%   (known finding constructor-counted)
func gen(seed int64, n int, tier string) []interface{} {
	r := rand.New(rand.NewSource(seed*104729 + 8))
	out := []interface{}{}
	for i := 0; i < n; i++ {
		via := "model"
		switch k := r.Intn(20); {
		case k < 6:
			via = "java"
		case k < 8:
			via = "cli"
		}
		ncalls := 1
		if via != "cli" {
			switch k := r.Intn(10); {
			case k < 3:
				ncalls = 2
			case k < 4:
				ncalls = 3
			}
		}
		scen := "single"
		switch k := r.Intn(20); {
		case k < 9:
			scen = "single"
		case k < 15:
			scen = "quiet"
		case k < 18:
			scen = "many"
		default:
			scen = "ctors"
		}
		calls := [][]Class{}
		for c := 0; c < ncalls; c++ {
			calls = append(calls, genModel(r, via, scen))
		}
		out = append(out, Case{Case: fmt.Sprintf("rand-%d-%d", seed, i), Input: Input{Via: via, Calls: calls}})
	}
	return out
}

var (
	pkgs         = []string{"com.acme.shop", "com.acme.pay", "org.demo"}
	serviceNames = []string{"OrderService", "PayService", "ServiceLocator", "UserServiceImpl", "Microservices", "SERVICEBus", "cartservice"}
	plainNames   = []string{"Order", "Cart", "Invoice", "StringUtils", "Servic", "Ledger", "Servlet"}
	// first words that are not stop words / that are
	liveFirst = []string{"do", "sync", "load", "on", "x", "HTTP", "XML", "Do", "Sync", "_", "$"}
	stopFirst = []string{"get", "set", "find", "create", "handle", "is", "process", "Get", "SET"}
	rests     = []string{"Save", "Update", "All", "2", "2x", "URL", "ById", "_x", "Now", "Item"}
	paramPool = []string{"firstname", "lastname", "age", "address", "phone", "zip", "id", "note"}
)

func pick(r *rand.Rand, s []string) string { return s[r.Intn(len(s))] }

func genModel(r *rand.Rand, via, scen string) []Class {
	if r.Intn(25) == 0 {
		return []Class{}
	}
	nserv := 1
	if scen == "quiet" || scen == "many" {
		nserv = 2 + r.Intn(2)
	}
	nplain := r.Intn(4)
	type slot struct {
		service bool
	}
	slots := []slot{}
	for i := 0; i < nserv; i++ {
		slots = append(slots, slot{true})
	}
	for i := 0; i < nplain; i++ {
		slots = append(slots, slot{false})
	}
	r.Shuffle(len(slots), func(i, j int) { slots[i], slots[j] = slots[j], slots[i] })
	used := map[string]bool{}
	classes := []Class{}
	projectTypes := []string{}
	for _, s := range slots {
		var name, pkg string
		for try := 0; try < 20; try++ {
			if s.service {
				name = pick(r, serviceNames)
			} else {
				name = pick(r, plainNames)
			}
			pkg = pick(r, pkgs)
			// namesakes in two packages are wanted; the same class twice is not (a Java project cannot hold it)
			if !used[pkg+"."+name] && (via != "java" || !used[name] || r.Intn(3) == 0) {
				break
			}
			name = ""
		}
		if name == "" || used[pkg+"."+name] {
			continue
		}
		used[pkg+"."+name] = true
		used[name] = true
		classes = append(classes, Class{Pkg: pkg, Name: name, Methods: []Method{}})
		projectTypes = append(projectTypes, name)
	}
	// which service may have words shared by two methods
	livelyLeft := 1
	if scen == "many" {
		livelyLeft = 99
	}
	for ci := range classes {
		c := &classes[ci]
		isService := false
		for _, sn := range serviceNames {
			if sn == c.Name {
				isService = true
			}
		}
		lively := false
		if isService && livelyLeft > 0 && r.Intn(5) != 0 {
			lively = true
			livelyLeft--
		}
		nm := r.Intn(6)
		if r.Intn(4) == 0 {
			nm = 5 + r.Intn(4)
		}
		seen := map[string]bool{} // name/arity pairs (Java: no two methods with one signature)
		firstUsed := map[string]bool{}
		for k := 0; k < nm; k++ {
			var first string
			if r.Intn(3) == 0 {
				first = pick(r, stopFirst)
			} else {
				first = pick(r, liveFirst)
			}
			if !lively && isService {
				// every live first word at most once in this class (stop words may repeat: they never count)
				isStop := false
				for _, w := range stopFirst[:7] {
					if w == first {
						isStop = true
					}
				}
				if !isStop {
					if firstUsed[first] {
						continue
					}
					firstUsed[first] = true
				}
			}
			name := first
			if r.Intn(6) != 0 {
				name += pick(r, rests)
			}
			if via != "model" && (name == "_" || name == "do" || name == "$") {
				name += "X" // `_` and `do` are Java keywords; keep `$` away from single-character names
			}
			m := Method{Name: name, Ret: "void", Params: []string{}}
			switch x := r.Intn(10); {
			case x < 3 && len(projectTypes) > 0:
				m.Ret = pick(r, projectTypes)
			case x < 4:
				m.Ret = "String"
			case x < 5:
				m.Ret = "int"
			case x < 6:
				m.Ret = "Outside"
			case x < 7 && len(projectTypes) > 0:
				m.Ret = "List<" + pick(r, projectTypes) + ">"
			}
			m.Params = genParams(r)
			key := fmt.Sprintf("%s/%d", m.Name, len(m.Params))
			if seen[key] {
				continue
			}
			seen[key] = true
			c.Methods = append(c.Methods, m)
		}
		// constructors: at most one, except in the "ctors" scenario
		nct := 0
		if r.Intn(3) == 0 {
			nct = 1
		}
		if scen == "ctors" && isService {
			nct = 2 + r.Intn(2)
		}
		for k := 0; k < nct; k++ {
			m := Method{Name: c.Name, Ret: "", Ctor: true, Params: genParams(r)}
			key := fmt.Sprintf("%s/%d", m.Name, len(m.Params))
			if seen[key] {
				continue
			}
			seen[key] = true
			at := r.Intn(len(c.Methods) + 1)
			c.Methods = append(c.Methods[:at], append([]Method{m}, c.Methods[at:]...)...)
		}
	}
	return classes
}

// parameter lists: most long lists are built around one base group so that the 80% boundary is near
func genParams(r *rand.Rand) []string {
	switch x := r.Intn(10); {
	case x < 4:
		n := r.Intn(4)
		return append([]string{}, shuffled(r, paramPool)[:n]...)
	case x < 9:
		base := []string{"firstname", "lastname", "age", "address"}
		ps := append([]string{}, base...)
		if r.Intn(5) == 0 {
			ps[r.Intn(4)] = pick(r, paramPool[4:])
		}
		for r.Intn(3) == 0 && len(ps) < 6 {
			extra := pick(r, paramPool[4:])
			dup := false
			for _, p := range ps {
				if p == extra {
					dup = true
				}
			}
			if !dup {
				ps = append(ps, extra)
			}
		}
		r.Shuffle(len(ps), func(i, j int) { ps[i], ps[j] = ps[j], ps[i] })
		return ps
	default:
		n := 4 + r.Intn(3)
		return append([]string{}, shuffled(r, paramPool)[:n]...)
	}
}

func shuffled(r *rand.Rand, s []string) []string {
	c := append([]string{}, s...)
	r.Shuffle(len(c), func(i, j int) { c[i], c[j] = c[j], c[i] })
	return c
}
