// Harness for the evalservice suite (extension X08): the service summary of `coca evaluate`
// (evaluate.Analyser.Analysis(classNodes, identifiers).ServiceSummary: LifecycleMap, ReturnTypeMap, RelatedMethod).
//
// An abstract case is a HISTORY of models (lists of classes with functions); all its calls are made in ONE process, in
// order, on ONE evaluate.Analyser. A model reaches the real code in one of three ways:
//
//	via "model"  the []core_domain.CodeDataStruct are built directly (and passed through JSON as the commands do)
//	via "java"   a Java project is rendered from the model and analysed by the real identifier + full passes
//	via "cli"    (one call) deps.json / identify.json are written and the coca binary runs `coca evaluate`;
//	             coca_reporter/evaluate.json is read back with a strict reader
//
// Every run of the record carries `model` = the projection (package, class, functions: name, return type, constructor
// flag, parameter names) of exactly the structs that were handed to Analysis, `observed` = the projected summary right
// after the call and `later` = the same returned value projected again after the last call of the process.
// No expected values here: TLC (X08EvalServiceRef!Diff) judges.
package main

import (
	"encoding/json"
	"fmt"
	"os"
	"os/exec"
	"path/filepath"
	"runtime"
	"sort"
	"strings"
	"time"

	"github.com/modernizing/coca/pkg/application/analysis/javaapp"
	"github.com/modernizing/coca/pkg/application/evaluate"
	"github.com/modernizing/coca/pkg/application/evaluate/evaluator"
	"github.com/modernizing/coca/pkg/domain/core_domain"

	"verifharness/lib"
)

type Method struct {
	Name   string   `json:"name"`
	Ret    string   `json:"ret"`
	Ctor   bool     `json:"ctor"`
	Params []string `json:"params"`
}

type Class struct {
	Pkg     string   `json:"pkg"`
	Name    string   `json:"name"`
	Methods []Method `json:"methods"`
}

type Input struct {
	Via   string    `json:"via"` // "model" | "java" | "cli"
	Calls [][]Class `json:"calls"`
}

type Case struct {
	Case  string `json:"case"`
	Input Input  `json:"input"`
}

type Entry struct {
	Word    string   `json:"word"`
	Methods []string `json:"methods"`
}

type RetEntry struct {
	Type    string   `json:"type"`
	Methods []string `json:"methods"`
}

type Sum struct {
	Panic      bool       `json:"panic"`
	Wellformed bool       `json:"wellformed"`
	Lifecycle  []Entry    `json:"lifecycle"`
	Returns    []RetEntry `json:"returns"`
	Related    []string   `json:"related"`
	Note       string     `json:"note,omitempty"`
}

type Run struct {
	Model    []Class           `json:"model"`
	Rendered map[string]string `json:"rendered,omitempty"`
	Observed Sum               `json:"observed"`
	Later    Sum               `json:"later"`
}

type Record struct {
	Case  string `json:"case"`
	Input Input  `json:"input"`
	Runs  []Run  `json:"runs"`
}

func emptySum() Sum {
	return Sum{Lifecycle: []Entry{}, Returns: []RetEntry{}, Related: []string{}}
}

func normalize(in *Input) {
	if in.Via == "" {
		in.Via = "model"
	}
	if in.Calls == nil {
		in.Calls = [][]Class{}
	}
	for i := range in.Calls {
		if in.Calls[i] == nil {
			in.Calls[i] = []Class{}
		}
		for j := range in.Calls[i] {
			if in.Calls[i][j].Methods == nil {
				in.Calls[i][j].Methods = []Method{}
			}
			for k := range in.Calls[i][j].Methods {
				if in.Calls[i][j].Methods[k].Params == nil {
					in.Calls[i][j].Methods[k].Params = []string{}
				}
			}
		}
	}
}

func short(s string, n int) string {
	if len(s) > n {
		return s[len(s)-n:]
	}
	return s
}

func strs(s []string) []string {
	if s == nil {
		return []string{}
	}
	return s
}

// ---------------------------------------------------------------- render

func buildModel(cls []Class) []core_domain.CodeDataStruct {
	out := []core_domain.CodeDataStruct{}
	for _, c := range cls {
		ds := core_domain.CodeDataStruct{Package: c.Pkg, NodeName: c.Name, Type: "Class",
			FilePath: strings.ReplaceAll(c.Pkg, ".", "/") + "/" + c.Name + ".java"}
		for k, m := range c.Methods {
			f := core_domain.CodeFunction{Name: m.Name, ReturnType: m.Ret, IsConstructor: m.Ctor,
				Position: core_domain.CodePosition{StartLine: 10 * (k + 1), StopLine: 10*(k+1) + 3}}
			for _, p := range m.Params {
				// coca's model keeps the parameter NAME in TypeValue and its type in TypeType
				f.Parameters = append(f.Parameters, core_domain.CodeProperty{TypeValue: p, TypeType: "String"})
			}
			ds.Functions = append(ds.Functions, f)
		}
		out = append(out, ds)
	}
	return out
}

// roundTrip passes a model through JSON exactly as the commands do (analysis writes deps.json, evaluate reads it).
func roundTrip(v []core_domain.CodeDataStruct) []core_domain.CodeDataStruct {
	b, _ := json.MarshalIndent(v, "", "\t")
	var out []core_domain.CodeDataStruct
	_ = json.Unmarshal(b, &out)
	return out
}

// renderJava: one file per class. A function becomes a method (or a constructor) with its parameters typed String;
// a method whose return type is not void returns null. Functions with the same name get distinct parameter counts by
// construction of the generator (the passes key methods by name and position).
func renderJava(root string, cls []Class) (map[string]string, error) {
	texts := map[string]string{}
	for _, c := range cls {
		var b strings.Builder
		if c.Pkg != "" {
			fmt.Fprintf(&b, "package %s;\n\n", c.Pkg)
		}
		fmt.Fprintf(&b, "public class %s {\n", c.Name)
		for _, m := range c.Methods {
			ps := []string{}
			for _, p := range m.Params {
				ps = append(ps, "String "+p)
			}
			switch {
			case m.Ctor:
				fmt.Fprintf(&b, "    public %s(%s) {\n    }\n\n", c.Name, strings.Join(ps, ", "))
			case m.Ret == "void":
				fmt.Fprintf(&b, "    public void %s(%s) {\n    }\n\n", m.Name, strings.Join(ps, ", "))
			default:
				fmt.Fprintf(&b, "    public %s %s(%s) {\n        return null;\n    }\n\n", m.Ret, m.Name, strings.Join(ps, ", "))
			}
		}
		b.WriteString("}\n")
		rel := filepath.Join(filepath.FromSlash(strings.ReplaceAll(c.Pkg, ".", "/")), c.Name+".java")
		p := filepath.Join(root, rel)
		if err := os.MkdirAll(filepath.Dir(p), 0o755); err != nil {
			return nil, err
		}
		if err := os.WriteFile(p, []byte(b.String()), 0o644); err != nil {
			return nil, err
		}
		texts[filepath.ToSlash(rel)] = b.String()
	}
	return texts, nil
}

// ---------------------------------------------------------------- project

func projectModel(deps []core_domain.CodeDataStruct) []Class {
	out := []Class{}
	for _, d := range deps {
		c := Class{Pkg: d.Package, Name: d.NodeName, Methods: []Method{}}
		for _, f := range d.Functions {
			m := Method{Name: f.Name, Ret: f.ReturnType, Ctor: f.IsConstructor, Params: []string{}}
			for _, p := range f.Parameters {
				m.Params = append(m.Params, p.TypeValue)
			}
			c.Methods = append(c.Methods, m)
		}
		out = append(out, c)
	}
	return out
}

// projectSummary: the two maps as lists (sorted by key only to make the record reproducible; the Reference reads bags)
func projectSummary(life map[string][]string, ret map[string][]string, related []string) Sum {
	s := emptySum()
	keys := []string{}
	for k := range life {
		keys = append(keys, k)
	}
	sort.Strings(keys)
	for _, k := range keys {
		s.Lifecycle = append(s.Lifecycle, Entry{Word: k, Methods: strs(append([]string{}, life[k]...))})
	}
	keys = keys[:0]
	for k := range ret {
		keys = append(keys, k)
	}
	sort.Strings(keys)
	for _, k := range keys {
		s.Returns = append(s.Returns, RetEntry{Type: k, Methods: strs(append([]string{}, ret[k]...))})
	}
	s.Related = strs(append([]string{}, related...))
	s.Wellformed = true
	return s
}

// ---------------------------------------------------------------- drive

// identifiers for the CLI route: `coca evaluate` also reads identify.json and marshals its summary, which needs at
// least two classes and two accessor methods (the standard deviations are NaN otherwise and nothing is written).
func someIdentifiers() []core_domain.CodeDataStruct {
	mk := func(name string, n int) core_domain.CodeDataStruct {
		ds := core_domain.CodeDataStruct{Package: "com.acme.app", NodeName: name, Type: "Class"}
		for i := 0; i < n; i++ {
			ds.Functions = append(ds.Functions, core_domain.CodeFunction{Name: fmt.Sprintf("getField%d", i), ReturnType: "String",
				Position: core_domain.CodePosition{StartLine: 5 + 4*i, StopLine: 7 + 4*i + i}})
		}
		return ds
	}
	return []core_domain.CodeDataStruct{mk("Alpha", 2), mk("Beta", 3)}
}

func viaCLI(scratch string, deps []core_domain.CodeDataStruct) Sum {
	o := emptySum()
	bin := os.Getenv("VERIF_COCA")
	if bin == "" {
		panic("harness: VERIF_COCA not set")
	}
	rep := filepath.Join(scratch, "coca_reporter")
	if err := os.MkdirAll(rep, 0o755); err != nil {
		panic("harness: " + err.Error())
	}
	b, _ := json.MarshalIndent(deps, "", "\t")
	ib, _ := json.MarshalIndent(someIdentifiers(), "", "\t")
	for f, data := range map[string][]byte{"deps.json": b, "identify.json": ib} {
		if err := os.WriteFile(filepath.Join(rep, f), data, 0o644); err != nil {
			panic("harness: " + err.Error())
		}
	}
	cmd := exec.Command(bin, "evaluate")
	cmd.Dir = scratch
	cmd.Env = append(os.Environ(), "TMPDIR="+scratch, "HOME="+scratch)
	out, err := cmd.CombinedOutput()
	if err != nil {
		o.Panic = true
		o.Note = short(string(out), 300)
		return o
	}
	raw, err := os.ReadFile(filepath.Join(rep, "evaluate.json"))
	if err != nil {
		o.Note = "no evaluate.json: " + err.Error()
		return o
	}
	// strict reader of the part under observation: the three fields of ServiceSummary with their documented types
	var res struct {
		ServiceSummary *struct {
			LifecycleMap  map[string][]string
			ReturnTypeMap map[string][]string
			RelatedMethod []string
		}
	}
	if err := json.Unmarshal(raw, &res); err != nil || res.ServiceSummary == nil {
		o.Note = "evaluate.json: " + fmt.Sprint(err)
		return o
	}
	return projectSummary(res.ServiceSummary.LifecycleMap, res.ServiceSummary.ReturnTypeMap, res.ServiceSummary.RelatedMethod)
}

// settle lets the goroutines the miner started finish (or fail): a goroutine that dies after Analysis returned takes
// the process with it, which is then what this case observes.
func settle(baseline int) {
	deadline := time.Now().Add(150 * time.Millisecond)
	for runtime.NumGoroutine() > baseline && time.Now().Before(deadline) {
		time.Sleep(200 * time.Microsecond)
	}
}

func one(raw json.RawMessage) interface{} {
	var c Case
	if err := json.Unmarshal(raw, &c); err != nil {
		panic("harness: " + err.Error())
	}
	normalize(&c.Input)
	rec := Record{Case: c.Case, Input: c.Input, Runs: []Run{}}
	scratch, err := os.MkdirTemp(os.Getenv("VERIF_SCRATCH"), "evalservice-")
	if err != nil {
		panic("harness: " + err.Error())
	}
	defer os.RemoveAll(scratch)
	if c.Input.Via == "cli" && len(c.Input.Calls) != 1 {
		panic("harness: a cli case has exactly one call")
	}
	analyser := evaluate.NewEvaluateAnalyser()
	results := make([]*evaluator.EvaluateModel, len(c.Input.Calls))
	for n, cls := range c.Input.Calls {
		run := Run{Model: []Class{}, Observed: emptySum(), Later: emptySum()}
		var deps, idents []core_domain.CodeDataStruct
		if c.Input.Via == "java" {
			src := filepath.Join(scratch, fmt.Sprintf("src%d", n))
			texts, err := renderJava(src, cls)
			if err != nil {
				panic("harness: render: " + err.Error())
			}
			run.Rendered = texts
			p, msg := lib.Guard(func() {
				identApp := javaapp.NewJavaIdentifierApp()
				idents = identApp.AnalysisPath(src)
				fullApp := javaapp.NewJavaFullApp()
				deps = roundTrip(fullApp.AnalysisPath(src, idents))
			})
			if p {
				// the passes (not the code under test here) failed on text this renderer wrote: no observation
				panic("harness: the Java passes failed on rendered text: " + short(msg, 300))
			}
		} else {
			deps = roundTrip(buildModel(cls))
			idents = deps
		}
		run.Model = projectModel(deps)
		if c.Input.Via == "cli" {
			run.Observed = viaCLI(scratch, deps)
			run.Later = run.Observed
			rec.Runs = append(rec.Runs, run)
			continue
		}
		p, msg := lib.Guard(func() {
			base := runtime.NumGoroutine()
			res := analyser.Analysis(deps, idents)
			settle(base)
			results[n] = &res
			run.Observed = projectSummary(res.ServiceSummary.LifecycleMap, res.ServiceSummary.ReturnTypeMap, res.ServiceSummary.RelatedMethod)
		})
		if p {
			run.Observed = emptySum()
			run.Observed.Panic = true
			run.Observed.Note = short(msg, 300)
		}
		rec.Runs = append(rec.Runs, run)
	}
	if c.Input.Via != "cli" {
		for n := range rec.Runs {
			if results[n] == nil {
				rec.Runs[n].Later = rec.Runs[n].Observed
				continue
			}
			s := results[n].ServiceSummary
			rec.Runs[n].Later = projectSummary(s.LifecycleMap, s.ReturnTypeMap, s.RelatedMethod)
		}
	}
	return rec
}

func abnormal(raw json.RawMessage, timeout bool, stderr string) interface{} {
	var c Case
	json.Unmarshal(raw, &c)
	normalize(&c.Input)
	note := "process died: "
	if timeout {
		note = "timeout: "
	}
	rec := Record{Case: c.Case, Input: c.Input, Runs: []Run{}}
	for _, cls := range c.Input.Calls {
		s := emptySum()
		s.Panic = true
		s.Note = note + short(stderr, 300)
		// the model as the case states it (nothing was handed over by a process that died)
		rec.Runs = append(rec.Runs, Run{Model: projectModel(buildModel(cls)), Observed: s, Later: s})
	}
	return rec
}

func main() {
	lib.Main(lib.Handler{One: one, Gen: gen, Abnormal: abnormal})
}
