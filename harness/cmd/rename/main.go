// Harness for the method-rename refactoring (C05).
package main

import (
	"encoding/json"
	"fmt"
	"math/rand"
	"os"
	"path/filepath"
	"sort"
	"strings"

	"github.com/modernizing/coca/pkg/application/analysis/javaapp"
	rename "github.com/modernizing/coca/pkg/application/refactor/rename"
	"github.com/modernizing/coca/pkg/domain/core_domain"

	"verifharness/javagen"
	"verifharness/javaproj"
	"verifharness/lib"
)

type Req struct {
	Pkg string `json:"pkg"`
	Cls string `json:"cls"`
	Old string `json:"old"`
	New string `json:"new"`
	// NewChars: the new name as a sequence of characters (filled in by the harness)
	NewChars []string `json:"newChars"`
}

type Case struct {
	Case   string         `json:"case"`
	Files  []javagen.File `json:"files"`
	Layout int            `json:"layout"`
	Req    Req            `json:"req"`
	// file-level byte shapes the statement's "every other byte is unchanged" covers: CRLF line ends, no final newline
	Crlf    bool `json:"crlf"`
	NoFinal bool `json:"noFinal"`
	// PriorOld: before the request, the same process has carried out another request (PriorOld -> PriorOld+"Prior" on the
	// same class) on a separate copy of the project; nothing of it may reach this request
	PriorOld string `json:"priorOld"`
	// ThereAndBack: before the request, the same process has renamed the SAME method of the SAME tree to a temporary
	// name and back (two requests, each on a fresh analysis); the tree is then analysed again and the request under
	// observation touches the very positions the two earlier requests edited
	ThereAndBack bool `json:"thereAndBack"`
}

// a site the model attributes to the renamed method: its declaration(s) and the calls recorded against it
type Site struct {
	File int    `json:"file"` // 1-based index into texts
	Line int    `json:"line"`
	C0   int    `json:"c0"`
	C1   int    `json:"c1"`
	Kind string `json:"kind"` // decl | call
}

type CallM struct {
	Pkg    string `json:"pkg"`
	Node   string `json:"node"`
	Callee string `json:"callee"`
}
type FnM struct {
	Name   string  `json:"name"`
	Ret    string  `json:"ret"`
	Params string  `json:"params"`
	Calls  []CallM `json:"calls"`
}
type TypeM struct {
	Pkg  string `json:"pkg"`
	Name string `json:"name"`
	Fns  []FnM  `json:"fns"`
}

// a line that carries at least one site, as sequences of single characters (code points), so that the
// Reference splices by character whatever the encoding unit of the checker's strings is
type SiteLine struct {
	Line   int      `json:"line"`
	Before []string `json:"before"`
	After  []string `json:"after"`
}

type Text struct {
	Path      string     `json:"path"`
	Before    []string   `json:"before"`
	After     []string   `json:"after"`
	SiteLines []SiteLine `json:"siteLines"`
}

type Record struct {
	Case    string  `json:"case"`
	Req     Req     `json:"req"`
	Texts   []Text  `json:"texts"`
	Sites   []Site  `json:"sites"`
	Model1  []TypeM `json:"model1"`
	Model2  []TypeM `json:"model2"`
	Panic   bool    `json:"panic"`
	Note    string  `json:"note"`
	NSites  int     `json:"nsites"`
	MaxLine int     `json:"maxPerLine"` // most sites on one line (evidence of non-triviality)
}

func canon(nodes []core_domain.CodeDataStruct) []TypeM {
	out := []TypeM{}
	for _, n := range nodes {
		t := TypeM{Pkg: n.Package, Name: n.NodeName, Fns: []FnM{}}
		for _, f := range n.Functions {
			if f.Name == "" {
				continue
			}
			fm := FnM{Name: f.Name, Ret: f.ReturnType, Calls: []CallM{}}
			var ps []string
			for _, p := range f.Parameters {
				ps = append(ps, p.TypeType+" "+p.TypeValue)
			}
			fm.Params = strings.Join(ps, ",")
			for _, c := range f.FunctionCalls {
				fm.Calls = append(fm.Calls, CallM{c.Package, c.NodeName, c.FunctionName})
			}
			t.Fns = append(t.Fns, fm)
		}
		out = append(out, t)
	}
	sort.Slice(out, func(i, j int) bool { return out[i].Pkg+"."+out[i].Name < out[j].Pkg+"."+out[j].Name })
	return out
}

func chars(line string) []string {
	out := []string{}
	for _, r := range line {
		out = append(out, string(r))
	}
	return out
}

func readLines(p string) []string {
	b, err := os.ReadFile(p)
	if err != nil {
		return []string{"<unreadable>"}
	}
	return strings.Split(string(b), "\n")
}

// one: the record of a case, with every list present (TLC's JSON reader has no null)
func one(raw json.RawMessage) interface{} {
	rec := oneCase(raw)
	for i := range rec.Texts {
		t := &rec.Texts[i]
		if t.Before == nil {
			t.Before = []string{}
		}
		if t.After == nil {
			t.After = []string{}
		}
		if t.SiteLines == nil {
			t.SiteLines = []SiteLine{}
		}
	}
	return rec
}

func oneCase(raw json.RawMessage) Record {
	var c Case
	if err := json.Unmarshal(raw, &c); err != nil {
		panic(err)
	}
	for i := range c.Files {
		javagen.Normalize(&c.Files[i])
	}
	scratch, err := os.MkdirTemp(os.Getenv("VERIF_SCRATCH"), "rn-")
	if err != nil {
		panic(err)
	}
	defer os.RemoveAll(scratch)
	root := filepath.Join(scratch, "proj")
	c.Req.NewChars = chars(c.Req.New)
	rec := Record{Case: c.Case, Req: c.Req, Texts: []Text{}, Sites: []Site{}, Model1: []TypeM{}, Model2: []TypeM{}}
	index := map[string]int{}
	for _, f := range c.Files {
		text, facts := javagen.Render(f, c.Layout)
		if c.NoFinal {
			text = strings.TrimRight(text, "\n")
		}
		if c.Crlf {
			text = strings.ReplaceAll(text, "\n", "\r\n")
		}
		p := filepath.Join(root, filepath.FromSlash(facts.RelPath))
		os.MkdirAll(filepath.Dir(p), 0o755)
		os.WriteFile(p, []byte(text), 0o644)
		if javaproj.Selected(f) {
			rec.Texts = append(rec.Texts, Text{Path: p, SiteLines: []SiteLine{}})
			index[p] = len(rec.Texts)
		}
	}
	os.WriteFile(filepath.Join(root, ".gitignore"), []byte("gen/\n*Generated.java\n"), 0o644)
	var ident, deps []core_domain.CodeDataStruct
	p0, msg := lib.Guard(func() {
		ia := javaapp.NewJavaIdentifierApp()
		ident = ia.AnalysisPath(root)
		fa := javaapp.NewJavaFullApp()
		deps = fa.AnalysisPath(root, ident)
	})
	if p0 {
		rec.Panic, rec.Note = true, "analysis: "+msg
		return rec
	}
	if c.ThereAndBack {
		tmp := c.Req.Old + "Tmp9"
		pt, msgt := lib.Guard(func() {
			rename.RenameMethodApp(deps).Refactoring(fmt.Sprintf("%s.%s.%s -> %s.%s.%s", c.Req.Pkg, c.Req.Cls, c.Req.Old, c.Req.Pkg, c.Req.Cls, tmp))
			ia := javaapp.NewJavaIdentifierApp()
			id1 := ia.AnalysisPath(root)
			fa := javaapp.NewJavaFullApp()
			d1 := fa.AnalysisPath(root, id1)
			rename.RenameMethodApp(d1).Refactoring(fmt.Sprintf("%s.%s.%s -> %s.%s.%s", c.Req.Pkg, c.Req.Cls, tmp, c.Req.Pkg, c.Req.Cls, c.Req.Old))
			ia2 := javaapp.NewJavaIdentifierApp()
			ident = ia2.AnalysisPath(root)
			fa2 := javaapp.NewJavaFullApp()
			deps = fa2.AnalysisPath(root, ident)
		})
		if pt {
			rec.Panic, rec.Note = true, "earlier requests: "+msgt
			return rec
		}
	}
	rec.Model1 = canon(deps)
	for i := range rec.Texts {
		rec.Texts[i].Before = readLines(rec.Texts[i].Path)
	}
	// the sites the model attributes to the method (the selection rule of the property statement)
	seen := map[string]bool{}
	perLine := map[string]int{}
	add := func(file string, line, c0, c1 int, kind string) {
		k := fmt.Sprintf("%s:%d:%d", file, line, c0)
		fi, ok := index[file]
		if seen[k] || !ok {
			return
		}
		seen[k] = true
		rec.Sites = append(rec.Sites, Site{fi, line, c0, c1, kind})
		lk := fmt.Sprintf("%s:%d", file, line)
		perLine[lk]++
		if perLine[lk] > rec.MaxLine {
			rec.MaxLine = perLine[lk]
		}
	}
	for _, n := range deps {
		if n.Package == c.Req.Pkg && n.NodeName == c.Req.Cls {
			for _, f := range n.Functions {
				if f.Name == c.Req.Old {
					add(n.FilePath, f.Position.StartLine, f.Position.StartLinePosition, f.Position.StopLinePosition, "decl")
				}
			}
		}
		for _, f := range n.Functions {
			for _, call := range f.FunctionCalls {
				if call.Package == c.Req.Pkg && call.NodeName == c.Req.Cls && call.FunctionName == c.Req.Old {
					add(n.FilePath, call.Position.StartLine, call.Position.StartLinePosition, call.Position.StopLinePosition, "call")
				}
			}
		}
	}
	rec.NSites = len(rec.Sites)
	if c.PriorOld != "" && c.PriorOld != c.Req.Old {
		rootA := filepath.Join(scratch, "earlier")
		for _, f := range c.Files {
			text, facts := javagen.Render(f, c.Layout)
			pa := filepath.Join(rootA, filepath.FromSlash(facts.RelPath))
			os.MkdirAll(filepath.Dir(pa), 0o755)
			os.WriteFile(pa, []byte(text), 0o644)
		}
		lib.Guard(func() {
			ia := javaapp.NewJavaIdentifierApp()
			identA := ia.AnalysisPath(rootA)
			fa := javaapp.NewJavaFullApp()
			depsA := fa.AnalysisPath(rootA, identA)
			rename.RenameMethodApp(depsA).Refactoring(fmt.Sprintf("%s.%s.%s -> %s.%s.%sPrior", c.Req.Pkg, c.Req.Cls, c.PriorOld, c.Req.Pkg, c.Req.Cls, c.PriorOld))
		})
	}
	conf := fmt.Sprintf("%s.%s.%s -> %s.%s.%s", c.Req.Pkg, c.Req.Cls, c.Req.Old, c.Req.Pkg, c.Req.Cls, c.Req.New)
	p1, msg1 := lib.Guard(func() { rename.RenameMethodApp(deps).Refactoring(conf) })
	for i := range rec.Texts {
		rec.Texts[i].After = readLines(rec.Texts[i].Path)
	}
	for _, st := range rec.Sites {
		t := &rec.Texts[st.File-1]
		dup := false
		for _, sl := range t.SiteLines {
			if sl.Line == st.Line {
				dup = true
			}
		}
		if dup || st.Line < 1 || st.Line > len(t.Before) {
			continue
		}
		sl := SiteLine{Line: st.Line, Before: chars(t.Before[st.Line-1]), After: []string{}}
		if st.Line <= len(t.After) {
			sl.After = chars(t.After[st.Line-1])
		}
		t.SiteLines = append(t.SiteLines, sl)
	}
	if p1 {
		rec.Panic, rec.Note = true, "rename: "+msg1
		return rec
	}
	p2, msg2 := lib.Guard(func() {
		ia := javaapp.NewJavaIdentifierApp()
		id2 := ia.AnalysisPath(root)
		fa := javaapp.NewJavaFullApp()
		rec.Model2 = canon(fa.AnalysisPath(root, id2))
	})
	if p2 {
		rec.Panic, rec.Note = true, "re-analysis: "+msg2
	}
	for i := range rec.Texts {
		rec.Texts[i].Path = strings.TrimPrefix(rec.Texts[i].Path, root+string(filepath.Separator))
	}
	return rec
}

func abnormal(raw json.RawMessage, timeout bool, stderr string) interface{} {
	var c Case
	json.Unmarshal(raw, &c)
	c.Req.NewChars = chars(c.Req.New)
	return Record{Case: c.Case, Req: c.Req, Texts: []Text{}, Sites: []Site{}, Model1: []TypeM{}, Model2: []TypeM{}, Panic: true, Note: "process died: " + stderr}
}

// ---------------------------------------------------------------- generator

func callOn(recvKind, recv, callee string, args ...javagen.Expr) javagen.Expr {
	if args == nil {
		args = []javagen.Expr{}
	}
	return javagen.Expr{K: "call", RecvKind: recvKind, Recv: recv, Callee: callee, Args: args}
}

func gen(seed int64, n int, tier string) []interface{} {
	r := rand.New(rand.NewSource(seed))
	var out []interface{}
	for k := 0; k < n; {
		p := javaproj.Gen(r, true)
		// target: a class method of a selected class
		type tgt struct{ fi, mi int }
		var ts []tgt
		for i, f := range p.Files {
			if javaproj.Selected(f) && f.Unit.Kind == "class" {
				for j, m := range f.Unit.Members {
					if m.Kind == "method" {
						ts = append(ts, tgt{i, j})
					}
				}
			}
		}
		if len(ts) == 0 {
			continue
		}
		t := ts[r.Intn(len(ts))]
		tf := &p.Files[t.fi]
		old := tf.Unit.Members[t.mi].Name
		// inject call sites attributed to the target: unqualified calls inside the class, calls through a
		// parameter of the class's type elsewhere; several per line, after multi-byte literals
		for inj := 0; inj < 1+r.Intn(4); inj++ {
			fi := r.Intn(len(p.Files))
			f := &p.Files[fi]
			if !javaproj.Selected(*f) || f.Unit.Kind != "class" {
				continue
			}
			var ms []int
			for j, m := range f.Unit.Members {
				if m.Kind == "method" || m.Kind == "ctor" {
					ms = append(ms, j)
				}
			}
			if len(ms) == 0 {
				continue
			}
			m := &f.Unit.Members[ms[r.Intn(len(ms))]]
			var site func() javagen.Expr
			if fi == t.fi {
				site = func() javagen.Expr { return callOn("none", "", old) }
			} else {
				pn := fmt.Sprintf("t%d", inj)
				m.Params = append(m.Params, javagen.Param{Type: tf.Unit.Name, Name: pn})
				if tf.Pkg != f.Pkg {
					dup := false
					for _, im := range f.Imports {
						if im.Name == tf.Unit.Name {
							dup = true
						}
					}
					if dup {
						continue
					}
					if r.Intn(3) == 0 { // reach the class through a wildcard import of its package
						f.Imports = append(f.Imports, javagen.Import{Pkg: tf.Pkg, Name: "*"})
					} else {
						f.Imports = append(f.Imports, javagen.Import{Pkg: tf.Pkg, Name: tf.Unit.Name})
					}
				}
				site = func() javagen.Expr { return callOn("var", pn, old) }
			}
			var e javagen.Expr
			switch r.Intn(4) {
			case 0:
				e = site()
			case 1: // two sites on one line, a multi-byte literal before them
				e = callOn("none", "", "log", javagen.Expr{K: "lit", Text: []string{"\"größe 注释\"", "\"\U0001F600 ok \U0001D11E\""}[r.Intn(2)]}, site(), site())
			case 2: // nested
				s1 := site()
				s1.Args = []javagen.Expr{site(), {K: "lit", Text: "1"}}
				e = s1
			default:
				e = callOn("none", "", "other", site(), javagen.Expr{K: "lit", Text: "\"é\""}, site(), site())
			}
			st := javagen.Stmt{K: "expr", E: &e}
			pos := 0
			if len(m.Body) > 0 {
				pos = r.Intn(len(m.Body))
				if m.Body[len(m.Body)-1].K == "return" && pos == len(m.Body) {
					pos--
				}
			}
			m.Body = append(m.Body[:pos], append([]javagen.Stmt{st}, m.Body[pos:]...)...)
		}
		// a line mate: a one-line method that calls the target stands on the SAME line, to the left of the target's
		// declaration (`void lineMate() { target(); } void target() { .. }`): the declaration is rewritten before the call
		if r.Intn(6) == 0 {
			ms := p.Files[t.fi].Unit.Members
			call := callOn("none", "", old)
			mate := javagen.Member{Kind: "method", Name: "lineMate", Type: "void", Mods: []string{"public"},
				Body: []javagen.Stmt{{K: "expr", E: &call}}, OneLine: true}
			ms[t.mi].SameLine, ms[t.mi].OneLine = true, true
			ms = append(ms[:t.mi], append([]javagen.Member{mate}, ms[t.mi:]...)...)
			p.Files[t.fi].Unit.Members = ms
			tf = &p.Files[t.fi]
		}
		// a twin: a class of the same simple name in another package that declares the same method, called through an
		// import of the twin from a third class - those calls belong to the twin and must stay (the model tells them apart
		// by package only)
		if r.Intn(3) == 0 {
			var twin javagen.File
			b, _ := json.Marshal(*tf)
			json.Unmarshal(b, &twin)
			twin.Id = tf.Id + "twin"
			twin.Pkg = "twin." + tf.Pkg
			if tf.Pkg == "" {
				twin.Pkg = "twin"
			}
			for ui := range p.Files {
				u := &p.Files[ui]
				if ui == t.fi || !javaproj.Selected(*u) || u.Unit.Kind != "class" || u.Pkg == tf.Pkg {
					continue
				}
				clash := false
				for _, im := range u.Imports {
					if im.Name == tf.Unit.Name || im.Name == "*" {
						clash = true
					}
				}
				if clash {
					continue
				}
				for j := range u.Unit.Members {
					m := &u.Unit.Members[j]
					if m.Kind != "method" {
						continue
					}
					m.Params = append(m.Params, javagen.Param{Type: tf.Unit.Name, Name: "tw"})
					e := callOn("var", "tw", old)
					if r.Intn(2) == 0 {
						e = callOn("none", "", "log", callOn("var", "tw", old), callOn("var", "tw", old))
					}
					m.Body = append([]javagen.Stmt{{K: "expr", E: &e}}, m.Body...)
					u.Imports = append(u.Imports, javagen.Import{Pkg: twin.Pkg, Name: tf.Unit.Name})
					p.Files = append(p.Files, twin)
					tf = &p.Files[t.fi]
					break
				}
				break
			}
		}
		newName := []string{"z", "renamedWithAMuchLongerIdentifier", old + "2", strings.ToUpper(old[:1]) + old[1:], "ab", "größe", "数える"}[r.Intn(7)]
		if len(newName) == len(old) && newName == old {
			newName = old + "X"
		}
		c := Case{Case: fmt.Sprintf("rand-%d-%d", seed, k), Files: p.Files, Layout: p.Layout,
			Req: Req{Pkg: tf.Pkg, Cls: tf.Unit.Name, Old: old, New: newName}, Crlf: r.Intn(6) == 0, NoFinal: r.Intn(6) == 0}
		c.ThereAndBack = r.Intn(5) == 0
		if r.Intn(4) == 0 { // an earlier request of the same process, on another method of the class
			for _, m := range tf.Unit.Members {
				if m.Kind == "method" && m.Name != old {
					c.PriorOld = m.Name
					break
				}
			}
		}
		out = append(out, c)
		k++
	}
	return out
}

func main() {
	lib.Main(lib.Handler{One: one, Gen: gen, Abnormal: abnormal})
}
