package main

import (
	"encoding/xml"
	"flag"
	"fmt"
	"io"
	"os"
	"strings"

	"github.com/antlr/antlr4/runtime/Go/antlr/v4"
	groovyparser "github.com/modernizing/coca/languages/groovy"
	javaparser "github.com/modernizing/coca/languages/java"
	"github.com/modernizing/coca/pkg/application/deps"
	"verifharness/lib"
)

// `deps validate [-seed S] [-n N]`: development aid (BUILDING.md: "generated text must parse with the repo's own
// parser without syntax errors"). Renders random cases plus every section/block/notation once and counts
// syntax errors of the repo's Groovy and Java parsers and of encoding/xml. Not part of a check run.

type errCounter struct {
	*antlr.DefaultErrorListener
	n     int
	first string
}

func (e *errCounter) SyntaxError(recognizer antlr.Recognizer, offendingSymbol interface{}, line, column int, msg string, ex antlr.RecognitionException) {
	if e.n == 0 {
		e.first = fmt.Sprintf("%d:%d %s", line, column, msg)
	}
	e.n++
}

func groovyErrors(text string) (int, string) {
	ec := &errCounter{DefaultErrorListener: antlr.NewDefaultErrorListener()}
	lexer := groovyparser.NewGroovyLexer(antlr.NewInputStream(text))
	lexer.RemoveErrorListeners()
	lexer.AddErrorListener(ec)
	p := groovyparser.NewGroovyParser(antlr.NewCommonTokenStream(lexer, 0))
	p.RemoveErrorListeners()
	p.AddErrorListener(ec)
	p.CompilationUnit()
	return ec.n, ec.first
}

func javaErrors(text string) (int, string) {
	ec := &errCounter{DefaultErrorListener: antlr.NewDefaultErrorListener()}
	lexer := javaparser.NewJavaLexer(antlr.NewInputStream(text))
	lexer.RemoveErrorListeners()
	lexer.AddErrorListener(ec)
	p := javaparser.NewJavaParser(antlr.NewCommonTokenStream(lexer, 0))
	p.RemoveErrorListeners()
	p.AddErrorListener(ec)
	p.CompilationUnit()
	return ec.n, ec.first
}

func xmlErrors(text string) (int, string) {
	d := xml.NewDecoder(strings.NewReader(text))
	depth := 0
	for {
		t, err := d.Token()
		if err == io.EOF {
			break
		}
		if err != nil {
			return 1, err.Error()
		}
		switch t.(type) {
		case xml.StartElement:
			depth++
		case xml.EndElement:
			depth--
		}
	}
	if depth != 0 {
		return 1, "unbalanced"
	}
	return 0, ""
}

// `deps probe FILE...`: development aid, prints the parser's error count for each gradle file
func probe() {
	for _, f := range os.Args[2:] {
		b, _ := os.ReadFile(f)
		k, first := groovyErrors(string(b))
		fmt.Printf("%s: %d syntax errors %s\n", f, k, first)
		if os.Getenv("PROBE_NOGUARD") != "" {
			fmt.Printf("   %+v\n", project(deps.AnalysisGradleString(string(b))))
			continue
		}
		p, msg := lib.Guard(func() { fmt.Printf("   %+v\n", project(deps.AnalysisGradleString(string(b)))) })
		if p {
			fmt.Println("   PANIC", msg)
		}
	}
}

func validate() {
	fs := flag.NewFlagSet("validate", flag.ExitOnError)
	seed := fs.Int64("seed", 1, "")
	n := fs.Int("n", 300, "")
	fs.Parse(os.Args[2:])
	var cases []Case
	for _, c := range gen(*seed, *n, "quick") {
		cases = append(cases, c.(Case))
	}
	// every section / block / notation / comment kind at least once, in the canonical and in varied layouts
	for lay := 0; lay < 6; lay++ {
		pm := Manifest{Kind: "pom", Before: pomSections, After: pomSections, Layout: lay}
		for _, cm := range []string{"", "plain", "dep", "inner"} {
			pm.Entries = append(pm.Entries, Entry{Notation: "dep", Group: "org.a", Artifact: "core", Scope: "test", Version: "1.0", Comment: cm,
				Children: []string{"groupId", "artifactId", "version", "type", "classifier", "scope", "optional", "exclusions", "systemPath"}})
		}
		gm := Manifest{Kind: "gradle", Before: gradleBlocks, After: gradleBlocks, Layout: lay}
		for _, nt := range []string{"sq", "dq", "psq", "pdq", "project", "pproject", "filetree", "files", "map", "platform"} {
			for _, cm := range []string{"", "plain", "dep", "inner"} {
				e := Entry{Notation: nt, Group: "org.a", Artifact: "core", Scope: "testImplementation", Version: "1.0", Comment: cm, Children: []string{}}
				gm.Entries = append(gm.Entries, e)
				e.Version = ""
				gm.Entries = append(gm.Entries, e)
				if nt == "dq" || nt == "pdq" {
					e.Version = "${libVersion}"
					gm.Entries = append(gm.Entries, e)
				}
				if nt == "psq" || nt == "pdq" {
					e.Children = []string{"closure"}
					gm.Entries = append(gm.Entries, e)
				}
			}
		}
		ge := Manifest{Kind: "gradle", Layout: lay}
		in := Input{Manifests: []Manifest{pm, gm, ge}}
		for _, u := range []string{"class", "interface", "enum", "annotation"} {
			in.Sources = append(in.Sources, Source{Tree: "main", Unit: u, Imports: []Import{{"org.a.Api", "type"}, {"org.a.util", "star"}, {"org.a.Util.helper", "static"}}})
		}
		normalize(&in)
		cases = append(cases, Case{Case: fmt.Sprintf("all-%d", lay), Input: in})
	}
	bad, files := 0, 0
	for _, c := range cases {
		for _, m := range c.Input.Manifests {
			text := renderManifest(m)
			var k int
			var first string
			if m.Kind == "pom" {
				k, first = xmlErrors(text)
			} else {
				k, first = groovyErrors(text)
			}
			files++
			if k > 0 {
				bad++
				if bad <= 5 {
					fmt.Printf("SYNTAX %s %s: %d errors, first %s\n%s\n", c.Case, manifestPath(m), k, first, text)
				}
			}
		}
		for i, s := range c.Input.Sources {
			rel, text := renderJava(i, s)
			k, first := javaErrors(text)
			files++
			if k > 0 {
				bad++
				if bad <= 5 {
					fmt.Printf("SYNTAX %s %s: %d errors, first %s\n%s\n", c.Case, rel, k, first, text)
				}
			}
		}
	}
	fmt.Printf("validated %d rendered files of %d cases: %d with syntax errors\n", files, len(cases), bad)
	if bad > 0 {
		os.Exit(1)
	}
}
