// Harness for the build-dependency front-ends and the unused-dependency report (C19).
//
// Abstract case (shared with spec/DepsRef.tla, spec/Deps.tla):
//
//	input.manifests[] : {kind: "pom"|"gradle", dir, before[], after[], entries[], layout}
//	  entries[]       : {notation, group, artifact, scope, version, children[], comment}
//	input.sources[]   : {dir, tree: "main"|"test", unit: "class"|"interface"|"enum"|"annotation",
//	                     imports[]: {name, form: "type"|"star"|"static"}}
//
// The harness only renders this to a project tree (pom.xml / build.gradle / *.java) and
// projects what the real coca code returned. It holds no expected values.
package main

import "encoding/json"

type Entry struct {
	// pom: "dep"; gradle: "sq" | "dq" | "psq" | "pdq" | "project" | "pproject" | "filetree" | "files" | "map" | "platform"
	Notation string `json:"notation"`
	Group    string `json:"group"`
	Artifact string `json:"artifact"`
	// pom: text of <scope> ("" = no scope child); gradle: configuration name
	Scope   string `json:"scope"`
	Version string `json:"version"`
	// pom: the child elements of <dependency> in written order, out of
	//   groupId artifactId version type classifier scope optional exclusions systemPath
	// gradle: extras of the statement: "closure" (trailing { exclude ... } block)
	Children []string `json:"children"`
	// comment written just before the entry: "" | "plain" | "dep" (a commented-out dependency) | "inner" (pom: between the children)
	Comment string `json:"comment"`
}

type Manifest struct {
	Kind    string   `json:"kind"`
	Dir     string   `json:"dir"`
	Before  []string `json:"before"`
	After   []string `json:"after"`
	Entries []Entry  `json:"entries"`
	// rendering choices that carry no meaning (indentation, blank lines, padding): seed of the layout
	Layout int `json:"layout"`
	// NoBlock: a Gradle script without entries is written without any top-level `dependencies` block (plugins-only script)
	NoBlock bool `json:"noBlock"`
}

type Import struct {
	Name string `json:"name"`
	Form string `json:"form"`
}

type Source struct {
	Dir     string   `json:"dir"`
	Tree    string   `json:"tree"`
	Unit    string   `json:"unit"`
	Imports []Import `json:"imports"`
}

type Input struct {
	Manifests []Manifest `json:"manifests"`
	Sources   []Source   `json:"sources"`
}

type Case struct {
	Case  string `json:"case"`
	Input Input  `json:"input"`
	// what the TLA+ Machine computed for this input (TLC cases only); passed through untouched, never read here
	Machine json.RawMessage `json:"machine,omitempty"`
}

type Dep struct {
	Group    string `json:"group"`
	Artifact string `json:"artifact"`
	Scope    string `json:"scope"`
}

type DepList struct {
	Panic bool  `json:"panic"`
	Deps  []Dep `json:"deps"`
}

type Table struct {
	Panic      bool  `json:"panic"`
	Wellformed bool  `json:"wellformed"`
	Deps       []Dep `json:"deps"`
}

type Obs struct {
	Panic   bool      `json:"panic"`
	Timeout bool      `json:"timeout"`
	Extract []DepList `json:"extract"` // per manifest: deps.AnalysisMaven(path) / deps.AnalysisGradleString(text)
	Unused  DepList   `json:"unused"`  // deps.DepAnalysisApp.AnalysisPath(root, nodes of the real Java passes)
	Table   Table     `json:"table"`   // the `deps -p root` sub-command's table
	Note    string    `json:"note,omitempty"`
}

type Record struct {
	Case     string `json:"case"`
	Input    Input  `json:"input"`
	Observed Obs    `json:"observed"`
	// the rendered files (for humans reading a replay; TLC does not read it)
	Rendered map[string]string `json:"rendered,omitempty"`
	Machine  json.RawMessage   `json:"machine,omitempty"`
}

func normalize(in *Input) {
	if in.Manifests == nil {
		in.Manifests = []Manifest{}
	}
	if in.Sources == nil {
		in.Sources = []Source{}
	}
	for i := range in.Manifests {
		m := &in.Manifests[i]
		if m.Before == nil {
			m.Before = []string{}
		}
		if m.After == nil {
			m.After = []string{}
		}
		if m.Entries == nil {
			m.Entries = []Entry{}
		}
		for j := range m.Entries {
			if m.Entries[j].Children == nil {
				m.Entries[j].Children = []string{}
			}
		}
	}
	for i := range in.Sources {
		if in.Sources[i].Imports == nil {
			in.Sources[i].Imports = []Import{}
		}
	}
}
