package main

import (
	"fmt"
	"math/rand"
	"path/filepath"
	"strings"
)

// ----------------------------------------------------------------------------- layout

// Layout: choices that carry no meaning for the property. layout 0 is the canonical one.
type layout struct {
	r       *rand.Rand
	canon   bool
	indent  string
	nl      string
	compact bool // pom: everything of one dependency on a single line
	padText bool // pom: blank space / line breaks around text values
}

func newLayout(seed int) *layout {
	l := &layout{r: rand.New(rand.NewSource(int64(seed)*7919 + 17)), canon: seed == 0, indent: "    ", nl: "\n"}
	if seed != 0 {
		l.indent = []string{"    ", "  ", "\t", "        "}[l.r.Intn(4)]
		l.compact = l.r.Intn(6) == 0
		l.padText = l.r.Intn(8) == 0
		if l.r.Intn(10) == 0 {
			l.nl = "\r\n"
		}
	}
	return l
}

func (l *layout) blank() string {
	if l.canon || l.r.Intn(3) != 0 {
		return ""
	}
	return l.nl
}

// ----------------------------------------------------------------------------- pom.xml

func xmlText(l *layout, v string) string {
	if l.padText && l.r.Intn(2) == 0 {
		return l.nl + l.indent + l.indent + l.indent + v + " " + l.nl + l.indent + l.indent
	}
	return v
}

func pomDependency(l *layout, e Entry, depth int, exGroup, exArtifact string) string {
	var b strings.Builder
	ind := strings.Repeat(l.indent, depth)
	nl := l.nl
	if l.compact {
		ind, nl = "", ""
	}
	in2 := ind + l.indent
	if l.compact {
		in2 = ""
	}
	b.WriteString(ind + "<dependency>" + nl)
	for k, c := range e.Children {
		if e.Comment == "inner" && k == len(e.Children)/2 {
			b.WriteString(in2 + "<!-- <scope>provided</scope> managed elsewhere -->" + nl)
		}
		switch c {
		case "groupId":
			b.WriteString(in2 + "<groupId>" + xmlText(l, e.Group) + "</groupId>" + nl)
		case "artifactId":
			b.WriteString(in2 + "<artifactId>" + xmlText(l, e.Artifact) + "</artifactId>" + nl)
		case "version":
			b.WriteString(in2 + "<version>" + e.Version + "</version>" + nl)
		case "scope":
			b.WriteString(in2 + "<scope>" + xmlText(l, e.Scope) + "</scope>" + nl)
		case "type":
			b.WriteString(in2 + "<type>jar</type>" + nl)
		case "classifier":
			b.WriteString(in2 + "<classifier>sources</classifier>" + nl)
		case "optional":
			b.WriteString(in2 + "<optional>true</optional>" + nl)
		case "systemPath":
			b.WriteString(in2 + "<systemPath>${basedir}/lib/x.jar</systemPath>" + nl)
		case "exclusions":
			in3, in4 := in2+l.indent, in2+l.indent+l.indent
			if l.compact {
				in3, in4 = "", ""
			}
			b.WriteString(in2 + "<exclusions>" + nl)
			b.WriteString(in3 + "<exclusion>" + nl)
			b.WriteString(in4 + "<groupId>" + exGroup + "</groupId>" + nl)
			b.WriteString(in4 + "<artifactId>" + exArtifact + "</artifactId>" + nl)
			b.WriteString(in3 + "</exclusion>" + nl)
			b.WriteString(in2 + "</exclusions>" + nl)
		default:
			panic("harness: unknown pom child " + c)
		}
	}
	b.WriteString(ind + "</dependency>" + l.nl)
	return b.String()
}

func pomSection(l *layout, kind string) string {
	i1, i2, i3, i4, i5 := l.indent, strings.Repeat(l.indent, 2), strings.Repeat(l.indent, 3), strings.Repeat(l.indent, 4), strings.Repeat(l.indent, 5)
	nl := l.nl
	switch kind {
	case "coords":
		return i1 + "<groupId>com.example.app</groupId>" + nl + i1 + "<artifactId>demo-app</artifactId>" + nl + i1 + "<version>0.0.1-SNAPSHOT</version>" + nl + i1 + "<packaging>jar</packaging>" + nl
	case "parent":
		return i1 + "<parent>" + nl + i2 + "<groupId>org.parent.boot</groupId>" + nl + i2 + "<artifactId>starter-parent</artifactId>" + nl + i2 + "<version>2.2.2.RELEASE</version>" + nl +
			i2 + "<relativePath/> <!-- lookup parent from repository -->" + nl + i1 + "</parent>" + nl
	case "meta":
		return i1 + "<name>demo &amp; more</name>" + nl + i1 + "<description>Demo project</description>" + nl + i1 + "<url>http://example.org/demo</url>" + nl
	case "properties":
		return i1 + "<properties>" + nl + i2 + "<java.version>1.8</java.version>" + nl + i2 + "<lib.version>3.1.4</lib.version>" + nl + i1 + "</properties>" + nl
	case "depMgmt":
		return i1 + "<dependencyManagement>" + nl + i2 + "<dependencies>" + nl + i3 + "<dependency>" + nl + i4 + "<groupId>org.bom.cloud</groupId>" + nl + i4 + "<artifactId>cloud-dependencies</artifactId>" + nl +
			i4 + "<version>${lib.version}</version>" + nl + i4 + "<type>pom</type>" + nl + i4 + "<scope>import</scope>" + nl + i3 + "</dependency>" + nl + i2 + "</dependencies>" + nl + i1 + "</dependencyManagement>" + nl
	case "build":
		return i1 + "<build>" + nl + i2 + "<plugins>" + nl + i3 + "<plugin>" + nl + i4 + "<groupId>org.plugin.tools</groupId>" + nl + i4 + "<artifactId>tool-maven-plugin</artifactId>" + nl + i4 + "<version>2.2.1</version>" + nl +
			i4 + "<extensions>true</extensions>" + nl + i4 + "<configuration>" + nl + i5 + "<testFramework>JUNIT5</testFramework>" + nl + i4 + "</configuration>" + nl +
			i4 + "<dependencies>" + nl + i5 + "<dependency>" + nl + i5 + l.indent + "<groupId>org.plugin.dep</groupId>" + nl + i5 + l.indent + "<artifactId>plugin-dep</artifactId>" + nl + i5 + l.indent + "<version>1.0</version>" + nl + i5 + "</dependency>" + nl + i4 + "</dependencies>" + nl +
			i3 + "</plugin>" + nl + i2 + "</plugins>" + nl + i1 + "</build>" + nl
	case "profiles":
		return i1 + "<profiles>" + nl + i2 + "<profile>" + nl + i3 + "<id>ci</id>" + nl + i3 + "<dependencies>" + nl + i4 + "<dependency>" + nl + i5 + "<groupId>org.profile.only</groupId>" + nl + i5 + "<artifactId>profile-lib</artifactId>" + nl + i5 + "<scope>test</scope>" + nl +
			i4 + "</dependency>" + nl + i3 + "</dependencies>" + nl + i2 + "</profile>" + nl + i1 + "</profiles>" + nl
	case "modules":
		return i1 + "<modules>" + nl + i2 + "<module>core</module>" + nl + i2 + "<module>web</module>" + nl + i1 + "</modules>" + nl
	case "repositories":
		return i1 + "<repositories>" + nl + i2 + "<repository>" + nl + i3 + "<id>central-mirror</id>" + nl + i3 + "<url>https://repo.example.org/maven2</url>" + nl + i2 + "</repository>" + nl + i1 + "</repositories>" + nl
	case "reporting":
		// element names HTML knows as void elements (link, param, base, meta) are ordinary elements of a pom
		return i1 + "<reporting>" + nl + i2 + "<plugins>" + nl + i3 + "<plugin>" + nl + i4 + "<groupId>org.plugin.docs</groupId>" + nl + i4 + "<artifactId>docs-maven-plugin</artifactId>" + nl +
			i4 + "<configuration>" + nl + i5 + "<links>" + nl + i5 + l.indent + "<link>https://docs.example.org/api/</link>" + nl + i5 + "</links>" + nl +
			i5 + "<additionalOptions>" + nl + i5 + l.indent + "<param>-Xdoclint:none</param>" + nl + i5 + "</additionalOptions>" + nl +
			i5 + "<base>.</base>" + nl + i5 + "<meta>generated</meta>" + nl + i4 + "</configuration>" + nl +
			i3 + "</plugin>" + nl + i2 + "</plugins>" + nl + i1 + "</reporting>" + nl
	case "comment":
		return i1 + "<!-- <dependencies><dependency><groupId>org.commented.out</groupId><artifactId>gone</artifactId></dependency></dependencies> -->" + nl
	}
	panic("harness: unknown pom section " + kind)
}

func renderPom(m Manifest) string {
	l := newLayout(m.Layout)
	var b strings.Builder
	nl := l.nl
	b.WriteString(`<?xml version="1.0" encoding="UTF-8"?>` + nl)
	b.WriteString(`<project xmlns="http://maven.apache.org/POM/4.0.0" xmlns:xsi="http://www.w3.org/2001/XMLSchema-instance"` + nl +
		l.indent + `xsi:schemaLocation="http://maven.apache.org/POM/4.0.0 https://maven.apache.org/xsd/maven-4.0.0.xsd">` + nl)
	b.WriteString(l.indent + "<modelVersion>4.0.0</modelVersion>" + nl)
	for _, s := range m.Before {
		b.WriteString(pomSection(l, s))
		b.WriteString(l.blank())
	}
	if len(m.Entries) == 0 && l.r.Intn(2) == 0 && !l.canon {
		b.WriteString(l.indent + "<dependencies/>" + nl)
	} else {
		b.WriteString(l.indent + "<dependencies>" + nl)
		for i, e := range m.Entries {
			ind := strings.Repeat(l.indent, 2)
			switch e.Comment {
			case "plain":
				b.WriteString(ind + "<!-- " + fmt.Sprintf("needed by module %d", i) + " -->" + nl)
			case "dep":
				b.WriteString(ind + "<!--" + nl + ind + "<dependency>" + nl + ind + l.indent + "<groupId>org.commented.out</groupId>" + nl + ind + l.indent + "<artifactId>old-lib</artifactId>" + nl + ind + "</dependency>" + nl + ind + "-->" + nl)
			}
			b.WriteString(pomDependency(l, e, 2, "org.excluded.group", "excluded-artifact"))
			b.WriteString(l.blank())
		}
		b.WriteString(l.indent + "</dependencies>" + nl)
	}
	for _, s := range m.After {
		b.WriteString(l.blank())
		b.WriteString(pomSection(l, s))
	}
	b.WriteString("</project>" + nl)
	return b.String()
}

// ----------------------------------------------------------------------------- build.gradle

func gradleCoord(e Entry) string {
	s := e.Group + ":" + e.Artifact
	if e.Version != "" {
		s += ":" + e.Version
	}
	return s
}

func gradleEntry(l *layout, e Entry) string {
	ind := l.indent
	nl := l.nl
	closure := ""
	for _, c := range e.Children {
		if c == "closure" {
			closure = " {" + nl + ind + ind + "exclude group: 'org.excluded.group', module: 'excluded-artifact'" + nl + ind + ind + "exclude module: 'other-excluded'" + nl + ind + "}"
		}
	}
	var s string
	switch e.Notation {
	case "sq":
		s = e.Scope + " '" + gradleCoord(e) + "'"
	case "dq":
		s = e.Scope + ` "` + gradleCoord(e) + `"`
	case "psq":
		s = e.Scope + "('" + gradleCoord(e) + "')" + closure
	case "pdq":
		s = e.Scope + `("` + gradleCoord(e) + `")` + closure
	case "project":
		s = e.Scope + " project(':" + e.Artifact + "')"
	case "pproject":
		s = e.Scope + "(project(':" + e.Artifact + "'))"
	case "filetree":
		s = e.Scope + " fileTree(dir: 'libs', include: ['*.jar'])"
	case "files":
		s = e.Scope + " files('libs/" + e.Artifact + ".jar')"
	case "map":
		s = e.Scope + " group: '" + e.Group + "', name: '" + e.Artifact + "'"
		if e.Version != "" {
			s += ", version: '" + e.Version + "'"
		}
	case "platform":
		s = e.Scope + " platform('" + gradleCoord(e) + "')"
	default:
		panic("harness: unknown gradle notation " + e.Notation)
	}
	pre := ""
	switch e.Comment {
	case "plain":
		pre = ind + "// required at runtime" + nl
	case "dep":
		pre = ind + "// implementation 'org.commented.out:old-lib:1.0'" + nl
	case "inner":
		pre = ind + "/* testImplementation 'org.commented.out:old-test:2.0'" + nl + ind + "   compile \"org.commented.out:older:0.1\" */" + nl
	}
	return pre + ind + s + nl
}

func gradleBlock(l *layout, kind string) string {
	i1, i2, i3 := l.indent, l.indent+l.indent, l.indent+l.indent+l.indent
	nl := l.nl
	switch kind {
	case "plugins":
		return "plugins {" + nl + i1 + "id 'java'" + nl + i1 + "id 'org.springframework.boot' version '2.2.2.RELEASE'" + nl + "}" + nl
	case "apply":
		return "apply plugin: 'io.spring.dependency-management'" + nl
	case "coords":
		return "group = 'com.example.app'" + nl + "version = '1.0.0'" + nl + "sourceCompatibility = JavaVersion.VERSION_11" + nl
	case "repositories":
		return "repositories {" + nl + i1 + "mavenCentral()" + nl + i1 + "jcenter()" + nl + "}" + nl
	case "repourl": // a URL inside a string literal: its `//` is not a comment
		return "repositories {" + nl + i1 + "maven {" + nl + i2 + "url 'https://repo.spring.io/milestone'" + nl + i1 + "}" + nl + i1 + "maven { url \"http://nexus.local//repo\" }" + nl + "}" + nl
	case "buildscript":
		return "buildscript {" + nl + i1 + "repositories {" + nl + i2 + "mavenCentral()" + nl + i1 + "}" + nl + i1 + "dependencies {" + nl + i2 + "classpath 'org.buildscript.only:build-plugin:1.0'" + nl + i1 + "}" + nl + "}" + nl
	case "configurations":
		return "configurations {" + nl + i1 + "developmentOnly" + nl + i1 + "runtimeClasspath {" + nl + i2 + "extendsFrom developmentOnly" + nl + i1 + "}" + nl + "}" + nl
	case "ext":
		return "ext {" + nl + i1 + "libVersion = '3.1.4'" + nl + "}" + nl
	case "test":
		return "test {" + nl + i1 + "useJUnitPlatform()" + nl + "}" + nl
	case "task":
		return "task hello {" + nl + i1 + "doLast {" + nl + i2 + "println 'hello'" + nl + i1 + "}" + nl + "}" + nl
	case "jar":
		return "jar {" + nl + i1 + "enabled = true" + nl + "}" + nl
	case "comment":
		return "// dependencies { implementation 'org.commented.out:gone:1.0' }" + nl + "/*" + nl + " dependencies {" + nl + i3 + "compile 'org.commented.out:gone2:1.0'" + nl + " }" + nl + "*/" + nl
	}
	panic("harness: unknown gradle block " + kind)
}

func renderGradle(m Manifest) string {
	l := newLayout(m.Layout)
	var b strings.Builder
	for _, s := range m.Before {
		b.WriteString(gradleBlock(l, s))
		b.WriteString(l.nl)
	}
	if m.NoBlock && len(m.Entries) == 0 {
		b.WriteString("plugins {" + l.nl + "    id 'java'" + l.nl + "}" + l.nl)
	} else {
		b.WriteString("dependencies {" + l.nl)
		for _, e := range m.Entries {
			b.WriteString(gradleEntry(l, e))
			b.WriteString(l.blank())
		}
		b.WriteString("}" + l.nl)
	}
	for _, s := range m.After {
		b.WriteString(l.nl)
		b.WriteString(gradleBlock(l, s))
	}
	return b.String()
}

// ----------------------------------------------------------------------------- Java sources

func renderJava(i int, s Source) (rel string, text string) {
	name := fmt.Sprintf("T%d", i)
	pkg := "app." + s.Tree
	if s.Dir != "" {
		pkg = "app." + strings.ReplaceAll(s.Dir, "-", "") + "." + s.Tree
	}
	var b strings.Builder
	b.WriteString("package " + pkg + ";\n\n")
	for _, im := range s.Imports {
		switch im.Form {
		case "star":
			b.WriteString("import " + im.Name + ".*;\n")
		case "static":
			b.WriteString("import static " + im.Name + ";\n")
		default:
			b.WriteString("import " + im.Name + ";\n")
		}
	}
	b.WriteString("\n")
	switch s.Unit {
	case "interface":
		b.WriteString("public interface " + name + " {\n    void run();\n}\n")
	case "enum":
		b.WriteString("public enum " + name + " {\n    FIRST, SECOND\n}\n")
	case "annotation":
		b.WriteString("public @interface " + name + " {\n}\n")
	default:
		b.WriteString("public class " + name + " {\n    private int count;\n\n    public int next() {\n        return count + 1;\n    }\n}\n")
	}
	rel = filepath.Join(s.Dir, "src", s.Tree, "java", filepath.FromSlash(strings.ReplaceAll(pkg, ".", "/")), name+".java")
	return rel, b.String()
}

func manifestPath(m Manifest) string {
	if m.Kind == "pom" {
		return filepath.Join(m.Dir, "pom.xml")
	}
	return filepath.Join(m.Dir, "build.gradle")
}

func renderManifest(m Manifest) string {
	if m.Kind == "pom" {
		return renderPom(m)
	}
	return renderGradle(m)
}
