package main

import (
	"fmt"
	"math/rand"
)

// direction (B): seeded random abstract cases, wider than TLC's constants (more entries, real-looking
// coordinates, several manifests / modules, all section kinds, layouts, comments).

var groupPool = []string{
	"org.a", "org.ab", "org.a.core", "com.acme", "com.acme.web", "io.x", "mysql", "junit",
	"org.springframework.boot", "org.springframework.cloud", "net.sf.json-lib", "commons-io", "javax.inject", "a.b",
	"org.projectlombok", "com.google.guava", "io.rest-assured", "org.flywaydb",
}

var artifactPool = []string{
	"core", "spring-boot-starter-web", "lib.util", "x_y2", "guava", "mysql-connector-java", "junit-jupiter-api",
	"flyway-core", "a", "starter-test", "json-lib", "commons-io",
}

var pomScopes = []string{"", "", "", "test", "runtime", "provided", "compile", "system", "import"}
var gradleConfs = []string{"implementation", "implementation", "api", "compileOnly", "runtimeOnly", "testImplementation", "testRuntimeOnly",
	"annotationProcessor", "developmentOnly", "compile", "testCompile", "integrationTestImplementation"}
var pomSections = []string{"coords", "parent", "meta", "properties", "depMgmt", "build", "profiles", "modules", "repositories", "comment", "reporting"}
var gradleBlocks = []string{"plugins", "apply", "coords", "repositories", "repourl", "buildscript", "configurations", "ext", "test", "task", "jar", "comment"}

func isJavaPackage(g string) bool {
	for _, c := range g {
		if !(c == '.' || c == '_' || (c >= 'a' && c <= 'z') || (c >= 'A' && c <= 'Z') || (c >= '0' && c <= '9')) {
			return false
		}
	}
	return true
}

func pick(r *rand.Rand, xs []string) string { return xs[r.Intn(len(xs))] }

func subset(r *rand.Rand, xs []string, max int) []string {
	out := []string{}
	n := r.Intn(max + 1)
	perm := r.Perm(len(xs))
	for i := 0; i < n && i < len(xs); i++ {
		out = append(out, xs[perm[i]])
	}
	return out
}

func genPomEntry(r *rand.Rand, groups []string) Entry {
	e := Entry{Notation: "dep", Group: pick(r, groups), Artifact: pick(r, artifactPool), Scope: pick(r, pomScopes)}
	rest := []string{}
	if r.Intn(2) == 0 {
		e.Version = pick(r, []string{"1.0", "2.2.2.RELEASE", "${lib.version}", "[1.0,2.0)", "0.12.0"})
		rest = append(rest, "version")
	}
	if e.Scope != "" {
		rest = append(rest, "scope")
	}
	for _, x := range []string{"type", "classifier", "optional", "exclusions"} {
		if r.Intn(5) == 0 {
			rest = append(rest, x)
		}
	}
	if e.Scope == "system" {
		rest = append(rest, "systemPath")
	}
	e.Children = []string{"groupId", "artifactId"}
	e.Children = append(e.Children, rest...)
	switch r.Intn(5) {
	case 0: // any order of the children
		r.Shuffle(len(e.Children), func(i, j int) { e.Children[i], e.Children[j] = e.Children[j], e.Children[i] })
	case 1: // artifactId first
		e.Children[0], e.Children[1] = e.Children[1], e.Children[0]
	case 2: // exclusions / scope before the coordinates
		r.Shuffle(len(rest), func(i, j int) { rest[i], rest[j] = rest[j], rest[i] })
		e.Children = append(append([]string{}, rest...), "groupId", "artifactId")
	}
	switch r.Intn(8) {
	case 0:
		e.Comment = "plain"
	case 1:
		e.Comment = "dep"
	case 2:
		e.Comment = "inner"
	}
	return e
}

func genGradleEntry(r *rand.Rand, groups []string, other bool) Entry {
	e := Entry{Group: pick(r, groups), Artifact: pick(r, artifactPool), Scope: pick(r, gradleConfs), Children: []string{}}
	e.Notation = pick(r, []string{"sq", "sq", "sq", "dq", "dq", "psq", "psq", "pdq"})
	if other && r.Intn(3) == 0 {
		e.Notation = pick(r, []string{"project", "pproject", "filetree", "files", "map", "platform"})
	}
	if r.Intn(5) < 3 {
		e.Version = pick(r, []string{"1.0", "2.2.2.RELEASE", "0.12.0", "1.+", "6.0.0"})
		if (e.Notation == "dq" || e.Notation == "pdq") && r.Intn(3) == 0 {
			e.Version = "${libVersion}"
		}
	}
	if (e.Notation == "psq" || e.Notation == "pdq") && r.Intn(3) == 0 {
		e.Children = []string{"closure"}
	}
	switch r.Intn(9) {
	case 0:
		e.Comment = "plain"
	case 1:
		e.Comment = "dep"
	case 2:
		e.Comment = "inner"
	}
	return e
}

func genImports(r *rand.Rand, declared []string, density int) []Import {
	out := []Import{}
	tails := []string{"Api", "util.Helper", "internal.impl.Thing", "Main", "model.Item"}
	for _, g := range declared {
		if !isJavaPackage(g) || r.Intn(100) >= density {
			continue
		}
		switch r.Intn(12) {
		case 0:
			out = append(out, Import{Name: g + "." + pick(r, []string{"util", "api", "model"}), Form: "star"})
		case 1:
			out = append(out, Import{Name: g, Form: "star"})
		case 2:
			out = append(out, Import{Name: g + ".Util.helper", Form: "static"})
		case 3: // shapes on which the readings of "occurs in" differ (Reference: free)
			out = append(out, Import{Name: pick(r, []string{"my" + g + ".Thing", "com.vendor." + g + ".Thing", g + "x.Thing"}), Form: "type"})
		default:
			out = append(out, Import{Name: g + "." + pick(r, tails), Form: "type"})
		}
	}
	for _, n := range subset(r, []string{"java.util.List", "java.io.File", "javax.annotation.Nullable", "org.unrelated.Thing", "java.util.Map"}, 2) {
		out = append(out, Import{Name: n, Form: "type"})
	}
	r.Shuffle(len(out), func(i, j int) { out[i], out[j] = out[j], out[i] })
	return out
}

func gen(seed int64, n int, tier string) []interface{} {
	r := rand.New(rand.NewSource(seed*104729 + 7))
	var out []interface{}
	for k := 0; k < n; k++ {
		in := Input{Manifests: []Manifest{}, Sources: []Source{}}
		// a working set of groups for this project (small, so that collisions and shared groups happen)
		groups := subset(r, groupPool, 6)
		if len(groups) == 0 {
			groups = []string{"org.a"}
		}
		nman := 1
		if r.Intn(5) == 0 {
			nman = 2 + r.Intn(2)
		}
		// a module script with dependencies analysed before a plugins-only script of the same build
		pluginsOnlyLast := r.Intn(8) == 0
		if pluginsOnlyLast {
			nman = 2
		}
		dirs := []string{"", "core", "web-app"}
		declared := []string{}
		for mi := 0; mi < nman; mi++ {
			m := Manifest{Dir: dirs[mi], Layout: r.Intn(1000)}
			if r.Intn(2) == 0 {
				m.Kind = "pom"
			} else {
				m.Kind = "gradle"
			}
			ne := r.Intn(7)
			if r.Intn(6) == 0 {
				ne = 6 + r.Intn(10)
			}
			if pluginsOnlyLast {
				m.Kind = "gradle"
				if mi == 0 {
					ne = 1 + r.Intn(4)
				} else {
					ne = 0
					m.NoBlock = true
				}
			} else if m.Kind == "gradle" && ne == 0 {
				m.NoBlock = r.Intn(2) == 0
			}
			other := r.Intn(3) == 0
			if m.Kind == "pom" {
				m.Before = subset(r, pomSections, 4)
				m.After = subset(r, pomSections, 3)
				for i := 0; i < ne; i++ {
					m.Entries = append(m.Entries, genPomEntry(r, groups))
				}
			} else {
				m.Before = subset(r, gradleBlocks, 4)
				m.After = subset(r, gradleBlocks, 3)
				for i := 0; i < ne; i++ {
					m.Entries = append(m.Entries, genGradleEntry(r, groups, other))
				}
			}
			if r.Intn(10) == 0 && len(m.Entries) > 1 { // the same declaration twice
				m.Entries = append(m.Entries, m.Entries[r.Intn(len(m.Entries))])
			}
			for _, e := range m.Entries {
				declared = append(declared, e.Group)
			}
			in.Manifests = append(in.Manifests, m)
		}
		ns := r.Intn(5)
		density := []int{0, 15, 40, 70, 100}[r.Intn(5)]
		for si := 0; si < ns; si++ {
			s := Source{Dir: dirs[r.Intn(nman)], Tree: pick(r, []string{"main", "main", "test"}),
				Unit: pick(r, []string{"class", "class", "class", "interface", "enum", "annotation"})}
			s.Imports = genImports(r, dedup(declared), density)
			in.Sources = append(in.Sources, s)
		}
		normalize(&in)
		out = append(out, Case{Case: fmt.Sprintf("rand-%d-%d", seed, k), Input: in})
	}
	return out
}

func dedup(xs []string) []string {
	seen := map[string]bool{}
	out := []string{}
	for _, x := range xs {
		if !seen[x] {
			seen[x] = true
			out = append(out, x)
		}
	}
	return out
}
