package main

import (
	"bytes"
	"context"
	"encoding/json"
	"fmt"
	"os"
	"os/exec"
	"path/filepath"
	"strconv"
	"strings"
	"time"

	depcmd "github.com/modernizing/coca/analysis/dep/app"
	"github.com/modernizing/coca/pkg/adapter/cocafile"
	"github.com/modernizing/coca/pkg/application/analysis/javaapp"
	"github.com/modernizing/coca/pkg/application/deps"
	"github.com/modernizing/coca/pkg/domain/core_domain"

	"verifharness/lib"
)

func project(ds []core_domain.CodeDependency) []Dep {
	out := []Dep{}
	for _, d := range ds {
		out = append(out, Dep{Group: d.GroupId, Artifact: d.ArtifactId, Scope: d.Scope})
	}
	return out
}

// strict reader of the table the `deps` sub-command prints:
//
//	unused
//	|  GROUPID  | ARTIFACTID | SCOPE |
//	|-----------|------------|-------|
//	| g         | a          | s     |
func parseTable(s string) (ok bool, rows []Dep) {
	rows = []Dep{}
	lines := strings.Split(strings.ReplaceAll(s, "\r\n", "\n"), "\n")
	for len(lines) > 0 && lines[len(lines)-1] == "" {
		lines = lines[:len(lines)-1]
	}
	if len(lines) < 3 || lines[0] != "unused" {
		return false, rows
	}
	cells := func(ln string) ([]string, bool) {
		if !strings.HasPrefix(ln, "|") || !strings.HasSuffix(ln, "|") {
			return nil, false
		}
		parts := strings.Split(ln[1:len(ln)-1], "|")
		for i := range parts {
			parts[i] = strings.TrimSpace(parts[i])
		}
		return parts, true
	}
	h, hok := cells(lines[1])
	if !hok || len(h) != 3 || strings.ToUpper(h[0]) != "GROUPID" || strings.ToUpper(h[1]) != "ARTIFACTID" || strings.ToUpper(h[2]) != "SCOPE" {
		return false, rows
	}
	if strings.Trim(lines[2], "|-") != "" {
		return false, rows
	}
	ok = true
	for _, ln := range lines[3:] {
		c, cok := cells(ln)
		if !cok || len(c) != 3 {
			ok = false
			continue
		}
		rows = append(rows, Dep{Group: c[0], Artifact: c[1], Scope: c[2]})
	}
	return ok, rows
}

func emptyObs(n int) Obs {
	o := Obs{Extract: []DepList{}, Unused: DepList{Deps: []Dep{}}, Table: Table{Deps: []Dep{}}}
	for i := 0; i < n; i++ {
		o.Extract = append(o.Extract, DepList{Deps: []Dep{}})
	}
	return o
}

func short(s string) string {
	if len(s) > 200 {
		return s[:200]
	}
	return s
}

// writes the project tree, returns root dir and the rendered files (relative path -> text)
func materialize(in Input) (root string, files map[string]string, cleanup func()) {
	base := os.Getenv("VERIF_SCRATCH")
	if base == "" {
		base = os.TempDir()
	}
	top, err := os.MkdirTemp(base, "deps-case-")
	if err != nil {
		panic(err)
	}
	root = filepath.Join(top, "proj")
	files = map[string]string{}
	for _, m := range in.Manifests {
		files[manifestPath(m)] = renderManifest(m)
	}
	for i, s := range in.Sources {
		rel, text := renderJava(i, s)
		files[rel] = text
	}
	if err := os.MkdirAll(root, 0o755); err != nil {
		panic(err)
	}
	for rel, text := range files {
		p := filepath.Join(root, rel)
		if err := os.MkdirAll(filepath.Dir(p), 0o755); err != nil {
			panic(err)
		}
		if err := os.WriteFile(p, []byte(text), 0o644); err != nil {
			panic(err)
		}
	}
	cwd := filepath.Join(top, "cwd")
	os.MkdirAll(cwd, 0o755)
	os.Chdir(cwd)
	os.Setenv("TMPDIR", cwd)
	return root, files, func() { os.Chdir(base); os.RemoveAll(top) }
}

func one(raw json.RawMessage) interface{} {
	var c Case
	if err := json.Unmarshal(raw, &c); err != nil {
		panic(err)
	}
	normalize(&c.Input)
	rec := Record{Case: c.Case, Input: c.Input, Machine: c.Machine}
	root, files, cleanup := materialize(c.Input)
	defer cleanup()
	rec.Rendered = files
	o := emptyObs(len(c.Input.Manifests))
	var notes []string

	// 1. the two front-ends, one manifest at a time
	for i, m := range c.Input.Manifests {
		m := m
		p, msg := lib.Guard(func() {
			var got []core_domain.CodeDependency
			if m.Kind == "pom" {
				got = deps.AnalysisMaven(filepath.Join(root, manifestPath(m)))
			} else {
				got = deps.AnalysisGradleString(files[manifestPath(m)])
			}
			o.Extract[i].Deps = project(got)
		})
		if p {
			o.Extract[i] = DepList{Panic: true, Deps: []Dep{}}
			notes = append(notes, fmt.Sprintf("extract[%d]: %s", i, short(msg)))
		}
	}

	// 2. the unused report through the application API, nodes from the real Java passes (as the sub-command does)
	p, msg := lib.Guard(func() {
		jfiles := cocafile.GetFilesWithFilter(root, cocafile.JavaFileFilter)
		identifierApp := javaapp.NewJavaIdentifierApp()
		iNodes := identifierApp.AnalysisFiles(jfiles)
		callApp := javaapp.NewJavaFullApp()
		classNodes := callApp.AnalysisFiles(iNodes, jfiles)
		app := deps.NewDepApp()
		o.Unused.Deps = project(app.AnalysisPath(root, classNodes))
	})
	if p {
		o.Unused = DepList{Panic: true, Deps: []Dep{}}
		notes = append(notes, "unused: "+short(msg))
	}

	// 3. the sub-command itself
	p, msg = lib.Guard(func() {
		var buf bytes.Buffer
		cmd := depcmd.NewRootCmd(&buf)
		cmd.SetArgs([]string{"deps", "-p", root})
		if err := cmd.Execute(); err != nil {
			panic(err)
		}
		ok, rows := parseTable(buf.String())
		o.Table.Wellformed = ok
		o.Table.Deps = rows
		if !ok {
			notes = append(notes, "table: "+short(buf.String()))
		}
	})
	if p {
		o.Table = Table{Panic: true, Deps: []Dep{}}
		notes = append(notes, "table: "+short(msg))
	}

	for _, e := range o.Extract {
		o.Panic = o.Panic || e.Panic
	}
	o.Panic = o.Panic || o.Unused.Panic || o.Table.Panic
	o.Note = strings.Join(notes, " | ")
	rec.Observed = o
	return rec
}

// A case normally takes about a second. When its process exceeds the per-case timeout the machine may simply have
// been stalled (shared, oversubscribed hosts): the case is run once more, alone, with a long timeout, and only a
// second timeout is recorded as an observation.
func retry(raw json.RawMessage) (json.RawMessage, bool) {
	self, err := os.Executable()
	if err != nil {
		return nil, false
	}
	ctx, cancel := context.WithTimeout(context.Background(), 5*time.Minute)
	defer cancel()
	cmd := exec.CommandContext(ctx, self, "one")
	cmd.Stdin = bytes.NewReader(raw)
	var so bytes.Buffer
	cmd.Stdout = &so
	if err := cmd.Run(); err != nil || ctx.Err() != nil {
		return nil, false
	}
	out := bytes.TrimSpace(so.Bytes())
	if len(out) == 0 || !json.Valid(out) {
		return nil, false
	}
	return json.RawMessage(out), true
}

func abnormal(raw json.RawMessage, timeout bool, stderr string) interface{} {
	if timeout {
		if rec, ok := retry(raw); ok {
			return rec
		}
	}
	var c Case
	json.Unmarshal(raw, &c)
	normalize(&c.Input)
	o := emptyObs(len(c.Input.Manifests))
	o.Timeout = timeout
	o.Panic = !timeout
	for i := range o.Extract {
		o.Extract[i].Panic = true
	}
	o.Unused.Panic = true
	o.Table.Panic = true
	o.Note = short(stderr)
	return Record{Case: c.Case, Input: c.Input, Observed: o, Machine: c.Machine}
}

func main() {
	if len(os.Args) > 1 && os.Args[1] == "validate" {
		validate()
		return
	}
	if len(os.Args) > 1 && os.Args[1] == "probe" {
		probe()
		return
	}
	caseTimeout := 60 * time.Second
	if ms, err := strconv.Atoi(os.Getenv("DEPS_CASE_TIMEOUT_MS")); err == nil && ms > 0 { // development aid: exercise the retry path
		caseTimeout = time.Duration(ms) * time.Millisecond
	}
	lib.Main(lib.Handler{One: one, Gen: gen, Abnormal: abnormal, CaseTimeout: caseTimeout})
}
