// Harness for the cloc suite (C16): renders an abstract tree (immediate sub-directories, files with a
// language and a known number of code / comment / blank lines) into a scratch directory, runs the
// real coca binary (`coca cloc DIR --by-directory`, `coca cloc DIR --top-file --top-size N`, one OS
// process per command, fresh coca_reporter for each), and projects stdout, coca_reporter/cloc.csv and
// coca_reporter/sort_cloc.json into abstract tables. No expected values here: TLC (ClocRef!Diff) judges.
package main

import (
	"bytes"
	"context"
	"encoding/csv"
	"encoding/json"
	"fmt"
	"os"
	"os/exec"
	"path/filepath"
	"strconv"
	"strings"
	"time"

	"verifharness/lib"
)

type File struct {
	Dir     string `json:"dir"`  // "" = directly in DIR, else the name of an immediate sub-directory
	Path    string `json:"path"` // path below dir (slash form)
	Lang    string `json:"lang"`
	Ext     string `json:"ext"`
	Code    int    `json:"code"`
	Comment int    `json:"comment"`
	Blank   int    `json:"blank"`
	Lay     int    `json:"lay"` // layout seed: interleaving, comment style, blank style, final newline
}

type Input struct {
	Root  string   `json:"root"`
	Modes []string `json:"modes"`
	Ext   []string `json:"ext"`
	Top   int      `json:"top"`
	Dirs  []string `json:"dirs"`
	Files []File   `json:"files"`
	// Prior: the same command has been run before, in the same working directory (so its report directory is still
	// there), on an earlier state of DIR in which every sub-directory - the now empty ones too - held one more file
	// and the root one file of a language the tree no longer has. The observation is the SECOND run's.
	Prior bool `json:"prior"`
}

type Case struct {
	Case  string `json:"case"`
	Input Input  `json:"input"`
}

type Row struct {
	Name    string `json:"name"`
	Summary int    `json:"summary"`
	Cells   []int  `json:"cells"`
}

type Table struct {
	Ok     bool     `json:"ok"`
	Header []string `json:"header"`
	Rows   []Row    `json:"rows"`
	Other  []string `json:"other"` // lines that are not part of the table (progress chatter)
}

type ByDir struct {
	Ran    bool   `json:"ran"`
	Exit   int    `json:"exit"`
	Stdout Table  `json:"stdout"`
	Csv    Table  `json:"csv"`
	Note   string `json:"note,omitempty"`
}

type TopRow struct {
	Code       int    `json:"code"`
	Complexity int    `json:"complexity"`
	Loc        string `json:"loc"`
}

type TopTable struct {
	Lang string   `json:"lang"`
	Rows []TopRow `json:"rows"`
}

type JFile struct {
	Loc     string `json:"loc"`
	Code    int    `json:"code"`
	Comment int    `json:"comment"`
	Blank   int    `json:"blank"`
	Lines   int    `json:"lines"`
}

type JLang struct {
	Lang  string  `json:"lang"`
	Files []JFile `json:"files"`
}

type Top struct {
	Ran      bool       `json:"ran"`
	Exit     int        `json:"exit"`
	TablesOk bool       `json:"tablesok"`
	JsonOk   bool       `json:"jsonok"`
	Tables   []TopTable `json:"tables"`
	Json     []JLang    `json:"json"`
	Note     string     `json:"note,omitempty"`
}

type Obs struct {
	Panic bool  `json:"panic"`
	ByDir ByDir `json:"bydir"`
	Top   Top   `json:"top"`
}

type Facts struct {
	Root string `json:"root"` // the DIR argument literally passed
}

type Record struct {
	Case     string `json:"case"`
	Input    Input  `json:"input"`
	Facts    Facts  `json:"facts"`
	Observed Obs    `json:"observed"`
}

func emptyTable() Table { return Table{Header: []string{}, Rows: []Row{}, Other: []string{}} }

func emptyObs() Obs {
	return Obs{ByDir: ByDir{Stdout: emptyTable(), Csv: emptyTable()},
		Top: Top{Tables: []TopTable{}, Json: []JLang{}}}
}

func normalize(c *Case) {
	in := &c.Input
	if in.Modes == nil {
		in.Modes = []string{"bydir", "top"}
	}
	if in.Ext == nil {
		in.Ext = []string{}
	}
	if in.Dirs == nil {
		in.Dirs = []string{}
	}
	if in.Files == nil {
		in.Files = []File{}
	}
	if in.Root == "" {
		in.Root = "tree"
	}
}

func short(s string, n int) string {
	if len(s) > n {
		return s[len(s)-n:]
	}
	return s
}

func has(l []string, s string) bool {
	for _, x := range l {
		if x == s {
			return true
		}
	}
	return false
}

// ---------------------------------------------------------------------------------------------
// running the real command

type runResult struct {
	exit   int
	stdout string
	stderr string
}

func coca() string {
	bin := os.Getenv("VERIF_COCA")
	if bin == "" {
		fmt.Fprintln(os.Stderr, "harness: VERIF_COCA not set")
		os.Exit(2)
	}
	return bin
}

// One coca command. A command that does not finish within cmdTimeout ends the run with "no verdict"
// (exit 2, DESIGN 2.3: a timeout is never a violation).
const cmdTimeout = 180 * time.Second

func runCoca(cwd, tmp string, args ...string) runResult {
	ctx, cancel := context.WithTimeout(context.Background(), cmdTimeout)
	defer cancel()
	cmd := exec.CommandContext(ctx, coca(), args...)
	cmd.Dir = cwd
	cmd.Env = append(os.Environ(), "TMPDIR="+tmp, "HOME="+tmp)
	var so, se bytes.Buffer
	cmd.Stdout = &so
	cmd.Stderr = &se
	err := cmd.Run()
	r := runResult{stdout: so.String(), stderr: se.String()}
	if ctx.Err() == context.DeadlineExceeded {
		fmt.Fprintln(os.Stderr, "harness: coca", strings.Join(args, " "), "did not finish within", cmdTimeout)
		os.Exit(2)
	}
	if err != nil {
		if ee, ok := err.(*exec.ExitError); ok {
			r.exit = ee.ExitCode()
		} else {
			fmt.Fprintln(os.Stderr, "harness: cannot run coca:", err)
			os.Exit(2)
		}
	}
	return r
}

func isPanic(r runResult) bool {
	return r.exit != 0 && (strings.Contains(r.stderr, "panic:") || strings.Contains(r.stderr, "goroutine "))
}

// ---------------------------------------------------------------------------------------------
// projectors (format only)

// rowsToTable: the first record is the header; every other record is name, summary, cells...
func rowsToTable(recs [][]string, t *Table) {
	t.Ok = true
	for i, f := range recs {
		if i == 0 {
			t.Header = append([]string{}, f...)
			continue
		}
		if len(f) < 2 {
			t.Ok = false
			continue
		}
		row := Row{Name: f[0], Cells: []int{}}
		n, err := strconv.Atoi(f[1])
		if err != nil {
			t.Ok = false
		}
		row.Summary = n
		for _, c := range f[2:] {
			v, err := strconv.Atoi(c)
			if err != nil {
				t.Ok = false
			}
			row.Cells = append(row.Cells, v)
		}
		t.Rows = append(t.Rows, row)
	}
	if len(recs) == 0 {
		t.Ok = false
	}
}

// the by-directory report on stdout: the comma separated lines; other lines are progress chatter
func projectByDirStdout(out string) Table {
	t := emptyTable()
	var recs [][]string
	for _, line := range strings.Split(out, "\n") {
		line = strings.TrimRight(line, "\r")
		if line == "" {
			continue
		}
		if !strings.Contains(line, ",") || strings.HasPrefix(line, "results written to ") {
			t.Other = append(t.Other, line) // progress lines (a directory name may itself contain a comma)
			continue
		}
		// the table is printed as CSV records: a name that contains a comma or a quote is quoted
		rd := csv.NewReader(strings.NewReader(line))
		rd.FieldsPerRecord = -1
		f, err := rd.Read()
		if err != nil {
			f = strings.Split(line, ",") // not a CSV record: rowsToTable will call it malformed
		}
		recs = append(recs, f)
	}
	rowsToTable(recs, &t)
	return t
}

func projectCsvFile(path string) (Table, string) {
	t := emptyTable()
	raw, err := os.ReadFile(path)
	if err != nil {
		return t, "no cloc.csv: " + err.Error()
	}
	r := csv.NewReader(bytes.NewReader(raw))
	r.FieldsPerRecord = -1
	recs, err := r.ReadAll()
	if err != nil {
		return t, "cloc.csv: " + err.Error()
	}
	rowsToTable(recs, &t)
	return t, ""
}

func allDashes(s string) bool {
	if s == "" {
		return false
	}
	for _, c := range s {
		if c != '-' {
			return false
		}
	}
	return true
}

// the top-file console report: "Language: X" followed by a table | LENGTH | COMPLEXITY | LOCATION |
func projectTopStdout(out string, t *Top) {
	t.TablesOk = true
	cur := -1
	sawHeader := false
	for _, line := range strings.Split(out, "\n") {
		line = strings.TrimRight(line, "\r")
		if strings.HasPrefix(line, "Language: ") {
			t.Tables = append(t.Tables, TopTable{Lang: strings.TrimPrefix(line, "Language: "), Rows: []TopRow{}})
			cur = len(t.Tables) - 1
			sawHeader = false
			continue
		}
		if !strings.HasPrefix(line, "|") {
			continue
		}
		parts := strings.Split(line, "|")
		if len(parts) < 3 {
			t.TablesOk = false
			continue
		}
		parts = parts[1 : len(parts)-1]
		sep := true
		for i := range parts {
			parts[i] = strings.TrimSpace(parts[i])
			if !allDashes(parts[i]) {
				sep = false
			}
		}
		if sep {
			continue
		}
		if cur < 0 {
			t.TablesOk = false
			continue
		}
		if !sawHeader {
			sawHeader = true // the caption row of the table
			continue
		}
		if len(parts) != 3 {
			t.TablesOk = false
			continue
		}
		c, err1 := strconv.Atoi(parts[0])
		x, err2 := strconv.Atoi(parts[1])
		if err1 != nil || err2 != nil {
			t.TablesOk = false
			continue
		}
		t.Tables[cur].Rows = append(t.Tables[cur].Rows, TopRow{Code: c, Complexity: x, Loc: filepath.ToSlash(parts[2])})
	}
}

type rawFile struct {
	Location *string `json:"Location"`
	Code     *int    `json:"Code"`
	Comment  *int    `json:"Comment"`
	Blank    *int    `json:"Blank"`
	Lines    *int    `json:"Lines"`
}

type rawLang struct {
	Name  *string   `json:"Name"`
	Files []rawFile `json:"Files"`
}

func projectSortJson(path string, t *Top) {
	raw, err := os.ReadFile(path)
	if err != nil {
		t.Note += " no sort_cloc.json: " + err.Error()
		return
	}
	var ls []rawLang
	if err := json.Unmarshal(raw, &ls); err != nil {
		t.Note += " sort_cloc.json: " + err.Error()
		return
	}
	t.JsonOk = true
	for _, l := range ls {
		if l.Name == nil {
			t.JsonOk = false
			continue
		}
		jl := JLang{Lang: *l.Name, Files: []JFile{}}
		for _, f := range l.Files {
			if f.Location == nil || f.Code == nil || f.Comment == nil || f.Blank == nil || f.Lines == nil {
				t.JsonOk = false
				continue
			}
			jl.Files = append(jl.Files, JFile{Loc: filepath.ToSlash(*f.Location), Code: *f.Code, Comment: *f.Comment, Blank: *f.Blank, Lines: *f.Lines})
		}
		t.Json = append(t.Json, jl)
	}
}

// ---------------------------------------------------------------------------------------------

func one(raw json.RawMessage) interface{} {
	var c Case
	if err := json.Unmarshal(raw, &c); err != nil {
		panic(err)
	}
	normalize(&c)
	in := c.Input
	rec := Record{Case: c.Case, Input: in, Observed: emptyObs()}

	scratch := os.Getenv("VERIF_SCRATCH")
	if scratch == "" {
		scratch, _ = os.Getwd()
	}
	caseDir, err := os.MkdirTemp(scratch, "cloc-")
	if err != nil {
		fmt.Fprintln(os.Stderr, "harness: scratch:", err)
		os.Exit(2)
	}
	caseDir, _ = filepath.Abs(caseDir)
	if os.Getenv("VERIF_KEEP") == "" {
		defer os.RemoveAll(caseDir)
	}
	work := filepath.Join(caseDir, "w")
	tmp := filepath.Join(caseDir, "tmp")
	os.MkdirAll(work, 0o755)
	os.MkdirAll(tmp, 0o755)

	var tree, arg string
	switch {
	case in.Root == ".":
		tree, arg = work, "."
	case strings.HasPrefix(in.Root, "@/"):
		tree = filepath.Join(caseDir, "abs", filepath.FromSlash(in.Root[2:]))
		arg = tree
	default:
		tree = filepath.Join(work, filepath.FromSlash(in.Root))
		arg = filepath.FromSlash(in.Root)
	}
	rec.Facts.Root = filepath.ToSlash(arg)
	if err := render(tree, in); err != nil {
		fmt.Fprintln(os.Stderr, "harness: render:", err)
		os.Exit(2)
	}

	extArgs := []string{}
	if len(in.Ext) > 0 {
		extArgs = append(extArgs, "--include-ext="+strings.Join(in.Ext, ","))
	}
	reporter := filepath.Join(work, "coca_reporter")
	// a tree rendered into the working directory may itself contain a coca_reporter directory:
	// the command writes into it; everything else gets a fresh one per command
	ownReporter := in.Root == "." && has(in.Dirs, "coca_reporter")

	prior := func(args ...string) {
		if !in.Prior || in.Root == "." {
			return
		}
		was := in
		was.Files = append([]File{}, in.Files...)
		for _, d := range in.Dirs {
			was.Files = append(was.Files, File{Dir: d, Path: "earlier/Gone.java", Lang: "Java", Ext: "java", Code: 5, Comment: 1, Blank: 1})
		}
		was.Files = append(was.Files, File{Dir: "", Path: "gone.rb", Lang: "Ruby", Ext: "rb", Code: 7})
		if err := render(tree, was); err != nil {
			fmt.Fprintln(os.Stderr, "harness: render:", err)
			os.Exit(2)
		}
		runCoca(work, tmp, args...)
		os.RemoveAll(tree)
		if err := render(tree, in); err != nil {
			fmt.Fprintln(os.Stderr, "harness: render:", err)
			os.Exit(2)
		}
	}
	if has(in.Modes, "bydir") {
		o := &rec.Observed.ByDir
		prior(append([]string{"cloc", arg, "--by-directory"}, extArgs...)...)
		r := runCoca(work, tmp, append([]string{"cloc", arg, "--by-directory"}, extArgs...)...)
		o.Ran = true
		o.Exit = r.exit
		if isPanic(r) {
			rec.Observed.Panic = true
		}
		if r.exit != 0 {
			o.Note = short(r.stderr, 300)
		}
		o.Stdout = projectByDirStdout(r.stdout)
		var note string
		o.Csv, note = projectCsvFile(filepath.Join(reporter, "cloc.csv"))
		o.Note += note
		// the next command starts from the tree as rendered: no report files of this command
		os.RemoveAll(reporter)
		if ownReporter {
			if err := render(tree, in); err != nil {
				fmt.Fprintln(os.Stderr, "harness: render:", err)
				os.Exit(2)
			}
		}
	}
	if has(in.Modes, "top") {
		o := &rec.Observed.Top
		prior(append([]string{"cloc", arg, "--top-file", "--top-size", strconv.Itoa(in.Top)}, extArgs...)...)
		r := runCoca(work, tmp, append([]string{"cloc", arg, "--top-file", "--top-size", strconv.Itoa(in.Top)}, extArgs...)...)
		o.Ran = true
		o.Exit = r.exit
		if isPanic(r) {
			rec.Observed.Panic = true
		}
		if r.exit != 0 {
			o.Note = short(r.stderr, 300)
		}
		projectTopStdout(r.stdout, o)
		projectSortJson(filepath.Join(reporter, "sort_cloc.json"), o)
	}
	return rec
}

// The code under test runs in separate coca processes, so a case process of this harness that dies or
// exceeds its (generous) time limit is trouble of the harness or the machine, never an observation of
// coca: no Abnormal handler => the run ends with "no verdict" (exit 2) instead of a made-up record.
func main() {
	lib.Main(lib.Handler{One: one, Gen: gen, CaseTimeout: 10 * time.Minute})
}
