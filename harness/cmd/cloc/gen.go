package main

import (
	"fmt"
	"math/rand"
	"strings"
)

// Seeded random abstract trees, wider than the constants TLC enumerates: up to 7 languages, up to 8
// sub-directories (ordinary, hidden, dotted, spaced, non-ASCII, empty, VCS/IDE/report ones), nested
// paths, ties in code lines, include-ext filters, top sizes, four ways of passing DIR.

var ordinaryDirs = []string{"east", "web", "pkg", "pkg2", "src", "docs", "lib", "core", "my dir", "v1.2", "lib.json",
	"Apps", ".mvn", "a-b", "x_y", "données", "t", "tree", "test", "e2e", "w", ".github", ".ideas", "coca_reporter_old", "git",
	// names a CSV writer has to quote
	"web,api", "the \"old\" one"}
var ignoredDirs = []string{".git", ".idea", "coca_reporter", ".svn", ".hg"}
var fileStems = []string{"A", "Main", "util", "x1", "test_a", "Bee", "index", "a.b", "tree", "east", "w", "t2", "Zed", "e", "re"}
var subPaths = []string{"", "", "", "sub/", "a/b/", "east/", "t/", "inner dir/"}
var codeSizes = []int{0, 1, 1, 2, 3, 3, 3, 5, 8, 8, 13, 21}

// languages with comment syntax first; JSON / XML (no comments) are typical of IDE and report directories
var mainLangs = []string{"Java", "Go", "Python", "Kotlin", "JavaScript", "C", "Ruby", "Shell", "YAML", "TypeScript", "Markdown"}
var sideLangs = []string{"XML", "JSON", "YAML", "Markdown"}

func pick(r *rand.Rand, l []string) string { return l[r.Intn(len(l))] }

func genFile(r *rand.Rand, dir, lang string, used map[string]bool) (File, bool) {
	sx := syntaxOf(lang)
	for try := 0; try < 20; try++ {
		stem := pick(r, fileStems)
		if r.Intn(4) == 0 {
			stem += fmt.Sprint(r.Intn(30))
		}
		ext := sx.ext
		name := stem + "." + ext
		if lang == "Java" && r.Intn(25) == 0 {
			name = stem + ".JAVA"
		}
		path := pick(r, subPaths) + name
		key := strings.ToLower(dir + "/" + path)
		if used[key] {
			continue
		}
		used[key] = true
		f := File{Dir: dir, Path: path, Lang: lang, Ext: ext, Lay: 1 + r.Intn(1000)}
		switch r.Intn(10) {
		case 0:
			f.Code = r.Intn(40)
		default:
			f.Code = codeSizes[r.Intn(len(codeSizes))]
		}
		if sx.line != "" || sx.open != "" {
			f.Comment = []int{0, 0, 1, 2, 3, 5}[r.Intn(6)]
		}
		f.Blank = []int{0, 0, 1, 2, 4}[r.Intn(5)]
		if r.Intn(25) == 0 { // a zero-line file
			f.Code, f.Comment, f.Blank = 0, 0, 0
		}
		return f, true
	}
	return File{}, false
}

func genCase(r *rand.Rand, id string, tier string) Case {
	in := Input{Modes: []string{"bydir", "top"}, Ext: []string{}, Dirs: []string{}, Files: []File{}}
	// how DIR is passed
	switch x := r.Intn(20); {
	case x < 12:
		in.Root = pick(r, []string{"tree", "src", "proj", "t"})
	case x < 14:
		in.Root = "."
	case x < 17:
		in.Root = pick(r, []string{"w/tree", "a/b/proj", "east/t"})
	default:
		in.Root = pick(r, []string{"@/tree", "@/x/src"})
	}
	in.Prior = in.Root != "." && r.Intn(4) == 0
	// languages of this tree
	nl := 1 + r.Intn(4)
	switch x := r.Intn(16); {
	case x == 0:
		nl = 6 + r.Intn(2)
	case x < 3:
		nl = 5
	}
	perm := r.Perm(len(mainLangs))
	langs := []string{}
	for _, i := range perm[:nl] {
		langs = append(langs, mainLangs[i])
	}
	used := map[string]bool{}
	maxDirs, maxFiles := 5, 4
	if tier != "quick" {
		maxDirs, maxFiles = 8, 7
	}
	// ordinary sub-directories
	nd := r.Intn(maxDirs + 1)
	dperm := r.Perm(len(ordinaryDirs))
	for _, i := range dperm[:nd] {
		d := ordinaryDirs[i]
		in.Dirs = append(in.Dirs, d)
		if r.Intn(4) == 0 {
			continue // an empty sub-directory
		}
		nf := 1 + r.Intn(maxFiles)
		for k := 0; k < nf; k++ {
			if f, ok := genFile(r, d, pick(r, langs), used); ok {
				in.Files = append(in.Files, f)
			}
		}
	}
	// VCS / IDE / report directories
	for i, d := range ignoredDirs {
		p := 4
		if i >= 3 {
			p = 12
		}
		if in.Root == "." && d == "coca_reporter" {
			p = 20
		}
		if r.Intn(p) != 0 {
			continue
		}
		in.Dirs = append(in.Dirs, d)
		nf := r.Intn(3)
		for k := 0; k < nf; k++ {
			lang := pick(r, sideLangs)
			if r.Intn(2) == 0 {
				lang = pick(r, langs)
			}
			if f, ok := genFile(r, d, lang, used); ok {
				in.Files = append(in.Files, f)
			}
		}
	}
	// files directly in DIR
	for k := r.Intn(4); k > 0; k-- {
		if f, ok := genFile(r, "", pick(r, langs), used); ok {
			f.Path = f.Path[strings.LastIndex(f.Path, "/")+1:]
			key := strings.ToLower("/" + f.Path)
			if used[key] {
				continue
			}
			used[key] = true
			in.Files = append(in.Files, f)
		}
	}
	r.Shuffle(len(in.Dirs), func(i, j int) { in.Dirs[i], in.Dirs[j] = in.Dirs[j], in.Dirs[i] })
	// include-ext filter
	if r.Intn(5) < 2 {
		exts := []string{}
		for _, l := range langs {
			exts = append(exts, syntaxOf(l).ext)
		}
		exts = append(exts, "kt", "rs")
		n := 1 + r.Intn(2)
		for _, i := range r.Perm(len(exts))[:n] {
			if !has(in.Ext, exts[i]) {
				in.Ext = append(in.Ext, exts[i])
			}
		}
	}
	in.Top = []int{0, 1, 1, 2, 2, 3, 5, 30}[r.Intn(8)]
	return Case{Case: id, Input: in}
}

func gen(seed int64, n int, tier string) []interface{} {
	r := rand.New(rand.NewSource(seed*7919 + 16))
	out := make([]interface{}, 0, n)
	for i := 0; i < n; i++ {
		out = append(out, genCase(r, fmt.Sprintf("rand-%d-%d", seed, i), tier))
	}
	return out
}
