package main

import (
	"fmt"
	"hash/fnv"
	"math/rand"
	"os"
	"path/filepath"
	"strings"
)

// Syntax of a language as far as line kinds are concerned. Every rendered line is unambiguously
// ONE of: a pure code line, a pure comment line (line comment, or a line of a block comment that
// carries text), a blank line (empty or white space only).
type syntax struct {
	name       string
	ext        string
	line       string // line comment marker ("" = the language has no comments)
	open, shut string // block comment delimiters ("" = none)
	code       []string
}

var syntaxes = []syntax{
	{"Java", "java", "//", "/*", "*/", []string{"int v%d = %d;", "foo.bar(%d, %d);", "String s%d = \"x%d\";", "return v%d + %d;"}},
	{"Go", "go", "//", "/*", "*/", []string{"var v%d = %d", "fmt.Println(%d, %d)", "x%d := %d", "return v%d + %d"}},
	{"Python", "py", "#", "", "", []string{"v%d = %d", "print(%d, %d)", "x%d = [%d]", "return v%d + %d"}},
	{"Kotlin", "kt", "//", "/*", "*/", []string{"val v%d = %d", "println(%d + %d)", "var x%d = %d"}},
	{"JavaScript", "js", "//", "/*", "*/", []string{"var v%d = %d;", "console.log(%d, %d);", "let x%d = %d;"}},
	{"C", "c", "//", "/*", "*/", []string{"int v%d = %d;", "printf(\"%d %d\");", "x%d += %d;"}},
	{"Ruby", "rb", "#", "", "", []string{"v%d = %d", "puts %d + %d", "x%d = [%d]"}},
	{"Shell", "sh", "#", "", "", []string{"v%d=%d", "echo %d %d", "export X%d=%d"}},
	{"YAML", "yml", "#", "", "", []string{"v%d: %d", "k%d: [%d]"}},
	{"TypeScript", "ts", "//", "/*", "*/", []string{"let v%d = %d;", "const x%d: number = %d;"}},
	{"Markdown", "md", "", "", "", []string{"text %d and %d", "- item %d.%d", "## head %d %d"}},
	{"JSON", "json", "", "", "", []string{"\"k%d\": %d,", "[%d, %d],"}},
	{"XML", "xml", "", "", "", []string{"<a%d v=\"%d\"/>", "<b>%d %d</b>"}},
}

func syntaxOf(lang string) *syntax {
	for i := range syntaxes {
		if syntaxes[i].name == lang {
			return &syntaxes[i]
		}
	}
	return nil
}

// fileText renders a file with exactly f.Code code lines, f.Comment comment lines and f.Blank blank
// lines; the layout (interleaving, comment style, blank style, final newline, line ending) is chosen
// by the layout seed and the path.
// A short file is written with branching code lines, a long one with straight-line code: complexity and length are
// anti-correlated, so an ordering that looks at anything but the number of code lines shows.
var branching = map[string]string{
	"Java": "if (v%d > %d) { foo.bar(1, 2); } else { foo.bar(3, 4); }", "Go": "if v%d > %d { fmt.Println(1) } else { fmt.Println(2) }",
	"JavaScript": "if (v%d > %d) { console.log(1); } else { console.log(2); }", "C": "if (v%d > %d) { x1 += 1; } else { x1 -= 1; }",
	"Kotlin": "if (v%d > %d) { println(1) } else { println(2) }", "TypeScript": "if (v%d > %d) { let a = 1; } else { let b = 2; }",
	"Python": "x%d = 1 if v1 > %d else 2",
}

func fileText(f File) (string, error) {
	sx := syntaxOf(f.Lang)
	if sx == nil {
		return "", fmt.Errorf("no syntax for language %q", f.Lang)
	}
	if f.Comment > 0 && sx.line == "" && sx.open == "" {
		return "", fmt.Errorf("language %q has no comment syntax but %d comment lines requested", f.Lang, f.Comment)
	}
	h := fnv.New64a()
	h.Write([]byte(f.Dir + "/" + f.Path))
	rnd := rand.New(rand.NewSource(int64(h.Sum64()>>1) ^ int64(f.Lay)*7919))
	kinds := make([]byte, 0, f.Code+f.Comment+f.Blank)
	for i := 0; i < f.Code; i++ {
		kinds = append(kinds, 'c')
	}
	for i := 0; i < f.Comment; i++ {
		kinds = append(kinds, 'm')
	}
	for i := 0; i < f.Blank; i++ {
		kinds = append(kinds, 'b')
	}
	if f.Lay != 0 {
		rnd.Shuffle(len(kinds), func(i, j int) { kinds[i], kinds[j] = kinds[j], kinds[i] })
	}
	useBlock := sx.open != "" && (sx.line == "" || rnd.Intn(2) == 0)
	var lines []string
	n := 0
	for i := 0; i < len(kinds); {
		switch kinds[i] {
		case 'c':
			n++
			indent := strings.Repeat("  ", rnd.Intn(3))
			tmpl := sx.code[rnd.Intn(len(sx.code))]
			if b, ok := branching[sx.name]; ok && f.Code <= 3 {
				tmpl = b
			}
			lines = append(lines, indent+fmt.Sprintf(tmpl, n, n*3+1))
			i++
		case 'b':
			lines = append(lines, []string{"", "", "  ", "\t", " \t "}[rnd.Intn(5)])
			i++
		case 'm':
			j := i
			for j < len(kinds) && kinds[j] == 'm' {
				j++
			}
			run := j - i
			if useBlock && (sx.line == "" || run >= 2 || rnd.Intn(3) == 0) {
				if run == 1 {
					lines = append(lines, sx.open+" note "+sx.shut)
				} else {
					for k := 0; k < run; k++ {
						switch {
						case k == 0:
							lines = append(lines, sx.open+" begin")
						case k == run-1:
							lines = append(lines, " end "+sx.shut)
						default:
							lines = append(lines, " * more")
						}
					}
				}
			} else {
				for k := 0; k < run; k++ {
					lines = append(lines, strings.Repeat(" ", rnd.Intn(3))+sx.line+" note")
				}
			}
			i = j
		}
	}
	if len(lines) == 0 {
		return "", nil
	}
	nl := "\n"
	text := strings.Join(lines, nl)
	lastBlank := kinds[len(kinds)-1] == 'b'
	if lastBlank || f.Lay == 0 || rnd.Intn(4) != 0 {
		text += nl
	}
	return text, nil
}

// render writes the tree: every listed sub-directory (also the empty ones) and every file.
func render(tree string, in Input) error {
	if err := os.MkdirAll(tree, 0o755); err != nil {
		return err
	}
	for _, d := range in.Dirs {
		if err := os.MkdirAll(filepath.Join(tree, d), 0o755); err != nil {
			return err
		}
	}
	for _, f := range in.Files {
		p := filepath.Join(tree, f.Dir, filepath.FromSlash(f.Path))
		if err := os.MkdirAll(filepath.Dir(p), 0o755); err != nil {
			return err
		}
		text, err := fileText(f)
		if err != nil {
			return err
		}
		if err := os.WriteFile(p, []byte(text), 0o644); err != nil {
			return err
		}
	}
	return nil
}
