package main

import (
	"fmt"
	"strings"
)

// ------------------------------------------------------------------ abstract -> Python text

func pyNameText(n PyName) string {
	if n.As != "" {
		return n.Name + " as " + n.As
	}
	return n.Name
}

func pyNames(ns []PyName) string {
	var parts []string
	for _, n := range ns {
		parts = append(parts, pyNameText(n))
	}
	return strings.Join(parts, ", ")
}

func pyDecos(b *strings.Builder, ind string, ds []PyDeco) {
	for _, d := range ds {
		if len(d.Args) > 0 {
			fmt.Fprintf(b, "%s@%s(%s)\n", ind, d.Name, strings.Join(d.Args, ", "))
		} else {
			fmt.Fprintf(b, "%s@%s\n", ind, d.Name)
		}
	}
}

func pyDef(b *strings.Builder, ind string, fn PyFunc, style int) {
	pyDecos(b, ind, fn.Decos)
	fmt.Fprintf(b, "%sdef %s(%s):\n", ind, fn.Name, strings.Join(fn.Params, ", "))
	if style == 3 {
		fmt.Fprintf(b, "%s    # body of %s\n", ind, fn.Name)
	}
	for _, n := range fn.Nested {
		fmt.Fprintf(b, "%s    def %s():\n%s        pass\n", ind, n, ind)
	}
	if len(fn.Nested) > 0 || style == 1 {
		fmt.Fprintf(b, "%s    return 1\n", ind)
	} else {
		fmt.Fprintf(b, "%s    pass\n", ind)
	}
}

// pyClass writes a class and, between its methods, the classes declared inside it
func pyClass(b *strings.Builder, ind string, it PyItem, all []PyItem, style int) {
	pyDecos(b, ind, it.Decos)
	if len(it.Bases) > 0 {
		fmt.Fprintf(b, "%sclass %s(%s):\n", ind, it.Name, strings.Join(it.Bases, ", "))
	} else if style == 2 {
		fmt.Fprintf(b, "%sclass %s():\n", ind, it.Name)
	} else {
		fmt.Fprintf(b, "%sclass %s:\n", ind, it.Name)
	}
	inner := func(at int) bool {
		wrote := false
		for _, n := range all {
			if n.K == "class" && n.In == it.Name && (n.At == at || (at == len(it.Methods) && n.At > at)) {
				pyClass(b, ind+"    ", n, all, style)
				b.WriteString("\n")
				wrote = true
			}
		}
		return wrote
	}
	any := inner(0)
	for j, m := range it.Methods {
		if j > 0 {
			b.WriteString("\n")
		}
		pyDef(b, ind+"    ", m, style)
		any = true
		inner(j + 1)
	}
	if !any {
		b.WriteString(ind + "    pass\n")
	}
}

func renderPy(f File) string {
	var b strings.Builder
	style := f.Style
	if style == 3 {
		b.WriteString("# generated module\n")
	}
	for i, it := range f.Items {
		switch it.K {
		case "import":
			fmt.Fprintf(&b, "import %s\n", pyNames(it.Names))
		case "from":
			switch {
			case len(it.Names) == 0:
				fmt.Fprintf(&b, "from %s import *\n", it.Source)
			case it.Paren:
				fmt.Fprintf(&b, "from %s import (%s)\n", it.Source, pyNames(it.Names))
			default:
				fmt.Fprintf(&b, "from %s import %s\n", it.Source, pyNames(it.Names))
			}
		case "class":
			if it.In != "" {
				continue // written inside its enclosing class
			}
			if i > 0 {
				b.WriteString("\n")
			}
			pyClass(&b, "", it, f.Items, style)
		case "func":
			if i > 0 {
				b.WriteString("\n")
			}
			pyDef(&b, "", PyFunc{Name: it.Name, Decos: it.Decos, Params: it.Params, Nested: it.Nested}, style)
		}
	}
	return b.String()
}
