package main

import (
	"encoding/json"
	"fmt"
	"math/rand"
)

// ------------------------------------------------------------------ direction (B): seeded random abstract files
// Wider than TLC's constants: more declarations, longer identifiers, layouts, several files per case.

var goImportPool = []GoImport{
	{"fmt", ""}, {"os", ""}, {"strings", ""}, {"io", ""}, {"net/http", ""}, {"net/http", "h"},
	{"encoding/json", ""}, {"encoding/json", "js"}, {"github.com/acme/kit/log", ""}, {"github.com/acme/kit/v2/store", "st"},
	{"sync", ""}, {"time", "tm"},
}

var goBaseTypes = []string{"int", "string", "bool", "error", "float64", "byte"}
var goSelTypes = [][2]string{{"http", "Request"}, {"json", "Decoder"}, {"time", "Duration"}, {"io", "Reader"}, {"sync", "Mutex"}}
var goCallNames = []string{"Println", "Sprintf", "Do", "Run", "Close", "Get", "Save", "Lock", "Unlock", "Write", "flush", "reset", "New", "Errorf"}
var goTypeNames = []string{"A", "B", "C", "Order", "User", "repo", "Svc", "Handler", "node", "Cfg", "T1", "Item_2", "Ünit", "X"}
var goFuncNames = []string{"F", "G", "run", "NewThing", "main", "init2", "helper", "Parse", "must", "Do3", "δelta"}
var goMethNames = []string{"M", "N", "Get", "Put", "String", "close", "Serve", "len2", "Reset", "apply"}
var goVarNames = []string{"x", "y", "n", "id", "name", "buf", "cfg", "next", "count", "ok2", "v_1", "w"}

func localName(im GoImport) string {
	if im.Alias != "" {
		return im.Alias
	}
	p := im.Path
	for i := len(p) - 1; i >= 0; i-- {
		if p[i] == '/' {
			return p[i+1:]
		}
	}
	return p
}

func pickDistinct(r *rand.Rand, pool []string, n int, suffix string) []string {
	idx := r.Perm(len(pool))
	if n > len(pool) {
		n = len(pool)
	}
	out := make([]string, 0, n)
	for _, i := range idx[:n] {
		out = append(out, pool[i]+suffix)
	}
	return out
}

func genType(r *rand.Rand, types []string) Field {
	f := Field{Names: []string{}}
	switch r.Intn(8) {
	case 0, 1, 2:
		f.Form, f.Base = "ident", goBaseTypes[r.Intn(len(goBaseTypes))]
	case 3:
		f.Form = "star"
		if len(types) > 0 {
			f.Base = types[r.Intn(len(types))]
		} else {
			f.Base = "int"
		}
	case 4:
		s := goSelTypes[r.Intn(len(goSelTypes))]
		f.Form, f.Pkg, f.Base = "sel", s[0], s[1]
	case 5:
		s := goSelTypes[r.Intn(len(goSelTypes))]
		f.Form, f.Pkg, f.Base = "starsel", s[0], s[1]
	case 6:
		f.Form, f.Base = "array", goBaseTypes[r.Intn(len(goBaseTypes))]
	default:
		s := goSelTypes[r.Intn(len(goSelTypes))]
		f.Form, f.Pkg, f.Base = "arraysel", s[0], s[1]
	}
	return f
}

// a field / parameter list with distinct names; grouped names (`a, b T`) in about a third of the entries
func genFieldList(r *rand.Rand, n int, types []string, named bool) []Field {
	out := []Field{}
	names := pickDistinct(r, goVarNames, len(goVarNames), "")
	k := 0
	for len(out) < n && k < len(names) {
		f := genType(r, types)
		if named {
			g := 1
			if r.Intn(3) == 0 {
				g = 2 + r.Intn(2)
			}
			for j := 0; j < g && k < len(names); j++ {
				f.Names = append(f.Names, names[k])
				k++
			}
		}
		out = append(out, f)
	}
	return out
}

func genArgs(r *rand.Rand, vars []string) []string {
	out := []string{}
	for n := r.Intn(3); n > 0; n-- {
		switch r.Intn(4) {
		case 0:
			out = append(out, "1")
		case 1:
			out = append(out, `"s"`)
		case 2:
			if len(vars) > 0 {
				out = append(out, vars[r.Intn(len(vars))])
			} else {
				out = append(out, "nil")
			}
		default:
			out = append(out, "os.Stdout")
		}
	}
	return out
}

func genBody(r *rand.Rand, quals []string, rv string, params []Field, results []Field, max int) []Stmt {
	body := []Stmt{}
	var vars []string
	for _, p := range params {
		vars = append(vars, p.Names...)
	}
	qs := append([]string{}, quals...)
	if rv != "" && rv != "_" {
		qs = append(qs, rv, rv) // receiver calls as likely as package calls
	}
	n := r.Intn(max + 1)
	locals := 0
	for i := 0; i < n; i++ {
		if len(qs) == 0 {
			break
		}
		q := qs[r.Intn(len(qs))]
		name := goCallNames[r.Intn(len(goCallNames))]
		switch r.Intn(10) {
		case 0:
			body = append(body, Stmt{K: "defer", Q: q, Name: name, Args: genArgs(r, vars)})
		case 1:
			locals++
			body = append(body, Stmt{K: "assign", Q: q, Name: name, Lhs: fmt.Sprintf("t%d", locals), Args: genArgs(r, vars)})
		case 2:
			locals++
			body = append(body, Stmt{K: "assign", Lhs: fmt.Sprintf("t%d", locals), Args: []string{}})
		default:
			body = append(body, Stmt{K: "call", Q: q, Name: name, Args: genArgs(r, vars)})
			if r.Intn(6) == 0 { // the same call written twice
				body = append(body, body[len(body)-1])
			} else if r.Intn(6) == 0 { // a call statement inside a func literal passed to this call statement
				q2 := qs[r.Intn(len(qs))]
				inner := Stmt{K: "call", Q: q2, Name: goCallNames[r.Intn(len(goCallNames))], Args: genArgs(r, vars), Lit: true}
				outer := &body[len(body)-1]
				outer.Args = append(append([]string{}, outer.Args...), "func() { "+callText(inner)+" }")
				body = append(body, inner)
			}
		}
	}
	if len(results) > 0 {
		s := Stmt{K: "return", Args: []string{}}
		if len(qs) > 0 && r.Intn(3) == 0 {
			s.Q, s.Name = qs[r.Intn(len(qs))], goCallNames[r.Intn(len(goCallNames))]
		}
		body = append(body, s)
	} else if r.Intn(8) == 0 {
		body = append(body, Stmt{K: "return", Args: []string{}})
	}
	return body
}

func genGoFile(r *rand.Rand, fi int, big bool) File {
	f := File{Pkg: []string{"demo", "svc", "main", "kit_x"}[r.Intn(4)], Imports: []GoImport{}, Decls: []GoDecl{}, Items: []PyItem{}, Style: r.Intn(4)}
	suffix := ""
	if fi > 0 {
		suffix = fmt.Sprintf("%d", fi)
	}
	// imports: distinct paths
	seenPath := map[string]bool{}
	seenLocal := map[string]bool{}
	var quals []string
	for n := r.Intn(5); n > 0; n-- {
		im := goImportPool[r.Intn(len(goImportPool))]
		if seenPath[im.Path] || seenLocal[localName(im)] {
			continue
		}
		seenPath[im.Path] = true
		seenLocal[localName(im)] = true
		f.Imports = append(f.Imports, im)
		quals = append(quals, localName(im))
	}
	nt := 1 + r.Intn(3)
	if big {
		nt = 1 + r.Intn(6)
	}
	if r.Intn(12) == 0 {
		nt = 0
	}
	tnames := pickDistinct(r, goTypeNames, nt, suffix)
	var structs []string
	var typeDecls, methDecls, funcDecls []GoDecl
	methodsOf := map[string][]GoDecl{}
	for _, tn := range tnames {
		if r.Intn(4) == 0 {
			d := GoDecl{K: "iface", Name: tn, Specs: []Spec{}}
			for _, mn := range pickDistinct(r, goMethNames, r.Intn(4), "") {
				named := r.Intn(4) != 0
				d.Specs = append(d.Specs, Spec{Name: mn, Params: genFieldList(r, r.Intn(3), tnames, named), Results: genFieldList(r, r.Intn(2), tnames, false)})
			}
			typeDecls = append(typeDecls, d)
			continue
		}
		structs = append(structs, tn)
		typeDecls = append(typeDecls, GoDecl{K: "struct", Name: tn, Fields: genFieldList(r, r.Intn(5), tnames, true)})
	}
	for _, sn := range structs {
		nm := r.Intn(4)
		if big {
			nm = r.Intn(6)
		}
		// receiver variable: first letter of the type in lower case (never one of the parameter / field names)
		rv := string([]rune(sn)[0:1])
		if rv >= "A" && rv <= "Z" {
			rv = string(rune(rv[0] + 32))
		} else {
			rv = "self"
		}
		for _, v := range goVarNames {
			if v == rv {
				rv = "recv"
			}
		}
		for _, mn := range pickDistinct(r, goMethNames, nm, "") {
			d := GoDecl{K: "method", Name: mn, Recv: sn, Ptr: r.Intn(2) == 0, Rv: rv}
			if r.Intn(10) == 0 {
				d.Rv = ""
			}
			d.Params = genFieldList(r, r.Intn(4), tnames, r.Intn(6) != 0)
			d.Results = genFieldList(r, r.Intn(3), tnames, false)
			d.Body = genBody(r, quals, d.Rv, d.Params, d.Results, 5)
			methDecls = append(methDecls, d)
			methodsOf[sn] = append(methodsOf[sn], d)
		}
	}
	nf := r.Intn(4)
	for _, fn := range pickDistinct(r, goFuncNames, nf, suffix) {
		d := GoDecl{K: "func", Name: fn}
		d.Params = genFieldList(r, r.Intn(4), tnames, r.Intn(6) != 0)
		d.Results = genFieldList(r, r.Intn(3), tnames, false)
		d.Body = genBody(r, quals, "", d.Params, d.Results, 5)
		funcDecls = append(funcDecls, d)
	}
	switch r.Intn(5) {
	case 0, 1: // conventional: each type followed by its methods, functions last
		for _, t := range typeDecls {
			f.Decls = append(f.Decls, t)
			f.Decls = append(f.Decls, methodsOf[t.Name]...)
		}
		f.Decls = append(f.Decls, funcDecls...)
	case 2: // all types, then all methods, then functions
		f.Decls = append(f.Decls, typeDecls...)
		f.Decls = append(f.Decls, methDecls...)
		f.Decls = append(f.Decls, funcDecls...)
	default: // any order (methods may precede their receiver type)
		all := append(append(append([]GoDecl{}, typeDecls...), methDecls...), funcDecls...)
		r.Shuffle(len(all), func(i, j int) { all[i], all[j] = all[j], all[i] })
		f.Decls = all
	}
	return f
}

var pyModules = []string{"os", "sys", "os.path", "collections.abc", "typing", "json", "app.models", "pkg.sub.mod", "re", "x_1"}
var pyNamesPool = []string{"path", "List", "Dict", "loads", "dumps", "Model", "Field", "bar", "baz", "OrderedDict", "x", "_private"}
var pyAliases = []string{"p", "np", "m", "alias_1", "T"}
var pyClassNames = []string{"A", "B", "Blog", "UserRepo", "_Hidden", "node", "Handler2", "C"}
var pyFuncNames = []string{"f", "g", "main", "Build", "helper_fn", "_setup", "run2", "Parse"}
var pyMethNames = []string{"__init__", "m", "n", "get", "save", "__str__", "to_dict", "Run", "close"}
var pyDecoNames = []string{"staticmethod", "classmethod", "property", "app.route", "pytest.fixture", "dataclass", "functools.wraps", "d"}
var pyDecoArgs = []string{`"/x"`, "1", "int", "int,str"} // positional; a keyword argument may follow them
var pyNestedNames = []string{"inner", "wrapper", "_loop", "nested1", "cb", "helper2", "deco_inner", "gen", "visit", "step"}

func genDecos(r *rand.Rand, max int) []PyDeco {
	out := []PyDeco{}
	for n := r.Intn(max + 1); n > 0; n-- {
		d := PyDeco{Name: pyDecoNames[r.Intn(len(pyDecoNames))], Args: []string{}}
		if r.Intn(3) == 0 {
			for k := r.Intn(3); k > 0; k-- {
				d.Args = append(d.Args, pyDecoArgs[r.Intn(len(pyDecoArgs))])
			}
			if len(d.Args) == 0 || r.Intn(3) == 0 {
				d.Args = append(d.Args, "name=1")
			}
		}
		out = append(out, d)
	}
	return out
}

func genPyFile(r *rand.Rand, fi int, big bool, knownShapes bool) File {
	f := File{Imports: []GoImport{}, Decls: []GoDecl{}, Items: []PyItem{}, Style: r.Intn(4)}
	suffix := ""
	if fi > 0 {
		suffix = fmt.Sprintf("_%d", fi)
	}
	usedAlias := map[string]bool{}
	alias := func(p int) string { // distinct aliases within one file
		if r.Intn(100) < p {
			a := pyAliases[r.Intn(len(pyAliases))]
			if !usedAlias[a] {
				usedAlias[a] = true
				return a
			}
		}
		return ""
	}
	var imports, defs []PyItem
	for n := r.Intn(5); n > 0; n-- {
		it := PyItem{Names: []PyName{}}
		if r.Intn(2) == 0 {
			it.K = "import"
			k := 1
			if r.Intn(4) == 0 {
				k = 2 + r.Intn(2)
			}
			for j, m := range pickDistinct(r, pyModules, k, "") {
				as := ""
				if j == 0 {
					as = alias(30)
				} else if knownShapes {
					as = alias(50) // alias on a later module of the statement: listed glued ("basc")
				}
				it.Names = append(it.Names, PyName{Name: m, As: as})
			}
		} else {
			it.K = "from"
			dots := []string{"", "", "", ".", "..", "..."}[r.Intn(6)]
			mod := pyModules[r.Intn(len(pyModules))]
			if dots != "" && r.Intn(2) == 0 {
				mod = ""
			}
			it.Source = dots + mod
			k := r.Intn(4) // 0 -> import *
			if dots != "" && mod == "" && k == 0 {
				k = 1
			}
			for _, nm := range pickDistinct(r, pyNamesPool, k, "") {
				as := ""
				if knownShapes {
					as = alias(60) // `from m import a as b` is listed glued ("aasb"); pinned by the repository's golden file
				}
				it.Names = append(it.Names, PyName{Name: nm, As: as})
			}
			it.Paren = k > 0 && r.Intn(4) == 0
		}
		imports = append(imports, it)
	}
	nested := pickDistinct(r, pyNestedNames, len(pyNestedNames), suffix)
	takeNested := func(p int) []string {
		out := []string{}
		for r.Intn(100) < p && len(nested) > 0 {
			out = append(out, nested[0])
			nested = nested[1:]
			p /= 2
		}
		return out
	}
	params := func(self bool) []string {
		out := []string{}
		if self {
			out = append(out, "self")
		}
		for _, v := range pickDistinct(r, []string{"a", "b", "low", "high", "key"}, r.Intn(3), "") {
			out = append(out, v)
		}
		return out
	}
	nc := r.Intn(4)
	if big {
		nc = r.Intn(6)
	}
	for _, cn := range pickDistinct(r, pyClassNames, nc, suffix) {
		it := PyItem{K: "class", Name: cn, Decos: genDecos(r, 3), Bases: []string{}, Methods: []PyFunc{}}
		for _, b := range pickDistinct(r, []string{"Base", "object", "models.Model", "Exception"}, r.Intn(3), "") {
			it.Bases = append(it.Bases, b)
		}
		nm := r.Intn(5)
		for _, mn := range pickDistinct(r, pyMethNames, nm, "") {
			it.Methods = append(it.Methods, PyFunc{Name: mn, Decos: genDecos(r, 2), Params: params(true), Nested: takeNested(15)})
		}
		defs = append(defs, it)
	}
	for _, fn := range pickDistinct(r, pyFuncNames, r.Intn(4), suffix) {
		defs = append(defs, PyItem{K: "func", Name: fn, Decos: genDecos(r, 3), Params: params(false), Nested: takeNested(25)})
	}
	r.Shuffle(len(defs), func(i, j int) { defs[i], defs[j] = defs[j], defs[i] })
	if r.Intn(5) == 0 { // imports anywhere
		all := append(imports, defs...)
		r.Shuffle(len(all), func(i, j int) { all[i], all[j] = all[j], all[i] })
		f.Items = append(f.Items, all...)
	} else {
		f.Items = append(f.Items, imports...)
		f.Items = append(f.Items, defs...)
	}
	return f
}

func gen(seed int64, n int, tier string) []interface{} {
	r := rand.New(rand.NewSource(seed*7919 + 20))
	big := tier == "thorough"
	var out []interface{}
	for k := 0; k < n; k++ {
		in := Input{Lang: "go", Files: []File{}}
		if k%5 >= 3 { // 60 % Go, 40 % Python
			in.Lang = "py"
		}
		nf := 1
		if r.Intn(4) == 0 {
			nf = 2 + r.Intn(2)
		}
		// the known-finding shapes (aliases the Python front-end glues) stay a minority so they cannot mask the rest
		known := in.Lang == "py" && r.Intn(10) == 0
		for i := 0; i < nf; i++ {
			if in.Lang == "go" {
				in.Files = append(in.Files, genGoFile(r, i, big))
			} else {
				in.Files = append(in.Files, genPyFile(r, i, big, known))
			}
		}
		// a class declared inside another class of the module, between that class's methods
		if in.Lang == "py" && r.Intn(3) == 0 {
			f := &in.Files[0]
			var cls []int
			for i, it := range f.Items {
				if it.K == "class" {
					cls = append(cls, i)
				}
			}
			if len(cls) >= 2 {
				outer, innerI := f.Items[cls[0]], cls[1+r.Intn(len(cls)-1)]
				f.Items[innerI].In = outer.Name
				f.Items[innerI].At = r.Intn(len(outer.Methods) + 1)
			}
		}
		// two modules of the directory that each declare a class of the same name
		if in.Lang == "py" && nf > 1 && r.Intn(2) == 0 {
			for _, it := range in.Files[0].Items {
				if it.K != "class" {
					continue
				}
				clash := false
				for _, jt := range in.Files[1].Items {
					if jt.Name == it.Name {
						clash = true
					}
				}
				if !clash {
					b, _ := json.Marshal(it)
					var cp PyItem
					json.Unmarshal(b, &cp)
					in.Files[1].Items = append(in.Files[1].Items, cp)
				}
				break
			}
		}
		if in.Lang == "go" { // one package per directory
			for i := range in.Files {
				in.Files[i].Pkg = in.Files[0].Pkg
			}
		}
		normalise(&in)
		out = append(out, Case{Case: fmt.Sprintf("rand-%d-%d", seed, k), Input: in})
	}
	return out
}
