package main

import (
	"go/parser"
	"go/token"
	"io"
	"os"
	"path/filepath"
	"regexp"

	"github.com/modernizing/coca/pkg/adapter/cocafile"
	"github.com/modernizing/coca/pkg/application/analysis"
	"github.com/modernizing/coca/pkg/application/analysis/goapp"
	"github.com/modernizing/coca/pkg/application/analysis/pyapp"
	"github.com/modernizing/coca/pkg/domain/core_domain"

	"verifharness/lib"
)

// ------------------------------------------------------------------ "the front-end's parser accepts the file"

// Go: the same parser call the front-end makes (go/parser, mode 0).
func goAccepts(text, name string) bool {
	_, err := parser.ParseFile(token.NewFileSet(), name, text, 0)
	return err == nil
}

// Python: the front-end builds its ANTLR lexer + parser internally with the default console error
// listener, which writes one "line L:C message" line to os.Stderr per syntax error. The acceptance
// fact is taken from the very parse the front-end performs (stderr captured around the call), because
// the shipped lexer keeps its token queue in package-level variables and a separate trial parse could
// both disturb and mis-predict the real one.
var syntaxErrLine = regexp.MustCompile(`(?m)^line \d+:\d+ `)

func captureStderr(f func()) string {
	old := os.Stderr
	r, w, err := os.Pipe()
	if err != nil {
		f()
		return ""
	}
	done := make(chan string)
	go func() {
		b, _ := io.ReadAll(r)
		done <- string(b)
	}()
	os.Stderr = w
	func() {
		defer func() {
			os.Stderr = old
			w.Close()
		}()
		f()
	}()
	out := <-done
	r.Close()
	return out
}

// ------------------------------------------------------------------ projection (raw model -> abstract observation)

func projProps(ps []core_domain.CodeProperty) []NT {
	out := []NT{}
	for _, p := range ps {
		out = append(out, NT{Name: p.ParamName, Type: p.TypeValue})
	}
	return out
}

func projFn(f core_domain.CodeFunction) FnObs {
	o := FnObs{Name: f.Name, Params: projProps(f.Parameters), Decos: []string{}, Calls: []CallObs{}}
	for _, a := range f.Annotations {
		o.Decos = append(o.Decos, a.Name)
	}
	for _, c := range f.FunctionCalls {
		o.Calls = append(o.Calls, CallObs{Node: c.NodeName, Fn: c.FunctionName})
	}
	return o
}

func projDs(d core_domain.CodeDataStruct) TypeObs {
	t := TypeObs{Name: d.NodeName, Pkg: d.Package, Props: projProps(d.InOutProperties), Decos: []string{}, Methods: []FnObs{}}
	for _, f := range d.Fields { // the model's other slot for members of a type (CodeField: TypeValue = name, TypeType = type)
		t.Props = append(t.Props, NT{Name: f.TypeValue, Type: f.TypeType})
	}
	for _, a := range d.Annotations {
		t.Decos = append(t.Decos, a.Name)
	}
	for _, f := range d.Functions {
		t.Methods = append(t.Methods, projFn(f))
	}
	return t
}

func projContainer(c core_domain.CodeContainer, o *FileObs) {
	o.Pkg = c.PackageName
	for _, im := range c.Imports {
		u := im.UsageName
		if u == nil {
			u = []string{}
		}
		o.Imports = append(o.Imports, ImportObs{Source: im.Source, As: im.AsName, Usage: u})
	}
	for _, d := range c.DataStructures {
		o.Types = append(o.Types, projDs(d))
	}
	for _, m := range c.Members {
		for _, f := range m.FunctionNodes {
			o.Funcs = append(o.Funcs, projFn(f))
		}
		if len(m.FunctionNodes) == 0 {
			o.Members = append(o.Members, MemberObs{ID: m.DataStructID, Type: m.Type})
		}
	}
}

// ------------------------------------------------------------------ drive the real front-ends

func driveFile(lang, text, name string) FileObs {
	o := emptyFileObs()
	var p bool
	var msg string
	errs := captureStderr(func() {
		p, msg = lib.Guard(func() {
			var c core_domain.CodeContainer
			if lang == "py" {
				app := new(pyapp.PythonIdentApp)
				c = app.Analysis(text, name)
			} else {
				app := new(goapp.GoIdentApp)
				c = app.Analysis(text, name)
			}
			projContainer(c, &o)
		})
	})
	acc := !syntaxErrLine.MatchString(errs)
	if lang != "py" {
		acc = goAccepts(text, name)
	}
	o.Accepts = acc
	if p {
		o = emptyFileObs()
		o.Accepts = acc
		o.Panic = true
		if len(msg) > 200 {
			msg = msg[:200]
		}
		o.Note = msg
	}
	return o
}

// CommonAnalysis over a directory holding all files of the case (ident pass, then full pass, then flattening).
func driveCommon(lang string, texts []string) CommonObs {
	o := CommonObs{Ds: []TypeObs{}}
	base := os.Getenv("VERIF_SCRATCH")
	if base == "" {
		base = os.TempDir()
	}
	dir, err := os.MkdirTemp(base, "fc-")
	if err != nil {
		panic(err)
	}
	defer os.RemoveAll(dir)
	src := filepath.Join(dir, "src")
	if err := os.MkdirAll(src, 0o755); err != nil {
		panic(err)
	}
	for i, t := range texts {
		if err := os.WriteFile(filepath.Join(src, fileName(lang, i)), []byte(t), 0o644); err != nil {
			panic(err)
		}
	}
	old, _ := os.Getwd()
	os.Chdir(dir) // CommonAnalysis writes coca_reporter/members.json into the working directory
	defer os.Chdir(old)
	var p bool
	var msg string
	errs := captureStderr(func() {
		p, msg = lib.Guard(func() {
			var ds []core_domain.CodeDataStruct
			if lang == "py" {
				ds = analysis.CommonAnalysis(io.Discard, src, new(pyapp.PythonIdentApp), cocafile.PythonFileFilter, true)
			} else {
				ds = analysis.CommonAnalysis(io.Discard, src, new(goapp.GoIdentApp), cocafile.GoFileFilter, true)
			}
			for _, d := range ds {
				o.Ds = append(o.Ds, projDs(d))
			}
		})
	})
	o.Accepts = !syntaxErrLine.MatchString(errs)
	if p {
		o = CommonObs{Ds: []TypeObs{}, Panic: true, Accepts: o.Accepts}
		if len(msg) > 200 {
			msg = msg[:200]
		}
		o.Note = msg
	}
	return o
}
