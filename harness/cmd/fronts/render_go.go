package main

import (
	"fmt"
	"strings"
)

// ------------------------------------------------------------------ abstract -> Go text

func typeText(f Field) string {
	switch f.Form {
	case "star":
		return "*" + f.Base
	case "sel":
		return f.Pkg + "." + f.Base
	case "starsel":
		return "*" + f.Pkg + "." + f.Base
	case "array":
		return "[]" + f.Base
	case "arraysel":
		return "[]" + f.Pkg + "." + f.Base
	default:
		return f.Base
	}
}

func fieldText(f Field) string {
	if len(f.Names) == 0 {
		return typeText(f)
	}
	return strings.Join(f.Names, ", ") + " " + typeText(f)
}

func paramList(fs []Field) string {
	var parts []string
	for _, f := range fs {
		parts = append(parts, fieldText(f))
	}
	return strings.Join(parts, ", ")
}

func resultList(fs []Field) string {
	if len(fs) == 0 {
		return ""
	}
	if len(fs) == 1 && len(fs[0].Names) == 0 {
		return " " + typeText(fs[0])
	}
	return " (" + paramList(fs) + ")"
}

func zeroValue(f Field) string {
	if f.Form == "ident" {
		switch f.Base {
		case "int", "int64", "float64", "uint":
			return "0"
		case "string":
			return `""`
		case "bool":
			return "false"
		}
	}
	return "nil"
}

func callText(s Stmt) string {
	fn := s.Name
	if s.Q != "" {
		fn = s.Q + "." + s.Name
	}
	return fn + "(" + strings.Join(s.Args, ", ") + ")"
}

func stmtText(s Stmt, results []Field) string {
	switch s.K {
	case "call":
		return callText(s)
	case "defer":
		return "defer " + callText(s)
	case "assign":
		if s.Name == "" {
			return s.Lhs + " := 1"
		}
		return s.Lhs + " := " + callText(s)
	case "return":
		var vals []string
		n := 0
		for _, r := range results {
			k := len(r.Names)
			if k == 0 {
				k = 1
			}
			for j := 0; j < k; j++ {
				if n == 0 && s.Name != "" {
					vals = append(vals, callText(s))
				} else {
					vals = append(vals, zeroValue(r))
				}
				n++
			}
		}
		if len(vals) == 0 {
			return "return"
		}
		return "return " + strings.Join(vals, ", ")
	}
	return "// unknown statement " + s.K
}

func renderGo(f File) string {
	var b strings.Builder
	style := f.Style
	if style == 3 {
		b.WriteString("// Package " + f.Pkg + " is generated.\n")
	}
	fmt.Fprintf(&b, "package %s\n\n", f.Pkg)
	// imports always precede every other declaration (the Go grammar requires it)
	if len(f.Imports) > 0 {
		if style == 1 {
			for _, im := range f.Imports {
				if im.Alias != "" {
					fmt.Fprintf(&b, "import %s %q\n", im.Alias, im.Path)
				} else {
					fmt.Fprintf(&b, "import %q\n", im.Path)
				}
			}
			b.WriteString("\n")
		} else {
			b.WriteString("import (\n")
			for _, im := range f.Imports {
				if im.Alias != "" {
					fmt.Fprintf(&b, "\t%s %q\n", im.Alias, im.Path)
				} else {
					fmt.Fprintf(&b, "\t%q\n", im.Path)
				}
			}
			b.WriteString(")\n\n")
		}
	}
	isType := func(d GoDecl) bool { return d.K == "struct" || d.K == "iface" }
	typeBody := func(d GoDecl, ind string) string {
		var t strings.Builder
		if d.K == "struct" {
			if len(d.Fields) == 0 {
				return "struct{}"
			}
			if style == 1 && len(d.Fields) == 1 {
				return "struct{ " + fieldText(d.Fields[0]) + " }"
			}
			t.WriteString("struct {\n")
			for i, fl := range d.Fields {
				t.WriteString(ind + "\t" + fieldText(fl))
				if style == 3 && len(fl.Names) == 1 {
					fmt.Fprintf(&t, " `json:\"%s\"` // field %d", fl.Names[0], i)
				}
				t.WriteString("\n")
			}
			t.WriteString(ind + "}")
			return t.String()
		}
		if len(d.Specs) == 0 {
			return "interface{}"
		}
		t.WriteString("interface {\n")
		for _, s := range d.Specs {
			t.WriteString(ind + "\t" + s.Name + "(" + paramList(s.Params) + ")" + resultList(s.Results) + "\n")
		}
		t.WriteString(ind + "}")
		return t.String()
	}
	i := 0
	for i < len(f.Decls) {
		d := f.Decls[i]
		if isType(d) {
			// style 2: a run of >= 2 adjacent type declarations becomes one `type ( ... )` group
			j := i
			for j < len(f.Decls) && isType(f.Decls[j]) {
				j++
			}
			if style == 2 && j-i >= 2 {
				b.WriteString("type (\n")
				for k := i; k < j; k++ {
					fmt.Fprintf(&b, "\t%s %s\n", f.Decls[k].Name, typeBody(f.Decls[k], "\t"))
				}
				b.WriteString(")\n\n")
				i = j
				continue
			}
			if style == 3 {
				fmt.Fprintf(&b, "// %s is declaration %d.\n", d.Name, i)
			}
			fmt.Fprintf(&b, "type %s %s\n\n", d.Name, typeBody(d, ""))
			i++
			continue
		}
		if style == 3 {
			fmt.Fprintf(&b, "// %s does things.\n", d.Name)
		}
		b.WriteString("func ")
		if d.K == "method" {
			star := ""
			if d.Ptr {
				star = "*"
			}
			if d.Rv == "" {
				fmt.Fprintf(&b, "(%s%s) ", star, d.Recv)
			} else {
				fmt.Fprintf(&b, "(%s %s%s) ", d.Rv, star, d.Recv)
			}
		}
		fmt.Fprintf(&b, "%s(%s)%s {", d.Name, paramList(d.Params), resultList(d.Results))
		if len(d.Body) == 0 {
			b.WriteString("\n}\n\n")
		} else if style == 1 && len(d.Body) == 1 {
			b.WriteString(" " + stmtText(d.Body[0], d.Results) + " }\n\n")
		} else {
			b.WriteString("\n")
			for _, s := range d.Body {
				if s.Lit {
					continue
				}
				if style == 3 {
					b.WriteString("\t// step\n")
				}
				b.WriteString("\t" + stmtText(s, d.Results) + "\n")
			}
			b.WriteString("}\n\n")
		}
		i++
	}
	return b.String()
}
