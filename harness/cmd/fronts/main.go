// Harness for the Go and Python front-ends (C20, suite `fronts`).
//
// Renders an abstract source file (declaration sequence) to Go / Python text, drives the
// REAL front-ends through their public entry points
//
//	goapp.GoIdentApp.Analysis            (-> ast_go.CocagoParser.ProcessString)
//	pyapp.PythonIdentApp.Analysis        (-> ast_python.PythonIdentListener)
//	analysis.CommonAnalysis              (ident pass + full pass over a directory, flattening)
//
// and projects the returned CodeContainer / []CodeDataStruct to the abstract observation.
// No expected values live here: judgement is done by TLC (FrontsRef!Diff) on the trace.
//
// Extra debug mode (not used by bin/check):   fronts render < case.json   prints the rendered files.
package main

import (
	"encoding/json"
	"fmt"
	"io"
	"os"

	"verifharness/lib"
)

// ------------------------------------------------------------------ abstract input

// Field: a struct field, a parameter or a result: `n1, n2 T`.
type Field struct {
	Names []string `json:"names"`
	Form  string   `json:"form"` // ident | star | sel | starsel | array | arraysel
	Pkg   string   `json:"pkg"`
	Base  string   `json:"base"`
}

// Spec: a method of an interface type.
type Spec struct {
	Name    string  `json:"name"`
	Params  []Field `json:"params"`
	Results []Field `json:"results"`
}

// Stmt of a Go function body.
//
//	call    q.name(args)        (q = "" : plain call name(args))
//	defer   defer q.name(args)
//	assign  lhs := q.name(args) (q = "" and name = "": lhs := 1)
//	return  return [q.name(args)]   (zero values for the remaining results)
type Stmt struct {
	K    string   `json:"k"`
	Q    string   `json:"q"`
	Name string   `json:"name"`
	Lhs  string   `json:"lhs"`
	Args []string `json:"args"`
	// Lit: this call statement is written inside a func literal that is the last argument of the PREVIOUS statement of
	// the body (already part of that statement's text); it is a statement of the function all the same
	Lit bool `json:"lit"`
}

type GoImport struct {
	Path  string `json:"path"`
	Alias string `json:"alias"`
}

// GoDecl: k = struct | iface | method | func
type GoDecl struct {
	K       string  `json:"k"`
	Name    string  `json:"name"`
	Fields  []Field `json:"fields"`
	Specs   []Spec  `json:"specs"`
	Recv    string  `json:"recv"`
	Ptr     bool    `json:"ptr"`
	Rv      string  `json:"rv"`
	Params  []Field `json:"params"`
	Results []Field `json:"results"`
	Body    []Stmt  `json:"body"`
}

type PyName struct {
	Name string `json:"name"`
	As   string `json:"as"`
}

type PyDeco struct {
	Name string   `json:"name"`
	Args []string `json:"args"`
}

type PyFunc struct {
	Name   string   `json:"name"`
	Decos  []PyDeco `json:"decos"`
	Params []string `json:"params"`
	Nested []string `json:"nested"`
}

// PyItem: k = import | from | class | func
type PyItem struct {
	K       string   `json:"k"`
	Source  string   `json:"source"`
	Names   []PyName `json:"names"`
	Paren   bool     `json:"paren"`
	Name    string   `json:"name"`
	Decos   []PyDeco `json:"decos"`
	Bases   []string `json:"bases"`
	Methods []PyFunc `json:"methods"`
	Params  []string `json:"params"`
	Nested  []string `json:"nested"`
	// In/At: a class written INSIDE the class named In, after that class's first At methods (a class of the module all
	// the same: listed under its own name with its own methods)
	In string `json:"in"`
	At int    `json:"at"`
}

// File: one source file. Go uses pkg/imports/decls/style, Python uses items/style.
type File struct {
	Pkg     string     `json:"pkg"`
	Imports []GoImport `json:"imports"`
	Decls   []GoDecl   `json:"decls"`
	Items   []PyItem   `json:"items"`
	Style   int        `json:"style"` // layout variant chosen by the generator (0 = plain)
}

type Input struct {
	Lang  string `json:"lang"`
	Files []File `json:"files"`
}

type Case struct {
	Case    string          `json:"case"`
	Input   Input           `json:"input"`
	Machine json.RawMessage `json:"machine,omitempty"` // the Machine's own output for this input (drift diagnostics only; passed through)
}

// ------------------------------------------------------------------ observation

type NT struct {
	Name string `json:"name"`
	Type string `json:"type"`
}

type CallObs struct {
	Node string `json:"node"`
	Fn   string `json:"fn"`
}

type FnObs struct {
	Name   string    `json:"name"`
	Params []NT      `json:"params"`
	Decos  []string  `json:"decos"`
	Calls  []CallObs `json:"calls"`
}

type TypeObs struct {
	Name    string   `json:"name"`
	Pkg     string   `json:"pkg"`
	Props   []NT     `json:"props"`
	Decos   []string `json:"decos"`
	Methods []FnObs  `json:"methods"`
}

type ImportObs struct {
	Source string   `json:"source"`
	As     string   `json:"as"`
	Usage  []string `json:"usage"`
}

type MemberObs struct {
	ID   string `json:"id"`
	Type string `json:"type"`
}

type FileObs struct {
	Panic   bool        `json:"panic"`
	Accepts bool        `json:"accepts"` // the front-end's own parser accepts the rendered text (no syntax error)
	Pkg     string      `json:"pkg"`
	Imports []ImportObs `json:"imports"`
	Types   []TypeObs   `json:"types"`
	Funcs   []FnObs     `json:"funcs"`
	Members []MemberObs `json:"members"`
	Note    string      `json:"note,omitempty"`
}

type CommonObs struct {
	Panic   bool      `json:"panic"`
	Accepts bool      `json:"accepts"` // no syntax error was reported during the whole run
	Ds      []TypeObs `json:"ds"`
	Note    string    `json:"note,omitempty"`
}

type Observed struct {
	Panic  bool      `json:"panic"` // process died / timed out
	Files  []FileObs `json:"files"`
	Common CommonObs `json:"common"`
}

type Record struct {
	Case     string          `json:"case"`
	Input    Input           `json:"input"`
	Observed Observed        `json:"observed"`
	Machine  json.RawMessage `json:"machine,omitempty"`
	Rendered []string        `json:"rendered,omitempty"`
}

func emptyFileObs() FileObs {
	return FileObs{Imports: []ImportObs{}, Types: []TypeObs{}, Funcs: []FnObs{}, Members: []MemberObs{}}
}

// normalise: every key present, [] never null
func normalise(in *Input) {
	if in.Files == nil {
		in.Files = []File{}
	}
	for i := range in.Files {
		f := &in.Files[i]
		if f.Imports == nil {
			f.Imports = []GoImport{}
		}
		if f.Decls == nil {
			f.Decls = []GoDecl{}
		}
		if f.Items == nil {
			f.Items = []PyItem{}
		}
		for j := range f.Decls {
			d := &f.Decls[j]
			d.Fields = normFields(d.Fields)
			d.Params = normFields(d.Params)
			d.Results = normFields(d.Results)
			if d.Specs == nil {
				d.Specs = []Spec{}
			}
			for k := range d.Specs {
				d.Specs[k].Params = normFields(d.Specs[k].Params)
				d.Specs[k].Results = normFields(d.Specs[k].Results)
			}
			if d.Body == nil {
				d.Body = []Stmt{}
			}
			for k := range d.Body {
				if d.Body[k].Args == nil {
					d.Body[k].Args = []string{}
				}
			}
		}
		for j := range f.Items {
			it := &f.Items[j]
			if it.Names == nil {
				it.Names = []PyName{}
			}
			it.Decos = normDecos(it.Decos)
			if it.Bases == nil {
				it.Bases = []string{}
			}
			if it.Methods == nil {
				it.Methods = []PyFunc{}
			}
			if it.Params == nil {
				it.Params = []string{}
			}
			if it.Nested == nil {
				it.Nested = []string{}
			}
			for k := range it.Methods {
				m := &it.Methods[k]
				m.Decos = normDecos(m.Decos)
				if m.Params == nil {
					m.Params = []string{}
				}
				if m.Nested == nil {
					m.Nested = []string{}
				}
			}
		}
	}
}

func normFields(fs []Field) []Field {
	if fs == nil {
		return []Field{}
	}
	for i := range fs {
		if fs[i].Names == nil {
			fs[i].Names = []string{}
		}
	}
	return fs
}

func normDecos(ds []PyDeco) []PyDeco {
	if ds == nil {
		return []PyDeco{}
	}
	for i := range ds {
		if ds[i].Args == nil {
			ds[i].Args = []string{}
		}
	}
	return ds
}

func ext(lang string) string {
	if lang == "py" {
		return ".py"
	}
	return ".go"
}

func renderFile(lang string, f File) string {
	if lang == "py" {
		return renderPy(f)
	}
	return renderGo(f)
}

func one(raw json.RawMessage) interface{} {
	var c Case
	if err := json.Unmarshal(raw, &c); err != nil {
		panic(err)
	}
	normalise(&c.Input)
	rec := Record{Case: c.Case, Input: c.Input, Machine: c.Machine}
	texts := make([]string, len(c.Input.Files))
	for i, f := range c.Input.Files {
		texts[i] = renderFile(c.Input.Lang, f)
	}
	rec.Observed.Files = []FileObs{}
	for i := range c.Input.Files {
		rec.Observed.Files = append(rec.Observed.Files, driveFile(c.Input.Lang, texts[i], fileName(c.Input.Lang, i)))
	}
	rec.Observed.Common = driveCommon(c.Input.Lang, texts)
	if os.Getenv("VERIF_RENDERED") != "" {
		rec.Rendered = texts
	}
	return rec
}

func fileName(lang string, i int) string {
	return fmt.Sprintf("f%d%s", i, ext(lang))
}

func abnormal(raw json.RawMessage, timeout bool, stderr string) interface{} {
	var c Case
	json.Unmarshal(raw, &c)
	normalise(&c.Input)
	rec := Record{Case: c.Case, Input: c.Input, Machine: c.Machine}
	rec.Observed.Panic = true
	rec.Observed.Files = []FileObs{}
	for range c.Input.Files {
		o := emptyFileObs()
		o.Panic = true
		o.Accepts = true
		o.Note = "process died"
		rec.Observed.Files = append(rec.Observed.Files, o)
	}
	note := stderr
	if len(note) > 300 {
		note = note[len(note)-300:]
	}
	rec.Observed.Common = CommonObs{Panic: true, Accepts: true, Ds: []TypeObs{}, Note: note}
	return rec
}

func main() {
	if len(os.Args) >= 2 && os.Args[1] == "render" {
		in, _ := io.ReadAll(os.Stdin)
		var c Case
		if err := json.Unmarshal(in, &c); err != nil {
			fmt.Fprintln(os.Stderr, err)
			os.Exit(2)
		}
		normalise(&c.Input)
		for i, f := range c.Input.Files {
			fmt.Printf("---- %s\n%s", fileName(c.Input.Lang, i), renderFile(c.Input.Lang, f))
		}
		return
	}
	lib.Main(lib.Handler{One: one, Gen: gen, Abnormal: abnormal})
}
