// Harness for the cocafile suite (extension X07): the file walkers of pkg/adapter/cocafile (GetFilesWithFilter,
// GetJavaFiles, GetJavaTestFiles, the exported filters, the root .gitignore).
//
// An abstract case is a directory tree (members with their kinds), a root .gitignore (abstract lines), the directories
// above the root, the name of the root, a walker and a list of ways of naming the root (".", relative, relative with a
// trailing slash, absolute). The tree is built on disk in a scratch directory; for every way of naming the root the
// walker is asked twice
//
//	via "api"  in this process (os.Chdir + the public function)
//	via "cli"  by the coca binary: `coca analysis -p <root>` (GetJavaFiles; the files are the FilePath values of
//	           coca_reporter/deps.json) or `coca tbs -p <root>` (GetJavaTestFiles; coca_reporter/tdeps.json)
//
// and the returned paths are made relative to the root ("." = the root itself). `facts.base` tells TLC the directories
// of the scratch directory (they are part of an absolute root path). No expected values here: TLC
// (X07CocaFileRef!Diff) judges.
package main

import (
	"encoding/json"
	"fmt"
	"os"
	"os/exec"
	"path/filepath"
	"strings"

	"github.com/modernizing/coca/pkg/adapter/cocafile"

	"verifharness/lib"
)

type Entry struct {
	Path []string `json:"path"`
	Kind string   `json:"kind"` // file | dir | linkfile | linkdir | deadlink
}

type Line struct {
	T    string   `json:"t"` // comment | blank | name | dir | suffix | rooted
	Neg  bool     `json:"neg"`
	Name string   `json:"name"`
	Path []string `json:"path"`
}

type Ignore struct {
	Present bool   `json:"present"`
	Crlf    bool   `json:"crlf"`
	Lines   []Line `json:"lines"`
}

type Input struct {
	Via     string   `json:"via"`    // api | cli
	Walker  string   `json:"walker"` // code | test | java | go | py | ts | pom | gradle
	Above   []string `json:"above"`
	Root    string   `json:"root"`
	Addrs   []string `json:"addrs"` // dot | rel | relslash | abs
	Entries []Entry  `json:"entries"`
	Ignore  Ignore   `json:"ignore"`
}

type Case struct {
	Case  string `json:"case"`
	Input Input  `json:"input"`
}

type Run struct {
	Addr  string   `json:"addr"`
	Panic bool     `json:"panic"`
	Files []string `json:"files"`
	Again []string `json:"again"`
	Raw   []string `json:"raw,omitempty"` // the paths as returned (first request)
	Note  string   `json:"note,omitempty"`
}

type Obs struct {
	Panic bool   `json:"panic"`
	Runs  []Run  `json:"runs"`
	Note  string `json:"note,omitempty"`
}

type Facts struct {
	Base []string `json:"base"`
}

type Record struct {
	Case      string   `json:"case"`
	Input     Input    `json:"input"`
	Facts     Facts    `json:"facts"`
	Gitignore string   `json:"gitignore,omitempty"` // the rendered .gitignore
	Observed  Obs      `json:"observed"`
	Rendered  []string `json:"rendered,omitempty"`
}

func normalize(in *Input) {
	if in.Via == "" {
		in.Via = "api"
	}
	if in.Above == nil {
		in.Above = []string{}
	}
	if in.Addrs == nil {
		in.Addrs = []string{}
	}
	if in.Entries == nil {
		in.Entries = []Entry{}
	}
	for i := range in.Entries {
		if in.Entries[i].Path == nil {
			in.Entries[i].Path = []string{}
		}
	}
	if in.Ignore.Lines == nil {
		in.Ignore.Lines = []Line{}
	}
	for i := range in.Ignore.Lines {
		if in.Ignore.Lines[i].Path == nil {
			in.Ignore.Lines[i].Path = []string{}
		}
	}
}

func short(s string, n int) string {
	if len(s) > n {
		return s[len(s)-n:]
	}
	return s
}

func fault(format string, a ...interface{}) {
	panic("harness: " + fmt.Sprintf(format, a...))
}

func goodName(n string) bool {
	return n != "" && n != "." && n != ".." && !strings.ContainsAny(n, "/\n\r\x00")
}

// ---------------------------------------------------------------- render

func renderLine(l Line) string {
	neg := ""
	if l.Neg {
		neg = "!"
	}
	switch l.T {
	case "comment":
		return "# " + l.Name
	case "blank":
		return ""
	case "name":
		return neg + l.Name
	case "dir":
		return neg + l.Name + "/"
	case "suffix":
		return neg + "*" + l.Name
	case "rooted":
		return neg + "/" + strings.Join(l.Path, "/")
	}
	fault("unknown .gitignore line type %q", l.T)
	return ""
}

func renderIgnore(ig Ignore) string {
	var ls []string
	for _, l := range ig.Lines {
		switch l.T {
		case "name", "dir", "suffix":
			if !goodName(l.Name) || strings.ContainsAny(l.Name, "*?[]\\ #!") {
				fault("bad .gitignore name %q", l.Name)
			}
		case "rooted":
			if len(l.Path) == 0 {
				fault("empty rooted line")
			}
			for _, c := range l.Path {
				if !goodName(c) {
					fault("bad rooted component %q", c)
				}
			}
		}
		ls = append(ls, renderLine(l))
	}
	sep := "\n"
	if ig.Crlf {
		sep = "\r\n"
	}
	return strings.Join(ls, sep) + sep
}

func fileText(i int, name string) string {
	if strings.HasSuffix(name, ".java") {
		return fmt.Sprintf("package p%d;\n\npublic class C%d {\n}\n", i, i)
	}
	return fmt.Sprintf("member %d\n", i)
}

// build creates scratch/<above...>/<root>/ with its members; link targets live in scratch/targets (outside the tree).
func build(scratch string, in Input) (root string, rendered []string, ignoreText string) {
	for _, c := range append(append([]string{}, in.Above...), in.Root) {
		if !goodName(c) {
			fault("bad directory name %q", c)
		}
	}
	root = filepath.Join(append(append([]string{scratch}, in.Above...), in.Root)...)
	if err := os.MkdirAll(root, 0o755); err != nil {
		fault("%v", err)
	}
	targets := filepath.Join(scratch, "targets")
	if len(in.Above) > 0 && in.Above[0] == "targets" {
		fault("`targets` is reserved")
	}
	if err := os.MkdirAll(targets, 0o755); err != nil {
		fault("%v", err)
	}
	kinds := map[string]string{}
	for i, e := range in.Entries {
		if len(e.Path) == 0 {
			fault("member without path")
		}
		for _, c := range e.Path {
			if !goodName(c) {
				fault("bad member name %q", c)
			}
		}
		key := strings.Join(e.Path, "/")
		if _, dup := kinds[key]; dup {
			fault("member %s listed twice", key)
		}
		if len(e.Path) > 1 {
			if kinds[strings.Join(e.Path[:len(e.Path)-1], "/")] != "dir" {
				fault("the parent of member %s is not a directory of the tree (listed before it)", key)
			}
		}
		if len(e.Path) == 1 && e.Path[0] == ".gitignore" {
			fault("the root .gitignore is given by `ignore`")
		}
		kinds[key] = e.Kind
		p := filepath.Join(append([]string{root}, e.Path...)...)
		name := e.Path[len(e.Path)-1]
		var err error
		switch e.Kind {
		case "dir":
			err = os.Mkdir(p, 0o755)
		case "file":
			err = os.WriteFile(p, []byte(fileText(i, name)), 0o644)
		case "linkfile":
			t := filepath.Join(targets, fmt.Sprintf("T%d.java", i))
			if err = os.WriteFile(t, []byte(fileText(i, "T.java")), 0o644); err == nil {
				err = os.Symlink(t, p)
			}
		case "linkdir":
			t := filepath.Join(targets, fmt.Sprintf("d%d", i))
			if err = os.Mkdir(t, 0o755); err == nil {
				if err = os.WriteFile(filepath.Join(t, "Inside.java"), []byte(fileText(i, "Inside.java")), 0o644); err == nil {
					err = os.Symlink(t, p)
				}
			}
		case "deadlink":
			err = os.Symlink(filepath.Join(targets, fmt.Sprintf("nothing%d", i)), p)
		default:
			fault("unknown kind %q", e.Kind)
		}
		if err != nil {
			fault("%v", err)
		}
		rendered = append(rendered, e.Kind+" "+key)
	}
	if in.Ignore.Present {
		ignoreText = renderIgnore(in.Ignore)
		if err := os.WriteFile(filepath.Join(root, ".gitignore"), []byte(ignoreText), 0o644); err != nil {
			fault("%v", err)
		}
	}
	return
}

// address returns the working directory and the codeDir argument for one way of naming the root.
func address(scratch, root string, in Input, addr string) (cwd, codeDir string) {
	rel := filepath.Join(append(append([]string{}, in.Above...), in.Root)...)
	switch addr {
	case "dot":
		return root, "."
	case "rel":
		return scratch, rel
	case "relslash":
		return scratch, rel + "/"
	case "abs":
		return scratch, root
	}
	fault("unknown addr %q", addr)
	return
}

// ---------------------------------------------------------------- project

// relative makes a returned path relative to the root ("/"-separated; "." = the root itself).
func relative(cwd, root, p string) string {
	abs := p
	if !filepath.IsAbs(abs) {
		abs = filepath.Join(cwd, p)
	}
	r, err := filepath.Rel(root, abs)
	if err != nil || r == ".." || strings.HasPrefix(r, "../") {
		return "!outside:" + p
	}
	return filepath.ToSlash(r)
}

func project(cwd, root string, ps []string) []string {
	out := []string{}
	for _, p := range ps {
		out = append(out, relative(cwd, root, p))
	}
	return out
}

// ---------------------------------------------------------------- drive

func walk(walker, codeDir string) []string {
	switch walker {
	case "code":
		return cocafile.GetJavaFiles(codeDir)
	case "test":
		return cocafile.GetJavaTestFiles(codeDir)
	case "java":
		return cocafile.GetFilesWithFilter(codeDir, cocafile.JavaFileFilter)
	case "go":
		return cocafile.GetFilesWithFilter(codeDir, cocafile.GoFileFilter)
	case "py":
		return cocafile.GetFilesWithFilter(codeDir, cocafile.PythonFileFilter)
	case "ts":
		return cocafile.GetFilesWithFilter(codeDir, cocafile.TypeScriptFileFilter)
	case "pom":
		return cocafile.GetFilesWithFilter(codeDir, cocafile.PomXmlFilter)
	case "gradle":
		return cocafile.GetFilesWithFilter(codeDir, cocafile.BuildGradleFilter)
	}
	fault("unknown walker %q", walker)
	return nil
}

func viaAPI(walker, cwd, codeDir, root string, run *Run) {
	if err := os.Chdir(cwd); err != nil {
		fault("%v", err)
	}
	p, msg := lib.Guard(func() {
		first := walk(walker, codeDir)
		second := walk(walker, codeDir)
		run.Raw = append([]string{}, first...)
		run.Files = project(cwd, root, first)
		run.Again = project(cwd, root, second)
	})
	if p {
		if strings.HasPrefix(msg, "harness:") {
			panic(msg)
		}
		run.Panic = true
		run.Files, run.Again = []string{}, []string{}
		run.Note = short(msg, 300)
	}
}

func viaCLI(walker, scratch, cwd, codeDir, root string, run *Run) {
	bin := os.Getenv("VERIF_COCA")
	if bin == "" {
		fault("VERIF_COCA not set")
	}
	sub, outFile := "analysis", "deps.json"
	switch walker {
	case "code":
	case "test":
		sub, outFile = "tbs", "tdeps.json"
	default:
		fault("no command for walker %q", walker)
	}
	tmp := filepath.Join(scratch, "tmp")
	if err := os.MkdirAll(tmp, 0o755); err != nil {
		fault("%v", err)
	}
	cmd := exec.Command(bin, sub, "-p", codeDir)
	cmd.Dir = cwd
	cmd.Env = append(os.Environ(), "TMPDIR="+tmp, "HOME="+tmp)
	out, err := cmd.CombinedOutput()
	if err != nil {
		os.RemoveAll(filepath.Join(cwd, "coca_reporter"))
		if _, isExit := err.(*exec.ExitError); !isExit {
			fault("coca does not start: %v", err)
		}
		run.Panic = true
		run.Note = short(string(out), 400)
		return
	}
	// every run starts without the reports (and caches) of an earlier one
	defer os.RemoveAll(filepath.Join(cwd, "coca_reporter"))
	raw, err := os.ReadFile(filepath.Join(cwd, "coca_reporter", outFile))
	if err != nil {
		run.Panic = true
		run.Note = "no " + outFile + ": " + err.Error()
		return
	}
	var nodes []struct {
		FilePath string
	}
	if err := json.Unmarshal(raw, &nodes); err != nil {
		run.Panic = true
		run.Note = outFile + ": " + err.Error()
		return
	}
	var ps []string
	for _, n := range nodes {
		ps = append(ps, n.FilePath)
	}
	run.Raw = append([]string{}, ps...)
	run.Files = project(cwd, root, ps)
	run.Again = run.Files
}

func one(raw json.RawMessage) interface{} {
	var c Case
	if err := json.Unmarshal(raw, &c); err != nil {
		fault("case: %v", err)
	}
	normalize(&c.Input)
	in := c.Input
	rec := Record{Case: c.Case, Input: in, Facts: Facts{Base: []string{}}, Observed: Obs{Runs: []Run{}}}
	scratch, err := os.MkdirTemp(os.Getenv("VERIF_SCRATCH"), "cf")
	if err != nil {
		fault("%v", err)
	}
	defer os.RemoveAll(scratch)
	if scratch, err = filepath.Abs(scratch); err != nil {
		fault("%v", err)
	}
	if scratch, err = filepath.EvalSymlinks(scratch); err != nil {
		fault("%v", err)
	}
	for _, comp := range strings.Split(filepath.ToSlash(scratch), "/") {
		if comp != "" {
			rec.Facts.Base = append(rec.Facts.Base, comp)
		}
	}
	home, _ := os.Getwd()
	var root string
	func() {
		defer func() {
			if r := recover(); r != nil {
				os.RemoveAll(scratch)
				panic(r)
			}
		}()
		root, rec.Rendered, rec.Gitignore = build(scratch, in)
		for _, addr := range in.Addrs {
			cwd, codeDir := address(scratch, root, in, addr)
			run := Run{Addr: addr, Files: []string{}, Again: []string{}}
			if in.Via == "cli" {
				viaCLI(in.Walker, scratch, cwd, codeDir, root, &run)
			} else {
				viaAPI(in.Walker, cwd, codeDir, root, &run)
			}
			rec.Observed.Runs = append(rec.Observed.Runs, run)
		}
	}()
	if home != "" {
		os.Chdir(home)
	}
	return rec
}

func abnormal(raw json.RawMessage, timeout bool, stderr string) interface{} {
	var c Case
	json.Unmarshal(raw, &c)
	normalize(&c.Input)
	note := "process died: "
	if timeout {
		note = "timeout: "
	}
	return Record{Case: c.Case, Input: c.Input, Facts: Facts{Base: []string{}},
		Observed: Obs{Panic: true, Runs: []Run{}, Note: note + short(stderr, 300)}}
}

func main() {
	lib.Main(lib.Handler{One: one, Gen: gen, Abnormal: abnormal})
}
