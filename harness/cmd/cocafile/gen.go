package main

import (
	"fmt"
	"math/rand"
	"sort"
	"strings"
)

// gen: seeded random abstract cases, wider than TLC's constants: trees of up to ~25 members and depth 5 over name pools
// with the tricky shapes (names that merely contain "Test"/"Tests"/".java"/"testData", hidden directories, directories
// named like files, files named like directories, non-ASCII names), symbolic links of the three kinds, a root .gitignore
// of up to 5 lines (comment, blank, name, name/, *suffix, /rooted, each possibly negated, CRLF endings), every walker,
// the root named in all four ways, roots whose own path contains the words the lines and the testData test look for;
// a share of the Java cases goes through the coca binary.
func gen(seed int64, n int, tier string) []interface{} {
	r := rand.New(rand.NewSource(seed*15485863 + 7))
	javaFiles := []string{"A.java", "Order.java", "OrderTest.java", "OrderTests.java", "Test.java", "Tests.java", "Contest.java",
		"LatestData.java", "testDataLoader.java", "TestHelper.java", "MyTestsCase.java", "x.java.bak", "Foo.javax", "notes.txt",
		".hidden.java", "README.md", "java", "B.java", "BGenerated.java", "Ünï.java", "ÜnïTest.java", "a.JAVA", "gen", "Spec.java",
		"A.java", "B.java", "Order.java", "OrderTest.java", "Cart.java", "CartTests.java", "Ledger.java", "Clock.java", "Mailer.java"}
	otherFiles := []string{"main.go", "main_test.go", "go", "x.go.orig", "setup.py", "app.py", "x.pyc", "index.ts", "index.tsx", "a.d.ts",
		"pom.xml", "dependency-reduced-pom.xml", "pom.xml.bak", "build.gradle", "settings.gradle", "prebuild.gradle", "build.gradle.kts",
		"notes.txt", "B.java"}
	dirs := []string{"src", "main", "test", "java", "gen", "build", "out", ".git", ".idea", "testData", "latestData", "testDataOld",
		"pkg.java", "websrc", "com", "acme", "target", "Test.java", "nats.go", "types.ts", "tool.py", "pom.xml", "build.gradle",
		"src", "main", "com", "acme", "gen", "build", "util", "model", "web", "docs", "lib", "shop", "pay", "core"}
	ignNames := []string{"gen", "build", "out", "target", "B.java", "proj", ".idea", "src", "w", "java", "nats.go", "acme", "notes.txt", "main"}
	ignSuffix := []string{"Test.java", ".java", ".bak", "Generated.java", "Data.java", ".xml", "_test.go", ".d.ts", ".txt"}
	// three quarters of the roots are plain (the shapes of the known findings stay a minority)
	aboves := [][]string{{}, {}, {}, {"w"}, {"w"}, {"w", "x"}, {"build"}, {"gen"}, {"latestData"}, {"testData"}, {"src", "test"}, {"websrc", "test"}, {"out", "w"}}
	roots := []string{"proj", "proj", "proj", "proj", "proj", "app", "java", "latestData", "out", "nats.go", "app.java", "src", "testData"}
	plainAboves := [][]string{{}, {"w"}, {"w", "x"}}
	walkersJava := []string{"code", "test", "java"}
	walkersOther := []string{"go", "py", "ts", "pom", "gradle"}
	out := []interface{}{}
	for i := 0; i < n; i++ {
		in := Input{Via: "api", Above: aboves[r.Intn(len(aboves))], Root: roots[r.Intn(len(roots))], Entries: []Entry{}}
		if r.Intn(2) == 0 {
			in.Above, in.Root = plainAboves[r.Intn(len(plainAboves))], "proj"
		}
		java := r.Intn(4) != 0
		files := javaFiles
		if java {
			in.Walker = walkersJava[r.Intn(len(walkersJava))]
		} else {
			in.Walker = walkersOther[r.Intn(len(walkersOther))]
			files = otherFiles
		}
		if java && in.Walker != "java" && r.Intn(6) == 0 {
			in.Via = "cli"
		}
		// the tree: directories first (each below an earlier one or the root), then the other members
		type dirT struct{ p []string }
		ds := []dirT{{[]string{}}}
		used := map[string]bool{}
		add := func(p []string, k string) bool {
			key := strings.Join(p, "/")
			if used[key] || key == ".gitignore" {
				return false
			}
			used[key] = true
			in.Entries = append(in.Entries, Entry{Path: append([]string{}, p...), Kind: k})
			return true
		}
		nd := r.Intn(7)
		if r.Intn(5) == 0 {
			// a Maven layout
			chain := [][]string{{"src"}, {"src", "main"}, {"src", "main", "java"}, {"src", "test"}, {"src", "test", "java"}}
			for _, p := range chain {
				if add(p, "dir") {
					ds = append(ds, dirT{p})
				}
			}
		}
		for k := 0; k < nd; k++ {
			parent := ds[r.Intn(len(ds))].p
			if len(parent) >= 4 {
				continue
			}
			p := append(append([]string{}, parent...), dirs[r.Intn(len(dirs))])
			if add(p, "dir") {
				ds = append(ds, dirT{p})
			}
		}
		nf := r.Intn(12)
		for k := 0; k < nf; k++ {
			parent := ds[r.Intn(len(ds))].p
			p := append(append([]string{}, parent...), files[r.Intn(len(files))])
			kind := "file"
			if in.Via == "api" {
				switch x := r.Intn(40); {
				case x == 0:
					kind = "linkfile"
				case x == 1:
					kind = "deadlink"
				case x == 2:
					kind = "linkdir"
				}
			} else if r.Intn(40) == 0 {
				kind = "linkfile"
			}
			add(p, kind)
		}
		if in.Via == "cli" {
			// the commands die on a directory (or dead link) they take for a file: keep that shape rare there
			keep := in.Entries[:0]
			drop := map[string]bool{}
			for _, e := range in.Entries {
				name := e.Path[len(e.Path)-1]
				below := false
				for k := 1; k < len(e.Path); k++ {
					if drop[strings.Join(e.Path[:k], "/")] {
						below = true
					}
				}
				if below || (e.Kind == "dir" && strings.HasSuffix(name, ".java") && r.Intn(8) != 0) {
					drop[strings.Join(e.Path, "/")] = true
					continue
				}
				keep = append(keep, e)
			}
			in.Entries = keep
		}
		// parents before children, then by name: the order of a walk (the harness only needs parents first)
		sort.SliceStable(in.Entries, func(a, b int) bool {
			return strings.Join(in.Entries[a].Path, "/\x00") < strings.Join(in.Entries[b].Path, "/\x00")
		})
		// the root .gitignore
		if r.Intn(3) != 0 {
			in.Ignore.Present = true
			in.Ignore.Crlf = r.Intn(6) == 0
			nl := r.Intn(5)
			if r.Intn(4) == 0 {
				nl = 1
			}
			for k := 0; k < nl; k++ {
				l := Line{Path: []string{}}
				l.Neg = r.Intn(5) == 0
				switch x := r.Intn(12); {
				case x < 1:
					l.T, l.Neg, l.Name = "comment", false, ignNames[r.Intn(len(ignNames))]
				case x < 2:
					l.T, l.Neg = "blank", false
				case x < 5:
					l.T, l.Name = "name", ignNames[r.Intn(len(ignNames))]
				case x < 7:
					l.T, l.Name = "dir", ignNames[r.Intn(len(ignNames))]
				case x < 9:
					l.T, l.Name = "suffix", ignSuffix[r.Intn(len(ignSuffix))]
				default:
					l.T = "rooted"
					switch y := r.Intn(4); {
					case y < 3 && len(in.Entries) > 0:
						l.Path = append([]string{}, in.Entries[r.Intn(len(in.Entries))].Path...)
					case y == 3 && len(in.Above) > 0:
						// a rooted line that spells the way to the root
						l.Path = append(append([]string{}, in.Above...), in.Root)
					default:
						l.Path = []string{ignNames[r.Intn(len(ignNames))]}
					}
				}
				in.Ignore.Lines = append(in.Ignore.Lines, l)
			}
		} else {
			in.Ignore.Lines = []Line{}
		}
		// the ways of naming the root
		all := []string{"dot", "rel", "relslash", "abs"}
		if in.Via == "cli" {
			in.Addrs = []string{all[r.Intn(len(all))]}
			if r.Intn(2) == 0 {
				in.Addrs = append(in.Addrs, "dot")
			}
		} else {
			r.Shuffle(len(all), func(a, b int) { all[a], all[b] = all[b], all[a] })
			in.Addrs = all[:1+r.Intn(4)]
		}
		out = append(out, Case{Case: fmt.Sprintf("rand-%d-%d", seed, i), Input: in})
	}
	return out
}
