// Harness for the todogit suite (extension X09): `coca todo -g`
// (todo.TodoApp.AnalysisPath + BuildWithGitHistory, shell.RunGitGetLog, git.BuildMessageByInput).
//
// An abstract case is a HISTORY: commits (author, date, subject) whose ops edit files line by line
// (add / insert / delete / replace / move / rename; every line has a unique text). The history is built with real
// git in a scratch repository (deterministic dates, HOME and GIT_CONFIG_NOSYSTEM set, committer different from the
// author). Then, in a FRESH process whose working directory is the repository (or the sub-directory `cwd` of it):
//
//	via "api"  AnalysisPath(".", filters); shell.RunGitGetLog(line, file) for every todo (recorded as `logs`);
//	           BuildWithGitHistory(todos) (recorded as `details`)
//	via "cli"  the coca binary runs `coca todo -g`; the printed table is read back with a strict reader
//
// `facts` are read from git itself by other invocations: the abbreviated hash of every commit and, per file and
// line of HEAD, the commit `git blame` names (TLC cross-checks the renderer with them). No expected values here:
// TLC (X09TodoGitRef!Diff) judges.
package main

import (
	"encoding/json"
	"fmt"
	"os"
	"os/exec"
	"path/filepath"
	"regexp"
	"strconv"
	"strings"

	"github.com/modernizing/coca/pkg/adapter/shell"
	"github.com/modernizing/coca/pkg/application/todo"

	"verifharness/lib"
)

type Line struct {
	Kind string `json:"kind"` // code | todo | fixme | assigned | block
	ID   int    `json:"id"`
}

type Op struct {
	Op    string `json:"op"` // add | insert | delete | replace | move | rename
	File  string `json:"file"`
	To    string `json:"to"` // rename: the new name
	At    int    `json:"at"`
	N     int    `json:"n"` // delete: how many lines; move: the new position
	Lines []Line `json:"lines"`
}

type Commit struct {
	Author  string `json:"author"`
	Date    string `json:"date"`
	Subject string `json:"subject"`
	Ops     []Op   `json:"ops"`
}

type Input struct {
	Via     string   `json:"via"` // "api" | "cli"
	Cwd     string   `json:"cwd"` // directory of the repository the command runs in ("" = its root)
	History []Commit `json:"history"`
}

// DriveReq: the sub-case executed by a child process inside the repository
type DriveReq struct {
	Repo    string `json:"repo"`
	Cwd     string `json:"cwd"`
	Via     string `json:"via"`
	Scratch string `json:"scratch"`
}

type Case struct {
	Case  string    `json:"case"`
	Input Input     `json:"input"`
	Drive *DriveReq `json:"drive,omitempty"`
}

type FileBlame struct {
	File    string `json:"file"`
	Commits []int  `json:"commits"`
}

type Facts struct {
	Revs  []string    `json:"revs"`
	Blame []FileBlame `json:"blame"`
}

type Detail struct {
	File     string `json:"file"`
	Line     int    `json:"line"`
	Assignee string `json:"assignee"`
	Message  string `json:"message"`
	Author   string `json:"author"`
	Date     string `json:"date"`
}

type Log struct {
	File string `json:"file"`
	Line int    `json:"line"`
	Text string `json:"text"`
}

type Obs struct {
	Panic       bool     `json:"panic"`
	Wellformed  bool     `json:"wellformed"`
	HasAssignee bool     `json:"hasAssignee"`
	Details     []Detail `json:"details"`
	Logs        []Log    `json:"logs"`
	Note        string   `json:"note,omitempty"`
}

type Record struct {
	Case     string            `json:"case"`
	Input    Input             `json:"input"`
	Facts    Facts             `json:"facts"`
	Rendered map[string]string `json:"rendered,omitempty"`
	Observed Obs               `json:"observed"`
}

func emptyObs() Obs { return Obs{Details: []Detail{}, Logs: []Log{}} }

func normalize(in *Input) {
	if in.Via == "" {
		in.Via = "api"
	}
	if in.History == nil {
		in.History = []Commit{}
	}
	for i := range in.History {
		if in.History[i].Ops == nil {
			in.History[i].Ops = []Op{}
		}
		for j := range in.History[i].Ops {
			if in.History[i].Ops[j].Lines == nil {
				in.History[i].Ops[j].Lines = []Line{}
			}
		}
	}
}

func short(s string, n int) string {
	if len(s) > n {
		return s[len(s)-n:]
	}
	return s
}

// ---------------------------------------------------------------- render

// text of a line: unique (it contains the id), so that the diff of a commit is exactly the edit that was made
func text(l Line) string {
	indent := strings.Repeat(" ", 4*(l.ID%3))
	switch l.Kind {
	case "code":
		return fmt.Sprintf("%sint v%d = %d;", indent, l.ID, l.ID)
	case "todo":
		return fmt.Sprintf("%s// TODO: m%d", indent, l.ID)
	case "fixme":
		return fmt.Sprintf("%s// FIXME: m%d", indent, l.ID)
	case "assigned":
		return fmt.Sprintf("%s// TODO(bob): m%d", indent, l.ID)
	case "block":
		return fmt.Sprintf("%s/* TODO: m%d */", indent, l.ID)
	}
	panic("harness: unknown line kind " + l.Kind)
}

type repo struct {
	dir     string
	scratch string
	tree    map[string][]Line
	tick    int
}

func gitEnv(home string) []string {
	return []string{"GIT_CONFIG_NOSYSTEM=1", "HOME=" + home, "GIT_TERMINAL_PROMPT=0", "LC_ALL=C.UTF-8", "GIT_PAGER=cat"}
}

func (r *repo) git(env []string, args ...string) string {
	cmd := exec.Command("git", args...)
	cmd.Dir = r.dir
	cmd.Env = append(append(os.Environ(), gitEnv(r.scratch)...), env...)
	out, err := cmd.CombinedOutput()
	if err != nil {
		panic(fmt.Sprintf("harness: git %v: %v\n%s", args, err, out))
	}
	return string(out)
}

func (r *repo) write(f string) {
	p := filepath.Join(r.dir, filepath.FromSlash(f))
	if err := os.MkdirAll(filepath.Dir(p), 0o755); err != nil {
		panic("harness: " + err.Error())
	}
	var b strings.Builder
	for _, l := range r.tree[f] {
		b.WriteString(text(l))
		b.WriteString("\n")
	}
	if err := os.WriteFile(p, []byte(b.String()), 0o644); err != nil {
		panic("harness: " + err.Error())
	}
}

func (r *repo) apply(op Op) {
	s, ok := r.tree[op.File]
	bad := func(why string) {
		panic(fmt.Sprintf("harness: invalid op %+v: %s", op, why))
	}
	if op.Op != "add" && !ok {
		bad("no such file")
	}
	switch op.Op {
	case "add":
		if ok {
			bad("file exists")
		}
		r.tree[op.File] = append([]Line{}, op.Lines...)
		r.write(op.File)
	case "insert":
		if op.At < 1 || op.At > len(s)+1 || len(op.Lines) == 0 {
			bad("position")
		}
		n := append([]Line{}, s[:op.At-1]...)
		n = append(n, op.Lines...)
		n = append(n, s[op.At-1:]...)
		r.tree[op.File] = n
		r.write(op.File)
	case "delete":
		if op.At < 1 || op.N < 1 || op.At+op.N-1 > len(s) {
			bad("position")
		}
		n := append([]Line{}, s[:op.At-1]...)
		n = append(n, s[op.At-1+op.N:]...)
		r.tree[op.File] = n
		r.write(op.File)
	case "replace":
		if op.At < 1 || op.At > len(s) || len(op.Lines) != 1 {
			bad("position")
		}
		n := append([]Line{}, s...)
		n[op.At-1] = op.Lines[0]
		r.tree[op.File] = n
		r.write(op.File)
	case "move":
		if op.At < 1 || op.At > len(s) || op.N < 1 || op.N > len(s) || (op.N-op.At < 2 && op.At-op.N < 2) {
			bad("position")
		}
		l := s[op.At-1]
		rest := append([]Line{}, s[:op.At-1]...)
		rest = append(rest, s[op.At:]...)
		n := append([]Line{}, rest[:op.N-1]...)
		n = append(n, l)
		n = append(n, rest[op.N-1:]...)
		r.tree[op.File] = n
		r.write(op.File)
	case "rename":
		if _, exists := r.tree[op.To]; exists || op.To == "" {
			bad("target")
		}
		if err := os.MkdirAll(filepath.Dir(filepath.Join(r.dir, filepath.FromSlash(op.To))), 0o755); err != nil {
			panic("harness: " + err.Error())
		}
		r.git(nil, "mv", "--", op.File, op.To)
		r.tree[op.To] = s
		delete(r.tree, op.File)
	default:
		bad("unknown op")
	}
}

func (r *repo) commit(c Commit) {
	seen := map[string]bool{}
	for _, op := range c.Ops {
		if seen[op.File] || (op.To != "" && seen[op.To]) {
			panic("harness: two ops on one file in one commit")
		}
		seen[op.File] = true
		if op.To != "" {
			seen[op.To] = true
		}
		r.apply(op)
	}
	r.git(nil, "add", "-A")
	r.tick++
	// the committer is somebody else, later: only the author name and the author date may be reported
	env := []string{"GIT_AUTHOR_NAME=" + c.Author, "GIT_AUTHOR_EMAIL=author@example.org", "GIT_AUTHOR_DATE=" + c.Date + "T10:00:00+0000",
		"GIT_COMMITTER_NAME=Release Bot 9", "GIT_COMMITTER_EMAIL=bot@example.org",
		fmt.Sprintf("GIT_COMMITTER_DATE=2022-03-%02dT%02d:%02d:00+0000", 1+r.tick/600, 8+(r.tick/60)%10, r.tick%60)}
	r.git(env, "commit", "-q", "--allow-empty", "-m", c.Subject)
}

var blameHead = regexp.MustCompile(`^([0-9a-f]{40}) \d+ \d+`)

func build(in Input, scratch string) (*repo, Facts, map[string]string) {
	r := &repo{dir: filepath.Join(scratch, "repo"), scratch: scratch, tree: map[string][]Line{}}
	if err := os.MkdirAll(r.dir, 0o755); err != nil {
		panic("harness: " + err.Error())
	}
	r.git(nil, "init", "-q", "-b", "main", ".")
	r.git(nil, "config", "commit.gpgsign", "false")
	r.git(nil, "config", "core.autocrlf", "false")
	r.git(nil, "config", "core.quotepath", "false")
	for _, c := range in.History {
		r.commit(c)
	}
	facts := Facts{Revs: []string{}, Blame: []FileBlame{}}
	index := map[string]int{}
	if len(in.History) > 0 {
		for i, ln := range strings.Split(strings.TrimSpace(r.git(nil, "log", "--reverse", "--format=%H %h")), "\n") {
			f := strings.Fields(ln)
			if len(f) != 2 {
				panic("harness: unexpected log line " + ln)
			}
			index[f[0]] = i + 1
			facts.Revs = append(facts.Revs, f[1])
		}
		if len(facts.Revs) != len(in.History) {
			panic("harness: the repository does not have one commit per history entry")
		}
	}
	rendered := map[string]string{}
	files := []string{}
	if len(in.History) > 0 {
		for _, f := range strings.Split(r.git(nil, "ls-files", "-z"), "\x00") {
			if f != "" {
				files = append(files, f)
			}
		}
	}
	for _, f := range files {
		fb := FileBlame{File: f, Commits: []int{}}
		b, _ := os.ReadFile(filepath.Join(r.dir, filepath.FromSlash(f)))
		rendered[f] = string(b)
		if len(b) > 0 {
			for _, ln := range strings.Split(r.git(nil, "blame", "--porcelain", "--", f), "\n") {
				if m := blameHead.FindStringSubmatch(ln); m != nil {
					k, ok := index[m[1]]
					if !ok {
						panic("harness: blame names an unknown commit")
					}
					fb.Commits = append(fb.Commits, k)
				}
			}
		}
		facts.Blame = append(facts.Blame, fb)
	}
	return r, facts, rendered
}

// ---------------------------------------------------------------- drive (child process, inside the repository)

var filters = []string{".java", ".go", ".js"}

func words(s string) string { return strings.Join(strings.Fields(s), " ") }

func drive(d DriveReq) Obs {
	o := emptyObs()
	wd := filepath.Join(d.Repo, filepath.FromSlash(d.Cwd))
	for _, kv := range gitEnv(d.Scratch) {
		p := strings.SplitN(kv, "=", 2)
		os.Setenv(p[0], p[1])
	}
	if d.Via == "cli" {
		bin := os.Getenv("VERIF_COCA")
		if bin == "" {
			panic("harness: VERIF_COCA not set")
		}
		cmd := exec.Command(bin, "todo", "-g")
		cmd.Dir = wd
		cmd.Env = append(os.Environ(), "TMPDIR="+d.Scratch)
		out, err := cmd.CombinedOutput()
		if err != nil {
			o.Panic = true
			o.Note = short(string(out), 400)
			return o
		}
		readTable(string(out), &o)
		return o
	}
	if err := os.Chdir(wd); err != nil {
		panic("harness: chdir: " + err.Error())
	}
	o.HasAssignee = true
	p, msg := lib.Guard(func() {
		app := todo.NewTodoApp()
		todos := app.AnalysisPath(".", filters)
		for _, t := range todos {
			o.Logs = append(o.Logs, Log{File: filepath.ToSlash(t.Filename), Line: t.Line, Text: shell.RunGitGetLog(t.Line, t.Filename)})
		}
		for _, d := range app.BuildWithGitHistory(todos) {
			n, err := strconv.Atoi(d.Line)
			if err != nil {
				o.Note = "Line is not a number: " + d.Line
				return
			}
			o.Details = append(o.Details, Detail{File: filepath.ToSlash(d.FileName), Line: n, Assignee: d.Assignee, Message: words(d.Message),
				Author: d.Author, Date: d.Date})
		}
		o.Wellformed = true
	})
	if p {
		o = emptyObs()
		o.Panic = true
		o.Note = short(msg, 400)
	}
	return o
}

// readTable: the table `coca todo -g` prints: a header row DATE | AUTHOR | MESSAGES | FILENAME | LINE, a rule, one row per
// todo. Strict: any other row shape leaves wellformed = false.
func readTable(out string, o *Obs) {
	rows := [][]string{}
	for _, ln := range strings.Split(out, "\n") {
		ln = strings.TrimRight(ln, "\r ")
		if !strings.HasPrefix(ln, "|") || !strings.HasSuffix(ln, "|") {
			continue
		}
		if strings.Trim(ln, "|-+") == "" {
			continue
		}
		cells := strings.Split(ln[1:len(ln)-1], " | ")
		for i := range cells {
			cells[i] = strings.TrimSpace(cells[i])
		}
		rows = append(rows, cells)
	}
	if len(rows) == 0 || strings.ToUpper(strings.Join(rows[0], ",")) != "DATE,AUTHOR,MESSAGES,FILENAME,LINE" {
		o.Note = "no table header in the output: " + short(out, 300)
		return
	}
	for _, c := range rows[1:] {
		if len(c) != 5 {
			o.Note = "row with " + strconv.Itoa(len(c)) + " cells: " + strings.Join(c, " | ")
			o.Details = []Detail{}
			return
		}
		n, err := strconv.Atoi(c[4])
		if err != nil {
			o.Note = "Line is not a number: " + c[4]
			o.Details = []Detail{}
			return
		}
		o.Details = append(o.Details, Detail{Date: c[0], Author: c[1], Message: words(c[2]), File: filepath.ToSlash(c[3]), Line: n})
	}
	o.Wellformed = true
}

// ---------------------------------------------------------------- one

func one(raw json.RawMessage) interface{} {
	var c Case
	if err := json.Unmarshal(raw, &c); err != nil {
		panic("harness: " + err.Error())
	}
	if c.Drive != nil {
		return drive(*c.Drive)
	}
	normalize(&c.Input)
	rec := Record{Case: c.Case, Input: c.Input, Observed: emptyObs()}
	scratch, err := os.MkdirTemp(os.Getenv("VERIF_SCRATCH"), "todogit-")
	if err != nil {
		panic("harness: " + err.Error())
	}
	defer os.RemoveAll(scratch)
	r, facts, rendered := build(c.Input, scratch)
	rec.Facts = facts
	rec.Rendered = rendered
	if c.Input.Cwd != "" {
		if st, err := os.Stat(filepath.Join(r.dir, filepath.FromSlash(c.Input.Cwd))); err != nil || !st.IsDir() {
			panic("harness: cwd of the case is not a directory of the repository")
		}
	}
	out, err := lib.Fresh(Case{Case: c.Case + "/drive", Drive: &DriveReq{Repo: r.dir, Cwd: c.Input.Cwd, Via: c.Input.Via, Scratch: scratch}})
	if err != nil {
		if strings.Contains(err.Error(), "harness:") {
			panic("harness: child: " + err.Error())
		}
		// the process that ran the code under test died (log.Fatalf, os.Exit, a crash): that is the observation
		rec.Observed.Panic = true
		rec.Observed.Note = short(err.Error(), 400)
		return rec
	}
	var o Obs
	if err := json.Unmarshal(out, &o); err != nil {
		panic("harness: child record: " + err.Error())
	}
	if o.Details == nil {
		o.Details = []Detail{}
	}
	if o.Logs == nil {
		o.Logs = []Log{}
	}
	rec.Observed = o
	return rec
}

func abnormal(raw json.RawMessage, timeout bool, stderr string) interface{} {
	// building a repository does not run the code under test: a death here is the harness's own
	panic("harness: case process failed outside the code under test: " + short(stderr, 500))
}

func main() {
	lib.Main(lib.Handler{One: one, Gen: gen, Abnormal: abnormal})
}
