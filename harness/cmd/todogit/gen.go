package main

import (
	"fmt"
	"math/rand"
	"sort"
	"strings"
)

// gen: seeded random histories, wider than TLC's constants: up to 7 commits by up to 6 authors (names with blanks,
// digits, brackets, non-ASCII letters, an apostrophe and a comma), author dates in any order, subjects that look like
// headers, up to 4 files (paths with blanks, sub-directories, three scanned extensions and one that is not scanned), up
// to 9 lines per file of five kinds, 1..3 edits per commit on distinct files (add, insert of 1..3 lines, delete of 1..2
// lines, replace, move across >= 2 lines, rename), run from the repository root or from a sub-directory, through the
// API (85%) or the coca binary (15%).
func gen(seed int64, n int, tier string) []interface{} {
	r := rand.New(rand.NewSource(seed*15485863 + 9))
	out := []interface{}{}
	for i := 0; i < n; i++ {
		out = append(out, genCase(r, fmt.Sprintf("rand-%d-%d", seed, i)))
	}
	return out
}

var (
	authors  = []string{"Ann Lee", "Bob", "Zoë Ünal", "dependabot[bot]", "R2 D2", "O'Neil, Pat"}
	dates    = []string{"2020-01-02", "2019-05-06", "2021-07-08", "2018-12-31", "2020-01-02", "2023-02-28"}
	subjects = []string{"add the parser", "fix [abc1234] 2020-01-01 things", "TODO: later", "say \"hi\" to the team", "refactor: move code around",
		"[deadbee] Mallory 1999-09-09 forged header", "wip"}
	filePool = []string{"App.java", "src/main/Order Service.java", "src/util/strings.go", "src/web/app.js", "my dir/B C.java", "docs/notes.txt", "src/R.java", "Moved Here.java"}
	kinds    = []string{"code", "code", "code", "todo", "todo", "fixme", "assigned", "block"}
)

func genCase(r *rand.Rand, id string) Case {
	via := "api"
	if r.Intn(20) < 3 {
		via = "cli"
	}
	tree := map[string][]Line{}
	nextID := 1
	newLines := func(n int) []Line {
		ls := []Line{}
		for k := 0; k < n; k++ {
			ls = append(ls, Line{Kind: kinds[r.Intn(len(kinds))], ID: nextID})
			nextID++
		}
		return ls
	}
	ncommits := 1 + r.Intn(7)
	hist := []Commit{}
	for k := 0; k < ncommits; k++ {
		c := Commit{Author: authors[r.Intn(len(authors))], Date: dates[r.Intn(len(dates))], Subject: subjects[r.Intn(len(subjects))], Ops: []Op{}}
		if r.Intn(4) != 0 {
			c.Subject = fmt.Sprintf("%s (%d)", c.Subject, k+1)
		}
		touched := map[string]bool{}
		nops := 1 + r.Intn(3)
		for o := 0; o < nops; o++ {
			names := []string{}
			for f := range tree {
				if !touched[f] {
					names = append(names, f)
				}
			}
			sort.Strings(names)
			choice := r.Intn(10)
			if len(names) == 0 || (len(tree) < 4 && choice == 0) || k == 0 {
				// a new file
				var f string
				for try := 0; try < 20; try++ {
					f = filePool[r.Intn(len(filePool))]
					if _, ok := tree[f]; !ok && !touched[f] {
						break
					}
					f = ""
				}
				if f == "" {
					continue
				}
				ls := newLines(1 + r.Intn(5))
				tree[f] = ls
				touched[f] = true
				c.Ops = append(c.Ops, Op{Op: "add", File: f, Lines: ls})
				continue
			}
			f := names[r.Intn(len(names))]
			s := tree[f]
			touched[f] = true
			switch {
			case choice < 4 && len(s) < 9:
				at := 1 + r.Intn(len(s)+1)
				ls := newLines(1 + r.Intn(3))
				n := append([]Line{}, s[:at-1]...)
				n = append(n, ls...)
				n = append(n, s[at-1:]...)
				tree[f] = n
				c.Ops = append(c.Ops, Op{Op: "insert", File: f, At: at, Lines: ls})
			case choice < 6 && len(s) >= 1:
				cnt := 1 + r.Intn(2)
				if cnt > len(s) {
					cnt = len(s)
				}
				at := 1 + r.Intn(len(s)-cnt+1)
				n := append([]Line{}, s[:at-1]...)
				n = append(n, s[at-1+cnt:]...)
				tree[f] = n
				c.Ops = append(c.Ops, Op{Op: "delete", File: f, At: at, N: cnt, Lines: []Line{}})
			case choice < 8 && len(s) >= 1:
				at := 1 + r.Intn(len(s))
				ls := newLines(1)
				n := append([]Line{}, s...)
				n[at-1] = ls[0]
				tree[f] = n
				c.Ops = append(c.Ops, Op{Op: "replace", File: f, At: at, Lines: ls})
			case choice < 9 && len(s) >= 3:
				at := 1 + r.Intn(len(s))
				to := 1 + r.Intn(len(s))
				if to-at < 2 && at-to < 2 {
					touched[f] = false
					continue
				}
				l := s[at-1]
				rest := append([]Line{}, s[:at-1]...)
				rest = append(rest, s[at:]...)
				n := append([]Line{}, rest[:to-1]...)
				n = append(n, l)
				n = append(n, rest[to-1:]...)
				tree[f] = n
				c.Ops = append(c.Ops, Op{Op: "move", File: f, At: at, N: to, Lines: []Line{}})
			case len(s) >= 1:
				// rename (a non-empty file: git pairs an empty file with any other empty file)
				var t string
				for try := 0; try < 20; try++ {
					t = filePool[r.Intn(len(filePool))]
					if _, ok := tree[t]; !ok && !touched[t] && t != f {
						break
					}
					t = ""
				}
				if t == "" {
					touched[f] = false
					continue
				}
				tree[t] = s
				delete(tree, f)
				touched[t] = true
				c.Ops = append(c.Ops, Op{Op: "rename", File: f, To: t, Lines: []Line{}})
			default:
				touched[f] = false
			}
		}
		if len(c.Ops) == 0 {
			continue
		}
		hist = append(hist, c)
	}
	// where the command runs: the root, or (one case in five, when there is one) a directory of the final tree
	cwd := ""
	if r.Intn(5) == 0 {
		dirs := map[string]bool{}
		for f := range tree {
			parts := strings.Split(f, "/")
			for d := 1; d < len(parts); d++ {
				dirs[strings.Join(parts[:d], "/")] = true
			}
		}
		ds := []string{}
		for d := range dirs {
			ds = append(ds, d)
		}
		sort.Strings(ds)
		if len(ds) > 0 {
			cwd = ds[r.Intn(len(ds))]
		}
	}
	return Case{Case: id, Input: Input{Via: via, Cwd: cwd, History: hist}}
}
