// Harness for the Spring API scan (C12) and its file/order/repetition independence (C07, API part).
package main

import (
	"encoding/json"
	"fmt"
	"math/rand"
	"os"
	"os/exec"
	"path/filepath"
	"sort"
	"strings"

	"github.com/modernizing/coca/pkg/application/api"
	"github.com/modernizing/coca/pkg/domain/core_domain"

	"verifharness/lib"
)

type Param struct {
	Type string `json:"type"`
	Name string `json:"name"`
	Body bool   `json:"body"`
}

type Member struct {
	Kind   string  `json:"kind"` // handler | plain
	Name   string  `json:"name"`
	Ann    string  `json:"ann"`  // GetMapping | PostMapping | PutMapping | DeleteMapping | RequestMapping | ""
	Verb   string  `json:"verb"` // GET | POST | PUT | DELETE | ""
	Form   string  `json:"form"` // none | short | value
	Path   string  `json:"path"`
	Params []Param `json:"params"`
}

type Base struct {
	Form string `json:"form"` // none | short | value
	Path string `json:"path"`
}

type File struct {
	Pkg      string   `json:"pkg"`
	Cls      string   `json:"cls"`
	Ctrl     string   `json:"ctrl"` // RestController | Controller | none
	Mapfirst bool     `json:"mapfirst"`
	Base     Base     `json:"base"`
	Members  []Member `json:"members"`
	// Impl: the class implements an interface of another package of the project (imported) that declares methods with
	// the same names as the class's members; the interface is in the identifier map handed to the scan
	Impl bool `json:"impl"`
}

type Case struct {
	Case   string  `json:"case"`
	Files  []File  `json:"files"`
	Runs   [][]int `json:"runs"`
	Fresh  []bool  `json:"fresh"` // Fresh[i]: run i is executed in a fresh OS process
	Layout int     `json:"layout"`
	Cli    bool    `json:"cli"` // the first run is (also) made through the coca binary; its observation is appended as an extra run
}

type ApiObs struct {
	Verb   string `json:"verb"`
	Uri    string `json:"uri"`
	Body   string `json:"body"`
	Pkg    string `json:"pkg"`
	Cls    string `json:"cls"`
	Method string `json:"method"`
}

type CsvRow struct {
	Verb   string `json:"verb"`
	Uri    string `json:"uri"`
	Caller string `json:"caller"`
}

type RunObs struct {
	Panic bool     `json:"panic"`
	Apis  []ApiObs `json:"apis"`
	// Cli: this run went through the binary (`coca analysis -p DIR`, `coca api -f -p DIR` in a fresh working directory);
	// Apis is then read from coca_reporter/apis.json and Csv from coca_reporter/api.csv (CsvOk: it was there and well-formed)
	Cli   bool `json:"cli"`
	CsvOk bool `json:"csvOk"`
	Prior bool `json:"prior"` // Cli: the working directory had served another project before (stale coca_reporter/)
	// Agg (Cli): the scan was made with `-a <prefix>` (aggregate): the count table and api.csv list the handlers whose URI
	// begins with the prefix; apis.json is the API list of the project all the same
	Agg  string   `json:"agg"`
	Csv  []CsvRow `json:"csv"`
	Note string   `json:"note,omitempty"`
}

type Record struct {
	Case     string   `json:"case"`
	Files    []File   `json:"files"`
	Runs     [][]int  `json:"runs"`
	Fresh    []bool   `json:"fresh"`
	Layout   int      `json:"layout"`
	Observed []RunObs `json:"observed"`
}

func mapping(ann, form, path, verb string, r *rand.Rand) string {
	if ann == "RequestMapping" && verb == "" {
		// a mapping that names no verb
		switch form {
		case "short":
			return "@RequestMapping(\"" + path + "\")"
		case "value":
			return "@RequestMapping(value = \"" + path + "\")"
		}
		return "@RequestMapping"
	}
	if ann == "RequestMapping" {
		m := "method = RequestMethod." + verb
		switch form {
		case "value":
			v := "value = \"" + path + "\""
			if r.Intn(2) == 0 {
				return "@RequestMapping(" + v + ", " + m + ")"
			}
			return "@RequestMapping(" + m + ", " + v + ")"
		default:
			return "@RequestMapping(" + m + ")"
		}
	}
	switch form {
	case "short":
		return "@" + ann + "(\"" + path + "\")"
	case "value":
		return "@" + ann + "(value = \"" + path + "\")"
	}
	return "@" + ann
}

func render(f File, layout int) string {
	r := rand.New(rand.NewSource(int64(layout)*7919 + int64(len(f.Cls))))
	var b strings.Builder
	fmt.Fprintf(&b, "package %s;\n\n", f.Pkg)
	b.WriteString("import org.springframework.web.bind.annotation.*;\nimport java.util.List;\n")
	if f.Impl {
		b.WriteString("import contracts." + f.Cls + "Api;\n")
	}
	b.WriteString("\n")
	var anns []string
	ctrl := ""
	if f.Ctrl != "none" {
		ctrl = "@" + f.Ctrl
	}
	base := ""
	switch f.Base.Form {
	case "short":
		base = "@RequestMapping(\"" + f.Base.Path + "\")"
	case "value":
		base = "@RequestMapping(value = \"" + f.Base.Path + "\")"
	}
	if f.Mapfirst {
		anns = []string{base, ctrl}
	} else {
		anns = []string{ctrl, base}
	}
	for _, a := range anns {
		if a != "" {
			b.WriteString(a + "\n")
		}
	}
	if layout%3 == 1 {
		b.WriteString("// " + f.Cls + " endpoints\n")
	}
	if f.Impl {
		fmt.Fprintf(&b, "public class %s implements %sApi {\n", f.Cls, f.Cls)
	} else {
		fmt.Fprintf(&b, "public class %s {\n", f.Cls)
	}
	if layout%2 == 0 {
		b.WriteString("    private final Helper helper = new Helper();\n\n")
	}
	for _, m := range f.Members {
		if m.Kind == "handler" {
			b.WriteString("    " + mapping(m.Ann, m.Form, m.Path, m.Verb, r) + "\n")
		}
		var ps []string
		for _, p := range m.Params {
			s := p.Type + " " + p.Name
			if p.Body {
				// the body parameter may carry further annotations, before or after @RequestBody
				switch r.Intn(4) {
				case 0:
					s = "@RequestBody @Valid " + s
				case 1:
					s = "@Valid @RequestBody " + s
				default:
					s = "@RequestBody " + s
				}
			} else if m.Kind == "handler" && r.Intn(3) == 0 {
				s = "@PathVariable(\"" + p.Name + "\") " + s
			}
			ps = append(ps, s)
		}
		sep := ", "
		if layout%5 == 3 && len(ps) > 1 {
			sep = ",\n            "
		}
		fmt.Fprintf(&b, "    public String %s(%s) {\n        return helper.run(\"%s\");\n    }\n\n", m.Name, strings.Join(ps, sep), m.Name)
	}
	b.WriteString("}\n")
	return b.String()
}

// runCli: the command line route of run ri (the files of that run, same directory layout)
func runCli(c Case, ri int, scratch string) RunObs {
	o := RunObs{Apis: []ApiObs{}, Csv: []CsvRow{}, Cli: true}
	work := filepath.Join(scratch, fmt.Sprintf("cli%d", ri))
	dir := filepath.Join(work, "proj")
	write := func(run []int) {
		os.RemoveAll(dir)
		for i, k := range run {
			f := c.Files[k-1]
			d := filepath.Join(dir, fmt.Sprintf("f%02d", i), filepath.FromSlash(strings.ReplaceAll(f.Pkg, ".", "/")))
			os.MkdirAll(d, 0o755)
			os.WriteFile(filepath.Join(d, f.Cls+".java"), []byte(render(f, c.Layout)), 0o644)
		}
	}
	coca := os.Getenv("VERIF_COCA")
	run := func(args ...string) (string, error) {
		cmd := exec.Command(coca, args...)
		cmd.Dir = work
		cmd.Env = append(os.Environ(), "TMPDIR="+work)
		b, err := cmd.CombinedOutput()
		return string(b), err
	}
	// A history at the command line: in every other case the same working directory has first served another project
	// (the files of a later run with a different file set), so coca_reporter/ holds that project's deps.json, apis.json
	// and api.csv when the project under observation is analysed and scanned with -f. The Reference has no variable in
	// which an earlier request could leave anything: the entries must be those of the current project alone.
	if c.Layout%2 == 0 {
		key := func(r []int) string {
			q := append([]int{}, r...)
			sort.Ints(q)
			return fmt.Sprint(q)
		}
		for rj := range c.Runs {
			if key(c.Runs[rj]) != key(c.Runs[ri]) {
				write(c.Runs[rj])
				run("analysis", "-p", "proj")
				run("api", "-f", "-p", "proj")
				o.Prior = true
				break
			}
		}
	}
	write(c.Runs[ri])
	if out, err := run("analysis", "-p", "proj"); err != nil {
		return RunObs{Panic: true, Cli: true, Prior: o.Prior, Apis: []ApiObs{}, Csv: []CsvRow{}, Note: "coca analysis: " + err.Error() + " " + tailStr(out)}
	}
	apiArgs := []string{"api", "-f", "-p", "proj"}
	if c.Layout%5 == 2 {
		// aggregate by a prefix taken from the project itself: the base path of its LAST controller in walk order
		for _, k := range c.Runs[ri] {
			f := c.Files[k-1]
			if f.Ctrl != "none" && f.Base.Form != "none" && f.Base.Path != "" {
				o.Agg = f.Base.Path
			}
		}
		if o.Agg != "" {
			apiArgs = append(apiArgs, "-a", o.Agg)
		}
	}
	if out, err := run(apiArgs...); err != nil {
		return RunObs{Panic: true, Cli: true, Prior: o.Prior, Agg: o.Agg, Apis: []ApiObs{}, Csv: []CsvRow{}, Note: "coca api: " + err.Error() + " " + tailStr(out)}
	}
	var apis []struct {
		Uri, HttpMethod, MethodName, RequestBodyClass, PackageName, ClassName string
	}
	if b, err := os.ReadFile(filepath.Join(work, "coca_reporter", "apis.json")); err == nil && json.Unmarshal(b, &apis) == nil {
		for _, a := range apis {
			o.Apis = append(o.Apis, ApiObs{Verb: a.HttpMethod, Uri: a.Uri, Body: a.RequestBodyClass, Pkg: a.PackageName, Cls: a.ClassName, Method: a.MethodName})
		}
	} else {
		o.Note += "apis.json missing or malformed; "
		o.Panic = true
	}
	// api.csv: a padded comma table: header SIZE, METHOD, URI, CALLER; a blank line; one line per API
	if b, err := os.ReadFile(filepath.Join(work, "coca_reporter", "api.csv")); err == nil {
		o.CsvOk = true
		lines := strings.Split(strings.TrimRight(string(b), "\n"), "\n")
		for li, ln := range lines {
			if strings.TrimSpace(ln) == "" {
				continue
			}
			cells := strings.Split(ln, ",")
			for i := range cells {
				cells[i] = strings.TrimSpace(cells[i])
			}
			if len(cells) != 4 {
				o.CsvOk = false
				o.Note += fmt.Sprintf("api.csv line %d has %d cells; ", li+1, len(cells))
				continue
			}
			if li == 0 {
				if strings.ToUpper(cells[1]) != "METHOD" || strings.ToUpper(cells[2]) != "URI" {
					o.CsvOk = false
				}
				continue
			}
			o.Csv = append(o.Csv, CsvRow{Verb: cells[1], Uri: cells[2], Caller: cells[3]})
		}
	} else {
		o.Note += "api.csv missing; "
	}
	return o
}

func tailStr(s string) string {
	if len(s) > 300 {
		return s[len(s)-300:]
	}
	return s
}

func runOnce(c Case, ri int, scratch string) RunObs {
	o := RunObs{Apis: []ApiObs{}, Csv: []CsvRow{}}
	dir := filepath.Join(scratch, fmt.Sprintf("run%d", ri))
	for i, k := range c.Runs[ri] {
		f := c.Files[k-1]
		d := filepath.Join(dir, fmt.Sprintf("f%02d", i), filepath.FromSlash(strings.ReplaceAll(f.Pkg, ".", "/")))
		os.MkdirAll(d, 0o755)
		if err := os.WriteFile(filepath.Join(d, f.Cls+".java"), []byte(render(f, c.Layout)), 0o644); err != nil {
			panic(err)
		}
	}
	p, msg := lib.Guard(func() {
		app := new(api.JavaApiApp)
		ident := map[string]core_domain.CodeDataStruct{}
		for _, k := range c.Runs[ri] {
			f := c.Files[k-1]
			if f.Impl {
				n := core_domain.CodeDataStruct{Package: "contracts", NodeName: f.Cls + "Api", Type: "Interface"}
				for _, m := range f.Members {
					n.Functions = append(n.Functions, core_domain.CodeFunction{Name: m.Name})
				}
				ident["contracts."+f.Cls+"Api"] = n
			}
		}
		res := app.AnalysisPath(dir, nil, ident, map[string]string{})
		for _, a := range res {
			o.Apis = append(o.Apis, ApiObs{Verb: a.HttpMethod, Uri: a.Uri, Body: a.RequestBodyClass, Pkg: a.PackageName, Cls: a.ClassName, Method: a.MethodName})
		}
	})
	if p {
		o = RunObs{Panic: true, Apis: []ApiObs{}, Csv: []CsvRow{}, Note: msg}
	}
	return o
}

func norm(c *Case) {
	if c.Fresh == nil {
		c.Fresh = []bool{}
	}
	for i := range c.Files {
		if c.Files[i].Members == nil {
			c.Files[i].Members = []Member{}
		}
		for j := range c.Files[i].Members {
			if c.Files[i].Members[j].Params == nil {
				c.Files[i].Members[j].Params = []Param{}
			}
		}
	}
}

func one(raw json.RawMessage) interface{} {
	var c Case
	if err := json.Unmarshal(raw, &c); err != nil {
		panic(err)
	}
	norm(&c)
	scratch, err := os.MkdirTemp(os.Getenv("VERIF_SCRATCH"), "api-")
	if err != nil {
		panic(err)
	}
	defer os.RemoveAll(scratch)
	rec := Record{Case: c.Case, Files: c.Files, Runs: c.Runs, Fresh: c.Fresh, Layout: c.Layout}
	for ri := range c.Runs {
		if ri < len(c.Fresh) && c.Fresh[ri] {
			sub := Case{Case: c.Case, Files: c.Files, Runs: [][]int{c.Runs[ri]}, Layout: c.Layout}
			raw, err := lib.Fresh(sub)
			var sr Record
			if err == nil {
				err = json.Unmarshal(raw, &sr)
			}
			if err != nil || len(sr.Observed) != 1 {
				rec.Observed = append(rec.Observed, RunObs{Panic: true, Apis: []ApiObs{}, Csv: []CsvRow{}, Note: fmt.Sprint("fresh run failed: ", err)})
			} else {
				rec.Observed = append(rec.Observed, sr.Observed[0])
			}
			continue
		}
		rec.Observed = append(rec.Observed, runOnce(c, ri, scratch))
	}
	if c.Cli && len(c.Runs) > 0 && os.Getenv("VERIF_COCA") != "" {
		// an extra run: the files of run 1 through the command line
		rec.Runs = append(append([][]int{}, c.Runs...), c.Runs[0])
		rec.Fresh = append(append([]bool{}, c.Fresh...), true)
		rec.Observed = append(rec.Observed, runCli(c, 0, scratch))
	}
	return rec
}

func abnormal(raw json.RawMessage, timeout bool, stderr string) interface{} {
	var c Case
	json.Unmarshal(raw, &c)
	norm(&c)
	rec := Record{Case: c.Case, Files: c.Files, Runs: c.Runs, Fresh: c.Fresh, Layout: c.Layout}
	for range c.Runs {
		rec.Observed = append(rec.Observed, RunObs{Panic: true, Apis: []ApiObs{}, Csv: []CsvRow{}, Note: "process died: " + stderr})
	}
	return rec
}

// ---------------------------------------------------------------- direction (B)

var verbs = [][2]string{{"GetMapping", "GET"}, {"PostMapping", "POST"}, {"PutMapping", "PUT"}, {"DeleteMapping", "DELETE"}}

func genFile(r *rand.Rand, idx int) File {
	f := File{Pkg: []string{"com.acme.web", "com.acme.api.v1", "org.x"}[r.Intn(3)], Cls: fmt.Sprintf("%sCtl%d", []string{"User", "Order", "A", "VeryLongNamedResource"}[r.Intn(4)], idx)}
	switch r.Intn(5) {
	case 0:
		f.Ctrl = "none"
	case 1:
		f.Ctrl = "Controller"
	default:
		f.Ctrl = "RestController"
	}
	switch r.Intn(3) {
	case 0:
		f.Base = Base{Form: "none"}
	case 1:
		f.Base = Base{Form: "short", Path: fmt.Sprintf("/b%d", idx)}
	default:
		f.Base = Base{Form: "value", Path: fmt.Sprintf("/api/r%d", idx)}
	}
	if f.Base.Form != "none" && r.Intn(5) == 0 { // a base path written with a trailing slash (members then come without a leading one)
		f.Base.Path += "/"
	}
	f.Mapfirst = f.Base.Form != "none" && r.Intn(4) == 0
	f.Impl = r.Intn(4) == 0
	n := r.Intn(6)
	for i := 0; i < n; i++ {
		m := Member{Name: fmt.Sprintf("m%d", i), Params: []Param{}}
		if r.Intn(3) == 0 {
			m.Kind = "plain"
			m.Form = "none"
		} else {
			m.Kind = "handler"
			if r.Intn(4) == 0 {
				m.Ann = "RequestMapping"
				m.Verb = verbs[r.Intn(4)][1]
				m.Form = []string{"value", "none"}[r.Intn(2)]
				if r.Intn(3) == 0 { // names no verb
					m.Verb = ""
					m.Form = []string{"short", "value"}[r.Intn(2)]
				}
			} else {
				v := verbs[r.Intn(4)]
				m.Ann, m.Verb = v[0], v[1]
				m.Form = []string{"short", "value", "none"}[r.Intn(3)]
			}
			if m.Form != "none" {
				m.Path = []string{"/x", "/{id}", "/items/{id}/sub", "/", "orders", "orders/{id}", ""}[r.Intn(7)]
			}
		}
		np := r.Intn(4)
		body := -1
		if m.Kind == "handler" && np > 0 && r.Intn(2) == 0 {
			body = r.Intn(np)
		}
		for j := 0; j < np; j++ {
			m.Params = append(m.Params, Param{Type: []string{"Foo", "String", "long", "List<Foo>", "BarRequest"}[r.Intn(5)], Name: fmt.Sprintf("a%d", j), Body: j == body})
		}
		f.Members = append(f.Members, m)
	}
	if f.Members == nil {
		f.Members = []Member{}
	}
	return f
}

func perm(r *rand.Rand, xs []int) []int {
	ys := append([]int{}, xs...)
	r.Shuffle(len(ys), func(i, j int) { ys[i], ys[j] = ys[j], ys[i] })
	return ys
}

func gen(seed int64, n int, tier string) []interface{} {
	r := rand.New(rand.NewSource(seed))
	var out []interface{}
	for k := 0; k < n; k++ {
		nf := 1 + r.Intn(5)
		c := Case{Case: fmt.Sprintf("rand-%d-%d", seed, k), Layout: r.Intn(1000)}
		all := []int{}
		for i := 0; i < nf; i++ {
			c.Files = append(c.Files, genFile(r, i))
			all = append(all, i+1)
		}
		// two controllers of the same class (and file) name in different packages
		if nf > 1 && r.Intn(4) == 0 {
			c.Files[1].Cls = c.Files[0].Cls
			if c.Files[1].Pkg == c.Files[0].Pkg {
				c.Files[1].Pkg = c.Files[0].Pkg + ".admin"
			}
		}
		nr := 1 + r.Intn(3)
		for j := 0; j < nr; j++ {
			p := perm(r, all)
			switch r.Intn(3) {
			case 0: // sub set
				p = p[:1+r.Intn(len(p))]
			case 1: // repetition of the previous run
				if j > 0 {
					p = append([]int{}, c.Runs[j-1]...)
				}
			}
			c.Runs = append(c.Runs, p)
			c.Fresh = append(c.Fresh, j > 0 && r.Intn(2) == 0)
		}
		// the command line builds the identifier map from the project's own files: only for projects without the
		// imported-interface scenario, whose interface lives outside the rendered tree
		c.Cli = r.Intn(2) == 0
		for _, f := range c.Files {
			if f.Impl {
				c.Cli = false
			}
		}
		out = append(out, c)
	}
	return out
}

func main() {
	lib.Main(lib.Handler{One: one, Gen: gen, Abnormal: abnormal})
}
