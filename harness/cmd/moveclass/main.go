// Harness for the moveclass suite (extension X01): the move-class refactoring
// (`coca refactor -m move.config -p DIR`; moveclass.NewMoveClassApp(config, dir).Analysis(); .Refactoring()).
//
// An abstract case is a process history: one or two projects, each a list of Java files given as abstract
// lines (package / import / import static / type declaration / other text), the directories that exist, and
// the move configuration. Every project is rendered to its own directory; the listings of all directories
// are taken ("before"); then, in ONE process and in order, each project is handled by the real code
// (New; Analysis x analyses; Refactoring); at the end the listings are taken again ("after"). The record
// carries both listings (every file, its content split at "\n"). No expected values here: TLC
// (X01MoveClassRef!Diff) judges. A run that ends the process (log.Fatal) is recorded by the runner as died.
// With input.via = "cli" the single project is refactored by the coca binary instead
// (`coca refactor -m move.config -p DIR`, which also runs the remove-unused-imports pass afterwards).
//
// VERIF_VALIDATE=1 (development): every rendered file is parsed with the repository's Java parser and the
// number of syntax errors is reported in `syntax_errors` (the generators must produce none).
package main

import (
	"encoding/json"
	"fmt"
	"os"
	"os/exec"
	"path/filepath"
	"sort"
	"strings"

	"github.com/antlr/antlr4/runtime/Go/antlr/v4"
	"github.com/modernizing/coca/pkg/application/refactor/moveclass"
	"github.com/modernizing/coca/pkg/infrastructure/ast/ast_java"

	"verifharness/lib"
)

type Line struct {
	K    string `json:"k"` // "package" | "import" | "static" | "decl" | "text"
	Pre  string `json:"pre"`
	Name string `json:"name"`
	Post string `json:"post"`
}

type File struct {
	Pkg   string `json:"pkg"`
	Name  string `json:"name"`
	Eol   string `json:"eol"`
	Final bool   `json:"final"`
	Lines []Line `json:"lines"`
}

type Move struct {
	From string `json:"from"`
	To   string `json:"to"`
}

type Project struct {
	Files    []File   `json:"files"`
	Dirs     []string `json:"dirs"`
	Moves    []Move   `json:"moves"`
	Analyses int      `json:"analyses"`
}

type Input struct {
	Via      string    `json:"via"` // "api" | "cli"
	Projects []Project `json:"projects"`
}

type Case struct {
	Case  string `json:"case"`
	Input Input  `json:"input"`
}

type Listed struct {
	Path  string   `json:"path"`
	Lines []string `json:"lines"`
}

type PObs struct {
	Before []Listed `json:"before"`
	After  []Listed `json:"after"`
}

type Obs struct {
	Panic    bool   `json:"panic"`
	Projects []PObs `json:"projects"`
	Note     string `json:"note,omitempty"`
}

type Record struct {
	Case         string `json:"case"`
	Input        Input  `json:"input"`
	Observed     Obs    `json:"observed"`
	SyntaxErrors int    `json:"syntax_errors"`
}

func normalize(in *Input) {
	if in.Via == "" {
		in.Via = "api"
	}
	if in.Projects == nil {
		in.Projects = []Project{}
	}
	for i := range in.Projects {
		p := &in.Projects[i]
		if p.Files == nil {
			p.Files = []File{}
		}
		if p.Dirs == nil {
			p.Dirs = []string{}
		}
		if p.Moves == nil {
			p.Moves = []Move{}
		}
		if p.Analyses == 0 {
			p.Analyses = 1
		}
		for j := range p.Files {
			if p.Files[j].Lines == nil {
				p.Files[j].Lines = []Line{}
			}
			if p.Files[j].Eol == "" {
				p.Files[j].Eol = "\n"
			}
		}
	}
}

func short(s string, n int) string {
	if len(s) > n {
		return s[len(s)-n:]
	}
	return s
}

// ---------------------------------------------------------------- render

func textOf(l Line) string {
	switch l.K {
	case "package":
		return l.Pre + "package " + l.Name + ";" + l.Post
	case "import":
		return l.Pre + "import " + l.Name + ";" + l.Post
	case "static":
		return l.Pre + "import static " + l.Name + ";" + l.Post
	case "decl":
		return l.Pre + l.Post + " " + l.Name + " {"
	default:
		return l.Pre
	}
}

func relPath(f File) string {
	return strings.ReplaceAll(f.Pkg, ".", "/") + "/" + f.Name + ".java"
}

func render(root string, p Project) error {
	if err := os.MkdirAll(root, 0o755); err != nil {
		return err
	}
	for _, d := range p.Dirs {
		if err := os.MkdirAll(filepath.Join(root, filepath.FromSlash(d)), 0o755); err != nil {
			return err
		}
	}
	for _, f := range p.Files {
		texts := make([]string, len(f.Lines))
		for i, l := range f.Lines {
			texts[i] = textOf(l)
		}
		body := strings.Join(texts, f.Eol)
		if f.Final {
			body += f.Eol
		}
		path := filepath.Join(root, filepath.FromSlash(relPath(f)))
		if err := os.MkdirAll(filepath.Dir(path), 0o755); err != nil {
			return err
		}
		if err := os.WriteFile(path, []byte(body), 0o644); err != nil {
			return err
		}
	}
	return nil
}

func writeConfig(path string, p Project) error {
	var b strings.Builder
	for _, m := range p.Moves {
		b.WriteString(m.From + " -> " + m.To + "\n")
	}
	return os.WriteFile(path, []byte(b.String()), 0o644)
}

// ---------------------------------------------------------------- project

// listing: every regular file below root, slash path relative to root, content split at "\n"
func listing(root string) []Listed {
	out := []Listed{}
	_ = filepath.Walk(root, func(path string, fi os.FileInfo, err error) error {
		if err != nil || !fi.Mode().IsRegular() {
			return nil
		}
		raw, err := os.ReadFile(path)
		if err != nil {
			return nil
		}
		rel, _ := filepath.Rel(root, path)
		out = append(out, Listed{Path: filepath.ToSlash(rel), Lines: strings.Split(string(raw), "\n")})
		return nil
	})
	sort.Slice(out, func(i, j int) bool { return out[i].Path < out[j].Path })
	return out
}

type errCounter struct {
	*antlr.DefaultErrorListener
	n int
}

func (e *errCounter) SyntaxError(recognizer antlr.Recognizer, offendingSymbol interface{}, line, column int, msg string, ex antlr.RecognitionException) {
	e.n++
}

func syntaxErrors(root string) int {
	n := 0
	_ = filepath.Walk(root, func(path string, fi os.FileInfo, err error) error {
		if err != nil || !fi.Mode().IsRegular() || !strings.HasSuffix(path, ".java") {
			return nil
		}
		ec := &errCounter{DefaultErrorListener: antlr.NewDefaultErrorListener()}
		p := ast_java.ProcessJavaFile(path)
		p.RemoveErrorListeners()
		p.AddErrorListener(ec)
		p.CompilationUnit()
		n += ec.n
		return nil
	})
	return n
}

// ---------------------------------------------------------------- drive

func one(raw json.RawMessage) interface{} {
	var c Case
	if err := json.Unmarshal(raw, &c); err != nil {
		panic(err)
	}
	normalize(&c.Input)
	rec := Record{Case: c.Case, Input: c.Input, Observed: Obs{Projects: []PObs{}}}
	scratch, err := os.MkdirTemp(os.Getenv("VERIF_SCRATCH"), "moveclass-")
	if err != nil {
		fmt.Fprintln(os.Stderr, "harness:", err)
		os.Exit(2)
	}
	defer os.RemoveAll(scratch)
	roots := make([]string, len(c.Input.Projects))
	configs := make([]string, len(c.Input.Projects))
	for i, p := range c.Input.Projects {
		base := filepath.Join(scratch, fmt.Sprintf("p%d", i+1))
		roots[i] = filepath.Join(base, "src")
		configs[i] = filepath.Join(base, "move.config")
		err := render(roots[i], p)
		if err == nil {
			err = writeConfig(configs[i], p)
		}
		if err != nil {
			fmt.Fprintln(os.Stderr, "harness: render:", err)
			os.RemoveAll(scratch)
			os.Exit(2)
		}
	}
	if os.Getenv("VERIF_VALIDATE") != "" {
		for _, r := range roots {
			rec.SyntaxErrors += syntaxErrors(r)
		}
	}
	obs := make([]PObs, len(roots))
	for i, r := range roots {
		obs[i].Before = listing(r)
		obs[i].After = []Listed{}
	}
	// (a run that ends the process by log.Fatal leaves the scratch tree behind; it lies below VERIF_SCRATCH, which
	// the check removes when it ends)
	if c.Input.Via == "cli" {
		// the command, one OS process per project (cwd and TMPDIR inside the scratch directory)
		bin := os.Getenv("VERIF_COCA")
		if bin == "" {
			fmt.Fprintln(os.Stderr, "harness: VERIF_COCA not set")
			os.Exit(2)
		}
		for i := range c.Input.Projects {
			cmd := exec.Command(bin, "refactor", "-m", configs[i], "-p", roots[i])
			cmd.Dir = filepath.Dir(configs[i])
			cmd.Env = append(os.Environ(), "TMPDIR="+scratch, "HOME="+scratch)
			if out, err := cmd.CombinedOutput(); err != nil {
				rec.Observed.Panic = true
				rec.Observed.Note = short(err.Error()+": "+string(out), 300)
			}
		}
		for i, r := range roots {
			obs[i].After = listing(r)
		}
		rec.Observed.Projects = obs
		return rec
	}
	p, msg := lib.Guard(func() {
		for i, pr := range c.Input.Projects {
			app := moveclass.NewMoveClassApp(configs[i], roots[i])
			for k := 0; k < pr.Analyses; k++ {
				app.Analysis()
			}
			app.Refactoring()
		}
	})
	for i, r := range roots {
		obs[i].After = listing(r)
	}
	rec.Observed.Projects = obs
	if p {
		rec.Observed.Panic = true
		rec.Observed.Note = short(msg, 300)
	}
	return rec
}

func abnormal(raw json.RawMessage, timeout bool, stderr string) interface{} {
	var c Case
	json.Unmarshal(raw, &c)
	normalize(&c.Input)
	note := "process died: "
	if timeout {
		note = "timeout: "
	}
	return Record{Case: c.Case, Input: c.Input, Observed: Obs{Panic: true, Projects: []PObs{}, Note: note + short(stderr, 300)}}
}

func main() {
	lib.Main(lib.Handler{One: one, Gen: gen, Abnormal: abnormal})
}
