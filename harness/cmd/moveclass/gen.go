package main

import (
	"fmt"
	"math/rand"
	"strings"
)

// gen: seeded random process histories, wider than TLC's pools: projects of 1..8 files in up to 5 packages
// (multi-segment names), licence headers / comments / blank lines before the package line and between the
// imports, importers with up to 6 imports (other classes, the JDK, wildcard and static imports of the moved
// class's package, names that extend the moved name), classes with the same simple name in different
// packages, moved classes that import other moved classes, nested types / enums / interfaces / annotation
// types, 1..3 moves, CRLF files, files without final newline, non-ASCII text, decorated import lines (rarely),
// Analysis twice, two projects in one process.
type g struct {
	r   *rand.Rand
	cli bool // the command also removes unused imports: only imports of project classes that the body uses
}

func (x *g) pick(xs []string) string { return xs[x.r.Intn(len(xs))] }
func (x *g) chance(n int) bool       { return x.r.Intn(n) == 0 }

func text(s string) Line { return Line{K: "text", Pre: s} }

var commentPool = []string{
	"// generated for the conformance run",
	"// café ☕ — déjà vu",
	"// 注释: 移动类",
	"// import a.b.C; (not an import)",
	"/* one-line block */",
	"// 😀 astral",
}

func (x *g) header() []Line {
	switch x.r.Intn(6) {
	case 0:
		return []Line{text("/*"), text(" * Copyright (c) Acme."), text(" * import com.acme.shop.Order;"), text(" */")}
	case 1:
		return []Line{text(x.pick(commentPool))}
	case 2:
		return []Line{text(""), text(x.pick(commentPool)), text("")}
	case 3:
		return []Line{text("/**"), text(" * package com.acme.shop;"), text(" */"), text("")}
	}
	return []Line{}
}

type cls struct{ pkg, name, kind string }

func (c cls) q() string { return c.pkg + "." + c.name }

func (x *g) body(c cls, used []cls) []Line {
	var out []Line
	if x.chance(5) {
		out = append(out, text("@SuppressWarnings(\"unused\")"))
	}
	switch c.kind {
	case "enum":
		out = append(out, Line{K: "decl", Name: c.name, Post: "public enum"}, text("    RED, GREEN, BLUE"), text("}"))
		return out
	case "interface":
		out = append(out, Line{K: "decl", Name: c.name, Post: "public interface"}, text("    void run();"), text("}"))
		return out
	case "annotation":
		out = append(out, Line{K: "decl", Name: c.name, Post: "public @interface"}, text("    String value();"), text("}"))
		return out
	}
	post := "public class"
	if x.chance(6) {
		post = "public final class"
	}
	out = append(out, Line{K: "decl", Name: c.name, Post: post})
	for i, u := range used {
		out = append(out, text(fmt.Sprintf("    private %s f%d;", u.name, i)))
	}
	if x.chance(3) {
		out = append(out, text("    private String label = \"héllo wörld\";"))
	}
	out = append(out, text(""), text("    public int size() {"), text("        return 42; // "+x.pick([]string{"answer", "réponse", "答案"})), text("    }"))
	switch c.kind {
	case "nested":
		out = append(out, text(""), Line{K: "decl", Pre: "    ", Name: "Inner", Post: "static class"}, text("        int v;"), text("    }"))
	case "nested-iface":
		out = append(out, text(""), Line{K: "decl", Pre: "    ", Name: "Listener", Post: "public interface"}, text("        void on();"), text("    }"))
	case "nested-enum":
		out = append(out, text(""), Line{K: "decl", Pre: "    ", Name: "Kind", Post: "enum"}, text("        A, B"), text("    }"))
	}
	out = append(out, text("}"))
	return out
}

func (x *g) project() Project {
	pkgs := []string{"com.acme.shop", "com.acme.pay", "org.demo", "org.demo.util", "app"}
	names := []string{"Order", "Cart", "Invoice", "Ledger", "Clock", "Mailer", "Audit"}
	targets := []string{"com.acme.moved", "org.demo.core.api", "app", "com.acme.pay", "zz.fresh"}
	kinds := []string{"plain", "plain", "plain", "nested", "nested-iface", "nested-enum", "enum", "interface", "annotation"}
	n := 1 + x.r.Intn(4)
	if x.chance(4) {
		n = 1 + x.r.Intn(8)
	}
	var classes []cls
	seen := map[string]bool{}
	for len(classes) < n {
		c := cls{x.pick(pkgs), x.pick(names), "plain"}
		if seen[c.q()] {
			continue
		}
		seen[c.q()] = true
		classes = append(classes, c)
	}
	// moves: 1..3 distinct sources, targets that do not exist
	nm := 1
	if x.chance(3) {
		nm = 2 + x.r.Intn(2)
	}
	if nm > len(classes) {
		nm = len(classes)
	}
	if x.chance(15) {
		nm = 0
	}
	perm := x.r.Perm(len(classes))
	var moves []Move
	dirs := map[string]bool{}
	taken := map[string]bool{}
	moved := map[string]bool{}
	for _, i := range perm {
		if len(moves) == nm {
			break
		}
		c := classes[i]
		t := x.pick(targets)
		to := t + "." + c.name
		if t == c.pkg || seen[to] || taken[to] {
			continue
		}
		taken[to] = true
		moved[c.q()] = true
		classes[i].kind = x.pick(kinds)
		moves = append(moves, Move{From: c.q(), To: to})
		dirs[strings.ReplaceAll(t, ".", "/")] = true
	}
	for i := range classes {
		if !moved[classes[i].q()] && x.chance(4) {
			classes[i].kind = x.pick(kinds)
		}
	}
	var files []File
	for _, c := range classes {
		f := File{Pkg: c.pkg, Name: c.name, Eol: "\n", Final: true}
		if x.chance(7) {
			f.Eol = "\r\n"
		}
		if x.chance(5) {
			f.Final = false
		}
		lines := x.header()
		lines = append(lines, Line{K: "package", Name: c.pkg})
		if !x.chance(6) {
			lines = append(lines, text(""))
		}
		// imports: other classes of the project (moved ones preferred), JDK, wildcard / static / look-alike names
		var used []cls
		var imps []Line
		simple := map[string]bool{c.name: true}
		ni := x.r.Intn(4)
		if x.chance(4) {
			ni = x.r.Intn(7)
		}
		if x.cli && (c.kind == "enum" || c.kind == "interface" || c.kind == "annotation") {
			ni = 0 // such a body uses no imported type, and the command would remove the import
		}
		for k := 0; k < ni; k++ {
			y := x.r.Intn(10)
			if x.cli {
				y = 0
			}
			switch {
			case y < 6:
				o := classes[x.r.Intn(len(classes))]
				if o.q() == c.q() || simple[o.name] || o.pkg == c.pkg && x.chance(2) {
					continue
				}
				simple[o.name] = true
				l := Line{K: "import", Name: o.q()}
				if x.chance(25) {
					l.Pre = "  "
				}
				if x.chance(25) {
					l.Post = " // " + o.name
				}
				imps = append(imps, l)
				if o.kind != "annotation" {
					used = append(used, o)
				} else if x.cli {
					imps = imps[:len(imps)-1]
					delete(simple, o.name)
				}
			case y < 7:
				imps = append(imps, Line{K: "import", Name: x.pick([]string{"java.util.List", "java.util.Map", "java.io.File"})})
			case y < 8:
				o := classes[x.r.Intn(len(classes))]
				imps = append(imps, Line{K: "import", Name: o.pkg + ".*"})
			case y < 9:
				o := classes[x.r.Intn(len(classes))]
				imps = append(imps, Line{K: "static", Name: o.q() + "." + x.pick([]string{"make", "*", "DEFAULT"})})
			default:
				o := classes[x.r.Intn(len(classes))]
				imps = append(imps, Line{K: "import", Name: o.q() + x.pick([]string{"s", "Impl", ".Inner", "2"})})
			}
			if x.chance(6) {
				imps = append(imps, text(""))
			}
			if x.chance(12) {
				imps = append(imps, text(x.pick(commentPool)))
			}
		}
		lines = append(lines, imps...)
		if len(imps) > 0 || x.chance(2) {
			lines = append(lines, text(""))
		}
		lines = append(lines, x.body(c, used)...)
		f.Lines = lines
		files = append(files, f)
	}
	p := Project{Files: files, Dirs: []string{}, Moves: moves, Analyses: 1}
	for d := range dirs {
		p.Dirs = append(p.Dirs, d)
	}
	// map order must not leak into the case
	for i := range p.Dirs {
		for j := i + 1; j < len(p.Dirs); j++ {
			if p.Dirs[j] < p.Dirs[i] {
				p.Dirs[i], p.Dirs[j] = p.Dirs[j], p.Dirs[i]
			}
		}
	}
	if x.chance(6) {
		p.Analyses = 2
	}
	return p
}

func gen(seed int64, n int, tier string) []interface{} {
	x := &g{r: rand.New(rand.NewSource(seed*15485863 + 11))}
	out := []interface{}{}
	for i := 0; i < n; i++ {
		via := "api"
		x.cli = x.chance(15)
		if x.cli {
			via = "cli"
		}
		ps := []Project{x.project()}
		if x.cli {
			ps[0].Analyses = 1
		} else if x.chance(5) {
			ps = append(ps, x.project())
		}
		out = append(out, Case{Case: fmt.Sprintf("rand-%d-%d", seed, i), Input: Input{Via: via, Projects: ps}})
	}
	return out
}
