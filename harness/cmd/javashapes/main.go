// Harness for C09: every pass completes without crashing on any valid Java source.
//
// A case is either a set of feature names (the shape space enumerated by spec/JavaShapes.tla; the
// snippet table below is the renderer) placed in a skeleton compilation unit, alone or sandwiched
// between two ordinary files, or a .java fixture of the repository under a semantics-preserving
// rewrite done at token level with the repository's own lexer. A unit is used only if the shipped
// grammar parses it without syntax errors (reported as facts.valid). The six passes are run behind
// recover(); the observation is {panic, serialises} per pass.
package main

import (
	"encoding/json"
	"fmt"
	"math/rand"
	"os"
	"path/filepath"
	"sort"
	"strings"

	"github.com/antlr/antlr4/runtime/Go/antlr/v4"
	parser "github.com/modernizing/coca/languages/java"
	"github.com/modernizing/coca/pkg/application/analysis/javaapp"
	"github.com/modernizing/coca/pkg/application/api"
	"github.com/modernizing/coca/pkg/application/bs"
	"github.com/modernizing/coca/pkg/application/refactor/unused"
	"github.com/modernizing/coca/pkg/application/todo"
	"github.com/modernizing/coca/pkg/domain/core_domain"

	"verifharness/lib"
)

type snippet struct {
	place string // top | member | stmt | typeann
	text  string
}

var features = map[string]snippet{
	// additional top-level types
	"top_enum":            {"top", "enum Color { RED, GREEN(2); private int v; Color() { } Color(int v) { this.v = v; } Color next() { return RED; } }"},
	"top_record":          {"top", "record Point(int x, int y) implements Comparable<Point> { int sum() { return x + y; } public int compareTo(Point o) { return 0; } static Point origin() { return new Point(0, 0); } }"},
	"top_annotation":      {"top", "@interface Marker { String value() default \"x\"; int[] nums() default {1, 2}; Class<?> type() default Object.class; }"},
	"top_interface":       {"top", "interface Shape extends Comparable<Shape> { double area(); default String label() { return \"s\"; } static Shape unit() { return null; } int SIDES = 4; }"},
	"top_abstract":        {"top", "abstract class Base<T extends Comparable<T>> implements java.io.Serializable { abstract T get(); protected Base() { super(); } }"},
	"top_generic_bounded": {"top", "class Box<K, V extends java.util.List<? super K>> { V v; <R extends K> R cast(Object o) { return null; } }"},
	// member types and members of Main
	"nested_static":     {"member", "static class Nested { int n; static class Deeper { void d() { } } }"},
	"inner_class":       {"member", "class Inner { int i = count; void up() { Main.this.count++; } }"},
	"nested_enum":       {"member", "enum Mode { ON { @Override int v() { return 1; } }, OFF { @Override int v() { return 0; } }; abstract int v(); }"},
	"nested_interface":  {"member", "interface Listener { void on(String e); }"},
	"nested_record":     {"member", "record Pair<A, B>(A a, B b) { }"},
	"nested_annotation": {"member", "@interface Tag { String[] value(); }"},
	"array_field":       {"member", "int[][] grid = new int[2][3]; String[] names = {\"a\", \"b\"}; long[] zs[];"},
	"generic_field":     {"member", "java.util.Map<String, java.util.List<Integer>> index = new java.util.HashMap<>();"},
	"static_init":       {"member", "static int boot; static { boot = 1; }"},
	"instance_init":     {"member", "{ count = 2; }"},
	"ctor_this_super":   {"member", "Main() { this(1); } Main(int a) { super(); count = a; }"},
	"varargs":           {"member", "void va(String fmt, Object... xs) { }"},
	"generic_method":    {"member", "<T extends Number & Comparable<T>> T gm(T t) throws Exception { return t; }"},
	"native_sync":       {"member", "native void nat(); synchronized strictfp void sync() { } transient volatile int tv;"},
	"ann_marker":        {"member", "@Deprecated void am() { }"},
	"ann_single":        {"member", "@SuppressWarnings(\"unchecked\") void as() { }"},
	"ann_array":         {"member", "@SuppressWarnings({\"a\", \"b\"}) void aa() { }"},
	"ann_pairs":         {"member", "@javax.annotation.Resource(name = \"x\", shareable = false) Object res;"},
	"ann_nested":        {"member", "@Outer(@Inner(1)) @Outer.Kind(value = @Inner(2)) void an() { }"},
	"ann_const":         {"member", "@Timeout(Limits.MAX * 2) void ac() { }"},
	"ann_param":         {"member", "void pa(@Deprecated final int a, @SuppressWarnings(\"x\") String... b) { }"},
	"ann_typeuse":       {"member", "java.util.@NonNull List<@NonNull String> tu;"},
	"ann_local":         {"stmt", "@SuppressWarnings(\"unused\") final int annotated = 1;"},
	"override_tostring": {"member", "@Override public String toString() { return super.toString(); }"},
	// statements / expressions inside void body()
	"lambda0":                  {"stmt", "Runnable r0 = () -> { }; r0.run();"},
	"lambda1":                  {"stmt", "java.util.function.Function<String, String> f1 = s -> s.trim(); f1.apply(\"x\");"},
	"lambdaN":                  {"stmt", "java.util.function.BiFunction<Integer, Integer, Integer> add = (a, b) -> a + b;"},
	"lambda_typed":             {"stmt", "java.util.function.BinaryOperator<Integer> mul = (Integer a, Integer b) -> { return a * b; };"},
	"method_ref":               {"stmt", "java.util.function.Function<Object, String> g = Object::toString; Runnable rr = this::body;"},
	"ctor_ref":                 {"stmt", "java.util.function.Supplier<java.util.ArrayList<String>> mk = java.util.ArrayList::new; java.util.function.IntFunction<int[]> arr = int[]::new;"},
	"array_creation":           {"stmt", "int[] a1 = new int[3]; int[][] a2 = new int[][]{{1}, {2, 3}}; a1[0] = a2[1][0];"},
	"anonymous_class":          {"stmt", "Object anon = new Object() { int k; @Override public String toString() { return \"x\" + k; } };"},
	"ternary_cast":             {"stmt", "Object oc = count > 1 ? (Object) \"a\" : Integer.valueOf(2); long lc = (long) count;"},
	"instanceof_pattern":       {"stmt", "Object ip = \"s\"; if (ip instanceof String str && !str.isEmpty()) { str.length(); }"},
	"switch_expr":              {"stmt", "int se = switch (count) { case 1, 2 -> 10; default -> { yield 20; } };"},
	"switch_classic":           {"stmt", "switch (count) { case 1: count++; break; case 2: default: count--; }"},
	"var_local":                {"stmt", "var vl = new java.util.ArrayList<String>(); for (var e : vl) { e.length(); }"},
	"try_resources":            {"stmt", "try (java.io.StringReader rd = new java.io.StringReader(\"x\"); java.io.StringWriter wr = new java.io.StringWriter()) { rd.read(); } catch (java.io.IOException | RuntimeException ex) { throw new IllegalStateException(ex); } finally { count = 0; }"},
	"labelled":                 {"stmt", "outer: for (int i = 0; i < 2; i++) { for (int j = 0; ; j++) { if (j > 1) continue outer; if (i > 0) break outer; } }"},
	"sync_block":               {"stmt", "synchronized (this) { count++; } do { count--; } while (count > 0); assert count >= 0 : \"neg\";"},
	"local_class":              {"stmt", "class Local { int q; int twice() { return q * 2; } } new Local().twice();"},
	"non_ascii":                {"stmt", "int größe = 1; String 名字 = \"注释 é\"; char c = 'é'; größe++;"},
	"literals":                 {"stmt", "long big = 1_000_000L; int hx = 0xFF_FF; int bn = 0b1010; double d = 1e-3; float fl = 1.5f; char nl = '\\n'; char uq = '\\u00e9';"},
	"nested_generics":          {"stmt", "java.util.Map<String, java.util.Map<String, java.util.List<int[]>>> deep = null; java.util.List<? extends Number>[] wild = null;"},
	"inner_creation":           {"stmt", "Main outerRef = this; Object in = outerRef.new Inner2();"},
	"explicit_targs":           {"stmt", "java.util.Collections.<String>emptyList(); this.<Integer>pick(1);"},
	"chained_calls":            {"stmt", "new StringBuilder().append(\"a\").append(1).reverse().toString().trim().length();"},
	"nested_lambda_calls":      {"stmt", "java.util.List.of(1, 2).stream().map(x -> java.util.List.of(x).stream().filter(y -> y > 0).count()).forEach(z -> System.out.println(z));"},
	"text_block":               {"stmt", "String tb = \"\"\"\n    hello\n    \"\"\";"},
	"this_field_calls":         {"stmt", "this.count = this.helper().count; this.helper().body();"},
	"array_method":             {"member", "int[] arrm()[] { return null; } int[] plain(int[] a, int b[]) { return a; }"},
	"interface_generic_method": {"top", "interface Repo<T, ID> { <S extends T> S save(S s); java.util.Optional<T> findById(ID id); }"},
}

const skeletonHelpers = `
    int count;
    class Inner2 { }
    Main helper() { return this; }
    <T> T pick(T t) { return t; }
`

func renderUnit(name string, feats []string) string {
	var tops, members, stmts []string
	for _, f := range feats {
		sn, ok := features[f]
		if !ok {
			panic("harness: unknown feature " + f)
		}
		switch sn.place {
		case "top":
			tops = append(tops, sn.text)
		case "member":
			members = append(members, sn.text)
		case "stmt":
			stmts = append(stmts, sn.text)
		}
	}
	var b strings.Builder
	b.WriteString("package shapes;\n\nimport java.util.*;\n\n@SuppressWarnings(\"all\")\npublic class " + name + " {\n" + skeletonHelpers)
	b.WriteString(strings.ReplaceAll(skeletonMainCtor(feats), "Main", name))
	for _, m := range members {
		b.WriteString("    " + strings.ReplaceAll(m, "Main", name) + "\n")
	}
	b.WriteString("    void body() {\n")
	for _, s := range stmts {
		b.WriteString("        " + strings.ReplaceAll(s, "Main", name) + "\n")
	}
	b.WriteString("    }\n}\n")
	for _, t := range tops {
		b.WriteString("\n" + t + "\n")
	}
	return b.String()
}

func skeletonMainCtor(feats []string) string { return "" }

const goodFile = `package shapes;

import java.util.List;

public class %s {
    private List<String> items;

    public %s(List<String> items) {
        this.items = items;
    }

    public int size() {
        if (items == null) {
            return 0;
        }
        return items.size();
    }
}
`

type countingListener struct {
	*antlr.DefaultErrorListener
	n int
}

func (c *countingListener) SyntaxError(recognizer antlr.Recognizer, offendingSymbol interface{}, line, column int, msg string, e antlr.RecognitionException) {
	c.n++
}

func syntaxErrors(code string) int {
	cl := &countingListener{DefaultErrorListener: antlr.NewDefaultErrorListener()}
	is := antlr.NewInputStream(code)
	lexer := parser.NewJavaLexer(is)
	lexer.RemoveErrorListeners()
	lexer.AddErrorListener(cl)
	stream := antlr.NewCommonTokenStream(lexer, 0)
	p := parser.NewJavaParser(stream)
	p.RemoveErrorListeners()
	p.AddErrorListener(cl)
	p.CompilationUnit()
	return cl.n
}

type Case struct {
	Case     string   `json:"case"`
	Features []string `json:"features"`
	Project  string   `json:"project"` // single | sandwich
	Fixture  string   `json:"fixture"` // relative path under <repo>/_fixtures ("" for feature cases)
	Rewrite  string   `json:"rewrite"` // none | indent | comments | rename | crlf
	// a sentence derived from the shipped grammar by spec/JavaDerive.tla: terminals in order; "@CLASS#k" = lexeme k of a token class
	Ctx     string   `json:"ctx"`
	Tokens  []string `json:"tokens"`
	Comment *Comment `json:"comment,omitempty"`
}

type Comment struct {
	Marker   string `json:"marker"`
	Assignee string `json:"assignee"`
	Sep      string `json:"sep"`
	Msg      string `json:"msg"`
	Style    string `json:"style"` // none | line | block | doc
	At       int    `json:"at"`    // 0 before the unit, 1 after the first "{", 2 at the very end (no newline after it)
}

// lexeme tables of the token classes (the derivation machine chooses the index)
var lexemes = map[string][]string{
	"IDENTIFIER": {"a", "Foo", "getName", "RestController", "GetMapping", "x", "値", "Override", "String", "T", "isOk", "setV", "Test", "main",
		"RequestMapping", "value"},
	"DECIMAL_LITERAL":   {"0", "1", "42", "1_000", "7L", "0l"},
	"HEX_LITERAL":       {"0x1F", "0XffL", "0x0_1"},
	"OCT_LITERAL":       {"017", "0_7L"},
	"BINARY_LITERAL":    {"0b101", "0B1_0L"},
	"FLOAT_LITERAL":     {"1.0", "1e3", ".5f", "2d", "1.5e-3F"},
	"HEX_FLOAT_LITERAL": {"0x1.8p1", "0x.8P-2f"},
	"BOOL_LITERAL":      {"true", "false"},
	"CHAR_LITERAL":      {"'a'", "'\\n'", "'\\u0041'", "'\\''", "'é'"},
	"STRING_LITERAL":    {"\"\"", "\"x\"", "\"a\\\"b\"", "\"TODO: no\"", "\"/* c */\"", "\"// x\"", "\"日本\"", "\"{}\"", "\"/api/{id}\""},
	"TEXT_BLOCK":        {"\"\"\"\n  hi\n  \"\"\"", "\"\"\"\n\"\"\""},
}

func lexeme(tok string) string {
	// "@CLASS#k"
	h := strings.LastIndex(tok, "#")
	if !strings.HasPrefix(tok, "@") || h < 0 {
		return tok
	}
	cls := tok[1:h]
	pool, ok := lexemes[cls]
	if !ok {
		panic("harness: no lexemes for token class " + cls)
	}
	k := 0
	fmt.Sscanf(tok[h+1:], "%d", &k)
	return pool[k%len(pool)]
}

func renderComment(c *Comment) string {
	if c == nil || c.Style == "none" || c.Style == "" {
		return ""
	}
	text := c.Marker + c.Assignee + c.Sep + c.Msg
	switch c.Style {
	case "line":
		return "// " + text
	case "block":
		return "/* " + text + " */"
	default:
		return "/** " + text + " */"
	}
}

// renderTokens lays a derived sentence out as source text: one blank between tokens, a line break after ; { }
func renderTokens(toks []string, c *Comment) string {
	var b strings.Builder
	cm := renderComment(c)
	if cm != "" && c.At == 0 {
		b.WriteString(cm + "\n")
	}
	placed := false
	for _, t := range toks {
		b.WriteString(lexeme(t))
		switch t {
		case ";", "{", "}":
			if t == "{" && cm != "" && c.At == 1 && !placed {
				b.WriteString(" " + cm)
				placed = true
			}
			b.WriteString("\n")
		default:
			b.WriteString(" ")
		}
	}
	if cm != "" && (c.At == 2 || (c.At == 1 && !placed)) {
		b.WriteString(cm) // last thing in the file, no line break after it
	}
	return b.String()
}

type PassObs struct {
	Pass       string `json:"pass"`
	Panic      bool   `json:"panic"`
	Serialises bool   `json:"serialises"`
	GoodKept   bool   `json:"goodKept"` // sandwich: the two ordinary files still have their entries (true where not applicable)
	Note       string `json:"note"`
}

type Record struct {
	Case     string    `json:"case"`
	Features []string  `json:"features"`
	Project  string    `json:"project"`
	Fixture  string    `json:"fixture"`
	Rewrite  string    `json:"rewrite"`
	Ctx      string    `json:"ctx"`
	NTokens  int       `json:"ntokens"`
	Text     string    `json:"text"`  // derived sentences only: the unit as rendered (for replay and reading)
	Valid    bool      `json:"valid"` // the shipped grammar parses the unit without syntax errors
	Observed []PassObs `json:"observed"`
}

func hasType(nodes []core_domain.CodeDataStruct, name string) bool {
	for _, n := range nodes {
		if n.NodeName == name {
			return true
		}
	}
	return false
}

func runPasses(dir string, sandwich bool) []PassObs {
	var out []PassObs
	do := func(name string, f func() (interface{}, bool)) {
		o := PassObs{Pass: name, GoodKept: true}
		var res interface{}
		kept := true
		p, msg, site := lib.GuardAt(func() { res, kept = f() })
		o.Panic, o.Note = p, msg
		if p {
			o.Note = msg + " @ " + site
		}
		if !p {
			_, err := json.Marshal(res)
			o.Serialises = err == nil
			o.GoodKept = kept
		}
		out = append(out, o)
	}
	var ident []core_domain.CodeDataStruct
	do("identifier", func() (interface{}, bool) {
		app := javaapp.NewJavaIdentifierApp()
		ident = app.AnalysisPath(dir)
		return ident, !sandwich || (hasType(ident, "Good1") && hasType(ident, "Good2"))
	})
	do("full", func() (interface{}, bool) {
		app := javaapp.NewJavaFullApp()
		r := app.AnalysisPath(dir, ident)
		return r, !sandwich || (hasType(r, "Good1") && hasType(r, "Good2"))
	})
	do("badsmell", func() (interface{}, bool) {
		app := bs.NewBadSmellApp()
		nodes := app.AnalysisPath(dir)
		r := app.IdentifyBadSmell(nodes, nil)
		return r, true
	})
	do("api", func() (interface{}, bool) {
		app := new(api.JavaApiApp)
		return app.AnalysisPath(dir, nil, map[string]core_domain.CodeDataStruct{}, map[string]string{}), true
	})
	do("refactor", func() (interface{}, bool) {
		app := unused.NewRemoveUnusedImportApp(dir)
		return app.Analysis(), true
	})
	do("todo", func() (interface{}, bool) {
		app := todo.NewTodoApp()
		return app.AnalysisPath(dir, []string{".java"}), true
	})
	return out
}

// ---------------------------------------------------------------- fixture rewrites (token level, repository's own lexer)

var javaKeywordLike = map[string]bool{"var": true, "record": true, "yield": true, "sealed": true, "permits": true, "String": false}

func rewrite(src string, kind string, seed int64) string {
	r := rand.New(rand.NewSource(seed))
	switch kind {
	case "indent":
		var b strings.Builder
		for _, ln := range strings.Split(src, "\n") {
			b.WriteString(strings.Repeat(" ", r.Intn(7)) + ln + "\n")
		}
		return b.String()
	case "comments":
		var b strings.Builder
		for _, ln := range strings.Split(src, "\n") {
			b.WriteString(ln + "\n")
			// only after lines that cannot be inside a block comment or a text block
			t := strings.TrimSpace(ln)
			if r.Intn(3) == 0 && (strings.HasSuffix(t, ";") || strings.HasSuffix(t, "{") || strings.HasSuffix(t, "}")) && !strings.Contains(src, "/*") {
				b.WriteString("    // TODO(verif): inserted comment é\n")
			}
		}
		return b.String()
	case "crlf":
		return strings.ReplaceAll(src, "\n", "\r\n")
	case "rename":
		// consistent renaming of identifiers that are declared as local variables / parameters is not decidable at
		// token level; instead every IDENTIFIER token that is not followed by '(' or '.' and does not start with an
		// upper-case letter (types) gets a suffix, consistently over the whole file
		is := antlr.NewInputStream(src)
		lexer := parser.NewJavaLexer(is)
		lexer.RemoveErrorListeners()
		toks := lexer.GetAllTokens()
		var b strings.Builder
		last := 0
		rs := []rune(src)
		for i, t := range toks {
			if t.GetTokenType() != parser.JavaLexerIDENTIFIER {
				continue
			}
			txt := t.GetText()
			if txt == "" || (txt[0] >= 'A' && txt[0] <= 'Z') || javaKeywordLike[txt] {
				continue
			}
			// skip member names / calls: preceded by '.' or followed by '('
			if i+1 < len(toks) && toks[i+1].GetText() == "(" {
				continue
			}
			if i > 0 && (toks[i-1].GetText() == "." || toks[i-1].GetText() == "::" || toks[i-1].GetText() == "@") {
				continue
			}
			if i+1 < len(toks) && toks[i+1].GetText() == "." {
				continue // package / qualified-name heads
			}
			b.WriteString(string(rs[last : t.GetStop()+1]))
			b.WriteString("_v")
			last = t.GetStop() + 1
		}
		b.WriteString(string(rs[last:]))
		return b.String()
	}
	return src
}

func one(raw json.RawMessage) interface{} {
	var c Case
	if err := json.Unmarshal(raw, &c); err != nil {
		panic(err)
	}
	if c.Features == nil {
		c.Features = []string{}
	}
	rec := Record{Case: c.Case, Features: c.Features, Project: c.Project, Fixture: c.Fixture, Rewrite: c.Rewrite, Observed: []PassObs{}}
	scratch, err := os.MkdirTemp(os.Getenv("VERIF_SCRATCH"), "sh-")
	if err != nil {
		panic(err)
	}
	defer os.RemoveAll(scratch)
	dir := filepath.Join(scratch, "proj", "shapes")
	os.MkdirAll(dir, 0o755)
	var unit string
	if c.Fixture != "" {
		b, err := os.ReadFile(filepath.Join(os.Getenv("VERIF_REPO_DIR"), "_fixtures", filepath.FromSlash(c.Fixture)))
		if err != nil {
			panic(err)
		}
		seed := int64(len(c.Case))
		for _, ch := range c.Case {
			seed = seed*131 + int64(ch)
		}
		unit = rewrite(string(b), c.Rewrite, seed)
	} else if len(c.Tokens) > 0 {
		unit = renderTokens(c.Tokens, c.Comment)
		rec.Ctx, rec.NTokens, rec.Text = c.Ctx, len(c.Tokens), unit
	} else {
		unit = renderUnit("Main", c.Features)
	}
	rec.Valid = syntaxErrors(unit) == 0
	if !rec.Valid {
		return rec // outside the quantifier: not run
	}
	os.WriteFile(filepath.Join(dir, "Main.java"), []byte(unit), 0o644)
	sandwich := c.Project == "sandwich"
	if sandwich {
		// walk order: Good1.java < Main.java < Zgood... keep names so that the unusual file is in the middle
		os.WriteFile(filepath.Join(dir, "Good1.java"), []byte(fmt.Sprintf(goodFile, "Good1", "Good1")), 0o644)
		os.WriteFile(filepath.Join(dir, "ZGood2.java"), []byte(strings.ReplaceAll(fmt.Sprintf(goodFile, "Good2", "Good2"), "shapes;", "shapes;")), 0o644)
	}
	rec.Observed = runPasses(filepath.Join(scratch, "proj"), sandwich)
	return rec
}

func abnormal(raw json.RawMessage, timeout bool, stderr string) interface{} {
	var c Case
	json.Unmarshal(raw, &c)
	if c.Features == nil {
		c.Features = []string{}
	}
	rec := Record{Case: c.Case, Features: c.Features, Project: c.Project, Fixture: c.Fixture, Rewrite: c.Rewrite, Valid: true, Ctx: c.Ctx, NTokens: len(c.Tokens)}
	if len(c.Tokens) > 0 {
		rec.Text = renderTokens(c.Tokens, c.Comment)
	}
	note := "process died"
	if timeout {
		note = "process timed out"
	}
	rec.Observed = []PassObs{{Pass: "process", Panic: true, Note: note + ": " + stderr}}
	return rec
}

// direction (B): larger random feature sets and every fixture under every rewrite
func gen(seed int64, n int, tier string) []interface{} {
	r := rand.New(rand.NewSource(seed))
	var names []string
	for k := range features {
		names = append(names, k)
	}
	sort.Strings(names)
	var out []interface{}
	var fixtures []string
	root := filepath.Join(os.Getenv("VERIF_REPO_DIR"), "_fixtures")
	filepath.Walk(root, func(p string, fi os.FileInfo, err error) error {
		if err == nil && !fi.IsDir() && strings.HasSuffix(p, ".java") {
			rel, _ := filepath.Rel(root, p)
			fixtures = append(fixtures, filepath.ToSlash(rel))
		}
		return nil
	})
	sort.Strings(fixtures)
	kinds := []string{"none", "indent", "comments", "rename", "crlf"}
	for i, fx := range fixtures {
		for j, k := range kinds {
			if tier == "quick" && (i+j+int(seed))%5 != 0 {
				continue
			}
			out = append(out, Case{Case: fmt.Sprintf("fx-%d-%s", i, k), Features: []string{}, Project: "single", Fixture: fx, Rewrite: k})
		}
	}
	for k := 0; k < n; k++ {
		m := 4 + r.Intn(6)
		fs := map[string]bool{}
		for len(fs) < m {
			fs[names[r.Intn(len(names))]] = true
		}
		var sel []string
		for f := range fs {
			sel = append(sel, f)
		}
		sort.Strings(sel)
		out = append(out, Case{Case: fmt.Sprintf("rand-%d-%d", seed, k), Features: sel, Project: []string{"single", "sandwich"}[r.Intn(2)]})
	}
	return out
}

func main() {
	if len(os.Args) > 1 && os.Args[1] == "features" {
		var names []string
		for k := range features {
			names = append(names, k)
		}
		sort.Strings(names)
		for _, n := range names {
			ok := syntaxErrors(renderUnit("Main", []string{n})) == 0
			fmt.Printf("%s\t%v\n", n, ok)
		}
		return
	}
	lib.Main(lib.Handler{One: one, Gen: gen, Abnormal: abnormal})
}
