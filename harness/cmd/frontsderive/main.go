// Harness for C20, suite `frontsderive`: "Neither front-end crashes on a file its parser accepts."
//
// A case is a sentence derived from the grammar the repository ships (spec/PyDerive.tla over
// languages/g4/PythonParser.g4, spec/GoDerive.tla over languages/g4/GoParser.g4): terminals in order,
// "@CLASS#k" = lexeme k of a token class, plus a layout record. The harness
//
//	renders  the token sequence to source text (Python: INDENT / DEDENT / LINE_BREAK become indentation and
//	         line ends - the shipped lexer synthesises exactly those tokens back from the layout; Go: the
//	         class EOS (rule `eos`) becomes ';', a line break, or nothing before a closing bracket),
//	decides  `accepts` with the front-end's OWN parser (Python: the ANTLR parser of languages/python reports
//	         no syntax error during the very parse the front-end performs; Go: go/parser.ParseFile, mode 0,
//	         the call ast_go makes, returns no error),
//	drives   the real front-end through its public entry points behind lib.GuardAt
//	         (pyapp.PythonIdentApp.Analysis / goapp.GoIdentApp.Analysis on the text, then
//	         analysis.CommonAnalysis over a directory holding the file - what `coca analysis -l` runs),
//	projects {panic, serialises, note}.
//
// No expected values live here; spec/FrontsDeriveRef.tla (Diff) judges the trace.
//
// Debug mode (not used by bin/check):   frontsderive render < case.json   prints the rendered text.
package main

import (
	"context"
	"encoding/json"
	"fmt"
	"go/parser"
	"go/token"
	"io"
	"os"
	"os/exec"
	"path/filepath"
	"regexp"
	"strings"
	"time"

	"github.com/modernizing/coca/pkg/adapter/cocafile"
	"github.com/modernizing/coca/pkg/application/analysis"
	"github.com/modernizing/coca/pkg/application/analysis/goapp"
	"github.com/modernizing/coca/pkg/application/analysis/pyapp"

	"verifharness/lib"
)

// ------------------------------------------------------------------ case / record

type Layout struct {
	// Python
	Indent string `json:"indent,omitempty"` // "1" | "2" | "4" | "8" | "tab"
	Eol    string `json:"eol,omitempty"`    // "lf" | "crlf"
	// Go
	Open string `json:"open,omitempty"` // "same" | "break": line break after every "{" and ","
	// both
	Final   string `json:"final"`   // "nl" | "none": what follows the last token of the file
	Comment string `json:"comment"` // py: none | eol | line | blank      go: none | line | block
}

type Case struct {
	Case   string   `json:"case"`
	Lang   string   `json:"lang"` // "py" | "go"
	Ctx    string   `json:"ctx"`
	Tokens []string `json:"tokens"`
	Layout Layout   `json:"layout"`
}

type Obs struct {
	Panic      bool   `json:"panic"`
	Serialises bool   `json:"serialises"`
	Note       string `json:"note"`
}

type Record struct {
	Case     string `json:"case"`
	Lang     string `json:"lang"`
	Ctx      string `json:"ctx"`
	NTokens  int    `json:"ntokens"`
	Text     string `json:"text"`
	Accepts  bool   `json:"accepts"` // the front-end's own parser accepts the rendered text
	Observed Obs    `json:"observed"`
}

// ------------------------------------------------------------------ lexeme tables (the derivation machine chooses the index)

var pyLexemes = map[string][]string{
	"NAME": {"a", "Foo", "self", "x", "get_name", "_p", "T", "main", "os", "cls", "名", "property", "Bar", "b2", "value", "app"},
	"STRING": {`""`, `'x'`, `"a\"b"`, `b"x"`, `r'\d'`, `f"{x}"`, `"""doc"""`, `u'ü'`, "\"\"\"\nml\n\"\"\"", `'# no'`, `"日本"`, `rb'\x00'`,
		`'''a'b'''`, `"@d"`, `'a:b'`, `"(x"`},
	"DECIMAL_INTEGER": {"0", "1", "42", "00", "7", "100"},
	"OCT_INTEGER":     {"0o17", "0O7"},
	"HEX_INTEGER":     {"0x1F", "0Xff"},
	"BIN_INTEGER":     {"0b101", "0B1"},
	"IMAG_NUMBER":     {"1j", "2.5J", "1e3j"},
	"FLOAT_NUMBER":    {"1.0", "1e3", ".5", "2.", "1.5e-3"},
}

var goLexemes = map[string][]string{
	"IDENTIFIER":             {"a", "Foo", "x", "T", "err", "fmt", "_", "main", "String", "b2", "ñ", "Bar", "s", "string", "int", "error"},
	"DECIMAL_LIT":            {"1", "42", "7", "100"},
	"OCTAL_LIT":              {"0", "017"},
	"HEX_LIT":                {"0x1F", "0Xff"},
	"FLOAT_LIT":              {"1.5", "1e3", ".5", "2.", "1.5e-3"},
	"IMAGINARY_LIT":          {"1i", "2.5i"},
	"RUNE_LIT":               {"'a'", `'\n'`, `'é'`, `'\''`, "'é'"},
	"RAW_STRING_LIT":         {"`a`", "`x\\y`", "`json:\"a\"`", "``"},
	"INTERPRETED_STRING_LIT": {`""`, `"x"`, `"a\"b"`, `"fmt"`, `"a/b"`, `"é"`, `"// no"`, `"{"`},
}

func split(tok string) (cls string, k int, ok bool) {
	h := strings.LastIndex(tok, "#")
	if len(tok) < 3 || tok[0] != '@' || h < 2 {
		return "", 0, false
	}
	fmt.Sscanf(tok[h+1:], "%d", &k)
	return tok[1:h], k, true
}

func lexeme(table map[string][]string, cls string, k int) string {
	pool, ok := table[cls]
	if !ok {
		panic("harness: no lexemes for token class " + cls)
	}
	return pool[k%len(pool)]
}

// ------------------------------------------------------------------ renderers

// renderPy: one blank between tokens of a line; LINE_BREAK ends the line, INDENT / DEDENT change the indentation the
// next line starts with. Nothing else produces a line end, so the lexer finds exactly the derived layout tokens.
func renderPy(toks []string, lay Layout) string {
	unit := "    "
	switch lay.Indent {
	case "1":
		unit = " "
	case "2":
		unit = "  "
	case "8":
		unit = "        "
	case "tab":
		unit = "\t"
	}
	eol := "\n"
	if lay.Eol == "crlf" {
		eol = "\r\n"
	}
	var b strings.Builder
	level, atStart, lines := 0, true, 0
	for _, t := range toks {
		cls, k, isClass := split(t)
		switch {
		case isClass && cls == "LINE_BREAK":
			if lay.Comment == "eol" && !atStart && lines%2 == 0 {
				b.WriteString("  # TODO: c")
			}
			b.WriteString(eol)
			lines++
			if lay.Comment == "line" && lines%2 == 1 {
				b.WriteString("# a comment line" + eol)
			}
			if lay.Comment == "blank" && lines%2 == 1 {
				b.WriteString(eol)
			}
			atStart = true
		case isClass && cls == "INDENT":
			level++
		case isClass && cls == "DEDENT":
			if level > 0 {
				level--
			}
		default:
			if atStart {
				b.WriteString(strings.Repeat(unit, level))
				atStart = false
			} else {
				b.WriteString(" ")
			}
			if isClass {
				b.WriteString(lexeme(pyLexemes, cls, k))
			} else {
				b.WriteString(t)
			}
		}
	}
	s := b.String()
	if lay.Final == "none" {
		s = strings.TrimSuffix(s, eol) // the EOF alternative of `simple_stmt : ... (LINE_BREAK | EOF)`
	}
	return s
}

// renderGo: one blank between tokens. EOS (the grammar's `eos`) is written as ";", a line break (the token before it
// always ends a statement, so Go's automatic semicolon applies), ";" + line break, a line break after a comment, or
// nothing when a closing bracket follows. No other line break is written except, in the "break" layout, after "{" and ","
// (where no semicolon is inserted). Two places where the shipped grammar spells Go differently are written the Go way:
// the operator of an assignment (`+` `=` -> `+=`) and the empty statement (a ';' of its own before the separating ';').
var assignOps = map[string]bool{"+": true, "-": true, "|": true, "^": true, "*": true, "/": true, "%": true, "<<": true, ">>": true, "&": true, "&^": true}

func renderGo(toks []string, lay Layout) string {
	var b strings.Builder
	if lay.Comment == "block" {
		b.WriteString("/* derived */ ")
	} else if lay.Comment == "line" {
		b.WriteString("// derived\n")
	}
	lastEos := -1
	for i, t := range toks {
		if cls, _, ok := split(t); ok && cls == "EOS" {
			lastEos = i
		}
	}
	for i, t := range toks {
		cls, k, isClass := split(t)
		if isClass && cls == "EOS" {
			next := ""
			if i+1 < len(toks) {
				next = toks[i+1]
			}
			if i == lastEos && i == len(toks)-1 && lay.Final == "none" {
				continue // EOF alternative of eos
			}
			switch k % 5 {
			case 0:
				b.WriteString("; ")
			case 1:
				b.WriteString("\n")
			case 2:
				b.WriteString(";\n")
			case 3:
				if lay.Comment != "none" {
					b.WriteString(" // c")
				}
				b.WriteString("\n\n")
			default:
				if next == "}" || next == ")" {
					b.WriteString(" ")
				} else {
					b.WriteString("\n")
				}
			}
			continue
		}
		next := ""
		if i+1 < len(toks) {
			next = toks[i+1]
		}
		if t == ";" && next == ";" {
			continue // the grammar's emptyStmt is a ';' of its own in front of the separator; Go's empty statement is no text
		}
		if isClass {
			b.WriteString(lexeme(goLexemes, cls, k))
		} else {
			b.WriteString(t)
		}
		if next == "=" && assignOps[t] {
			continue // assign_op : ('+' | '-' | ... | '&^')? '=' is two tokens for the shipped lexer and one (+=, &^=) for Go's
		}
		if lay.Open == "break" && (t == "{" || t == ",") {
			b.WriteString("\n")
		} else {
			b.WriteString(" ")
		}
	}
	s := b.String()
	if lay.Final == "none" {
		s = strings.TrimRight(s, " \n")
	}
	return s
}

func render(c Case) string {
	if c.Lang == "py" {
		return renderPy(c.Tokens, c.Layout)
	}
	return renderGo(c.Tokens, c.Layout)
}

// ------------------------------------------------------------------ "the front-end's parser accepts the file"

// Go: the same parser call the front-end makes (go/parser, mode 0).
func goAccepts(text, name string) bool {
	_, err := parser.ParseFile(token.NewFileSet(), name, text, 0)
	return err == nil
}

// Python: the front-end builds its ANTLR lexer + parser internally with the default console error listener, which
// writes one "line L:C message" line to os.Stderr per syntax error (lexer and parser alike). The acceptance fact is
// taken from the very parse the front-end performs (stderr captured around the call): the shipped lexer keeps its
// indentation stack and token ring in package-level variables, so a separate trial parse could disturb the real one.
var syntaxErrLine = regexp.MustCompile(`(?m)^line \d+:\d+ `)

func captureStderr(f func()) string {
	old := os.Stderr
	r, w, err := os.Pipe()
	if err != nil {
		f()
		return ""
	}
	done := make(chan string)
	go func() {
		b, _ := io.ReadAll(r)
		done <- string(b)
	}()
	os.Stderr = w
	func() {
		defer func() {
			os.Stderr = old
			w.Close()
		}()
		f()
	}()
	out := <-done
	r.Close()
	return out
}

// pyParseOnly: the shipped lexer + parser alone (what pyapp.ProcessPythonString(..).Root() does), errors counted.
func pyParseOnly(text string) bool {
	errs := captureStderr(func() { pyapp.ProcessPythonString(text).Root() })
	return !syntaxErrLine.MatchString(errs)
}

// pyAcceptsFresh asks pyParseOnly in a fresh process (only used for a case whose own process died or timed out).
func pyAcceptsFresh(text string) bool {
	self, err := os.Executable()
	if err != nil {
		return false
	}
	ctx, cancel := context.WithTimeout(context.Background(), 120*time.Second)
	defer cancel()
	cmd := exec.CommandContext(ctx, self, "pyaccepts")
	cmd.Stdin = strings.NewReader(text)
	out, err := cmd.Output()
	return err == nil && strings.TrimSpace(string(out)) == "true" // a parser that dies has not accepted the file
}

// ------------------------------------------------------------------ drive

func clip(s string, n int) string {
	if len(s) > n {
		return s[:n]
	}
	return s
}

// drive runs the two public entry points; the observation says whether either panicked and whether both results serialise.
func drive(lang, text string) (obs Obs, syntaxErrs bool) {
	name := "f.go"
	if lang == "py" {
		name = "f.py"
	}
	obs.Serialises = true
	stage := func(label string, f func() interface{}) bool {
		var res interface{}
		var p bool
		var msg, site string
		errs := captureStderr(func() { p, msg, site = lib.GuardAt(func() { res = f() }) })
		if syntaxErrLine.MatchString(errs) {
			syntaxErrs = true
		}
		if p {
			obs.Panic, obs.Serialises = true, false
			obs.Note = label + ": " + clip(msg, 160) + " @ " + site
			return false
		}
		if _, err := json.Marshal(res); err != nil {
			obs.Serialises = false
			obs.Note = label + ": " + clip(err.Error(), 160)
		}
		return true
	}
	ok := stage("analysis", func() interface{} {
		if lang == "py" {
			return new(pyapp.PythonIdentApp).Analysis(text, name)
		}
		return new(goapp.GoIdentApp).Analysis(text, name)
	})
	if !ok {
		return
	}
	base := os.Getenv("VERIF_SCRATCH")
	if base == "" {
		base = os.TempDir()
	}
	dir, err := os.MkdirTemp(base, "fd-")
	if err != nil {
		panic(err)
	}
	defer os.RemoveAll(dir)
	src := filepath.Join(dir, "src")
	if err := os.MkdirAll(src, 0o755); err != nil {
		panic(err)
	}
	if err := os.WriteFile(filepath.Join(src, name), []byte(text), 0o644); err != nil {
		panic(err)
	}
	old, _ := os.Getwd()
	os.Chdir(dir) // CommonAnalysis writes coca_reporter/members.json into the working directory
	defer os.Chdir(old)
	stage("common", func() interface{} {
		if lang == "py" {
			return analysis.CommonAnalysis(io.Discard, src, new(pyapp.PythonIdentApp), cocafile.PythonFileFilter, true)
		}
		return analysis.CommonAnalysis(io.Discard, src, new(goapp.GoIdentApp), cocafile.GoFileFilter, true)
	})
	return
}

func one(raw json.RawMessage) interface{} {
	var c Case
	if err := json.Unmarshal(raw, &c); err != nil {
		panic(err)
	}
	text := render(c)
	rec := Record{Case: c.Case, Lang: c.Lang, Ctx: c.Ctx, NTokens: len(c.Tokens), Text: text}
	if c.Lang == "go" {
		rec.Accepts = goAccepts(text, "f.go")
		if !rec.Accepts {
			// outside the quantifier (and the front-end deliberately panics with the parser's error): not run
			rec.Observed = Obs{Note: "rejected by go/parser"}
			return rec
		}
		rec.Observed, _ = drive("go", text)
		return rec
	}
	obs, syntaxErrs := drive("py", text)
	rec.Accepts = !syntaxErrs
	rec.Observed = obs
	return rec
}

func abnormal(raw json.RawMessage, timeout bool, stderr string) interface{} {
	var c Case
	json.Unmarshal(raw, &c)
	rec := Record{Case: c.Case, Lang: c.Lang, Ctx: c.Ctx, NTokens: len(c.Tokens)}
	p, _ := lib.Guard(func() { rec.Text = render(c) })
	_ = p
	// the process died before it could report what the parser said: ask the parser alone, in a fresh process
	if c.Lang == "go" {
		rec.Accepts = goAccepts(rec.Text, "f.go")
	} else {
		rec.Accepts = pyAcceptsFresh(rec.Text)
	}
	note := "process died"
	if timeout {
		note = "process timed out"
	}
	rec.Observed = Obs{Panic: true, Note: note + ": " + clip(stderr, 300)}
	return rec
}

// The random cases of this suite are derived by TLC (PyDerive / GoDerive). gen only hands out a small fixed corpus of
// sentences of the same two grammars, written as token sequences: the shortest sentences that reached each crash site
// the derivations have found so far, and a few ordinary neighbours. They are judged like every other case.
var corpus = []struct{ lang, ctx, toks string }{
	// a class inside a class; a class inside a method; a method after the inner class
	{"py", "fixed", "class @NAME#1 : @LINE_BREAK#0 @INDENT#0 class @NAME#12 : pass @LINE_BREAK#0 def @NAME#4 ( @NAME#2 ) : pass @LINE_BREAK#0 @DEDENT#0"},
	{"py", "fixed", "class @NAME#1 : @LINE_BREAK#0 @INDENT#0 def @NAME#4 ( @NAME#2 ) : @LINE_BREAK#0 @INDENT#0 class @NAME#12 : pass @LINE_BREAK#0 " +
		"return @NAME#12 @LINE_BREAK#0 @DEDENT#0 @DEDENT#0 def @NAME#7 ( ) : pass @LINE_BREAK#0"},
	{"py", "fixed", "@ @NAME#11 @LINE_BREAK#0 class @NAME#1 ( @NAME#12 ) : @LINE_BREAK#0 @INDENT#0 @ @NAME#11 ( @STRING#1 ) @LINE_BREAK#0 " +
		"def @NAME#4 ( @NAME#2 , * @NAME#3 , ** @NAME#5 ) : pass @LINE_BREAK#0 @DEDENT#0"},
	{"py", "fixed", "from . import * @LINE_BREAK#0 from @NAME#8 . @NAME#0 import ( @NAME#3 as @NAME#6 , @NAME#7 , ) @LINE_BREAK#0 import @NAME#8 . @NAME#0 as @NAME#3 , @NAME#7 @LINE_BREAK#0"},
	// a function and a method declared without body; a method before its receiver type
	{"go", "fixed", "package @IDENTIFIER#7 @EOS#1 func @IDENTIFIER#1 ( ) @EOS#1"},
	{"go", "fixed", "package @IDENTIFIER#7 @EOS#1 func ( @IDENTIFIER#2 * @IDENTIFIER#3 ) @IDENTIFIER#1 ( @IDENTIFIER#0 @IDENTIFIER#14 ) @IDENTIFIER#15 @EOS#1 " +
		"type @IDENTIFIER#3 struct { @IDENTIFIER#0 , @IDENTIFIER#9 @IDENTIFIER#14 @EOS#0 * @IDENTIFIER#5 . @IDENTIFIER#8 @EOS#4 } @EOS#1"},
	{"go", "fixed", "package @IDENTIFIER#7 @EOS#1 import @IDENTIFIER#5 @INTERPRETED_STRING_LIT#3 @EOS#1 type @IDENTIFIER#3 interface { @IDENTIFIER#5 . @IDENTIFIER#8 @EOS#0 " +
		"@IDENTIFIER#1 ( @IDENTIFIER#14 ) ( @IDENTIFIER#14 , @IDENTIFIER#15 ) @EOS#4 } @EOS#1"},
	{"go", "fixed", "package @IDENTIFIER#7 @EOS#1 func @IDENTIFIER#7 ( ) { @IDENTIFIER#5 . @IDENTIFIER#1 ( func ( ) { @IDENTIFIER#5 . @IDENTIFIER#8 ( ) @EOS#4 } ) @EOS#1 " +
		"defer func ( ) { } ( ) @EOS#1 return @EOS#4 } @EOS#1"},
}

func gen(seed int64, n int, tier string) []interface{} {
	var out []interface{}
	for i, c := range corpus {
		if i >= n {
			break
		}
		lay := Layout{Indent: "4", Eol: "lf", Final: "nl", Comment: "none"}
		if c.lang == "go" {
			lay = Layout{Open: "same", Final: "nl", Comment: "none"}
		}
		out = append(out, Case{Case: fmt.Sprintf("fixed-%s-%d", c.lang, i), Lang: c.lang, Ctx: c.ctx, Tokens: strings.Fields(c.toks), Layout: lay})
	}
	return out
}

func main() {
	if len(os.Args) >= 2 && os.Args[1] == "render" {
		in, _ := io.ReadAll(os.Stdin)
		var c Case
		if err := json.Unmarshal(in, &c); err != nil {
			fmt.Fprintln(os.Stderr, err)
			os.Exit(2)
		}
		fmt.Print(render(c))
		return
	}
	if len(os.Args) >= 2 && os.Args[1] == "goaccepts" { // development aid: what go/parser says about a text
		in, _ := io.ReadAll(os.Stdin)
		_, err := parser.ParseFile(token.NewFileSet(), "f.go", string(in), 0)
		fmt.Println(err)
		return
	}
	if len(os.Args) >= 2 && os.Args[1] == "pyaccepts" {
		in, _ := io.ReadAll(os.Stdin)
		if len(os.Args) >= 3 && os.Args[2] == "-v" { // development aid: show what the parser says
			fmt.Print(captureStderr(func() { pyapp.ProcessPythonString(string(in)).Root() }))
			return
		}
		fmt.Println(pyParseOnly(string(in)))
		return
	}
	lib.Main(lib.Handler{One: one, Gen: gen, Abnormal: abnormal})
}
