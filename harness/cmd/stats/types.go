// Harness for C18 (suite `stats`): reference counts, evaluation summary, concept word counts.
//
// It renders an abstract project (classes with members given as camel-case pieces, modifier /
// annotation tokens in source order, return-statement kinds, calls) to Java sources or directly to
// a code model, drives the real coca code (in-process API or the coca binary), and projects what
// came back. It contains no expected values: the TLA+ Reference (spec/StatsRef.tla) judges.
package main

import "encoding/json"

type Call struct {
	Pkg  string `json:"pkg"`
	Cls  string `json:"cls"`
	Name string `json:"name"`
}

type Member struct {
	Kind   string   `json:"kind"` // method | ctor
	Name   []string `json:"name"` // camel-case pieces; text = concatenation
	Pre    []string `json:"pre"`  // modifier keywords and "@Annotation" tokens in source order
	Rets   []string `json:"rets"` // return statements in order: null other cmp str ident arg tern paren
	Params int      `json:"params"`
	Calls  []Call   `json:"calls"`
}

type Class struct {
	Pkg     string   `json:"pkg"`
	Name    []string `json:"name"`
	Kind    string   `json:"kind"` // class | interface
	Members []Member `json:"members"`
}

type Input struct {
	Src     string  `json:"src"` // java | model
	Via     string  `json:"via"` // api | cli
	Classes []Class `json:"classes"`
}

type Case struct {
	Case    string           `json:"case"`
	Input   Input            `json:"input"`
	Machine *json.RawMessage `json:"machine,omitempty"` // the TLA+ Machine's own report for this input (passed through, drift note only)
}

// ModelFn is one recorded function of the code model the commands read (deps.json).
type ModelFn struct {
	Pkg   string `json:"pkg"`
	Cls   string `json:"cls"`
	Name  string `json:"name"`
	Calls []Call `json:"calls"`
}

type Facts struct {
	Stop []string `json:"stop"` // the stop-word tables shipped with the tool (configuration, not a judgement)
}

// Row is [key, n] as printed.
type Row [2]interface{}

type CountObs struct {
	Done  bool  `json:"done"`
	Rows  []Row `json:"rows"`
	Rows2 []Row `json:"rows2"`
}

type EvalObs struct {
	Done          bool     `json:"done"`
	Classes       int      `json:"classes"`
	Methods       int      `json:"methods"`
	Statics       int      `json:"statics"`
	Utils         int      `json:"utils"`
	Listed        bool     `json:"listed"` // the list of nullable methods itself was observable
	Nullable      []string `json:"nullable"`
	NullableCount int      `json:"nullableCount"`
	ReportFile    string   `json:"reportFile"` // cli: state of coca_reporter/evaluate.json (ok | empty | unreadable | -)
}

type ConceptObs struct {
	Done bool  `json:"done"`
	Rows []Row `json:"rows"`
}

type Obs struct {
	Panic   bool       `json:"panic"`
	Note    string     `json:"note"`
	Count   CountObs   `json:"count"`
	Eval    EvalObs    `json:"eval"`
	Concept ConceptObs `json:"concept"`
}

type Record struct {
	Case     string           `json:"case"`
	Input    Input            `json:"input"`
	Model    []ModelFn        `json:"model"`
	Facts    Facts            `json:"facts"`
	Observed Obs              `json:"observed"`
	Rendered []string         `json:"rendered,omitempty"` // the concrete sources (for the replay file; not read by the spec)
	Machine  *json.RawMessage `json:"machine,omitempty"`
}

func emptyObs() Obs {
	return Obs{
		Count:   CountObs{Rows: []Row{}, Rows2: []Row{}},
		Eval:    EvalObs{Nullable: []string{}, ReportFile: "-"},
		Concept: ConceptObs{Rows: []Row{}},
	}
}

// normalise makes every key the spec reads present and every list non-null.
func normalise(in *Input) {
	if in.Src == "" {
		in.Src = "java"
	}
	if in.Via == "" {
		in.Via = "api"
	}
	if in.Classes == nil {
		in.Classes = []Class{}
	}
	for i := range in.Classes {
		c := &in.Classes[i]
		if c.Kind == "" {
			c.Kind = "class"
		}
		if c.Name == nil {
			c.Name = []string{}
		}
		if c.Members == nil {
			c.Members = []Member{}
		}
		for j := range c.Members {
			m := &c.Members[j]
			if m.Kind == "" {
				m.Kind = "method"
			}
			if m.Name == nil {
				m.Name = []string{}
			}
			if m.Pre == nil {
				m.Pre = []string{}
			}
			if m.Rets == nil {
				m.Rets = []string{}
			}
			if m.Calls == nil {
				m.Calls = []Call{}
			}
		}
	}
}
