package main

import (
	"fmt"
	"math/rand"
)

// direction (B): seeded random abstract projects, wider than TLC's constants
// (1-4 classes, 0-7 members, up to all seven modifiers in any order with annotations anywhere,
// 0-4 returns, call multiplicities, undeclared / external / unresolved callees, overloads,
// interfaces, constructors, acronyms, single letters, digits).

var firstWords = []string{"get", "set", "is", "find", "create", "load", "compute", "render", "fetch", "cancel", "user", "order",
	"to", "with", "handle", "x", "a", "i", "on", "do", "parse", "build", "resolve", "new", "apply", "visit", "price", "the", "of"}
var laterWords = []string{"User", "Order", "Name", "Id", "Of", "By", "Item", "List", "Http", "Json", "Dto", "All", "Price", "Value",
	"Status", "And", "The", "Zoom", "Account", "Null", "Type", "Report", "Line", "Total", "First", "Key"}
var capsWords = []string{"URL", "XML", "ID", "IO", "HTTP", "X", "Y", "N", "DB", "OF"}
var stems = []string{"User", "Order", "Account", "Payment", "String", "Date", "File", "Report", "Stock", "Mail"}
var suffixes = []string{"", "", "", "Util", "Utils", "Service", "Helper", "Manager", "Repository", "ServiceImpl", "UtilService"}
var sevenMods = []string{"public", "private", "protected", "static", "final", "abstract", "synchronized"}
var annTokens = []string{"@Nullable", "@Nullable", "@Nullable", "@CheckForNull", "@CheckForNull", "@Override", "@Deprecated", "@SuppressWarnings(\"unchecked\")"}
var javaKeywords = map[string]bool{"new": true, "is": false, "do": true, "default": true, "class": true, "return": true, "null": true, "this": true, "if": true, "for": true}

func isCaps(p string) bool {
	for _, r := range p {
		if r < 'A' || r > 'Z' {
			return false
		}
	}
	return p != ""
}

// stopWordPool: every purely alphabetic word of the stop-word tables the tool ships, capitalised for use as a later
// word of a name. One name in five carries one of them: each stop word must be left out of the concept counts
// (a table entry that is silently dropped on the way to the analyser shows only in a name that contains it).
var stopWordPool = func() []string {
	var out []string
	for _, w := range stopTables() {
		ok := len(w) > 1
		for _, c := range w {
			if c < 'a' || c > 'z' {
				ok = false
			}
		}
		if ok {
			out = append(out, string(w[0]-32)+w[1:])
		}
	}
	return out
}()

func firstWordsLen() int { return len(firstWords) }

func methodName(r *rand.Rand, glued, digits bool) []string {
	if glued {
		// the known-defect shape: a single lower-case letter directly followed by an ALLCAPS word
		ps := []string{[]string{"x", "a", "i", "n"}[r.Intn(4)], capsWords[r.Intn(len(capsWords))]}
		if r.Intn(2) == 0 {
			ps = append(ps, laterWords[r.Intn(len(laterWords))])
		}
		return ps
	}
	if !digits && r.Intn(10) == 0 {
		// snake-style and decorated names (generated code, test names): should_reject__emptyOrder, _loadBasket, total_
		var ps []string
		if r.Intn(3) == 0 {
			ps = append(ps, "_")
		}
		n := 1 + r.Intn(3)
		for i := 0; i < n; i++ {
			if i > 0 {
				ps = append(ps, []string{"_", "_", "__"}[r.Intn(3)])
			}
			ps = append(ps, []string{"should", "reject", "load", "total", "empty", "basket", "when", "order", "return"}[r.Intn(9)])
			if r.Intn(3) == 0 {
				ps = append(ps, laterWords[r.Intn(len(laterWords))])
			}
		}
		if r.Intn(5) == 0 {
			ps = append(ps, "_")
		}
		if len(ps) == 1 && javaKeywords[ps[0]] {
			ps = append(ps, "_", "x1"[:1])
		}
		return ps
	}
	ps := []string{firstWords[r.Intn(firstWordsLen())]}
	k := r.Intn(4)
	if r.Intn(10) == 0 {
		k = 4 + r.Intn(2)
	}
	for i := 0; i < k; i++ {
		var p string
		prevCaps := len(ps) > 0 && isCaps(ps[len(ps)-1])
		singleHead := len(ps) == 1 && len(ps[0]) == 1
		switch {
		case digits && i > 0 && r.Intn(3) == 0:
			p = []string{"2", "42", "3"}[r.Intn(3)]
		case !prevCaps && !singleHead && r.Intn(5) == 0:
			p = capsWords[r.Intn(len(capsWords))]
		case len(stopWordPool) > 0 && r.Intn(5) == 0:
			p = stopWordPool[r.Intn(len(stopWordPool))]
		default:
			p = laterWords[r.Intn(len(laterWords))]
		}
		ps = append(ps, p)
	}
	if len(ps) == 1 && javaKeywords[ps[0]] {
		ps = append(ps, laterWords[r.Intn(len(laterWords))])
	}
	return ps
}

func modifierList(r *rand.Rand, allowAnn, qualified bool) []string {
	var k int
	switch x := r.Intn(16); {
	case x < 2:
		k = 0
	case x < 7:
		k = 1
	case x < 11:
		k = 2
	case x < 13:
		k = 3
	default:
		k = 4 + r.Intn(4)
	}
	perm := r.Perm(len(sevenMods))
	var pre []string
	for i := 0; i < k; i++ {
		pre = append(pre, sevenMods[perm[i]])
	}
	if allowAnn {
		na := 0
		switch x := r.Intn(10); {
		case x < 3:
			na = 1
		case x == 3:
			na = 2
		}
		used := map[string]bool{}
		for i := 0; i < na; i++ {
			a := annTokens[r.Intn(len(annTokens))]
			if qualified && i == 0 {
				a = "@javax.annotation.Nullable"
			}
			if used[a] {
				continue
			}
			used[a] = true
			at := r.Intn(len(pre) + 1)
			pre = append(pre[:at], append([]string{a}, pre[at:]...)...)
		}
	}
	if pre == nil {
		pre = []string{}
	}
	return pre
}

func gen(seed int64, n int, tier string) []interface{} {
	r := rand.New(rand.NewSource(seed*7919 + 18))
	var out []interface{}
	for k := 0; k < n; k++ {
		in := Input{Src: "java", Via: "api"}
		if k%5 == 4 {
			in.Src = "model"
		}
		if k%8 == 5 {
			in.Via = "cli"
		}
		mentionQuota := k%7 == 3 // returns that mention null without returning it (known finding): a minority of cases
		gluedQuota := k%11 == 6  // the glued-head name shape (known finding)
		freeQuota := k%13 == 9   // don't-care shapes: digits, ?: with null, qualified annotation
		nc := 1 + r.Intn(4)
		if in.Via == "cli" && nc < 2 && r.Intn(4) != 0 {
			nc = 2
		}
		seenCls := map[string]bool{}
		defaultPkg := r.Intn(8) == 0 // a small project whose sources carry no package declaration at all
		for len(in.Classes) < nc {
			c := Class{Pkg: "p", Kind: "class"}
			if r.Intn(4) == 0 {
				c.Pkg = "q.r"
			}
			if defaultPkg {
				c.Pkg = ""
			}
			c.Name = []string{stems[r.Intn(len(stems))]}
			if r.Intn(3) == 0 {
				c.Name = append(c.Name, stems[r.Intn(len(stems))])
			}
			if sfx := suffixes[r.Intn(len(suffixes))]; sfx != "" {
				switch sfx {
				case "ServiceImpl":
					c.Name = append(c.Name, "Service", "Impl")
				case "UtilService":
					c.Name = append(c.Name, "Util", "Service")
				default:
					c.Name = append(c.Name, sfx)
				}
			} else if r.Intn(12) == 0 {
				c.Name = append([]string{"Util"}, c.Name...)
			}
			if seenCls[concat(c.Name)] {
				continue
			}
			seenCls[concat(c.Name)] = true
			if r.Intn(9) == 0 {
				c.Kind = "interface"
			}
			in.Classes = append(in.Classes, c)
		}
		// members
		for ci := range in.Classes {
			c := &in.Classes[ci]
			nm := r.Intn(6)
			if r.Intn(5) == 0 {
				nm = 5 + r.Intn(3)
			}
			names := map[string]bool{}
			for j := 0; j < nm; j++ {
				m := Member{Kind: "method", Pre: []string{}, Rets: []string{}, Calls: []Call{}}
				if c.Kind == "interface" {
					m.Name = methodName(r, false, false)
					if r.Intn(3) == 0 {
						m.Pre = []string{"@Nullable"}
					}
					m.Params = r.Intn(3)
				} else if r.Intn(10) == 0 {
					m.Kind = "ctor"
					m.Name = append([]string{}, c.Name...)
					if r.Intn(2) == 0 {
						m.Pre = []string{"public"}
					}
					m.Params = j % 4
				} else {
					m.Name = methodName(r, gluedQuota && r.Intn(3) == 0, freeQuota && r.Intn(3) == 0)
					if len(names) > 0 && r.Intn(12) == 0 { // overload of an earlier method
						prev := c.Members[r.Intn(len(c.Members))]
						if prev.Kind == "method" {
							m.Name = append([]string{}, prev.Name...)
						}
					}
					m.Pre = modifierList(r, true, freeQuota && r.Intn(4) == 0)
					m.Params = r.Intn(3)
					if r.Intn(10) == 0 {
						m.Params = 4 + r.Intn(3)
					}
					if names[concat(m.Name)] {
						m.Params = 7 + j // distinct parameter lists for overloads
					}
					nr := 0
					switch x := r.Intn(8); {
					case x < 2:
						nr = 0
					case x < 5:
						nr = 1
					case x < 7:
						nr = 2
					default:
						nr = 3 + r.Intn(2)
					}
					for q := 0; q < nr; q++ {
						kind := "other"
						switch x := r.Intn(10); {
						case x < 3:
							kind = "null"
						case x < 5 && mentionQuota:
							kind = []string{"cmp", "str", "ident", "arg"}[r.Intn(4)]
						case x == 5 && freeQuota:
							kind = []string{"tern", "paren"}[r.Intn(2)]
						}
						m.Rets = append(m.Rets, kind)
					}
				}
				names[concat(m.Name)] = true
				c.Members = append(c.Members, m)
			}
			if c.Members == nil {
				c.Members = []Member{}
			}
		}
		if in.Via == "cli" && in.Src == "java" && r.Intn(4) != 0 {
			// getters/setters make the report file of `coca evaluate` serialisable (its deviations are NaN otherwise)
			for ci := range in.Classes {
				if in.Classes[ci].Kind == "class" {
					in.Classes[ci].Members = append(in.Classes[ci].Members,
						Member{Kind: "method", Name: []string{"get", "Total"}, Pre: []string{"public"}, Rets: []string{"other"}, Calls: []Call{}},
						Member{Kind: "method", Name: []string{"set", "Total"}, Pre: []string{"public"}, Rets: []string{}, Params: 1, Calls: []Call{}})
					break
				}
			}
		}
		// calls
		type decl struct{ ci, mi int }
		var decls []decl
		for ci, c := range in.Classes {
			for mi, m := range c.Members {
				if m.Kind == "method" {
					decls = append(decls, decl{ci, mi})
				}
			}
		}
		ext := []Call{{"java.util", "List", "add"}, {"x.y", "Ext", "run"}, {"x.y", "Ext", "getName"}, {"java.lang", "Math", "abs"}}
		for ci := range in.Classes {
			c := &in.Classes[ci]
			if c.Kind == "interface" {
				continue
			}
			for mi := range c.Members {
				m := &c.Members[mi]
				abstractNoBody := false
				for _, t := range m.Pre {
					if t == "abstract" {
						abstractNoBody = len(m.Rets) == 0
					}
				}
				if abstractNoBody && in.Src == "java" {
					continue
				}
				ncalls := r.Intn(4)
				if r.Intn(6) == 0 {
					ncalls = 4 + r.Intn(4)
				}
				for q := 0; q < ncalls; q++ {
					var cl Call
					x := r.Intn(20)
					switch {
					case x < 14 && len(decls) > 0:
						d := decls[r.Intn(len(decls))]
						if r.Intn(3) == 0 { // favour a few hot targets
							d = decls[0]
						}
						t := in.Classes[d.ci]
						cl = Call{t.Pkg, concat(t.Name), concat(t.Members[d.mi].Name)}
					case x < 16:
						t := in.Classes[r.Intn(len(in.Classes))]
						cl = Call{t.Pkg, concat(t.Name), "undeclared" + []string{"", "Thing", "X"}[r.Intn(3)]}
					case x < 18:
						cl = ext[r.Intn(len(ext))]
					case x == 18:
						t := in.Classes[r.Intn(len(in.Classes))]
						if t.Kind == "interface" {
							cl = ext[0]
						} else {
							cl = Call{t.Pkg, concat(t.Name), ""}
						}
					default:
						cl = Call{"", "", "orphan"}
					}
					m.Calls = append(m.Calls, cl)
					if r.Intn(5) == 0 {
						m.Calls = append(m.Calls, cl) // the same callee again
					}
				}
			}
		}
		// a namesake: one case in three has a second class of the same simple name in the other package (two StringUtils
		// of one project are two classes for every figure of the summary). Only a class nobody calls gets one, and the
		// namesake calls nothing, so no receiver of the rendered sources is ambiguous.
		if r.Intn(3) == 0 {
			ci := r.Intn(len(in.Classes))
			for j, c := range in.Classes { // a utility class first: the summary counts those
				for _, part := range c.Name {
					if part == "Util" || part == "Utils" {
						ci = j
					}
				}
			}
			o := in.Classes[ci]
			called := false
			for _, c := range in.Classes {
				for _, m := range c.Members {
					for _, cl := range m.Calls {
						if cl.Cls == concat(o.Name) {
							called = true
						}
					}
				}
			}
			if !called {
				t := o
				if o.Pkg == "p" {
					t.Pkg = "q.r"
				} else {
					t.Pkg = "p"
				}
				t.Name = append([]string{}, o.Name...)
				t.Members = nil
				for _, m := range o.Members {
					m2 := m
					m2.Name = append([]string{}, m.Name...)
					m2.Pre = append([]string{}, m.Pre...)
					m2.Rets = append([]string{}, m.Rets...)
					m2.Calls = []Call{}
					t.Members = append(t.Members, m2)
				}
				dup := false
				for _, c := range in.Classes {
					if c.Pkg == t.Pkg && concat(c.Name) == concat(t.Name) {
						dup = true
					}
				}
				if !dup {
					in.Classes = append(in.Classes, t)
				}
			}
		}
		out = append(out, Case{Case: fmt.Sprintf("rand-%d-%d", seed, k), Input: in})
	}
	return out
}
