package main

import (
	"encoding/json"
	"os"

	"verifharness/lib"
)

func scratchDir() string {
	base := os.Getenv("VERIF_SCRATCH")
	if base == "" {
		base = os.TempDir()
	}
	d, err := os.MkdirTemp(base, "stats-")
	if err != nil {
		panic(err)
	}
	return d
}

func one(raw json.RawMessage) interface{} {
	var c Case
	if err := json.Unmarshal(raw, &c); err != nil {
		panic(err)
	}
	normalise(&c.Input)
	rec := Record{Case: c.Case, Input: c.Input, Model: []ModelFn{}, Facts: Facts{Stop: stopTables()}, Observed: emptyObs(), Machine: c.Machine}
	dir := scratchDir()
	defer os.RemoveAll(dir)
	if c.Input.Via == "cli" {
		runCLI(c.Input, dir, &rec)
	} else {
		runAPI(c.Input, dir, &rec)
	}
	if len(rec.Observed.Note) > 300 {
		rec.Observed.Note = rec.Observed.Note[:300]
	}
	return rec
}

func abnormal(raw json.RawMessage, timeout bool, stderr string) interface{} {
	var c Case
	_ = json.Unmarshal(raw, &c)
	normalise(&c.Input)
	rec := Record{Case: c.Case, Input: c.Input, Model: []ModelFn{}, Facts: Facts{Stop: stopTables()}, Observed: emptyObs(), Machine: c.Machine}
	rec.Observed.Panic = true
	rec.Observed.Note = "process died"
	if timeout {
		rec.Observed.Note = "timeout"
	}
	if len(stderr) > 200 {
		stderr = stderr[len(stderr)-200:]
	}
	rec.Observed.Note += ": " + stderr
	return rec
}

func main() {
	lib.Main(lib.Handler{One: one, Gen: gen, Abnormal: abnormal})
}
