package main

import (
	"fmt"
	"os"
	"path/filepath"
	"strings"

	"github.com/modernizing/coca/pkg/domain/core_domain"
)

func concat(ps []string) string { return strings.Join(ps, "") }

func lowerFirst(s string) string {
	if s == "" {
		return s
	}
	return strings.ToLower(s[:1]) + s[1:]
}

// text of a return expression of the given abstract kind (k-th occurrence varies the spelling)
func retExpr(kind string, k int) string {
	switch kind {
	case "null":
		return "null"
	case "other":
		return []string{"v", "this.v", "\"s\"", "this"}[k%4]
	case "cmp":
		return []string{"v != null", "null == v", "v == null || flag"}[k%3]
	case "str":
		return "\"null\""
	case "ident":
		return []string{"nullable", "this.nullable", "notnull"}[k%3]
	case "arg":
		return []string{"String.valueOf(null)", "java.util.Optional.ofNullable(v).orElse(null)"}[k%2]
	case "tern":
		return []string{"flag ? null : v", "flag ? v : null"}[k%2]
	case "paren":
		return "(null)"
	}
	return "v"
}

var paramTypes = []string{"String", "int", "long", "Object", "boolean", "String", "double"}

func paramList(n int) string {
	var ps []string
	for i := 0; i < n; i++ {
		ps = append(ps, fmt.Sprintf("%s a%d", paramTypes[i%len(paramTypes)], i))
	}
	return strings.Join(ps, ", ")
}

type projectIndex map[string]bool // "pkg.Cls" of the project classes

func indexOf(in Input) projectIndex {
	idx := projectIndex{}
	for _, c := range in.Classes {
		idx[c.Pkg+"."+concat(c.Name)] = true
	}
	return idx
}

func fieldName(cls string) string { return lowerFirst(cls) + "Ref" }

// renderClass writes one compilation unit. Calls are written with the plainest receiver shapes:
// own method -> `m()`, method of another project class -> through a field of that type,
// creation -> `new T()`, anything else -> `T.m()` / `unknown.m()`.
func renderClass(in Input, ci int, idx projectIndex) string {
	c := in.Classes[ci]
	cname := concat(c.Name)
	var b strings.Builder
	if c.Pkg != "" {
		fmt.Fprintf(&b, "package %s;\n\n", c.Pkg)
	}
	imports := map[string]bool{}
	fields := []string{}
	seenField := map[string]bool{}
	usesNullable, usesCheck := false, false
	for _, m := range c.Members {
		for _, t := range m.Pre {
			if t == "@Nullable" {
				usesNullable = true
			}
			if t == "@CheckForNull" {
				usesCheck = true
			}
		}
		for _, cl := range m.Calls {
			if cl.Cls == "" {
				continue
			}
			full := cl.Pkg + "." + cl.Cls
			if cl.Pkg != c.Pkg && cl.Pkg != "" {
				imports[full] = true
			}
			if idx[full] && !(cl.Pkg == c.Pkg && cl.Cls == cname) && cl.Name != "" && !seenField[cl.Cls] {
				seenField[cl.Cls] = true
				fields = append(fields, cl.Cls)
			}
		}
	}
	if usesNullable {
		imports["javax.annotation.Nullable"] = true
	}
	if usesCheck {
		imports["javax.annotation.CheckForNull"] = true
	}
	var imps []string
	for k := range imports {
		imps = append(imps, k)
	}
	sortStrings(imps)
	for _, k := range imps {
		fmt.Fprintf(&b, "import %s;\n", k)
	}
	if len(imps) > 0 {
		b.WriteString("\n")
	}
	if c.Kind == "interface" {
		fmt.Fprintf(&b, "public interface %s {\n", cname)
		for _, m := range c.Members {
			pre := strings.Join(m.Pre, " ")
			if pre != "" {
				pre += " "
			}
			fmt.Fprintf(&b, "    %sObject %s(%s);\n\n", pre, concat(m.Name), paramList(m.Params))
		}
		b.WriteString("}\n")
		return b.String()
	}
	fmt.Fprintf(&b, "public class %s {\n", cname)
	b.WriteString("    private String v;\n    private boolean flag;\n    private String nullable;\n    private String notnull;\n")
	for _, f := range fields {
		fmt.Fprintf(&b, "    private %s %s;\n", f, fieldName(f))
	}
	b.WriteString("\n")
	for _, m := range c.Members {
		pre := strings.Join(m.Pre, " ")
		if pre != "" {
			pre += " "
		}
		isAbstract := false
		for _, t := range m.Pre {
			if t == "abstract" {
				isAbstract = true
			}
		}
		var head string
		if m.Kind == "ctor" {
			head = fmt.Sprintf("    %s%s(%s)", pre, cname, paramList(m.Params))
		} else {
			ret := "void"
			if len(m.Rets) > 0 {
				ret = "Object"
			}
			for _, t := range m.Pre {
				if strings.HasSuffix(t, "Nullable") || strings.HasSuffix(t, "CheckForNull") {
					ret = "Object" // a nullness annotation stands on a method that returns a reference
				}
			}
			head = fmt.Sprintf("    %s%s %s(%s)", pre, ret, concat(m.Name), paramList(m.Params))
		}
		if m.Kind != "ctor" && isAbstract && len(m.Rets) == 0 && len(m.Calls) == 0 {
			b.WriteString(head + ";\n\n")
			continue
		}
		b.WriteString(head + " {\n")
		for _, cl := range m.Calls {
			full := cl.Pkg + "." + cl.Cls
			switch {
			case cl.Name == "" && cl.Cls != "":
				fmt.Fprintf(&b, "        new %s();\n", cl.Cls)
			case cl.Cls == "":
				fmt.Fprintf(&b, "        unknown.%s();\n", cl.Name)
			case cl.Pkg == c.Pkg && cl.Cls == cname:
				fmt.Fprintf(&b, "        %s();\n", cl.Name)
			case idx[full]:
				fmt.Fprintf(&b, "        %s.%s();\n", fieldName(cl.Cls), cl.Name)
			default:
				fmt.Fprintf(&b, "        %s.%s();\n", cl.Cls, cl.Name)
			}
		}
		for k, r := range m.Rets {
			e := retExpr(r, k)
			if k < len(m.Rets)-1 {
				if k%2 == 0 {
					fmt.Fprintf(&b, "        if (flag) return %s;\n", e)
				} else {
					fmt.Fprintf(&b, "        if (!flag) {\n            return %s;\n        }\n", e)
				}
			} else {
				fmt.Fprintf(&b, "        return %s;\n", e)
			}
		}
		b.WriteString("    }\n\n")
	}
	b.WriteString("}\n")
	return b.String()
}

func sortStrings(s []string) {
	for i := 1; i < len(s); i++ {
		for j := i; j > 0 && s[j] < s[j-1]; j-- {
			s[j], s[j-1] = s[j-1], s[j]
		}
	}
}

// renderProject writes the sources below dir/src/main/java and returns the source root and the texts.
func renderProject(in Input, dir string) (string, []string, error) {
	root := filepath.Join(dir, "src", "main", "java")
	idx := indexOf(in)
	var texts []string
	for ci, c := range in.Classes {
		d := filepath.Join(root, filepath.FromSlash(strings.ReplaceAll(c.Pkg, ".", "/")))
		if err := os.MkdirAll(d, 0o755); err != nil {
			return "", nil, err
		}
		text := renderClass(in, ci, idx)
		texts = append(texts, text)
		if err := os.WriteFile(filepath.Join(d, concat(c.Name)+".java"), []byte(text), 0o644); err != nil {
			return "", nil, err
		}
	}
	return filepath.Join(dir, "src"), texts, nil
}

// buildModel renders the abstract project directly to the code model (src = "model").
func buildModel(in Input) []core_domain.CodeDataStruct {
	var clzs []core_domain.CodeDataStruct
	for _, c := range in.Classes {
		typ := "Class"
		if c.Kind == "interface" {
			typ = "Interface"
		}
		ds := core_domain.CodeDataStruct{NodeName: concat(c.Name), Package: c.Pkg, Type: typ}
		for _, m := range c.Members {
			f := core_domain.CodeFunction{Name: concat(m.Name), IsConstructor: m.Kind == "ctor"}
			if m.Kind == "ctor" {
				f.Name = concat(c.Name)
			}
			for _, cl := range m.Calls {
				f.FunctionCalls = append(f.FunctionCalls, core_domain.CodeCall{Package: cl.Pkg, NodeName: cl.Cls, FunctionName: cl.Name})
			}
			ds.Functions = append(ds.Functions, f)
		}
		clzs = append(clzs, ds)
	}
	return clzs
}

// projectModel: the recorded functions and call sites of a code model, as they stand.
func projectModel(deps []core_domain.CodeDataStruct) []ModelFn {
	out := []ModelFn{}
	for _, c := range deps {
		for _, f := range c.Functions {
			mf := ModelFn{Pkg: c.Package, Cls: c.NodeName, Name: f.Name, Calls: []Call{}}
			for _, cl := range f.FunctionCalls {
				mf.Calls = append(mf.Calls, Call{Pkg: cl.Package, Cls: cl.NodeName, Name: cl.FunctionName})
			}
			out = append(out, mf)
		}
	}
	return out
}
