package main

import (
	"bytes"
	"encoding/json"
	"fmt"
	"os"
	"os/exec"
	"path/filepath"
	"strconv"
	"strings"

	"github.com/modernizing/coca/pkg/application/analysis/javaapp"
	"github.com/modernizing/coca/pkg/application/call/stop_words/languages"
	"github.com/modernizing/coca/pkg/application/concept"
	"github.com/modernizing/coca/pkg/application/count"
	"github.com/modernizing/coca/pkg/application/evaluate"
	"github.com/modernizing/coca/pkg/domain/core_domain"
	"github.com/modernizing/coca/pkg/infrastructure/constants"
	"github.com/modernizing/coca/pkg/infrastructure/string_helper"

	"verifharness/lib"
)

func stopTables() []string {
	out := []string{}
	out = append(out, languages.ENGLISH_STOP_WORDS...)
	out = append(out, constants.TechStopWords...)
	return out
}

// roundTrip passes a model through JSON exactly as the commands do (analysis writes, the others read).
func roundTrip(v []core_domain.CodeDataStruct) []core_domain.CodeDataStruct {
	b, _ := json.MarshalIndent(v, "", "\t")
	var out []core_domain.CodeDataStruct
	_ = json.Unmarshal(b, &out)
	return out
}

func pairRows(pl string_helper.PairList, positiveOnly bool) []Row {
	rows := []Row{}
	for _, p := range pl {
		if positiveOnly && p.Value <= 0 {
			continue
		}
		rows = append(rows, Row{p.Key, p.Value})
	}
	return rows
}

// ---------------------------------------------------------------- in-process

func runAPI(in Input, dir string, rec *Record) {
	o := &rec.Observed
	var deps, idents []core_domain.CodeDataStruct
	fail := func(stage, msg string) {
		o.Panic = true
		if o.Note == "" {
			o.Note = stage + ": " + msg
		}
	}
	if in.Src == "java" {
		src, texts, err := renderProject(in, dir)
		if err != nil {
			panic(err)
		}
		rec.Rendered = texts
		p, msg := lib.Guard(func() {
			identApp := javaapp.NewJavaIdentifierApp()
			idents = roundTrip(identApp.AnalysisPath(src))
			fullApp := javaapp.NewJavaFullApp()
			deps = roundTrip(fullApp.AnalysisPath(src, idents))
		})
		if p {
			fail("analysis", msg)
			return
		}
	} else {
		deps = roundTrip(buildModel(in))
	}
	rec.Model = projectModel(deps)

	// coca count: BuildCallMap + SortWord + one row per pair; executed twice on the same model
	if p, msg := lib.Guard(func() {
		o.Count.Rows = pairRows(string_helper.SortWord(count.BuildCallMap(deps)), false)
		o.Count.Rows2 = pairRows(string_helper.SortWord(count.BuildCallMap(roundTrip(deps))), false)
		o.Count.Done = true
	}); p {
		fail("count", msg)
	}

	// coca evaluate (needs the identifier pass)
	if in.Src == "java" {
		if p, msg := lib.Guard(func() {
			res := evaluate.NewEvaluateAnalyser().Analysis(deps, idents)
			o.Eval.Classes = res.Summary.ClassCount
			o.Eval.Methods = res.Summary.MethodCount
			o.Eval.Statics = res.Summary.StaticMethodCount
			o.Eval.Utils = res.Summary.UtilsCount
			o.Eval.Nullable = append([]string{}, res.Nullable.Items...)
			o.Eval.NullableCount = len(res.Nullable.Items)
			o.Eval.Listed = true
			o.Eval.Done = true
		}); p {
			fail("evaluate", msg)
		}
	}

	// coca concept: rows with a positive count
	if p, msg := lib.Guard(func() {
		d := roundTrip(deps)
		o.Concept.Rows = pairRows(concept.NewConceptAnalyser().Analysis(&d), true)
		o.Concept.Done = true
	}); p {
		fail("concept", msg)
	}
}

// ---------------------------------------------------------------- the coca binary

func coca(dir string, args ...string) (string, error) {
	bin := os.Getenv("VERIF_COCA")
	if bin == "" {
		return "", fmt.Errorf("VERIF_COCA not set")
	}
	tmp := filepath.Join(dir, "tmp")
	_ = os.MkdirAll(tmp, 0o755)
	cmd := exec.Command(bin, args...)
	cmd.Dir = dir
	cmd.Env = append(os.Environ(), "TMPDIR="+tmp)
	var so, se bytes.Buffer
	cmd.Stdout = &so
	cmd.Stderr = &se
	err := cmd.Run()
	if err != nil {
		return so.String(), fmt.Errorf("%v: %s", err, tailStr(se.String(), 300))
	}
	return so.String(), nil
}

func tailStr(s string, n int) string {
	if len(s) > n {
		return s[len(s)-n:]
	}
	return s
}

// parseTable reads a tablewriter table strictly: header line, separator line, data lines, all starting with '|'.
func parseTable(out string) (header []string, rows [][]string, ok bool) {
	var lines []string
	for _, l := range strings.Split(out, "\n") {
		l = strings.TrimRight(l, "\r ")
		if strings.HasPrefix(l, "|") {
			lines = append(lines, l)
		}
	}
	if len(lines) < 2 || !strings.HasPrefix(lines[1], "|-") {
		return nil, nil, false
	}
	split := func(l string) []string {
		parts := strings.Split(l, "|")
		if len(parts) < 3 {
			return nil
		}
		parts = parts[1 : len(parts)-1]
		for i := range parts {
			parts[i] = strings.TrimSpace(parts[i])
		}
		return parts
	}
	header = split(lines[0])
	for _, l := range lines[2:] {
		c := split(l)
		if c == nil || len(c) != len(header) {
			return header, nil, false
		}
		rows = append(rows, c)
	}
	return header, rows, true
}

func numRows(rows [][]string, keyCol, numCol int) ([]Row, bool) {
	out := []Row{}
	for _, r := range rows {
		n, err := strconv.Atoi(r[numCol])
		if err != nil {
			return nil, false
		}
		out = append(out, Row{r[keyCol], n})
	}
	return out, true
}

func runCLI(in Input, dir string, rec *Record) {
	o := &rec.Observed
	fail := func(stage, msg string) {
		o.Panic = true
		if o.Note == "" {
			o.Note = stage + ": " + msg
		}
	}
	rep := filepath.Join(dir, "coca_reporter")
	if in.Src == "java" {
		_, texts, err := renderProject(in, dir)
		if err != nil {
			panic(err)
		}
		rec.Rendered = texts
		if _, err := coca(dir, "analysis", "-p", "src"); err != nil {
			fail("analysis", err.Error())
			return
		}
	} else {
		_ = os.MkdirAll(rep, 0o755)
		b, _ := json.MarshalIndent(buildModel(in), "", "\t")
		if err := os.WriteFile(filepath.Join(rep, "deps.json"), b, 0o644); err != nil {
			panic(err)
		}
	}
	var deps []core_domain.CodeDataStruct
	b, err := os.ReadFile(filepath.Join(rep, "deps.json"))
	if err != nil || json.Unmarshal(b, &deps) != nil {
		fail("analysis", "deps.json missing or unreadable")
		return
	}
	rec.Model = projectModel(deps)

	// coca count, twice
	countOnce := func() ([]Row, bool) {
		out, err := coca(dir, "count")
		if err != nil {
			fail("count", err.Error())
			return nil, false
		}
		h, rows, ok := parseTable(out)
		if !ok || len(h) != 2 {
			fail("count", "malformed table")
			return nil, false
		}
		r, ok := numRows(rows, 1, 0)
		if !ok {
			fail("count", "malformed row")
		}
		return r, ok
	}
	if r1, ok := countOnce(); ok {
		if r2, ok := countOnce(); ok {
			o.Count.Rows, o.Count.Rows2, o.Count.Done = r1, r2, true
		}
	}

	// coca evaluate: the table, and coca_reporter/evaluate.json when it is readable
	if in.Src == "java" {
		out, err := coca(dir, "evaluate")
		if err != nil {
			fail("evaluate", err.Error())
		} else {
			_, rows, ok := parseTable(out)
			got := map[string][]string{}
			for _, r := range rows {
				got[r[0]] = r
			}
			cell := func(label string, col int) (int, bool) {
				r, ok := got[label]
				if !ok || col >= len(r) {
					return 0, false
				}
				n, err := strconv.Atoi(r[col])
				return n, err == nil
			}
			nc, ok1 := cell("Nullable / Return Null", 1)
			mc, ok2 := cell("Nullable / Return Null", 3)
			uc, ok3 := cell("Utils", 1)
			cc, ok4 := cell("Utils", 3)
			sc, ok5 := cell("Static Method", 1)
			if !(ok && ok1 && ok2 && ok3 && ok4 && ok5) {
				fail("evaluate", "malformed table")
			} else {
				o.Eval.NullableCount, o.Eval.Methods, o.Eval.Utils, o.Eval.Classes, o.Eval.Statics = nc, mc, uc, cc, sc
				o.Eval.Done = true
				eb, err := os.ReadFile(filepath.Join(rep, "evaluate.json"))
				var ev struct {
					Nullable struct{ Items []string }
				}
				switch {
				case err != nil:
					o.Eval.ReportFile = "unreadable"
				case len(bytes.TrimSpace(eb)) == 0:
					o.Eval.ReportFile = "empty"
				case json.Unmarshal(eb, &ev) != nil:
					o.Eval.ReportFile = "unreadable"
				default:
					o.Eval.ReportFile = "ok"
					o.Eval.Listed = true
					o.Eval.Nullable = append([]string{}, ev.Nullable.Items...)
				}
			}
		}
	}

	// coca concept
	out, err := coca(dir, "concept")
	if err != nil {
		fail("concept", err.Error())
	} else {
		h, rows, ok := parseTable(out)
		if !ok || len(h) != 2 {
			fail("concept", "malformed table")
		} else if r, ok := numRows(rows, 0, 1); ok {
			o.Concept.Rows, o.Concept.Done = r, true
		} else {
			fail("concept", "malformed row")
		}
	}
}
