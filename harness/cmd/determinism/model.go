package main

// Third kind of determinism case: a synthesized code model (not rendered to Java): the call graph, reverse call graph,
// architecture, reference-count and evaluation reports are pure functions of the model, and several of them walk maps
// or cut a traversal off after a fixed budget, so WHICH part of a large graph is reported can depend on an order.

import (
	"fmt"
	"math/rand"

	"github.com/modernizing/coca/pkg/application/arch"
	"github.com/modernizing/coca/pkg/application/call"
	"github.com/modernizing/coca/pkg/application/count"
	"github.com/modernizing/coca/pkg/application/evaluate"
	"github.com/modernizing/coca/pkg/application/rcall"
	"github.com/modernizing/coca/pkg/domain/core_domain"
	"github.com/modernizing/coca/pkg/infrastructure/string_helper"
)

type MCall struct {
	Pkg string `json:"pkg"`
	Cls string `json:"cls"`
	Fn  string `json:"fn"`
}
type MFn struct {
	Name   string   `json:"name"`
	Ret    string   `json:"ret"`
	Params []string `json:"params"`
	Calls  []MCall  `json:"calls"`
}
type MClass struct {
	Pkg  string `json:"pkg"`
	Name string `json:"name"`
	Fns  []MFn  `json:"fns"`
}

func buildModel(m []MClass) []core_domain.CodeDataStruct {
	var deps []core_domain.CodeDataStruct
	for _, c := range m {
		d := core_domain.CodeDataStruct{NodeName: c.Name, Package: c.Pkg, Type: "Class", FilePath: c.Pkg + "/" + c.Name + ".java"}
		for _, f := range c.Fns {
			fn := core_domain.CodeFunction{Name: f.Name, ReturnType: f.Ret}
			for _, p := range f.Params {
				fn.Parameters = append(fn.Parameters, core_domain.NewCodeParameter("String", p))
			}
			for _, cl := range f.Calls {
				fn.FunctionCalls = append(fn.FunctionCalls, core_domain.CodeCall{Package: cl.Pkg, NodeName: cl.Cls, FunctionName: cl.Fn, Type: "Class"})
			}
			d.Functions = append(d.Functions, fn)
		}
		deps = append(deps, d)
	}
	return deps
}

func modelReports(c *collector, m []MClass, roots []string) {
	deps := buildModel(m)
	for i, r := range roots {
		c.add(fmt.Sprintf("call-edges-%d", i), false, edges(call.NewCallGraph().Analysis(r, deps, false)), nil)
		c.add(fmt.Sprintf("call-edges-lookup-%d", i), false, edges(call.NewCallGraph().Analysis(r, deps, true)), nil)
		c.add(fmt.Sprintf("rcall-edges-%d", i), false, edges(rcall.NewRCallGraph().Analysis(r, deps, func(map[string][]string) {})), nil)
	}
	var items []string
	for callee, callers := range rcall.BuildMethodCallMap(deps, rcall.BuildProjectMethodMap(deps)) {
		for _, cr := range callers {
			items = append(items, callee+" <- "+cr)
		}
	}
	c.add("rcall-map", false, items, nil)
	identMap := map[string]core_domain.CodeDataStruct{}
	for _, d := range deps {
		identMap[d.GetClassFullName()] = d
	}
	g := arch.NewArchApp().Analysis(deps, identMap)
	items = nil
	for _, rel := range g.RelationList {
		items = append(items, rel.From+" -> "+rel.To)
	}
	c.add("arch-relations", false, items, nil)
	cm := count.BuildCallMap(deps)
	pl := string_helper.SortWord(cm)
	items = nil
	var keys []int
	for i, p := range pl {
		items = append(items, fmt.Sprintf("%s=%d", p.Key, p.Value))
		keys = append(keys, i)
	}
	c.add("reference-counts", true, items, keys)
	ev := evaluate.NewEvaluateAnalyser().Analysis(deps, nil)
	c.add("evaluate-summary", false, []string{js(ev.Summary)}, nil)
	c.add("evaluate-service-related", false, append([]string{}, ev.ServiceSummary.RelatedMethod...), nil)
	flat := func(name string, mm map[string][]string) {
		var its []string
		for k, vs := range mm {
			for _, v := range vs {
				its = append(its, k+"="+v)
			}
		}
		c.add(name, false, its, nil)
	}
	flat("evaluate-service-lifecycle", ev.ServiceSummary.LifecycleMap)
	flat("evaluate-service-returntypes", ev.ServiceSummary.ReturnTypeMap)
}

// deepFan: one method with several direct callers, one of which calls it twice (in two statements); every direct
// caller sits at the bottom of its own caller chain, longer than any traversal budget
func genDeepFan(r *rand.Rand, id string, n int) Case {
	c := Case{Case: id, Kind: "model", N: n, Files: nil, History: []GitCommit{}}
	one := func(name string, calls ...MCall) MClass {
		return MClass{Pkg: "p", Name: name, Fns: []MFn{{Name: "run", Ret: "void", Params: []string{}, Calls: calls}}}
	}
	to := func(name string) MCall { return MCall{Pkg: "p", Cls: name, Fn: "run"} }
	c.Model = append(c.Model, one("Repo"))
	branches := 2 + r.Intn(3)
	twice := r.Intn(branches)
	depth := 7 + r.Intn(3)
	for b := 0; b < branches; b++ {
		svc := fmt.Sprintf("Service%c", 'A'+b)
		if b == twice {
			c.Model = append(c.Model, one(svc, to("Repo"), to("Repo")))
		} else {
			c.Model = append(c.Model, one(svc, to("Repo")))
		}
		callee := svc
		for d := 1; d <= depth; d++ {
			caller := fmt.Sprintf("Caller%c%d", 'A'+b, d)
			c.Model = append(c.Model, one(caller, to(callee)))
			callee = caller
		}
	}
	c.Roots = []string{"p.Repo.run", fmt.Sprintf("p.CallerA%d.run", depth)}
	return c
}

// services: *Service classes whose methods carry long parameter lists in which several groups of names travel together
func genServices(r *rand.Rand, id string, n int) Case {
	c := Case{Case: id, Kind: "model", N: n, History: []GitCommit{}}
	groups := [][]string{{"street", "city", "zip", "country"}, {"firstname", "lastname", "email", "phone"}, {"sku", "qty", "price", "tax"}}
	ng := 2 + r.Intn(2)
	var both []string
	for g := 0; g < ng; g++ {
		both = append(both, groups[g]...)
	}
	cust := MClass{Pkg: "com.demo", Name: "CustomerService"}
	// every group must reach the 0.8 support of the related-parameter search: (cust + 2) / (cust + 2 * ng) >= 0.8
	ncust := 6 + r.Intn(4)
	if ng == 3 {
		ncust = 14 + r.Intn(3)
	}
	for i := 0; i < ncust; i++ {
		cust.Fns = append(cust.Fns, MFn{Name: fmt.Sprintf("register%d", i), Ret: "void", Params: both, Calls: []MCall{}})
	}
	c.Model = append(c.Model, cust)
	for g := 0; g < ng; g++ {
		s := MClass{Pkg: "com.demo", Name: fmt.Sprintf("Part%dService", g)}
		for i := 0; i < 2; i++ {
			s.Fns = append(s.Fns, MFn{Name: fmt.Sprintf("use%d", i), Ret: "void", Params: groups[g], Calls: []MCall{}})
		}
		c.Model = append(c.Model, s)
	}
	c.Roots = []string{"com.demo.CustomerService.register0"}
	return c
}

// a random call relation over a few dozen methods, with parallel edges, cycles and callers shared between callees
func genGraph(r *rand.Rand, id string, n int) Case {
	c := Case{Case: id, Kind: "model", N: n, History: []GitCommit{}}
	nc := 6 + r.Intn(14)
	name := func(i int) string { return fmt.Sprintf("K%d", i) }
	for i := 0; i < nc; i++ {
		cl := MClass{Pkg: []string{"p", "q.r"}[i%2], Name: name(i)}
		for f := 0; f < 1+r.Intn(2); f++ {
			fn := MFn{Name: fmt.Sprintf("m%d", f), Ret: "void", Params: []string{}, Calls: []MCall{}}
			for k := r.Intn(4); k > 0; k-- {
				j := r.Intn(nc)
				cc := MCall{Pkg: []string{"p", "q.r"}[j%2], Cls: name(j), Fn: "m0"}
				if j == 0 { // K0 also has two methods whose names differ only in case: a case-blind sort ties them
					cc.Fn = []string{"m0", "getURL", "getUrl"}[r.Intn(3)]
				}
				fn.Calls = append(fn.Calls, cc)
				if r.Intn(4) == 0 {
					fn.Calls = append(fn.Calls, cc)
				}
			}
			cl.Fns = append(cl.Fns, fn)
		}
		if i == 0 {
			cl.Fns = append(cl.Fns, MFn{Name: "getURL", Ret: "void", Params: []string{}, Calls: []MCall{}}, MFn{Name: "getUrl", Ret: "void", Params: []string{}, Calls: []MCall{}})
		}
		c.Model = append(c.Model, cl)
	}
	// both case variants are called, so both are rows of the reference-count listing
	c.Model[1].Fns[0].Calls = append(c.Model[1].Fns[0].Calls, MCall{Pkg: "p", Cls: "K0", Fn: "getURL"}, MCall{Pkg: "p", Cls: "K0", Fn: "getUrl"})
	c.Roots = []string{"p.K0.m0", "q.r.K1.m0"}
	return c
}
