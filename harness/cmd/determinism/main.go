// Harness for C08: identical input yields identical output on every run.
//
// Go randomises the iteration order of every `range` over a map, so each execution samples a different
// interleaving of the map-driven loops in the pipeline. No hook can control that order; the binding is N
// repeated executions of every report on the same input (in-process: the randomisation is per range
// statement, not per process). For every report the harness records, per run, the items as canonical
// strings (collection) and, where the report promises an order, the numeric sort key of every position.
// TLC (DeterminismRef) requires all runs to agree as collections, and as sequences wherever the key is untied.
package main

import (
	"bytes"
	"encoding/json"
	"fmt"
	"math/rand"
	"os"
	"os/exec"
	"path/filepath"
	"sort"
	"strings"

	"github.com/modernizing/coca/pkg/adapter/cocafile"
	"github.com/modernizing/coca/pkg/application/analysis/javaapp"
	"github.com/modernizing/coca/pkg/application/api"
	"github.com/modernizing/coca/pkg/application/arch"
	"github.com/modernizing/coca/pkg/application/bs"
	"github.com/modernizing/coca/pkg/application/call"
	"github.com/modernizing/coca/pkg/application/count"
	"github.com/modernizing/coca/pkg/application/evaluate"
	cocagit "github.com/modernizing/coca/pkg/application/git"
	"github.com/modernizing/coca/pkg/application/rcall"
	"github.com/modernizing/coca/pkg/application/tbs"
	"github.com/modernizing/coca/pkg/domain/bs_domain"
	"github.com/modernizing/coca/pkg/domain/core_domain"
	"github.com/modernizing/coca/pkg/infrastructure/string_helper"

	"verifharness/javagen"
	"verifharness/javaproj"
	"verifharness/lib"
)

type GitOp struct {
	Op   string `json:"op"` // add | modify | delete | rename
	Path string `json:"path"`
	To   string `json:"to"`
	Add  int    `json:"add"`
	Del  int    `json:"del"`
}
type GitCommit struct {
	Author  string  `json:"author"`
	Date    string  `json:"date"`
	Subject string  `json:"subject"`
	Ops     []GitOp `json:"ops"`
}

type Case struct {
	Case    string         `json:"case"`
	Kind    string         `json:"kind"` // java | git | model
	Model   []MClass       `json:"model"`
	Roots   []string       `json:"roots"`
	Files   []javagen.File `json:"files"`
	Layout  int            `json:"layout"`
	History []GitCommit    `json:"history"`
	N       int            `json:"n"`
	Root    string         `json:"root"` // set by the parent for its per-run child processes: the rendered tree to analyse
}

type Run struct {
	Items []string `json:"items"`
	Keys  []int    `json:"keys"` // numeric sort key per position (same length as items) for ordered reports, else empty
}

type Report struct {
	Name    string `json:"name"`
	Ordered bool   `json:"ordered"`
	Runs    []Run  `json:"runs"`   // one per fresh OS process ("every run of the same command")
	Inproc  []Run  `json:"inproc"` // the same API call repeated inside one process ("repeated executions of the same API call")
	// evidence that the schedule varied: number of distinct raw (un-canonicalised) orders seen over the runs
	DistinctRaw int `json:"distinctRaw"`
}

type Record struct {
	Case    string   `json:"case"`
	Kind    string   `json:"kind"`
	N       int      `json:"n"`
	Panic   bool     `json:"panic"`
	Note    string   `json:"note"`
	Reports []Report `json:"reports"`
}

func js(v interface{}) string {
	b, err := json.Marshal(v)
	if err != nil {
		return "<unserialisable:" + err.Error() + ">"
	}
	return string(b)
}

// the order of functions inside a type is explicitly free (C08): canonical order by their own JSON
func canonType(n core_domain.CodeDataStruct) string {
	fs := append([]core_domain.CodeFunction{}, n.Functions...)
	sort.SliceStable(fs, func(i, j int) bool { return js(fs[i]) < js(fs[j]) })
	n.Functions = fs
	return js(n)
}

type collector struct {
	reports map[string]*Report
	raws    map[string]map[string]bool
	order   []string
}

func (c *collector) add(name string, ordered bool, items []string, keys []int) {
	r, ok := c.reports[name]
	if !ok {
		r = &Report{Name: name, Ordered: ordered, Runs: []Run{}}
		c.reports[name] = r
		c.raws[name] = map[string]bool{}
		c.order = append(c.order, name)
	}
	if items == nil {
		items = []string{}
	}
	if keys == nil {
		keys = []int{}
	}
	r.Runs = append(r.Runs, Run{Items: items, Keys: keys})
	c.raws[name][strings.Join(items, "\x00")] = true
}

func edges(dot string) []string {
	g := lib.ParseSimpleDot(dot)
	var out []string
	for _, e := range g.Edges {
		out = append(out, e[0]+" -> "+e[1])
	}
	return out
}

func javaReports(c *collector, root string, roots []string) {
	ia := javaapp.NewJavaIdentifierApp()
	ident := ia.AnalysisPath(root)
	var items []string
	for _, n := range ident {
		items = append(items, canonType(n))
	}
	c.add("identifier-model", false, items, nil)
	fa := javaapp.NewJavaFullApp()
	deps := fa.AnalysisPath(root, ident)
	items = nil
	for _, n := range deps {
		items = append(items, canonType(n))
	}
	c.add("full-model", false, items, nil)
	identMap := core_domain.BuildIdentifierMap(ident)
	for i, r := range roots {
		c.add(fmt.Sprintf("call-edges-%d", i), false, edges(call.NewCallGraph().Analysis(r, deps, false)), nil)
		c.add(fmt.Sprintf("rcall-edges-%d", i), false, edges(rcall.NewRCallGraph().Analysis(r, deps, func(map[string][]string) {})), nil)
	}
	g := arch.NewArchApp().Analysis(deps, identMap)
	items = nil
	for _, rel := range g.RelationList {
		items = append(items, rel.From+" -> "+rel.To)
	}
	c.add("arch-relations", false, items, nil)
	items = nil
	for k := range g.NodeList {
		items = append(items, k)
	}
	c.add("arch-nodes", false, items, nil)
	merged := g.MergeHeaderFile(func(s string) string {
		if i := strings.LastIndex(s, "."); i > 0 {
			return s[:i]
		}
		return s
	})
	items = nil
	for _, rel := range merged.RelationList {
		items = append(items, rel.From+" -> "+rel.To)
	}
	c.add("arch-merged-relations", false, items, nil)
	ba := bs.NewBadSmellApp()
	nodes := ba.AnalysisPath(root)
	smells := ba.IdentifyBadSmell(nodes, nil)
	items = nil
	var graphItems []string
	for _, s := range smells {
		if s.Bs == "graphConnectedCall" {
			graphItems = append(graphItems, js(s))
		} else {
			items = append(items, js(s))
		}
	}
	c.add("bad-smells", false, items, nil)
	c.add("bad-smells-graphConnectedCall", false, graphItems, nil)
	sized := map[string]bool{"largeClass": true, "repeatedSwitches": true, "longParameterList": true, "longMethod": true, "dataClass": true}
	byType := bs_domain.SortSmellByType(append([]bs_domain.BadSmellModel{}, smells...), func(k string) bool { return sized[k] })
	var kinds []string
	for k := range byType {
		kinds = append(kinds, k)
	}
	sort.Strings(kinds)
	for _, k := range kinds {
		var its []string
		var keys []int
		for _, s := range byType[k] {
			its = append(its, js(s))
			keys = append(keys, s.Size)
		}
		if sized[k] {
			c.add("bad-smells-sorted-"+k, true, its, keys)
		} else {
			c.add("bad-smells-sorted-"+k, false, its, nil)
		}
	}
	apis := new(api.JavaApiApp).AnalysisPath(root, deps, identMap, map[string]string{})
	items = nil
	for _, a := range apis {
		items = append(items, js(a))
	}
	c.add("api-list", false, items, nil)
	cm := count.BuildCallMap(deps)
	pl := string_helper.SortWord(cm)
	items = nil
	var keys []int
	for i, p := range pl {
		items = append(items, fmt.Sprintf("%s=%d", p.Key, p.Value))
		keys = append(keys, i) // "listed in a reproducible order": every position is untied
	}
	c.add("reference-counts", true, items, keys)
	ev := evaluate.NewEvaluateAnalyser().Analysis(deps, ident)
	c.add("evaluate-summary", false, []string{js(ev.Summary)}, nil)
	items = nil
	for _, m := range ev.Nullable.Items {
		items = append(items, m)
	}
	c.add("evaluate-nullable", false, items, nil)
	flat := func(name string, m map[string][]string) {
		var its []string
		for k, vs := range m {
			for _, v := range vs {
				its = append(its, k+"="+v)
			}
		}
		c.add(name, false, its, nil)
	}
	flat("evaluate-service-lifecycle", ev.ServiceSummary.LifecycleMap)
	flat("evaluate-service-returntypes", ev.ServiceSummary.ReturnTypeMap)
	c.add("evaluate-utils", false, []string{js(ev.UtilsSummary)}, nil)
	// test smells: the command sequence of cmd/tbs.go on the test files of the tree
	tfiles := cocafile.GetJavaTestFiles(root)
	var javaTests []string
	for _, f := range tfiles {
		if strings.HasSuffix(f, ".java") {
			javaTests = append(javaTests, f)
		}
	}
	tid := ia.AnalysisFiles(javaTests)
	tdeps := fa.AnalysisFiles(tid, javaTests)
	items = nil
	for _, t := range tbs.NewTbsApp().AnalysisPath(tdeps, core_domain.BuildIdentifierMap(tid)) {
		items = append(items, js(t))
	}
	c.add("test-smells", false, items, nil)
}

func logText(h []GitCommit) string {
	var b strings.Builder
	for i, c := range h {
		fmt.Fprintf(&b, "[%07x] %s %s %s\n", 0xabc0000+i, c.Author, c.Date, c.Subject)
		var sums []string
		for _, op := range c.Ops {
			switch op.Op {
			case "add":
				fmt.Fprintf(&b, "%d\t0\t%s\n", op.Add, op.Path)
				sums = append(sums, " create mode 100644 "+op.Path)
			case "modify":
				fmt.Fprintf(&b, "%d\t%d\t%s\n", op.Add, op.Del, op.Path)
			case "delete":
				fmt.Fprintf(&b, "0\t%d\t%s\n", op.Del, op.Path)
				sums = append(sums, " delete mode 100644 "+op.Path)
			case "rename":
				fmt.Fprintf(&b, "0\t0\t%s => %s\n", op.Path, op.To)
				sums = append(sums, " rename "+op.Path+" => "+op.To+" (100%)")
			}
		}
		for _, s := range sums {
			b.WriteString(s + "\n")
		}
		if len(c.Ops) > 0 {
			b.WriteString("\n")
		}
	}
	return b.String()
}

func gitReports(c *collector, h []GitCommit) {
	msgs := cocagit.BuildMessageByInput(logText(h))
	var items []string
	for _, m := range msgs {
		chs := append([]cocagit.FileChange{}, m.Changes...)
		sort.Slice(chs, func(i, j int) bool { return js(chs[i]) < js(chs[j]) }) // the order of changes inside a commit is not promised
		m.Changes = chs
		items = append(items, js(m))
	}
	c.add("git-commits", false, items, nil)
	items = nil
	var keys []int
	for _, t := range cocagit.GetTeamSummary(msgs) {
		items = append(items, js(t))
		keys = append(keys, t.RevsCount)
	}
	c.add("git-team", true, items, keys)
	items, keys = nil, nil
	for _, t := range cocagit.GetTopAuthors(msgs) {
		items = append(items, js(t))
		keys = append(keys, t.CommitCount)
	}
	c.add("git-top-authors", true, items, keys)
	items, keys = nil, nil
	for _, a := range cocagit.CalculateCodeAge(msgs) {
		items = append(items, a.EntityName+"@"+a.Age.Format("2006-01-02"))
		keys = append(keys, int(a.Age.Unix()/86400))
	}
	c.add("git-code-age", true, items, keys)
	c.add("git-basic", false, []string{js(cocagit.BasicSummary(msgs))}, nil)
	items = nil
	for typ, m := range cocagit.BuildChangeMap(msgs) {
		for f, n := range m {
			items = append(items, fmt.Sprintf("%s|%s|%d", typ, f, n))
		}
	}
	c.add("git-changelog", false, items, nil)
	// the printed summary of `coca git -m`: per keyword at most ten "file, count" lines; as a collection of
	// (keyword, line) pairs (the order of the keyword sections follows a map and is not promised)
	var buf bytes.Buffer
	cocagit.ShowChangeLogSummary(msgs, &buf)
	items = nil
	section := ""
	for _, ln := range strings.Split(buf.String(), "\n") {
		t := strings.TrimSpace(ln)
		switch {
		case t == "" || strings.HasPrefix(t, "---") || strings.HasPrefix(t, "==="):
		case strings.HasSuffix(t, " :"):
			section = strings.TrimSuffix(t, " :")
		default:
			items = append(items, section+"|"+t)
		}
	}
	c.add("git-changelog-printed", false, items, nil)
}

// gitCliReports: a real repository of thirty files, each committed once by one of four authors on its own day (every
// revision count is 1: every sort key of the team table is tied), and the tables `coca git -t / -a / -o` print, n times,
// each by a process of the binary. The rows of a table are a collection; which rows are printed must not vary.
func gitCliReports(c *collector, root string, n int) {
	coca := os.Getenv("VERIF_COCA")
	if coca == "" {
		panic("harness: VERIF_COCA not set")
	}
	os.MkdirAll(root, 0o755)
	git := func(env []string, args ...string) {
		cmd := exec.Command("git", args...)
		cmd.Dir = root
		cmd.Env = append(os.Environ(), "GIT_CONFIG_NOSYSTEM=1", "HOME="+root, "GIT_TERMINAL_PROMPT=0", "LC_ALL=C.UTF-8")
		cmd.Env = append(cmd.Env, env...)
		if out, err := cmd.CombinedOutput(); err != nil {
			panic(fmt.Sprintf("harness: git %v: %v %s", args, err, out))
		}
	}
	git(nil, "init", "-q", "-b", "main", ".")
	git(nil, "config", "commit.gpgsign", "false")
	for i := 0; i < 30; i++ {
		os.MkdirAll(filepath.Join(root, "src"), 0o755)
		os.WriteFile(filepath.Join(root, "src", fmt.Sprintf("f%02d.txt", i)), []byte(fmt.Sprintf("line of file %d\n", i)), 0o644)
		git(nil, "add", "-A")
		ts := fmt.Sprintf("2021-%02d-%02dT10:00:00+0000", 1+i/28, 1+i%28)
		a := gAuthors[i%len(gAuthors)]
		git([]string{"GIT_AUTHOR_NAME=" + a, "GIT_AUTHOR_EMAIL=a@example.org", "GIT_COMMITTER_NAME=" + a, "GIT_COMMITTER_EMAIL=a@example.org",
			"GIT_AUTHOR_DATE=" + ts, "GIT_COMMITTER_DATE=" + ts}, "commit", "-q", "-m", gSubjects[i%len(gSubjects)])
	}
	tmp := filepath.Join(root, ".tmp-coca")
	os.MkdirAll(tmp, 0o755)
	if n < 1 {
		n = 1
	}
	if n > 12 {
		n = 12
	}
	for run := 0; run < n; run++ {
		for _, flag := range []string{"-t", "-a", "-o"} {
			cmd := exec.Command(coca, "git", flag)
			cmd.Dir = root
			cmd.Env = append(os.Environ(), "TMPDIR="+tmp, "HOME="+root, "GIT_CONFIG_NOSYSTEM=1", "LC_ALL=C.UTF-8")
			var so bytes.Buffer
			cmd.Stdout = &so
			if err := cmd.Run(); err != nil {
				panic("coca git " + flag + " failed: " + err.Error())
			}
			var rows []string
			header := false
			for _, ln := range strings.Split(so.String(), "\n") {
				if !strings.HasPrefix(ln, "|") || strings.HasPrefix(ln, "|--") {
					continue
				}
				if !header {
					header = true
					continue
				}
				rows = append(rows, strings.Join(strings.Fields(ln), " "))
			}
			c.add("git-cli-table"+flag, false, rows, nil)
		}
	}
}

func one(raw json.RawMessage) interface{} {
	var cs Case
	if err := json.Unmarshal(raw, &cs); err != nil {
		panic(err)
	}
	rec := Record{Case: cs.Case, Kind: cs.Kind, N: cs.N, Reports: []Report{}}
	col := &collector{reports: map[string]*Report{}, raws: map[string]map[string]bool{}}
	root := cs.Root
	if root == "" {
		scratch, err := os.MkdirTemp(os.Getenv("VERIF_SCRATCH"), "det-")
		if err != nil {
			panic(err)
		}
		defer os.RemoveAll(scratch)
		root = filepath.Join(scratch, "proj")
	}
	if cs.Kind == "gitcli" {
		gitCliReports(col, root, cs.N)
		for _, name := range col.order {
			r := col.reports[name]
			r.DistinctRaw = len(col.raws[name])
			r.Inproc = []Run{}
			rec.Reports = append(rec.Reports, *r)
		}
		return rec
	}
	var roots []string
	if cs.Kind == "java" {
		for i := range cs.Files {
			javagen.Normalize(&cs.Files[i])
			if cs.Root == "" {
				text, facts := javagen.Render(cs.Files[i], cs.Layout)
				p := filepath.Join(root, filepath.FromSlash(facts.RelPath))
				os.MkdirAll(filepath.Dir(p), 0o755)
				os.WriteFile(p, []byte(text), 0o644)
			}
			f := cs.Files[i]
			if f.Id == "ovl" {
				roots = append(roots, "ovl.Store.caller", "ovl.Store.put")
			}
			if javaproj.Selected(f) && len(roots) < 2 {
				for _, m := range f.Unit.Members {
					if m.Kind == "method" {
						roots = append(roots, f.Pkg+"."+f.Unit.Name+"."+m.Name)
						break
					}
				}
			}
		}
		if cs.Root == "" {
			os.WriteFile(filepath.Join(root, ".gitignore"), []byte("gen/\n*Generated.java\n"), 0o644)
		}
	}
	if cs.N > 1 {
		// "every run of the same command": each of the N executions is a fresh OS process, like the CLI
		// (repeating a pass inside one process is a different property, C07)
		merged := map[string]*Report{}
		raws := map[string]map[string]bool{}
		var order []string
		sub := cs
		sub.N = 1
		sub.Root = root
		if cs.Kind == "model" {
			os.Setenv("GOMAXPROCS", "4")
		}
		for i := 0; i < cs.N; i++ {
			raw, err := lib.Fresh(sub)
			var sr Record
			if err == nil {
				err = json.Unmarshal(raw, &sr)
			}
			if err != nil || sr.Panic {
				rec.Panic = true
				rec.Note = fmt.Sprint("run ", i+1, ": ", err, " ", sr.Note)
				return rec
			}
			for _, r := range sr.Reports {
				m, ok := merged[r.Name]
				if !ok {
					m = &Report{Name: r.Name, Ordered: r.Ordered, Runs: []Run{}}
					merged[r.Name] = m
					raws[r.Name] = map[string]bool{}
					order = append(order, r.Name)
				}
				m.Runs = append(m.Runs, r.Runs...)
				for _, ru := range r.Runs {
					raws[r.Name][strings.Join(ru.Items, "\x00")] = true
				}
			}
		}
		// the same API calls repeated three times inside ONE process (model cases are cheap: forty times, and with four
		// threads, because a report assembled by goroutines only varies when they really run in parallel)
		sub.N = -3
		if cs.Kind == "model" {
			sub.N = -40
		}
		if raw, err := lib.Fresh(sub); err == nil {
			var sr Record
			if json.Unmarshal(raw, &sr) == nil && !sr.Panic {
				for _, r := range sr.Reports {
					if m, ok := merged[r.Name]; ok {
						m.Inproc = append(m.Inproc, r.Runs...)
					}
				}
			} else {
				rec.Panic, rec.Note = true, "in-process repetition: "+sr.Note
				return rec
			}
		}
		for _, name := range order {
			m := merged[name]
			if m.Inproc == nil {
				m.Inproc = []Run{}
			}
			m.DistinctRaw = len(raws[name])
			// a report that was not produced by every run cannot be compared position-wise
			rec.Reports = append(rec.Reports, *m)
		}
		return rec
	}
	reps := cs.N
	if reps < 0 {
		reps = -reps
	}
	p, msg := lib.Guard(func() {
		for i := 0; i < reps; i++ {
			switch cs.Kind {
			case "java":
				javaReports(col, root, roots)
			case "model":
				modelReports(col, cs.Model, cs.Roots)
			default:
				gitReports(col, cs.History)
			}
		}
	})
	rec.Panic, rec.Note = p, msg
	for _, name := range col.order {
		r := col.reports[name]
		r.DistinctRaw = len(col.raws[name])
		if r.Inproc == nil {
			r.Inproc = []Run{}
		}
		rec.Reports = append(rec.Reports, *r)
	}
	return rec
}

func abnormal(raw json.RawMessage, timeout bool, stderr string) interface{} {
	var cs Case
	json.Unmarshal(raw, &cs)
	return Record{Case: cs.Case, Kind: cs.Kind, N: cs.N, Panic: true, Note: "process died: " + stderr, Reports: []Report{}}
}

// ---------------------------------------------------------------- generator

var gAuthors = []string{"Ann", "Bob", "Cy", "Dee"}
var gSubjects = []string{"feat: a", "fix(x): b", "plain", "docs: c", "feat(api): d"}

func genGit(r *rand.Rand, id string, n int) Case {
	c := Case{Case: id, Kind: "git", N: n, Files: []javagen.File{}}
	live := []string{}
	nc := 3 + r.Intn(6)
	seq := 0
	for i := 0; i < nc; i++ {
		h := GitCommit{Author: gAuthors[r.Intn(len(gAuthors))], Date: fmt.Sprintf("2020-01-%02d", 1+i), Subject: gSubjects[r.Intn(len(gSubjects))], Ops: []GitOp{}}
		used := map[string]bool{}
		for j := 0; j < 1+r.Intn(4); j++ {
			switch {
			case len(live) < 2 || r.Intn(3) == 0:
				seq++
				p := fmt.Sprintf("%sf%d.txt", []string{"", "src/", "docs/"}[r.Intn(3)], seq)
				h.Ops = append(h.Ops, GitOp{Op: "add", Path: p, Add: 1 + r.Intn(5)})
				live = append(live, p)
				used[p] = true
			case r.Intn(4) == 0:
				k := r.Intn(len(live))
				if used[live[k]] {
					continue
				}
				seq++
				np := fmt.Sprintf("moved/f%d.txt", seq)
				h.Ops = append(h.Ops, GitOp{Op: "rename", Path: live[k], To: np})
				used[live[k]], used[np] = true, true
				live[k] = np
			default:
				k := r.Intn(len(live))
				if used[live[k]] {
					continue
				}
				used[live[k]] = true
				h.Ops = append(h.Ops, GitOp{Op: "modify", Path: live[k], Add: r.Intn(4), Del: r.Intn(3)})
			}
		}
		// sometimes a chain of renames inside ONE commit (x -> y and y -> z at once)
		if len(live) >= 2 && r.Intn(6) == 0 {
			a, b := live[0], live[1]
			if !used[a] && !used[b] {
				seq++
				z := fmt.Sprintf("chain/f%d.txt", seq)
				h.Ops = append(h.Ops, GitOp{Op: "rename", Path: b, To: z}, GitOp{Op: "rename", Path: a, To: b})
				live[0], live[1] = b, z
			}
		}
		c.History = append(c.History, h)
	}
	return c
}

// more files under one keyword than the printed summary shows, all changed equally often: the cut falls inside a tie
func genGitManyChanges(r *rand.Rand, id string, n int) Case {
	c := Case{Case: id, Kind: "git", N: n, Files: []javagen.File{}}
	nf := 12 + r.Intn(6)
	for i := 0; i < 3; i++ {
		h := GitCommit{Author: gAuthors[i%len(gAuthors)], Date: fmt.Sprintf("2020-02-%02d", 1+i), Subject: []string{"feat: a", "fix(x): b", "feat(api): d"}[i], Ops: []GitOp{}}
		for k := 0; k < nf; k++ {
			op := "modify"
			if i == 0 {
				op = "add"
			}
			h.Ops = append(h.Ops, GitOp{Op: op, Path: fmt.Sprintf("src/m%02d.txt", k), Add: 1 + r.Intn(3), Del: 0})
		}
		c.History = append(c.History, h)
	}
	return c
}

func callStmt(recvKind, recv, callee string, args ...javagen.Expr) javagen.Stmt {
	if args == nil {
		args = []javagen.Expr{}
	}
	e := javagen.Expr{K: "call", RecvKind: recvKind, Recv: recv, Callee: callee, Args: args}
	return javagen.Stmt{K: "expr", E: &e}
}

// two overloads of one name that start on the SAME source line and call different methods, plus a caller:
// everything keyed by the method's full name (call graph, reference counts) sees whichever comes last
func overloadsOnOneLine(r *rand.Rand) javagen.File {
	f := javagen.File{Id: "ovl", PathKind: "main", Dirs: "ovl", Pkg: "ovl"}
	f.Unit = javagen.Unit{Kind: "class", Name: "Store"}
	m1 := javagen.Member{Kind: "method", Name: "put", Type: "void", Mods: []string{"public"}, Params: []javagen.Param{{Type: "int", Name: "a"}},
		Body: []javagen.Stmt{callStmt("none", "", "save")}, OneLine: true}
	m2 := javagen.Member{Kind: "method", Name: "put", Type: "void", Mods: []string{"public"}, Params: []javagen.Param{{Type: "String", Name: "s"}},
		Body: []javagen.Stmt{callStmt("none", "", "flush")}, SameLine: true, OneLine: true}
	f.Unit.Members = []javagen.Member{
		{Kind: "method", Name: "save", Type: "void", Mods: []string{"public"}},
		{Kind: "method", Name: "flush", Type: "void", Mods: []string{"public"}},
		m1, m2,
		{Kind: "method", Name: "caller", Type: "void", Mods: []string{"public"}, Body: []javagen.Stmt{callStmt("none", "", "put", javagen.Expr{K: "lit", Text: "1"})}},
	}
	return f
}

// a *Service class whose methods return project classes and share first words (lifecycle / same-return-type summaries)
func serviceFile(r *rand.Rand) javagen.File {
	f := javagen.File{Id: "svc", PathKind: "main", Dirs: "ovl", Pkg: "ovl"}
	f.Unit = javagen.Unit{Kind: "class", Name: "StoreService"}
	for i, n := range []string{"loadStore", "loadAll", "saveStore", "saveAll", "findStore"} {
		if r.Intn(4) == 0 && i > 1 {
			continue
		}
		f.Unit.Members = append(f.Unit.Members, javagen.Member{Kind: "method", Name: n, Type: "Store", Mods: []string{"public"},
			Body: []javagen.Stmt{{K: "return", E: &javagen.Expr{K: "lit", Text: "null"}}}})
	}
	return f
}

// a JUnit-style test class: methods with several groups of repeated calls (assertions and others), prints, sleeps
func junitFile(r *rand.Rand) javagen.File {
	f := javagen.File{Id: "junit", PathKind: "testname", Dirs: "", Pkg: "com.acme.blog"}
	f.Unit = javagen.Unit{Kind: "class", Name: "StoreTest"}
	test := javagen.Ann{Name: "Test", Form: "marker", Args: []javagen.KV{}}
	lit := func(t string) javagen.Expr { return javagen.Expr{K: "lit", Text: t} }
	for i := 0; i < 2+r.Intn(3); i++ {
		m := javagen.Member{Kind: "method", Name: fmt.Sprintf("shouldDo%d", i), Type: "void", Mods: []string{"public"}, Anns: []javagen.Ann{test}}
		groups := []javagen.Stmt{
			callStmt("none", "", "assertEquals", lit("1"), lit("1")),
			callStmt("var", "mock", "verify"),
			callStmt("none", "", "assertTrue", lit("true")),
			callStmt("static", "System.out", "println", lit("\"x\"")),
			callStmt("static", "Thread", "sleep", lit("10")),
		}
		r.Shuffle(len(groups), func(a, b int) { groups[a], groups[b] = groups[b], groups[a] })
		for g := 0; g < 2+r.Intn(3); g++ {
			for k := 0; k < 4+r.Intn(3); k++ {
				m.Body = append(m.Body, groups[g])
			}
		}
		f.Unit.Members = append(f.Unit.Members, m)
	}
	f.Unit.Members = append([]javagen.Member{{Kind: "field", Name: "mock", Type: "Helper", Mods: []string{"private"}}}, f.Unit.Members...)
	return f
}

// namesakes: classes of ONE simple name in several packages, and a class of yet another package that uses the name
// without importing it (a tree that does not compile as it stands, as legacy trees often do not): whichever class
// the tool takes the name for, it must take the same one in every run
func namesakeFiles(r *rand.Rand) []javagen.File {
	var out []javagen.File
	name := []string{"Worker", "Handler", "Config"}[r.Intn(3)]
	pk := []string{"alpha", "beta", "gamma", "delta", "omega"}
	r.Shuffle(len(pk), func(a, b int) { pk[a], pk[b] = pk[b], pk[a] })
	for _, p := range pk[:3+r.Intn(3)] {
		f := javagen.File{Id: "ns-" + p, PathKind: "main", Dirs: "ns/" + p, Pkg: "ns." + p}
		f.Unit = javagen.Unit{Kind: "class", Name: name}
		f.Unit.Members = []javagen.Member{{Kind: "method", Name: "run", Type: "void", Mods: []string{"public"}},
			{Kind: "method", Name: "stop", Type: "void", Mods: []string{"public"}}}
		out = append(out, f)
	}
	u := javagen.File{Id: "ns-user", PathKind: "main", Dirs: "ns/app", Pkg: "ns.app"}
	u.Unit = javagen.Unit{Kind: "class", Name: "Boss"}
	mk := javagen.Expr{K: "new", Type: name, Args: []javagen.Expr{}}
	u.Unit.Members = []javagen.Member{
		{Kind: "field", Name: "worker", Type: name, Mods: []string{"private"}},
		{Kind: "method", Name: "work", Type: "void", Mods: []string{"public"}, Body: []javagen.Stmt{
			callStmt("var", "worker", "run"),
			{K: "decl", Type: name, Name: "spare", E: &mk},
			callStmt("var", "spare", "stop"),
		}},
	}
	return append(out, u)
}

func gen(seed int64, n int, tier string) []interface{} {
	r := rand.New(rand.NewSource(seed))
	runs := 40
	if tier == "thorough" {
		runs = 100
	}
	var out []interface{}
	for k := 0; k < n; k++ {
		if k%36 == 20 {
			out = append(out, Case{Case: fmt.Sprintf("gitcli-%d-%d", seed, k), Kind: "gitcli", N: 12, History: []GitCommit{}})
			continue
		}
		if k%3 == 2 {
			if k%12 == 5 {
				out = append(out, genGitManyChanges(r, fmt.Sprintf("gitmany-%d-%d", seed, k), runs))
				continue
			}
			out = append(out, genGit(r, fmt.Sprintf("git-%d-%d", seed, k), runs))
			continue
		}
		if k%6 == 1 {
			id := fmt.Sprintf("model-%d-%d", seed, k)
			switch (k / 6) % 3 {
			case 0:
				out = append(out, genDeepFan(r, id, runs))
			case 1:
				out = append(out, genServices(r, id, runs))
			default:
				out = append(out, genGraph(r, id, runs))
			}
			continue
		}
		p := javaproj.Gen(r, true)
		p.Files = append(p.Files, overloadsOnOneLine(r), junitFile(r), serviceFile(r))
		p.Files = append(p.Files, namesakeFiles(r)...)
		out = append(out, Case{Case: fmt.Sprintf("java-%d-%d", seed, k), Kind: "java", Files: p.Files, Layout: p.Layout, N: runs, History: []GitCommit{}})
	}
	return out
}

func main() {
	lib.Main(lib.Handler{One: one, Gen: gen, Abnormal: abnormal, CaseTimeout: 120 * 1e9})
}
