package main

import (
	"fmt"
	"math/rand"
	"sort"
	"strings"
)

var authors = []string{"Alice", "Ann B. Lee", "dev42 team7", "Zoë 李", "bob"}
var subjects = []string{
	"plain subject line",
	"feat: add the thing",
	"fix(core): handle null",
	"docs: update readme",
	"fix [abc1234] crash on start",
	"release notes for 2020-01-02 build",
	"refactor: rename a => b in module",
	"chore: bump (deps) to 1 2 3",
	"Merge of x: y",
	"feat(api): Alice asked for this",
	"fix(pkg/git): path as scope",
	"docs(README.md): dotted scope",
	"feat(a, b): two scopes",
	"perf(ci: lint): colon inside the scope",
	"style(my-scope_1): word scope",
}
var cctypes = []string{"", "feat", "fix", "docs", "", "", "refactor", "chore", "", "feat", "fix", "docs", "feat", "perf", "style"}
var dirs = []string{"", "src/", "src/main/java/", "docs/", "my dir/", "d 1 2/"}
var bases = []string{"a.txt", "B.java", "readme.md", "my file.txt", "x 3 4.txt", "Main.java", "util.go", "c.txt", "naïve.txt", "文档 1.md", "release  notes.txt"}

// a path git prints in quoted form (bytes outside ASCII): such files are created, modified and deleted, never renamed
func quotedByGit(p string) bool {
	for i := 0; i < len(p); i++ {
		if p[i] >= 0x80 {
			return true
		}
	}
	return false
}

type world struct {
	r     *rand.Rand
	live  map[string]int // path -> number of lines (-1 binary)
	gone  []string       // paths deleted so far (a later commit may create one of them again)
	names int
}

func (w *world) fresh() string {
	for {
		p := dirs[w.r.Intn(len(dirs))] + bases[w.r.Intn(len(bases))]
		if w.r.Intn(3) == 0 {
			w.names++
			p = fmt.Sprintf("%sf%d_%s", dirs[w.r.Intn(len(dirs))], w.names, bases[w.r.Intn(len(bases))])
		}
		if _, ok := w.live[p]; !ok {
			return p
		}
	}
}

func (w *world) someLive() (string, bool) {
	if len(w.live) == 0 {
		return "", false
	}
	var ks []string
	for k := range w.live {
		ks = append(ks, k)
	}
	sort.Strings(ks)
	return ks[w.r.Intn(len(ks))], true
}

func genHistory(r *rand.Rand, id string, mode string, plain bool) Case {
	w := &world{r: r, live: map[string]int{}}
	n := 1 + r.Intn(7)
	c := Case{Case: id, Mode: mode}
	day := 1
	for i := 0; i < n; i++ {
		day += r.Intn(3)
		si := r.Intn(len(subjects))
		if plain {
			si = r.Intn(4)
		}
		h := Commit{Author: authors[r.Intn(len(authors))], Date: fmt.Sprintf("2020-%02d-%02d", 1+day/28, 1+day%28), Subject: subjects[si], Cctype: cctypes[si], Ops: []Op{}}
		if i > 0 && r.Intn(5) == 0 { // written earlier than the commits before it in the log (rebased, cherry-picked)
			h.Date = fmt.Sprintf("2019-%02d-%02d", 1+r.Intn(12), 1+r.Intn(28))
		}
		if plain {
			h.Author = authors[r.Intn(2)]
		}
		nops := r.Intn(4)
		if i == 0 && nops == 0 {
			nops = 1
		}
		touched := map[string]bool{}
		for j := 0; j < nops; j++ {
			k := r.Intn(10)
			p, ok := w.someLive()
			switch {
			case k <= 2 || !ok:
				np := w.fresh()
				if len(w.gone) > 0 && r.Intn(3) == 0 { // a deleted path comes back
					g := w.gone[r.Intn(len(w.gone))]
					if _, alive := w.live[g]; !alive {
						np = g
					}
				}
				if touched[np] {
					continue
				}
				lines := 1 + r.Intn(6)
				if r.Intn(8) == 0 && mode == "real" {
					h.Ops = append(h.Ops, Op{Op: "addbin", Path: np})
					w.live[np] = -1
				} else if r.Intn(9) == 0 { // a symbolic link: ` create mode 120000 path`, one added line (the target)
					h.Ops = append(h.Ops, Op{Op: "addlink", Path: np, Add: 1})
					w.live[np] = -1
				} else {
					h.Ops = append(h.Ops, Op{Op: "add", Path: np, Add: lines, Exec: r.Intn(5) == 0}) // an executable file: mode 100755
					w.live[np] = lines
				}
				touched[np] = true
			case touched[p]:
				continue
			case k <= 5 && w.live[p] > 0 && r.Intn(8) == 0: // only the executable bit changes
				h.Ops = append(h.Ops, Op{Op: "chmod", Path: p})
				touched[p] = true
			case k <= 5 && w.live[p] > 0:
				del := r.Intn(w.live[p])
				add := r.Intn(4)
				if add == 0 && del == 0 {
					add = 1
				}
				h.Ops = append(h.Ops, Op{Op: "modify", Path: p, Add: add, Del: del})
				w.live[p] += add - del
				touched[p] = true
			case k == 6:
				h.Ops = append(h.Ops, Op{Op: "delete", Path: p, Del: max0(w.live[p])})
				delete(w.live, p)
				w.gone = append(w.gone, p)
				touched[p] = true
			case k <= 8 && w.live[p] > 0 && !quotedByGit(p):
				var np string
				switch r.Intn(6) {
				case 4: // into the parent directory (git prints `dir/{sub => }/file`)
					d := strings.TrimSuffix(dirOf(p), "/")
					if k := strings.LastIndex(d, "/"); k >= 0 {
						np = d[:k+1] + baseOf(p)
					} else if d != "" && r.Intn(2) == 0 {
						np = baseOf(p) // out of a top-level directory to the root, same name (git prints `{docs => }/NOTES.md`)
					} else {
						np = fmt.Sprintf("up%d_%s", i, baseOf(p))
					}
				case 5: // into a new sub-directory (git prints `dir/{ => sub}/file`)
					np = dirOf(p) + fmt.Sprintf("sub%d/", i) + baseOf(p)
				case 0: // same directory
					np = dirOf(p) + fmt.Sprintf("renamed%d_%s", i, baseOf(p))
				case 1: // to the root
					np = fmt.Sprintf("root%d_%s", i, baseOf(p))
				case 2: // across directories, same base name
					np = dirs[1+r.Intn(len(dirs)-1)] + fmt.Sprintf("mv%d/", i) + baseOf(p)
				default:
					np = w.fresh()
				}
				if _, exists := w.live[np]; exists || touched[np] || np == p || quotedByGit(np) {
					continue
				}
				h.Ops = append(h.Ops, Op{Op: "rename", Path: p, To: np})
				w.live[np] = w.live[p]
				delete(w.live, p)
				w.gone = append(w.gone, p) // the freed name may be taken by a NEW file later (it is another file)
				touched[p], touched[np] = true, true
			default:
				continue
			}
		}
		if mode == "real" && !plain && i > 0 && len(h.Ops) > 0 && r.Intn(9) == 0 {
			h.Merge = true
		}
		c.History = append(c.History, h)
	}
	return c
}

func max0(x int) int {
	if x < 0 {
		return 0
	}
	return x
}

func dirOf(p string) string {
	for i := len(p) - 1; i >= 0; i-- {
		if p[i] == '/' {
			return p[:i+1]
		}
	}
	return ""
}

func baseOf(p string) string { return p[len(dirOf(p)):] }

// sortCase: files whose revision counts and author counts are anti-correlated (few revisions by many authors vs many
// revisions by one author), first-commit dates out of step with revision counts, and authors whose commit counts and
// line counts are anti-correlated: every sort key of the summaries is distinguishable from the neighbouring columns.
func sortCase(r *rand.Rand, id string, mode string) Case {
	c := Case{Case: id, Mode: mode}
	nf := 2 + r.Intn(3)
	files := []string{}
	day := 1
	commit := func(a int, subj int, ops ...Op) {
		day++
		c.History = append(c.History, Commit{Author: authors[a%len(authors)], Date: fmt.Sprintf("2021-%02d-%02d", 1+day/28, 1+day%28),
			Subject: subjects[subj], Cctype: cctypes[subj], Ops: ops})
	}
	// the file created LAST gets the most revisions; the one created first gets the most authors
	for i := 0; i < nf; i++ {
		files = append(files, fmt.Sprintf("%ss%d_%s", dirs[r.Intn(len(dirs))], i, bases[r.Intn(len(bases))]))
		commit(i, r.Intn(4), Op{Op: "add", Path: files[i], Add: 2 + r.Intn(3)})
	}
	for i := 0; i < nf; i++ {
		revs := 1 + i*2 // more revisions for later files
		for k := 0; k < revs; k++ {
			a := nf - 1 // one author
			if i == 0 {
				a = k + 1 // many authors on the first file
			}
			commit(a, r.Intn(4), Op{Op: "modify", Path: files[i], Add: 1 + r.Intn(2), Del: 0})
		}
	}
	for k := 0; k < 1+r.Intn(3); k++ { // extra authors on the first file, big deletions by a frequent committer
		commit(k+2, r.Intn(4), Op{Op: "modify", Path: files[0], Add: 1, Del: 0})
	}
	commit(nf-1, 0, Op{Op: "modify", Path: files[nf-1], Add: 0, Del: 2})
	return c
}

// manyFiles: a real history with 22-26 files and as many distinct authors; the command's tables are observed
func manyFiles(r *rand.Rand, id string) Case {
	c := Case{Case: id, Mode: "real", Tables: true}
	nf := 22 + r.Intn(5)
	for i := 0; i < nf; i++ {
		c.History = append(c.History, Commit{Author: fmt.Sprintf("Dev %02d", i), Date: fmt.Sprintf("2021-%02d-%02d", 1+i/28, 1+i%28),
			Subject: subjects[i%len(subjects)], Cctype: cctypes[i%len(subjects)],
			Ops: []Op{{Op: "add", Path: fmt.Sprintf("src/f%02d.txt", i), Add: 1 + r.Intn(4)}}})
	}
	// the first authors commit again after the last one has appeared (their counts grow after the author table has
	// reached its final size)
	for i := 0; i < 3+r.Intn(3); i++ {
		c.History = append(c.History, Commit{Author: fmt.Sprintf("Dev %02d", i), Date: fmt.Sprintf("2021-03-%02d", 1+i),
			Subject: subjects[i%4], Cctype: cctypes[i%4],
			Ops: []Op{{Op: "modify", Path: fmt.Sprintf("src/f%02d.txt", i), Add: 1 + r.Intn(2), Del: 0}}})
	}
	return c
}

// genOrder: half of the histories request their summaries in another order than the default one, a third of those
// request one of them twice
func genOrder(r *rand.Rand) []string {
	if r.Intn(2) == 0 {
		return []string{}
	}
	o := append([]string{}, defaultOrder...)
	r.Shuffle(len(o), func(i, j int) { o[i], o[j] = o[j], o[i] })
	if r.Intn(3) == 0 {
		o = append(o, o[r.Intn(len(o))])
	}
	return o
}

func gen(seed int64, n int, tier string) []interface{} {
	r := rand.New(rand.NewSource(seed))
	var out []interface{}
	for k := 0; k < n; k++ {
		if k%5 == 4 {
			mode := "synth"
			if k%10 == 9 {
				mode = "real"
			}
			sc := sortCase(r, fmt.Sprintf("sort-%d-%d", seed, k), mode)
			sc.Order = genOrder(r)
			out = append(out, sc)
			continue
		}
		mode := "real"
		if k%3 == 2 {
			mode = "synth"
		}
		if k%40 == 7 { // more files (and authors) than any default table size
			out = append(out, manyFiles(r, fmt.Sprintf("many-%d-%d", seed, k)))
			continue
		}
		h := genHistory(r, fmt.Sprintf("rand-%d-%d", seed, k), mode, k%4 == 0)
		h.Tables = mode == "real" && r.Intn(3) == 0
		h.Order = genOrder(r)
		h.Decoy = r.Intn(4) == 0
		h.KeepEmpty = mode == "synth" && r.Intn(2) == 0
		out = append(out, h)
	}
	return out
}
