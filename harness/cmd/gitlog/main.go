// Harness for commit-log parsing (C14) and the git summaries (C15).
//
// mode "real":  the abstract history is built with real git in a scratch repository, `coca git`
//
//	(the binary, i.e. the exact `git log` invocation of cmd/git.go) is run inside it and
//	coca_reporter/commits.json is projected; ground truth (order, abbreviated hashes,
//	numstat figures, path texts, create/delete modes) is read from git itself through
//	other, strictly delimited invocations.
//
// mode "synth": the commit list is rendered directly (git's rename notation included) and only the
//
//	summaries are exercised.
//
// In both modes the summaries are computed in-process by the real functions on the commit list.
package main

import (
	"bytes"
	"encoding/json"
	"fmt"
	"os"
	"os/exec"
	"path/filepath"
	"sort"
	"strconv"
	"strings"

	cocagit "github.com/modernizing/coca/pkg/application/git"

	"verifharness/lib"
)

type Op struct {
	Op   string `json:"op"` // add | modify | delete | rename | addbin | addlink (a symbolic link, mode 120000) | chmod
	Path string `json:"path"`
	To   string `json:"to"`
	Add  int    `json:"add"`
	Del  int    `json:"del"`
	// add: the file is created executable (git prints ` create mode 100755 path`, later ` delete mode 100755 path`);
	// chmod flips the executable bit (` mode change 100644 => 100755 path` or back)
	Exec bool `json:"exec"`
	// filled in by the harness: how git writes this rename ("brace" = dir/{a => b}/x, "arrow" = a => b), "" otherwise
	Notation string `json:"notation"`
}

type Commit struct {
	Author  string `json:"author"`
	Date    string `json:"date"`
	Subject string `json:"subject"`
	Cctype  string `json:"cctype"` // conventional-commit type of the subject ("" if it has none)
	Merge   bool   `json:"merge"`  // the ops are committed on a side branch which is then merged with --no-ff
	Ops     []Op   `json:"ops"`
}

type Case struct {
	Case    string   `json:"case"`
	Mode    string   `json:"mode"`
	History []Commit `json:"history"`
	// Tables (real mode): `coca git -t`, `coca git -a`, `coca git -o` are run as well and their printed tables recorded
	Tables bool `json:"tables"`
	// Order: the sequence in which the summaries are requested on ONE commit list in one process (names: team, top,
	// basic, age, changelog; a name may occur more than once, the last result counts). Empty = the default order.
	// The Reference has no variable a request could leave anything in: any order must give the same five results.
	Order []string `json:"order"`
	// Decoy: before the summaries of the parsed list are requested, the SAME slice (same backing array, same length) has
	// held another commit list - the same commits with authors, dates and paths altered - whose summaries were requested
	// too; the list is then overwritten in place. A program that fixes author spellings in its list and summarises again
	// does exactly this. The Reference has no variable an earlier list could leave anything in.
	Decoy bool `json:"decoy"`
	// KeepEmpty (synth): commits without any file change stay in the synthesised commit list (a list assembled by a program
	// may contain them; the log parser never produces them)
	KeepEmpty bool `json:"keepEmpty"`
}

type ChangeFact struct {
	File    string `json:"file"`
	Added   int    `json:"added"`
	Deleted int    `json:"deleted"`
	Mode    string `json:"mode"`
}

type CommitFact struct {
	Rev     string       `json:"rev"`
	Author  string       `json:"author"`
	Date    string       `json:"date"`
	Subject string       `json:"subject"`
	Merge   bool         `json:"merge"`
	Changes []ChangeFact `json:"changes"`
	Hist    int          `json:"hist"` // index (1-based) of the abstract history entry, 0 for the merge commit itself
}

type TeamObs struct {
	Name    string `json:"name"`
	Authors int    `json:"authors"`
	Revs    int    `json:"revs"`
}
type TopObs struct {
	Name    string `json:"name"`
	Commits int    `json:"commits"`
	Lines   int    `json:"lines"`
}
type AgeObs struct {
	Name string `json:"name"`
	Date string `json:"date"`
	Day  int    `json:"day"` // days since the epoch (TLC cannot order strings)
}
type LogObs struct {
	Type  string `json:"type"`
	File  string `json:"file"`
	Count int    `json:"count"`
}
type BasicObs struct {
	Commits  int `json:"commits"`
	Entities int `json:"entities"`
	Changes  int `json:"changes"`
	Authors  int `json:"authors"`
}
type CommitObs struct {
	Rev     string       `json:"rev"`
	Author  string       `json:"author"`
	Date    string       `json:"date"`
	Msg     string       `json:"msg"`
	Changes []ChangeFact `json:"changes"`
}
type Obs struct {
	Panic     bool        `json:"panic"`
	CliFailed bool        `json:"cliFailed"`
	Commits   []CommitObs `json:"commits"`
	Team      []TeamObs   `json:"team"`
	Top       []TopObs    `json:"top"`
	Basic     BasicObs    `json:"basic"`
	Age       []AgeObs    `json:"age"`
	Changelog []LogObs    `json:"changelog"`
	Cli       CliTables   `json:"cli"`
	Note      string      `json:"note,omitempty"`
}

// CliTables: the rows of the tables the command prints (one invocation per table: a shared table object makes a
// combined invocation repeat the earlier tables' rows)
type CliTables struct {
	Ran  bool      `json:"ran"`
	Ok   bool      `json:"ok"` // all three invocations succeeded and their output had the shape of a table
	Team []TeamObs `json:"team"`
	Age  []string  `json:"age"`
	Top  []TopObs  `json:"top"`
}

type Record struct {
	Case    string       `json:"case"`
	Mode    string       `json:"mode"`
	History []Commit     `json:"history"`
	Facts   []CommitFact `json:"facts"`
	Order   []string     `json:"order"`
	// KeepEmpty: the list handed to the summaries contains the commits without changes too (synth mode only)
	KeepEmpty bool `json:"keepEmpty"`
	Observed  Obs  `json:"observed"`
}

func emptyObs() Obs {
	return Obs{Commits: []CommitObs{}, Team: []TeamObs{}, Top: []TopObs{}, Age: []AgeObs{}, Changelog: []LogObs{},
		Cli: CliTables{Team: []TeamObs{}, Age: []string{}, Top: []TopObs{}}}
}

// ---------------------------------------------------------------- real git

type repo struct {
	dir  string
	seq  int
	line int
	tick int // commit timestamps strictly increase so that log order = history order
}

func (r *repo) git(env []string, args ...string) string {
	cmd := exec.Command("git", args...)
	cmd.Dir = r.dir
	cmd.Env = append(os.Environ(), "GIT_CONFIG_NOSYSTEM=1", "HOME="+r.dir, "GIT_TERMINAL_PROMPT=0", "LC_ALL=C.UTF-8")
	cmd.Env = append(cmd.Env, env...)
	out, err := cmd.CombinedOutput()
	if err != nil {
		panic(fmt.Sprintf("harness: git %v: %v\n%s", args, err, out))
	}
	return string(out)
}

func (r *repo) newLines(n int) []string {
	var ls []string
	for i := 0; i < n; i++ {
		r.line++
		ls = append(ls, fmt.Sprintf("line %d of the generated content", r.line))
	}
	return ls
}

func (r *repo) apply(op Op) {
	p := filepath.Join(r.dir, filepath.FromSlash(op.Path))
	switch op.Op {
	case "add":
		os.MkdirAll(filepath.Dir(p), 0o755)
		os.WriteFile(p, []byte(strings.Join(r.newLines(op.Add), "\n")+"\n"), 0o644)
		if op.Exec {
			os.Chmod(p, 0o755)
		}
	case "addbin":
		os.MkdirAll(filepath.Dir(p), 0o755)
		r.seq++
		os.WriteFile(p, []byte{0, 1, 2, byte(r.seq), 0, 255, 0}, 0o644)
	case "addlink":
		os.MkdirAll(filepath.Dir(p), 0o755)
		r.seq++ // every link has its own target: two links with one content, one deleted and one created by the same commit, are a rename to git
		if err := os.Symlink(fmt.Sprintf("target %d of the link", r.seq), p); err != nil {
			panic("harness: symlink: " + err.Error())
		}
	case "modify":
		b, err := os.ReadFile(p)
		if err != nil {
			panic("harness: modify of missing file " + op.Path)
		}
		ls := strings.Split(strings.TrimSuffix(string(b), "\n"), "\n")
		if op.Del > len(ls) {
			panic("harness: cannot delete that many lines")
		}
		ls = append(ls[op.Del:], r.newLines(op.Add)...)
		os.WriteFile(p, []byte(strings.Join(ls, "\n")+"\n"), 0o644) // an existing file keeps its mode bits
	case "delete":
		r.git(nil, "rm", "-q", "--", op.Path)
	case "rename":
		os.MkdirAll(filepath.Dir(filepath.Join(r.dir, filepath.FromSlash(op.To))), 0o755)
		r.git(nil, "mv", "--", op.Path, op.To)
	case "chmod":
		st, err := os.Stat(p)
		if err != nil {
			panic("harness: chmod of missing file " + op.Path)
		}
		if st.Mode()&0o100 != 0 {
			os.Chmod(p, 0o644)
		} else {
			os.Chmod(p, 0o755)
		}
	default:
		panic("harness: unknown op " + op.Op)
	}
}

// dates: the author date is the abstract history's date (it need not increase along the log: a rebased commit keeps
// the day it was written on); the committer date is another clock, years later and strictly increasing with the log
// (a commit is committed - rebased, applied from a mail - on another day than it was written), so that the two dates
// of a commit never coincide and the log order is the history order.
func (r *repo) dates(day, author string) []string {
	k := r.tick // number of commits made so far, this one included
	ad := fmt.Sprintf("%sT%02d:%02d:00+0000", day, 8+(k/60)%12, k%60)
	cd := fmt.Sprintf("%04d-%02d-%02dT12:00:00+0000", 2031+k/336, 1+(k/28)%12, 1+k%28)
	return []string{"GIT_AUTHOR_NAME=" + author, "GIT_AUTHOR_EMAIL=a@example.org", "GIT_COMMITTER_NAME=Release Bot 9",
		"GIT_COMMITTER_EMAIL=a@example.org", "GIT_AUTHOR_DATE=" + ad, "GIT_COMMITTER_DATE=" + cd}
}

func (r *repo) commit(c Commit) {
	for _, op := range c.Ops {
		r.apply(op)
	}
	r.git(nil, "add", "-A")
	r.tick++
	env := r.dates(c.Date, c.Author)
	r.git(env, "commit", "-q", "--allow-empty", "-m", c.Subject)
}

func buildReal(c Case, scratch string) (string, []CommitFact) {
	r := &repo{dir: filepath.Join(scratch, "repo")}
	os.MkdirAll(r.dir, 0o755)
	r.git(nil, "init", "-q", "-b", "main", ".")
	r.git(nil, "config", "commit.gpgsign", "false")
	r.git(nil, "config", "core.autocrlf", "false")
	subjectOf := map[string]int{}
	for i, h := range c.History {
		if h.Merge {
			r.git(nil, "checkout", "-q", "-b", fmt.Sprintf("side%d", i))
			r.commit(h)
			r.git(nil, "checkout", "-q", "main")
			r.tick++
			env := r.dates(h.Date, h.Author)
			r.git(env, "merge", "-q", "--no-ff", "-m", "Merge side branch", fmt.Sprintf("side%d", i))
		} else {
			r.commit(h)
		}
		full := strings.TrimSpace(r.git(nil, "rev-parse", "HEAD"))
		if h.Merge {
			full = strings.TrimSpace(r.git(nil, "rev-parse", "HEAD^2"))
		}
		subjectOf[full] = i + 1
	}
	// ground truth from git itself (not from the invocation under test)
	var facts []CommitFact
	for _, ln := range strings.Split(strings.TrimSpace(r.git(nil, "log", "--reverse", "--format=%H%x09%h%x09%P%x09%aN%x09%ad%x09%s", "--date=short")), "\n") {
		f := strings.SplitN(ln, "\t", 6)
		cf := CommitFact{Rev: f[1], Author: f[3], Date: f[4], Subject: f[5], Merge: strings.Contains(f[2], " "), Changes: []ChangeFact{}, Hist: subjectOf[f[0]]}
		if !cf.Merge {
			out := r.git(nil, "show", "--numstat", "--summary", "--format=", "-M", f[0])
			byPath := map[string]int{}
			for _, l := range strings.Split(out, "\n") {
				if l == "" {
					continue
				}
				if l[0] != ' ' {
					p := strings.SplitN(l, "\t", 3)
					if len(p) != 3 {
						panic("harness: unexpected numstat line: " + l)
					}
					ch := ChangeFact{File: p[2]}
					fmt.Sscanf(p[0], "%d", &ch.Added)
					fmt.Sscanf(p[1], "%d", &ch.Deleted)
					byPath[p[2]] = len(cf.Changes)
					cf.Changes = append(cf.Changes, ch)
					continue
				}
				for _, m := range []string{"create", "delete"} {
					pre := " " + m + " mode "
					if strings.HasPrefix(l, pre) && len(l) > len(pre)+7 {
						path := l[len(pre)+7:]
						if k, ok := byPath[path]; ok {
							cf.Changes[k].Mode = m
						}
					}
				}
			}
		}
		facts = append(facts, cf)
	}
	return r.dir, facts
}

// ---------------------------------------------------------------- synthetic commit lists

// git's rename notation (diff.c pprint_rename): common leading directories and common trailing part.
func renameNotation(a, b string) string {
	lenA, lenB := len(a), len(b)
	pfx := 0
	for i := 0; i < lenA && i < lenB && a[i] == b[i]; i++ {
		if a[i] == '/' {
			pfx = i + 1
		}
	}
	adj := 0
	if pfx > 0 {
		adj = 1
	}
	sfx := 0
	// indexes walk back from the terminating position (one past the end compares equal, like the NUL in C)
	oi, ni := lenA, lenB
	at := func(s string, i int) byte {
		if i == len(s) {
			return 0
		}
		return s[i]
	}
	for pfx-adj <= oi && pfx-adj <= ni && oi >= 0 && ni >= 0 && at(a, oi) == at(b, ni) {
		if at(a, oi) == '/' {
			sfx = lenA - oi
		}
		oi--
		ni--
	}
	amid := lenA - pfx - sfx
	bmid := lenB - pfx - sfx
	if amid < 0 {
		amid = 0
	}
	if bmid < 0 {
		bmid = 0
	}
	if pfx+sfx == 0 {
		return a + " => " + b
	}
	return a[:pfx] + "{" + a[pfx:pfx+amid] + " => " + b[pfx:pfx+bmid] + "}" + a[lenA-sfx:]
}

func buildSynth(c Case) ([]cocagit.CommitMessage, []CommitFact) {
	var msgs []cocagit.CommitMessage
	var facts []CommitFact
	for i, h := range c.History {
		rev := fmt.Sprintf("abc%04d", i+1)
		cf := CommitFact{Rev: rev, Author: h.Author, Date: h.Date, Subject: h.Subject, Changes: []ChangeFact{}, Hist: i + 1}
		cm := cocagit.CommitMessage{Rev: rev, Author: h.Author, Date: h.Date, Message: h.Subject}
		for _, op := range h.Ops {
			ch := ChangeFact{File: op.Path, Added: op.Add, Deleted: op.Del}
			switch op.Op {
			case "add":
				ch.Mode = "create"
			case "delete":
				ch.Mode = "delete"
			case "rename":
				ch.File = renameNotation(op.Path, op.To)
				ch.Added, ch.Deleted = 0, 0
			case "addbin":
				ch.Mode = "create"
				ch.Added, ch.Deleted = 0, 0
			case "addlink":
				ch.Mode = "create"
				ch.Added, ch.Deleted = 1, 0
			}
			cf.Changes = append(cf.Changes, ch)
			cm.Changes = append(cm.Changes, cocagit.FileChange{Added: ch.Added, Deleted: ch.Deleted, File: ch.File, Mode: ch.Mode})
		}
		if len(cm.Changes) > 0 || c.KeepEmpty {
			msgs = append(msgs, cm)
		}
		facts = append(facts, cf)
	}
	return msgs, facts
}

// ---------------------------------------------------------------- observation

var defaultOrder = []string{"team", "top", "basic", "age", "changelog"}

func summaries(o *Obs, msgs []cocagit.CommitMessage, order []string) {
	seen := map[string]bool{}
	for _, s := range order {
		seen[s] = true
	}
	for _, s := range defaultOrder { // every summary is computed at least once
		if !seen[s] {
			order = append(order, s)
		}
	}
	for _, s := range order {
		switch s {
		case "team":
			o.Team = []TeamObs{}
			for _, t := range cocagit.GetTeamSummary(msgs) {
				o.Team = append(o.Team, TeamObs{unquoteGit(t.EntityName), t.AuthorCount, t.RevsCount})
			}
		case "top":
			o.Top = []TopObs{}
			for _, t := range cocagit.GetTopAuthors(msgs) {
				o.Top = append(o.Top, TopObs{t.Name, t.CommitCount, t.LineCount})
			}
		case "basic":
			b := cocagit.BasicSummary(msgs)
			o.Basic = BasicObs{b.Commits, b.Entities, b.Changes, b.Authors}
		case "age":
			o.Age = []AgeObs{}
			for _, a := range cocagit.CalculateCodeAge(msgs) {
				o.Age = append(o.Age, AgeObs{unquoteGit(a.EntityName), a.Age.Format("2006-01-02"), int(a.Age.Unix() / 86400)})
			}
		case "changelog":
			o.Changelog = []LogObs{}
			cl := cocagit.BuildChangeMap(msgs)
			for typ, m := range cl {
				for f, n := range m {
					o.Changelog = append(o.Changelog, LogObs{typ, unquoteGit(f), n})
				}
			}
			sort.Slice(o.Changelog, func(i, j int) bool {
				if o.Changelog[i].Type != o.Changelog[j].Type {
					return o.Changelog[i].Type < o.Changelog[j].Type
				}
				return o.Changelog[i].File < o.Changelog[j].File
			})
		default:
			panic("harness: unknown summary " + s)
		}
	}
}

func norm(c *Case) {
	if c.Order == nil {
		c.Order = []string{}
	}
	for i := range c.History {
		if c.History[i].Ops == nil {
			c.History[i].Ops = []Op{}
		}
		for j := range c.History[i].Ops {
			op := &c.History[i].Ops[j]
			op.Notation = ""
			if op.Op == "rename" {
				if strings.Contains(renameNotation(op.Path, op.To), "{") {
					op.Notation = "brace"
				} else {
					op.Notation = "arrow"
				}
			}
		}
	}
}

func one(raw json.RawMessage) interface{} {
	var c Case
	if err := json.Unmarshal(raw, &c); err != nil {
		panic(err)
	}
	norm(&c)
	rec := Record{Case: c.Case, Mode: c.Mode, History: c.History, Facts: []CommitFact{}, Order: c.Order, KeepEmpty: c.KeepEmpty && c.Mode == "synth", Observed: emptyObs()}
	scratch, err := os.MkdirTemp(os.Getenv("VERIF_SCRATCH"), "git-")
	if err != nil {
		panic(err)
	}
	defer os.RemoveAll(scratch)
	var msgs []cocagit.CommitMessage
	if c.Mode == "synth" {
		msgs, rec.Facts = buildSynth(c)
	} else {
		dir, facts := buildReal(c, scratch)
		rec.Facts = facts
		coca := os.Getenv("VERIF_COCA")
		cmd := exec.Command(coca, "git")
		cmd.Dir = dir
		// a third of the repositories are analysed from inside one of their directories (the log is the log of the whole
		// repository wherever the command is started)
		reporter := dir
		if h := len(c.Case) + len(c.History); h%3 == 1 {
			if ents, err := os.ReadDir(dir); err == nil {
				for _, e := range ents {
					if e.IsDir() && e.Name() != ".git" && e.Name() != "coca_reporter" {
						cmd.Dir = filepath.Join(dir, e.Name())
						reporter = cmd.Dir
						break
					}
				}
			}
		}
		tmp := filepath.Join(scratch, "tmp")
		os.MkdirAll(tmp, 0o755)
		cmd.Env = append(os.Environ(), "TMPDIR="+tmp, "HOME="+dir, "GIT_CONFIG_NOSYSTEM=1", "LC_ALL=C.UTF-8")
		out, err := cmd.CombinedOutput()
		if err != nil {
			rec.Observed.CliFailed = true
			rec.Observed.Note = tailStr(string(out), 400)
			return rec
		}
		b, err := os.ReadFile(filepath.Join(reporter, "coca_reporter", "commits.json"))
		if err != nil {
			rec.Observed.CliFailed = true
			rec.Observed.Note = "no commits.json: " + tailStr(string(out), 300)
			return rec
		}
		if err := json.Unmarshal(b, &msgs); err != nil {
			rec.Observed.CliFailed = true
			rec.Observed.Note = "commits.json does not parse"
			return rec
		}
	}
	if c.Mode != "synth" && c.Tables {
		rec.Observed.Cli = cliTables(os.Getenv("VERIF_COCA"), filepath.Join(scratch, "repo"), filepath.Join(scratch, "tmp"))
	}
	for _, m := range msgs {
		co := CommitObs{Rev: m.Rev, Author: m.Author, Date: m.Date, Msg: m.Message, Changes: []ChangeFact{}}
		for _, ch := range m.Changes {
			co.Changes = append(co.Changes, ChangeFact{ch.File, ch.Added, ch.Deleted, ch.Mode})
		}
		rec.Observed.Commits = append(rec.Observed.Commits, co)
	}
	p, msg := lib.Guard(func() {
		if c.Decoy && len(msgs) > 0 {
			real := make([]cocagit.CommitMessage, len(msgs))
			for i := range msgs {
				real[i] = msgs[i]
				real[i].Changes = append([]cocagit.FileChange{}, msgs[i].Changes...)
			}
			for i := range msgs { // the decoy: other authors, other days, other paths, in the very same slice
				msgs[i].Author = "Decoy " + msgs[(i+1)%len(msgs)].Author
				msgs[i].Date = "2001-02-03"
				ch := make([]cocagit.FileChange, len(msgs[i].Changes))
				for j, x := range msgs[i].Changes {
					x.File = "decoy/" + x.File
					ch[j] = x
				}
				msgs[i].Changes = ch
			}
			var scratchObs Obs
			summaries(&scratchObs, msgs, append([]string{}, c.Order...))
			for i := range msgs {
				msgs[i] = real[i]
			}
		}
		summaries(&rec.Observed, msgs, append([]string{}, c.Order...))
	})
	if p {
		commits := rec.Observed.Commits
		rec.Observed = emptyObs()
		rec.Observed.Commits = commits
		rec.Observed.Panic = true
		rec.Observed.Note = msg
	}
	return rec
}

// cliTables runs the three table commands in the repository and reads the printed rows
func cliTables(coca, dir, tmp string) CliTables {
	t := CliTables{Ran: true, Ok: true, Team: []TeamObs{}, Age: []string{}, Top: []TopObs{}}
	rows := func(flag string, ncol int) [][]string {
		cmd := exec.Command(coca, "git", flag)
		cmd.Dir = dir
		cmd.Env = append(os.Environ(), "TMPDIR="+tmp, "HOME="+dir, "GIT_CONFIG_NOSYSTEM=1", "LC_ALL=C.UTF-8")
		var so bytes.Buffer
		cmd.Stdout = &so
		if err := cmd.Run(); err != nil {
			t.Ok = false
			return nil
		}
		var out [][]string
		seenHeader := false
		for _, ln := range strings.Split(so.String(), "\n") {
			if !strings.HasPrefix(ln, "|") {
				continue
			}
			if strings.HasPrefix(ln, "|--") {
				continue
			}
			cells := strings.Split(strings.Trim(ln, "|"), "|")
			for i := range cells {
				cells[i] = strings.TrimSpace(cells[i])
			}
			if !seenHeader {
				seenHeader = true
				continue
			}
			if len(cells) != ncol {
				t.Ok = false
				continue
			}
			out = append(out, cells)
		}
		if !seenHeader {
			t.Ok = false
		}
		return out
	}
	atoi := func(s string) int {
		n, err := strconv.Atoi(s)
		if err != nil {
			t.Ok = false
		}
		return n
	}
	for _, r := range rows("-t", 3) {
		t.Team = append(t.Team, TeamObs{Name: unquoteGit(r[0]), Revs: atoi(r[1]), Authors: atoi(r[2])})
	}
	for _, r := range rows("-a", 2) {
		t.Age = append(t.Age, unquoteGit(r[0]))
	}
	for _, r := range rows("-o", 3) {
		t.Top = append(t.Top, TopObs{Name: r[0], Commits: atoi(r[1]), Lines: atoi(r[2])})
	}
	return t
}

// unquoteGit: a path with bytes outside printable ASCII is printed by git (default core.quotepath) as a C-style quoted
// string ("na\303\257ve.txt"); the summaries name files by whatever the log printed, and the abstract identity of a file
// is its path - this is the projection from the one to the other (the commit list itself is compared as printed)
func unquoteGit(s string) string {
	if len(s) < 2 || s[0] != '"' || s[len(s)-1] != '"' {
		return s
	}
	in := s[1 : len(s)-1]
	var out []byte
	for i := 0; i < len(in); i++ {
		if in[i] != '\\' || i+1 >= len(in) {
			out = append(out, in[i])
			continue
		}
		i++
		switch c := in[i]; {
		case c >= '0' && c <= '7' && i+2 < len(in):
			v := 0
			for k := 0; k < 3 && i+k < len(in); k++ {
				v = v*8 + int(in[i+k]-'0')
			}
			out = append(out, byte(v))
			i += 2
		case c == 't':
			out = append(out, '\t')
		case c == 'n':
			out = append(out, '\n')
		default:
			out = append(out, c)
		}
	}
	return string(out)
}

func tailStr(s string, n int) string {
	if len(s) > n {
		return s[len(s)-n:]
	}
	return s
}

func abnormal(raw json.RawMessage, timeout bool, stderr string) interface{} {
	var c Case
	json.Unmarshal(raw, &c)
	norm(&c)
	rec := Record{Case: c.Case, Mode: c.Mode, History: c.History, Facts: []CommitFact{}, Order: c.Order, KeepEmpty: c.KeepEmpty && c.Mode == "synth", Observed: emptyObs()}
	rec.Observed.Panic = true
	rec.Observed.Note = "process died: " + tailStr(stderr, 300)
	return rec
}

func main() {
	lib.Main(lib.Handler{One: one, Gen: gen, Abnormal: abnormal})
}
