package main

import (
	"fmt"
	"math/rand"
	"strings"
)

// Direction (B): seeded random abstract models, wider than TLC's constants: up to 12 types,
// package paths of depth 0..5 over a segment alphabet whose concatenations collide
// (a, b, ab, bb, ...), relations of every kind to project types, to types that are absent
// from the model (in project packages and elsewhere), to Main classes and to the type itself,
// `main` methods, include filters and the four merge settings; a share of the cases goes
// through the coca binary.
//
// Kept outside (see ArchRef, Free_*): a type named like a sibling package segment, package
// segment "main", names containing '.', ',' or quotes, more than 6 package segments.

var segsCollide = []string{"a", "b", "ab", "bb"}
var segsPlain = []string{"com", "phodal", "core", "domain", "infra", "api", "util", "a", "b", "ab", "bb", "ba", "x1", "p_q", "数据"}
var typeNames = []string{"A", "B", "AB", "BB", "C", "Repo", "Service", "Entity", "Main", "Main", "Ab", "A1", "Ledge", "Boot", "Väl", "T$1",
	"AppMain", "MainApp", "main", "Mai"}
var methodNames = []string{"run", "get", "main", "main", "apply", "Main", "mainLoop", "domain", "mai"}

func pick(r *rand.Rand, xs []string) string { return xs[r.Intn(len(xs))] }

func gen(seed int64, n int, tier string) []interface{} {
	r := rand.New(rand.NewSource(seed*7919 + 13))
	var out []interface{}
	for k := 0; k < n; k++ {
		style := r.Intn(5) // 0 collide-flat, 1 collide-deep, 2 plain, 3 dense small, 4 mixed with default package
		var segs []string
		maxDepth := 1
		switch style {
		case 0:
			segs, maxDepth = segsCollide, 1
		case 1:
			segs, maxDepth = segsCollide, 3
		case 2:
			segs, maxDepth = segsPlain, 5
		case 3:
			segs, maxDepth = segsCollide, 2
		default:
			segs, maxDepth = segsPlain, 3
		}
		// packages
		np := 1 + r.Intn(5)
		var pkgs [][]string
		for len(pkgs) < np {
			d := 1 + r.Intn(maxDepth)
			if style == 4 && r.Intn(5) == 0 {
				d = 0
			}
			p := []string{}
			if len(pkgs) > 0 && r.Intn(3) == 0 { // extend an existing package: nested packages
				p = append(p, pkgs[r.Intn(len(pkgs))]...)
				if len(p) < 5 {
					p = append(p, pick(r, segs))
				}
			} else {
				for i := 0; i < d; i++ {
					p = append(p, pick(r, segs))
				}
			}
			pkgs = append(pkgs, p)
		}
		// types
		nt := 2 + r.Intn(5)
		if r.Intn(5) == 0 {
			nt = 6 + r.Intn(7)
		}
		if style == 3 {
			nt = 3 + r.Intn(3)
		}
		var types []Type
		seen := map[string]bool{}
		full := func(t Type) string { return strings.Join(t.Pkg, ".") + "." + t.Name }
		for tries := 0; len(types) < nt && tries < 200; tries++ {
			t := Type{Pkg: append([]string{}, pkgs[r.Intn(len(pkgs))]...), Name: pick(r, typeNames),
				Impls: []string{}, Fields: []Target{}, Methods: []Method{}}
			if seen[full(t)] {
				continue
			}
			seen[full(t)] = true
			types = append(types, t)
		}
		// relation targets
		anyTarget := func() Target {
			switch x := r.Intn(20); {
			case x < 13: // a project type
				t := types[r.Intn(len(types))]
				return Target{Pkg: strings.Join(t.Pkg, "."), Node: t.Name}
			case x < 15: // absent type in a project package
				t := types[r.Intn(len(types))]
				return Target{Pkg: strings.Join(t.Pkg, "."), Node: pick(r, []string{"Absent", "Gone", "Main"})}
			case x < 17: // external library type
				return Target{Pkg: pick(r, []string{"java.util", "x", "org.spring.web", "ab"}), Node: pick(r, []string{"List", "E", "Boot"})}
			case x < 18: // absent type in a sub- or super-package of a project package
				t := types[r.Intn(len(types))]
				p := append([]string{}, t.Pkg...)
				if len(p) > 1 && r.Intn(2) == 0 {
					p = p[:len(p)-1]
				} else {
					p = append(p, pick(r, segs))
				}
				return Target{Pkg: strings.Join(p, "."), Node: "Near"}
			default: // unresolved
				return Target{Pkg: "", Node: pick(r, []string{"List", "String", "T"})}
			}
		}
		asString := func(t Target) string {
			if t.Pkg == "" && r.Intn(2) == 0 {
				return t.Node // a bare, unresolved supertype name
			}
			return t.Pkg + "." + t.Node
		}
		density := 1 + r.Intn(3)
		if style == 3 {
			density = 3 + r.Intn(3)
		}
		for i := range types {
			t := &types[i]
			self := Target{Pkg: strings.Join(t.Pkg, "."), Node: t.Name}
			for j := r.Intn(density + 1); j > 0; j-- {
				switch r.Intn(7) {
				case 0:
					t.Impls = append(t.Impls, asString(anyTarget()))
				case 1:
					t.Ext = asString(anyTarget())
				case 2, 3:
					f := anyTarget()
					if r.Intn(10) == 0 {
						f = self
					}
					t.Fields = append(t.Fields, f)
				default:
					// a method with 1..3 calls
					m := Method{Name: pick(r, methodNames), Calls: []Target{}}
					for c := 1 + r.Intn(3); c > 0; c-- {
						tg := anyTarget()
						if r.Intn(8) == 0 {
							tg = self
						}
						m.Calls = append(m.Calls, tg)
					}
					t.Methods = append(t.Methods, m)
				}
			}
			if r.Intn(12) == 0 {
				t.Methods = append(t.Methods, Method{Name: "idle", Calls: []Target{}})
			}
		}
		// configuration
		in := Input{Types: types, Filter: []string{}, Via: "api"}
		switch x := r.Intn(10); {
		case x < 3:
		case x < 6:
			in.MergeH = true
		case x < 9:
			in.MergeP = true
		default:
			in.MergeH, in.MergeP = true, true
		}
		if r.Intn(5) < 3 {
			nf := 1 + r.Intn(2)
			for i := 0; i < nf; i++ {
				t := types[r.Intn(len(types))]
				var f string
				switch r.Intn(8) {
				case 0:
					f = t.Name
				case 1:
					if len(t.Pkg) > 0 {
						f = t.Pkg[r.Intn(len(t.Pkg))]
					} else {
						f = "."
					}
				case 2:
					f = strings.Join(t.Pkg, ".")
				case 3:
					f = strings.Join(t.Pkg, ".") + "." + t.Name
				case 4:
					f = "." + t.Name
				case 5:
					f = pick(r, segs)
				case 6:
					f = "zz.none"
				default:
					if len(t.Pkg) > 0 {
						f = t.Pkg[0] + "."
					} else {
						f = ""
					}
				}
				in.Filter = append(in.Filter, f)
				in.Pre = r.Intn(2) == 0
			}
		}
		if r.Intn(4) == 0 {
			in.Via = "cli"
		}
		out = append(out, Case{Case: fmt.Sprintf("rand-%d-%d", seed, k), Input: in})
	}
	return out
}
