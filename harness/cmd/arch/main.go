// Harness for the architecture graph (C13): ArchApp.Analysis, FullGraph.MergeHeaderFile,
// FullGraph.ToMapDot and the `coca arch` command.
//
// Renders an abstract code model (types over package paths with implements / extends /
// field / call relations, an include filter and the two merge switches) into the real
// model structs (or deps.json + identify.json for the CLI), drives the real code and
// projects the graphs and the DOT text into abstract observations. It holds no expected
// values: ArchRef!Diff, evaluated by TLC on the trace, is the only judge.
package main

import (
	"encoding/json"
	"os"
	"os/exec"
	"path/filepath"
	"sort"
	"strings"

	"github.com/modernizing/coca/pkg/application/arch"
	"github.com/modernizing/coca/pkg/application/arch/tequila"
	"github.com/modernizing/coca/pkg/domain/core_domain"

	"verifharness/lib"
)

type Target struct {
	Pkg  string `json:"pkg"`
	Node string `json:"node"`
}

type Method struct {
	Name  string   `json:"name"`
	Calls []Target `json:"calls"`
}

type Type struct {
	Pkg     []string `json:"pkg"` // package path as segments; [] = default package
	Name    string   `json:"name"`
	Impls   []string `json:"impls"` // full names as they stand in the model
	Ext     string   `json:"ext"`   // "" = none
	Fields  []Target `json:"fields"`
	Methods []Method `json:"methods"`
}

type Input struct {
	Types  []Type   `json:"types"`
	Filter []string `json:"filter"` // include filter: substrings; [] = everything
	MergeH bool     `json:"mergeH"`
	MergeP bool     `json:"mergeP"`
	Via    string   `json:"via"` // "api" | "cli"
	// Pre: (api only) the same FullGraph object is first rendered once with the all-inclusive view, the output is
	// discarded, then the judged render follows: a render must not depend on an earlier render of the same graph
	Pre bool `json:"pre"`
}

type Case struct {
	Case  string `json:"case"`
	Input Input  `json:"input"`
}

type Graph struct {
	Nodes     []string    `json:"nodes"`
	Relations [][2]string `json:"relations"`
}

type Obs struct {
	Panic    bool   `json:"panic"`
	HasGraph bool   `json:"hasGraph"` // graph / final observed (in-process runs only)
	Graph    Graph  `json:"graph"`    // result of ArchApp.Analysis
	Final    Graph  `json:"final"`    // the graph handed to ToMapDot (after the requested merges)
	Dot      Dot    `json:"dot"`
	Note     string `json:"note,omitempty"`
	RawDot   string `json:"raw_dot,omitempty"`
}

type Record struct {
	Case     string `json:"case"`
	Input    Input  `json:"input"`
	Observed Obs    `json:"observed"`
}

func emptyGraph() Graph { return Graph{Nodes: []string{}, Relations: [][2]string{}} }
func emptyObs() Obs {
	return Obs{Graph: emptyGraph(), Final: emptyGraph(), Dot: Dot{Nodes: []DotNode{}, Edges: [][2]string{}}}
}

func normalize(in *Input) {
	if in.Types == nil {
		in.Types = []Type{}
	}
	if in.Filter == nil {
		in.Filter = []string{}
	}
	if in.Via == "" {
		in.Via = "api"
	}
	for i := range in.Types {
		t := &in.Types[i]
		if t.Pkg == nil {
			t.Pkg = []string{}
		}
		if t.Impls == nil {
			t.Impls = []string{}
		}
		if t.Fields == nil {
			t.Fields = []Target{}
		}
		if t.Methods == nil {
			t.Methods = []Method{}
		}
		for j := range t.Methods {
			if t.Methods[j].Calls == nil {
				t.Methods[j].Calls = []Target{}
			}
		}
	}
}

// ---------------------------------------------------------------- render: abstract model -> model structs

func buildDeps(in Input) []core_domain.CodeDataStruct {
	deps := []core_domain.CodeDataStruct{}
	for _, t := range in.Types {
		d := core_domain.CodeDataStruct{NodeName: t.Name, Package: strings.Join(t.Pkg, "."), Type: "Class"}
		d.Implements = append([]string{}, t.Impls...)
		d.Extend = t.Ext
		for _, f := range t.Fields {
			d.FunctionCalls = append(d.FunctionCalls, core_domain.CodeCall{Package: f.Pkg, NodeName: f.Node, Type: "field"})
		}
		for _, m := range t.Methods {
			fn := core_domain.CodeFunction{Name: m.Name}
			for _, c := range m.Calls {
				fn.FunctionCalls = append(fn.FunctionCalls, core_domain.CodeCall{Package: c.Pkg, NodeName: c.Node, FunctionName: "run"})
			}
			d.Functions = append(d.Functions, fn)
		}
		deps = append(deps, d)
	}
	return deps
}

// ---------------------------------------------------------------- project: graph -> abstract

func projectGraph(g *tequila.FullGraph) Graph {
	out := emptyGraph()
	if g == nil {
		return out
	}
	for k := range g.NodeList {
		out.Nodes = append(out.Nodes, k)
	}
	sort.Strings(out.Nodes)
	for _, r := range g.RelationList {
		if r == nil {
			continue
		}
		out.Relations = append(out.Relations, [2]string{r.From, r.To})
	}
	sort.Slice(out.Relations, func(i, j int) bool {
		if out.Relations[i][0] != out.Relations[j][0] {
			return out.Relations[i][0] < out.Relations[j][0]
		}
		return out.Relations[i][1] < out.Relations[j][1]
	})
	return out
}

// ---------------------------------------------------------------- drive

// in-process: the body of `coca arch` (cmd/arch.go) on model structs
func runAPI(in Input) Obs {
	o := emptyObs()
	deps := buildDeps(in)
	p, msg := lib.Guard(func() {
		identifiersMap := core_domain.BuildIdentifierMap(deps)
		result := arch.NewArchApp().Analysis(deps, identifiersMap)
		o.Graph = projectGraph(result)

		filter := strings.Split(strings.Join(in.Filter, ","), ",")
		nodeFilter := func(key string) bool {
			for _, f := range filter {
				if strings.Contains(key, f) {
					return true
				}
			}
			return false
		}
		if in.MergeH {
			result = result.MergeHeaderFile(tequila.MergeHeaderFunc)
		}
		if in.MergeP {
			result = result.MergeHeaderFile(tequila.MergePackageFunc)
		}
		o.Final = projectGraph(result)
		o.HasGraph = true
		if in.Pre {
			_ = result.ToMapDot(func(string) bool { return true }).String()
		}
		text := "di" + result.ToMapDot(nodeFilter).String()
		o.RawDot = text
		o.Dot = parseArchDot(text)
	})
	if p {
		o = emptyObs()
		o.Panic = true
		o.Note = msg
	}
	return o
}

// the coca binary: deps.json + identify.json in coca_reporter/, `coca arch [-x f] [-H] [-P]`, arch.dot read back
func runCLI(in Input) Obs {
	o := emptyObs()
	coca := os.Getenv("VERIF_COCA")
	if coca == "" {
		panic("harness: VERIF_COCA not set")
	}
	base := os.Getenv("VERIF_SCRATCH")
	if base == "" {
		base = os.TempDir()
	}
	dir, err := os.MkdirTemp(base, "archcli-")
	if err != nil {
		panic("harness: " + err.Error())
	}
	defer os.RemoveAll(dir)
	rep := filepath.Join(dir, "coca_reporter")
	if err := os.MkdirAll(rep, 0o755); err != nil {
		panic("harness: " + err.Error())
	}
	deps := buildDeps(in)
	b, _ := json.Marshal(deps)
	if err := os.WriteFile(filepath.Join(rep, "deps.json"), b, 0o644); err != nil {
		panic("harness: " + err.Error())
	}
	if err := os.WriteFile(filepath.Join(rep, "identify.json"), b, 0o644); err != nil {
		panic("harness: " + err.Error())
	}
	args := []string{"arch"}
	if len(in.Filter) > 0 {
		args = append(args, "-x", strings.Join(in.Filter, ","))
	}
	if in.MergeH {
		args = append(args, "-H")
	}
	if in.MergeP {
		args = append(args, "-P")
	}
	cmd := exec.Command(coca, args...)
	cmd.Dir = dir
	cmd.Env = append(os.Environ(), "TMPDIR="+dir, "HOME="+dir)
	out, err := cmd.CombinedOutput()
	if err != nil {
		// the command died (a Go panic exits with status 2)
		o.Panic = true
		o.Note = tailStr(string(out), 400)
		return o
	}
	text, err := os.ReadFile(filepath.Join(rep, "arch.dot"))
	if err != nil {
		o.Note = "arch.dot not written"
		return o // Dot.Wellformed stays false
	}
	o.RawDot = string(text)
	o.Dot = parseArchDot(string(text))
	return o
}

func tailStr(s string, n int) string {
	if len(s) > n {
		return s[len(s)-n:]
	}
	return s
}

func one(raw json.RawMessage) interface{} {
	var c Case
	if err := json.Unmarshal(raw, &c); err != nil {
		panic(err)
	}
	normalize(&c.Input)
	rec := Record{Case: c.Case, Input: c.Input}
	switch c.Input.Via {
	case "cli":
		rec.Observed = runCLI(c.Input)
	default:
		rec.Observed = runAPI(c.Input)
	}
	if len(rec.Observed.RawDot) > 6000 {
		rec.Observed.RawDot = rec.Observed.RawDot[:6000]
	}
	return rec
}

func abnormal(raw json.RawMessage, timeout bool, stderr string) interface{} {
	var c Case
	json.Unmarshal(raw, &c)
	normalize(&c.Input)
	o := emptyObs()
	o.Panic = true
	o.Note = tailStr(stderr, 300)
	if timeout {
		o.Note = "timeout " + o.Note
	}
	return Record{Case: c.Case, Input: c.Input, Observed: o}
}

func main() {
	lib.Main(lib.Handler{One: one, Gen: gen, Abnormal: abnormal})
}
