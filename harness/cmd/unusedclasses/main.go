// Harness for the unusedclasses suite (extension X06): unusedclasses.Refactoring(parsedDeps), the list of classes
// no other class calls. No command reaches the function, so the routes are
//
//	via "model"  the structs are built directly (and passed through JSON as the commands do with deps.json)
//	via "java"   a Java project is rendered from the case and analysed by the real identifier + full passes
//	via "cli"    the same project is analysed by the coca binary (`coca analysis -p src`); coca_reporter/deps.json is
//	             read back as `coca refactor` reads it and handed to Refactoring
//
// The record carries `model` = the projection (package, class, class-level calls, calls of each function, calls and
// names found in inner structures) of exactly the structs that were handed to Refactoring, and `observed` = the
// strings returned (each with its bytes, because TLC cannot order strings), twice. No expected values here: TLC
// (X06UnusedClassesRef!Diff) judges.
package main

import (
	"encoding/json"
	"fmt"
	"os"
	"os/exec"
	"path/filepath"
	"strings"

	"github.com/modernizing/coca/pkg/application/analysis/javaapp"
	"github.com/modernizing/coca/pkg/application/refactor/unusedclasses"
	"github.com/modernizing/coca/pkg/domain/core_domain"

	"verifharness/lib"
)

type Ref struct {
	Pkg  string `json:"pkg"`
	Name string `json:"name"`
}

// Dep is one class entry of the abstract case.
type Dep struct {
	Pkg   string  `json:"pkg"`
	Name  string  `json:"name"`
	Field []Ref   `json:"field"` // class-level calls (the type of a field)
	Fns   [][]Ref `json:"fns"`   // calls of each function
	Inner []Ref   `json:"inner"` // calls made from an inner structure
}

type Input struct {
	Via  string `json:"via"` // "model" | "java" | "cli"
	Deps []Dep  `json:"deps"`
}

type Case struct {
	Case  string `json:"case"`
	Input Input  `json:"input"`
}

// MDep is one entry of the projected model.
type MDep struct {
	Pkg        string  `json:"pkg"`
	Name       string  `json:"name"`
	Field      []Ref   `json:"field"`
	Fns        [][]Ref `json:"fns"`
	Inner      []Ref   `json:"inner"`
	InnerNames []Ref   `json:"innerNames"`
}

type Str struct {
	S     string `json:"s"`
	Codes []int  `json:"codes"`
}

type Obs struct {
	Panic  bool   `json:"panic"`
	Result []Str  `json:"result"`
	Again  []Str  `json:"again"`
	Note   string `json:"note,omitempty"`
}

type Record struct {
	Case     string            `json:"case"`
	Input    Input             `json:"input"`
	Model    []MDep            `json:"model"`
	Rendered map[string]string `json:"rendered,omitempty"`
	Observed Obs               `json:"observed"`
}

func normalize(in *Input) {
	if in.Via == "" {
		in.Via = "model"
	}
	if in.Deps == nil {
		in.Deps = []Dep{}
	}
	for i := range in.Deps {
		d := &in.Deps[i]
		if d.Field == nil {
			d.Field = []Ref{}
		}
		if d.Fns == nil {
			d.Fns = [][]Ref{}
		}
		for k := range d.Fns {
			if d.Fns[k] == nil {
				d.Fns[k] = []Ref{}
			}
		}
		if d.Inner == nil {
			d.Inner = []Ref{}
		}
	}
}

func short(s string, n int) string {
	if len(s) > n {
		return s[len(s)-n:]
	}
	return s
}

// ---------------------------------------------------------------- render

func calls(rs []Ref) []core_domain.CodeCall {
	var out []core_domain.CodeCall
	for _, c := range rs {
		out = append(out, core_domain.CodeCall{Package: c.Pkg, NodeName: c.Name, FunctionName: "run"})
	}
	return out
}

func buildModel(in Input) []core_domain.CodeDataStruct {
	out := []core_domain.CodeDataStruct{}
	for _, d := range in.Deps {
		ds := core_domain.CodeDataStruct{Package: d.Pkg, NodeName: d.Name, Type: "Class",
			FilePath: strings.ReplaceAll(d.Pkg, ".", "/") + "/" + d.Name + ".java"}
		ds.FunctionCalls = calls(d.Field)
		for k, f := range d.Fns {
			ds.Functions = append(ds.Functions, core_domain.CodeFunction{Name: fmt.Sprintf("m%d", k), FunctionCalls: calls(f)})
		}
		if len(d.Inner) > 0 {
			in := core_domain.CodeDataStruct{Package: d.Pkg, NodeName: "Inner", Type: "InnerStructures"}
			in.Functions = append(in.Functions, core_domain.CodeFunction{Name: "go", FunctionCalls: calls(d.Inner)})
			ds.InnerStructures = append(ds.InnerStructures, in)
		}
		out = append(out, ds)
	}
	return out
}

// roundTrip passes a model through JSON exactly as the commands do (analysis writes deps.json, refactor reads it).
func roundTrip(v []core_domain.CodeDataStruct) []core_domain.CodeDataStruct {
	b, _ := json.MarshalIndent(v, "", "\t")
	var out []core_domain.CodeDataStruct
	_ = json.Unmarshal(b, &out)
	return out
}

func lower(s string) string {
	if s == "" {
		return s
	}
	return strings.ToLower(s[:1]) + s[1:]
}

// renderJava: one file per entry of the case.
//
//	class-level call to T      a field declaration `private T f<k>;` (the full pass records the type of a field as a
//	                           class-level call)
//	call of function k to T    `T v = new T(); v.run();` inside `m<k>()`; to the class itself: `run();`
//	inner call to T            the same statements inside `class Inner { void go() { .. } }`
//	call without class name    a call on an undeclared receiver
//
// A type of another package is imported, or written qualified when its simple name is already taken.
func renderJava(root string, in Input) (map[string]string, error) {
	texts := map[string]string{}
	for _, d := range in.Deps {
		var b strings.Builder
		if d.Pkg != "" {
			fmt.Fprintf(&b, "package %s;\n\n", d.Pkg)
		}
		simple := map[string]string{d.Name: d.Pkg}
		imports := []string{}
		typeOf := func(c Ref) string {
			if p, ok := simple[c.Name]; ok {
				if p == c.Pkg || c.Pkg == "" {
					return c.Name
				}
				return c.Pkg + "." + c.Name
			}
			simple[c.Name] = c.Pkg
			if c.Pkg != "" && c.Pkg != d.Pkg {
				imports = append(imports, "import "+c.Pkg+"."+c.Name+";\n")
			}
			return c.Name
		}
		n := 0
		stmts := func(rs []Ref, indent string) string {
			var s strings.Builder
			for _, c := range rs {
				n++
				switch {
				case c.Name == "":
					s.WriteString(indent + "somewhere.run();\n")
				case c.Pkg == d.Pkg && c.Name == d.Name:
					s.WriteString(indent + "run();\n")
				default:
					v := fmt.Sprintf("%s%d", lower(c.Name), n)
					fmt.Fprintf(&s, "%s%s %s = new %s();\n%s%s.run();\n", indent, typeOf(c), v, typeOf(c), indent, v)
				}
			}
			return s.String()
		}
		var body strings.Builder
		for k, c := range d.Field {
			if c.Name == "" {
				continue
			}
			fmt.Fprintf(&body, "    private %s f%d;\n", typeOf(c), k)
		}
		body.WriteString("\n    public void run() {\n    }\n")
		for k, f := range d.Fns {
			fmt.Fprintf(&body, "\n    public void m%d() {\n%s    }\n", k, stmts(f, "        "))
		}
		if len(d.Inner) > 0 {
			fmt.Fprintf(&body, "\n    class Inner {\n        void go() {\n%s        }\n    }\n", stmts(d.Inner, "            "))
		}
		for _, im := range imports {
			b.WriteString(im)
		}
		if len(imports) > 0 {
			b.WriteString("\n")
		}
		fmt.Fprintf(&b, "public class %s {\n%s}\n", d.Name, body.String())
		rel := filepath.Join(filepath.FromSlash(strings.ReplaceAll(d.Pkg, ".", "/")), d.Name+".java")
		p := filepath.Join(root, rel)
		if _, dup := texts[filepath.ToSlash(rel)]; dup {
			// the same class listed twice: a second source root
			rel = filepath.Join("again", rel)
			p = filepath.Join(root, rel)
		}
		if err := os.MkdirAll(filepath.Dir(p), 0o755); err != nil {
			return nil, err
		}
		if err := os.WriteFile(p, []byte(b.String()), 0o644); err != nil {
			return nil, err
		}
		texts[filepath.ToSlash(rel)] = b.String()
	}
	return texts, nil
}

// ---------------------------------------------------------------- project

func refs(cs []core_domain.CodeCall) []Ref {
	out := []Ref{}
	for _, c := range cs {
		out = append(out, Ref{Pkg: c.Package, Name: c.NodeName})
	}
	return out
}

// collectInner gathers, recursively, every call recorded inside the inner structures of d and their names.
func collectInner(d core_domain.CodeDataStruct, callsOut *[]Ref, names *[]Ref) {
	for _, in := range d.InnerStructures {
		*names = append(*names, Ref{Pkg: in.Package, Name: in.NodeName})
		*callsOut = append(*callsOut, refs(in.FunctionCalls)...)
		for _, f := range in.Functions {
			*callsOut = append(*callsOut, refs(f.FunctionCalls)...)
		}
		collectInner(in, callsOut, names)
	}
}

func projectModel(deps []core_domain.CodeDataStruct) []MDep {
	out := []MDep{}
	for _, d := range deps {
		m := MDep{Pkg: d.Package, Name: d.NodeName, Field: refs(d.FunctionCalls), Fns: [][]Ref{}, Inner: []Ref{}, InnerNames: []Ref{}}
		for _, f := range d.Functions {
			m.Fns = append(m.Fns, refs(f.FunctionCalls))
		}
		collectInner(d, &m.Inner, &m.InnerNames)
		out = append(out, m)
	}
	return out
}

func projectStrings(ss []string) []Str {
	out := []Str{}
	for _, s := range ss {
		c := []int{}
		for _, b := range []byte(s) {
			c = append(c, int(b))
		}
		out = append(out, Str{S: s, Codes: c})
	}
	return out
}

// ---------------------------------------------------------------- drive

func viaCLI(scratch, src string) ([]core_domain.CodeDataStruct, string, bool) {
	bin := os.Getenv("VERIF_COCA")
	if bin == "" {
		panic("harness: VERIF_COCA not set")
	}
	cmd := exec.Command(bin, "analysis", "-p", "src")
	cmd.Dir = scratch
	cmd.Env = append(os.Environ(), "TMPDIR="+scratch, "HOME="+scratch)
	out, err := cmd.CombinedOutput()
	if err != nil {
		return nil, short(string(out), 300), false
	}
	raw, err := os.ReadFile(filepath.Join(scratch, "coca_reporter", "deps.json"))
	if err != nil {
		return nil, "no deps.json: " + err.Error(), false
	}
	var deps []core_domain.CodeDataStruct
	if err := json.Unmarshal(raw, &deps); err != nil {
		return nil, "deps.json: " + err.Error(), false
	}
	return deps, "", true
}

func one(raw json.RawMessage) interface{} {
	var c Case
	if err := json.Unmarshal(raw, &c); err != nil {
		panic("harness: case: " + err.Error())
	}
	normalize(&c.Input)
	rec := Record{Case: c.Case, Input: c.Input, Model: []MDep{}, Observed: Obs{Result: []Str{}, Again: []Str{}}}
	scratch, err := os.MkdirTemp(os.Getenv("VERIF_SCRATCH"), "unusedclasses-")
	if err != nil {
		panic("harness: " + err.Error())
	}
	defer os.RemoveAll(scratch)
	o := &rec.Observed
	var deps []core_domain.CodeDataStruct
	switch c.Input.Via {
	case "java", "cli":
		src := filepath.Join(scratch, "src")
		texts, err := renderJava(src, c.Input)
		if err != nil {
			os.RemoveAll(scratch)
			panic("harness: render: " + err.Error())
		}
		rec.Rendered = texts
		if c.Input.Via == "cli" {
			d, note, ok := viaCLI(scratch, src)
			if !ok {
				// the analysis (not the code under test here) failed: nothing was handed to Refactoring
				o.Panic = true
				o.Note = "analysis: " + note
				return rec
			}
			deps = d
		} else {
			p, msg := lib.Guard(func() {
				identApp := javaapp.NewJavaIdentifierApp()
				idents := identApp.AnalysisPath(src)
				fullApp := javaapp.NewJavaFullApp()
				deps = roundTrip(fullApp.AnalysisPath(src, idents))
			})
			if p {
				o.Panic = true
				o.Note = "analysis: " + short(msg, 300)
				return rec
			}
		}
	default:
		deps = roundTrip(buildModel(c.Input))
	}
	rec.Model = projectModel(deps)
	p, msg := lib.Guard(func() {
		o.Result = projectStrings(unusedclasses.Refactoring(deps))
		o.Again = projectStrings(unusedclasses.Refactoring(deps))
	})
	if p {
		o.Panic = true
		o.Result, o.Again = []Str{}, []Str{}
		o.Note = short(msg, 300)
	}
	return rec
}

func abnormal(raw json.RawMessage, timeout bool, stderr string) interface{} {
	var c Case
	json.Unmarshal(raw, &c)
	normalize(&c.Input)
	note := "process died: "
	if timeout {
		note = "timeout: "
	}
	return Record{Case: c.Case, Input: c.Input, Model: []MDep{},
		Observed: Obs{Panic: true, Result: []Str{}, Again: []Str{}, Note: note + short(stderr, 300)}}
}

func main() {
	lib.Main(lib.Handler{One: one, Gen: gen, Abnormal: abnormal})
}
