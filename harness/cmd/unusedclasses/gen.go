package main

import (
	"fmt"
	"math/rand"
)

// gen: seeded random abstract cases, wider than TLC's constants: up to 9 entries in up to 5 packages (one of them the
// default package), namesakes in different packages, entries listed twice, up to 4 functions of up to 5 calls, calls of a
// class to itself, class-level calls, calls from inner structures, callees outside the model, calls without class name,
// names whose concatenation collides ("a.b" + "C" / "a" + "b.C"), non-ASCII names, names that differ in case only
// (byte order puts "Z" before "a").
func gen(seed int64, n int, tier string) []interface{} {
	r := rand.New(rand.NewSource(seed*104729 + 31))
	pkgsJava := []string{"com.acme.shop", "com.acme.pay", "org.demo", "org.demo.util", ""}
	namesJava := []string{"Order", "Cart", "Invoice", "Ledger", "Clock", "Mailer", "order", "Zebra"}
	pkgsModel := []string{"", "x", "x.y", "a", "a.b", "com.acme", "Com.acme"}
	namesModel := []string{"y", "Z", "Order", "order", "b.C", "C", "Ünï", "zeta", "Alpha", ""}
	out := []interface{}{}
	for i := 0; i < n; i++ {
		via := "model"
		switch k := r.Intn(20); {
		case k < 5:
			via = "java"
		case k < 7:
			via = "cli"
		}
		pkgs, names := pkgsModel, namesModel
		if via != "model" {
			pkgs, names = pkgsJava, namesJava
		}
		nd := 1 + r.Intn(9)
		if r.Intn(15) == 0 {
			nd = 0
		}
		type cls struct{ p, n string }
		var pool []cls
		seen := map[string]bool{}
		for tries := 0; len(pool) < nd && tries < 200; tries++ {
			c := cls{pkgs[r.Intn(len(pkgs))], names[r.Intn(len(names))]}
			if via != "model" && c.n == "" {
				continue
			}
			if seen[c.p+"."+c.n] && (via != "model" || r.Intn(3) != 0) {
				// via java/cli a class is listed once (one file); as a model it may be listed twice
				if via != "model" || r.Intn(2) == 0 {
					continue
				}
			}
			seen[c.p+"."+c.n] = true
			pool = append(pool, c)
		}
		outside := []cls{{pkgs[r.Intn(len(pkgs))], "Outside"}, {"java.util", "ArrayList"}}
		pick := func(self cls) Ref {
			var t cls
			switch x := r.Intn(12); {
			case x < 6 && len(pool) > 0:
				t = pool[r.Intn(len(pool))]
			case x < 8:
				t = self
			case x < 9 && len(pool) > 0:
				// the namesake of a class of the model in another package
				t = cls{pkgs[r.Intn(len(pkgs))], pool[r.Intn(len(pool))].n}
			case x < 11:
				t = outside[r.Intn(len(outside))]
			default:
				t = cls{"", ""}
				if via == "model" && r.Intn(2) == 0 {
					t.p = pkgs[r.Intn(len(pkgs))]
				}
			}
			return Ref{Pkg: t.p, Name: t.n}
		}
		// the style of the case: which places record calls
		style := r.Intn(6) // 0: functions only; 1: class-level too; 2: inner too; 3..5: everything
		deps := []Dep{}
		for _, c := range pool {
			d := Dep{Pkg: c.p, Name: c.n, Field: []Ref{}, Fns: [][]Ref{}, Inner: []Ref{}}
			if style == 1 || style >= 3 {
				for k := r.Intn(3); k > 0; k-- {
					d.Field = append(d.Field, pick(c))
				}
			}
			for k := r.Intn(5); k > 0; k-- {
				f := []Ref{}
				for j := r.Intn(4) + r.Intn(3); j > 0; j-- {
					f = append(f, pick(c))
				}
				d.Fns = append(d.Fns, f)
			}
			if (style == 2 || style >= 3) && r.Intn(3) == 0 {
				for k := 1 + r.Intn(3); k > 0; k-- {
					d.Inner = append(d.Inner, pick(c))
				}
			}
			deps = append(deps, d)
		}
		out = append(out, Case{Case: fmt.Sprintf("rand-%d-%d", seed, i), Input: Input{Via: via, Deps: deps}})
	}
	return out
}
