// javarender: developer aid - prints the Java text javagen renders for the files of a case (JSON on stdin: {files, layout}).
package main

import (
	"encoding/json"
	"fmt"
	"io"
	"os"

	"verifharness/javagen"
)

func main() {
	b, _ := io.ReadAll(os.Stdin)
	var c struct {
		Files  []javagen.File `json:"files"`
		Layout int            `json:"layout"`
	}
	if err := json.Unmarshal(b, &c); err != nil {
		panic(err)
	}
	for i := range c.Files {
		javagen.Normalize(&c.Files[i])
		text, facts := javagen.Render(c.Files[i], c.Layout)
		fmt.Printf("==== %s\n%s", facts.RelPath, text)
	}
}
