package main

import (
	"fmt"
	"math/rand"
)

// gen: seeded random abstract cases, wider than TLC's constants. The item universe of a case stays <= 6 names (the
// Reference is brute force over its subsets); transaction lists go up to 12. About 55 % miner cases, 20 % evaluate,
// 25 % git. The two listed defect shapes (an item repeated inside a transaction, an item named "STOP") are generated
// in a minority of the cases only, so that they cannot mask anything else.
func gen(seed int64, n int, tier string) []interface{} {
	r := rand.New(rand.NewSource(seed*104729 + 41))
	out := []interface{}{}
	cliGit, cliEval := 0, 0
	maxCliGit, maxCliEval := 6, 12
	if tier != "quick" {
		maxCliGit, maxCliEval = 60, 150
	}
	for i := 0; i < n; i++ {
		id := fmt.Sprintf("rand-%d-%d", seed, i)
		var in Input
		switch k := r.Intn(100); {
		case k < 55:
			in = genMiner(r)
		case k < 75:
			in = genEvaluate(r)
			if r.Intn(8) == 0 && cliEval < maxCliEval {
				in.Via = "cli"
				cliEval++
			}
		default:
			cli := r.Intn(12) == 0 && cliGit < maxCliGit
			if cli {
				cliGit++
			}
			in = genGit(r, cli)
		}
		normalize(&in)
		out = append(out, Case{Case: id, Input: in})
	}
	return out
}

var supPool = []Frac{{1, 10}, {1, 5}, {1, 4}, {1, 3}, {2, 5}, {1, 2}, {3, 5}, {2, 3}, {3, 4}, {4, 5}, {1, 1}}
var confPool = []Frac{{0, 1}, {0, 1}, {1, 2}, {2, 3}, {3, 4}, {4, 5}, {9, 10}, {1, 1}}
var liftPool = []Frac{{0, 1}, {0, 1}, {0, 1}, {1, 2}, {1, 1}, {6, 5}, {3, 2}, {2, 1}}
var lenPool = []int{0, 0, 0, 1, 2, 3, 4}

func genOpt(r *rand.Rand, ntx int) Opt {
	o := Opt{Sup: supPool[r.Intn(len(supPool))], Conf: confPool[r.Intn(len(confPool))], Lift: liftPool[r.Intn(len(liftPool))], MaxLen: lenPool[r.Intn(len(lenPool))]}
	if ntx > 0 && r.Intn(2) == 0 {
		// a support that some set can hit exactly
		o.Sup = Frac{1 + r.Intn(ntx), ntx}
	}
	return o
}

var itemPools = [][]string{
	{"a", "b", "c", "d", "e", "f"},
	{"beer", "bread", "butter", "milk", "nuts", "tea"},
	{"x", "X", "x y", "x,y", "", "ü"},
	{"A", "B", "Stop", "stop", "a", "b"},
	{"item-1", "item-10", "item-2", "Z", "z", "_"},
}

func shuffled(r *rand.Rand, s []string) []string {
	c := append([]string{}, s...)
	r.Shuffle(len(c), func(i, j int) { c[i], c[j] = c[j], c[i] })
	return c
}

func genMiner(r *rand.Rand) Input {
	pool := append([]string{}, itemPools[r.Intn(len(itemPools))]...)
	ni := 1 + r.Intn(len(pool))
	pool = shuffled(r, pool)[:ni]
	if r.Intn(25) == 0 {
		pool[r.Intn(len(pool))] = "STOP" // listed defect shape (quota)
	}
	repeats := r.Intn(8) == 0 // listed defect shape (quota): items repeated inside a transaction
	ntx := r.Intn(9)
	if r.Intn(6) == 0 {
		ntx = 9 + r.Intn(4)
	}
	// a dense core makes larger frequent sets likely
	core := shuffled(r, pool)[:r.Intn(len(pool)+1)]
	density := 30 + r.Intn(60)
	tx := [][]string{}
	for t := 0; t < ntx; t++ {
		if len(tx) > 0 && r.Intn(6) == 0 {
			tx = append(tx, append([]string{}, tx[r.Intn(len(tx))]...)) // a repeated transaction
			continue
		}
		tr := []string{}
		for _, it := range pool {
			p := density / 2
			for _, c := range core {
				if c == it {
					p = density + 10
				}
			}
			if r.Intn(100) < p {
				tr = append(tr, it)
				if repeats && r.Intn(3) == 0 {
					tr = append(tr, it)
					if r.Intn(3) == 0 {
						tr = append(tr, it)
					}
				}
			}
		}
		tx = append(tx, shuffled(r, tr))
	}
	// the same transactions in another order, items inside reordered too
	tx2 := make([][]string, len(tx))
	for i, p := range r.Perm(len(tx)) {
		tx2[i] = shuffled(r, tx[p])
	}
	return Input{Kind: "miner", Via: "api", Tx: tx, Tx2: tx2, Opt: genOpt(r, ntx)}
}

var paramPools = [][]string{
	{"address", "age", "firstname", "id", "lastname", "name"},
	{"from", "to", "amount", "currency", "memo", "when"},
	{"x", "y", "width", "height", "Z", "label"},
}
var serviceNames = []string{"OrderService", "BookService", "userservice", "SERVICEHub", "PayServiceImpl"}
var otherNames = []string{"OrderHelper", "Servic", "BookRepository", "Serv1ce", "Mapper"}

func genEvaluate(r *rand.Rand) Input {
	pool := paramPools[r.Intn(len(paramPools))]
	if r.Intn(30) == 0 {
		pool = append([]string{"STOP"}, pool[1:]...) // listed defect shape (quota)
	}
	repeats := r.Intn(20) == 0 // not valid Java; the listed defect shape through this user (quota)
	core := shuffled(r, pool)[:3+r.Intn(3)]
	nc := 1 + r.Intn(3)
	classes := []Class{}
	total := 0
	for c := 0; c < nc; c++ {
		service := r.Intn(4) != 0
		name := otherNames[r.Intn(len(otherNames))]
		if service {
			name = serviceNames[r.Intn(len(serviceNames))]
		}
		cl := Class{Name: name, Service: service, Methods: []Method{}}
		nm := r.Intn(5)
		for m := 0; m < nm && total < 10; m++ {
			var ps []string
			switch k := r.Intn(10); {
			case k < 6: // the core plus some others
				ps = append(ps, core...)
				for _, p := range pool {
					if !contains(core, p) && r.Intn(3) == 0 {
						ps = append(ps, p)
					}
				}
			case k < 8: // the core minus one
				ps = append(ps, core[1:]...)
				for _, p := range pool {
					if !contains(core, p) && r.Intn(2) == 0 {
						ps = append(ps, p)
					}
				}
			default: // anything, also short lists
				for _, p := range pool {
					if r.Intn(2) == 0 {
						ps = append(ps, p)
					}
				}
			}
			ps = shuffled(r, ps)
			if repeats && len(ps) > 0 && r.Intn(2) == 0 {
				ps = append(ps, ps[r.Intn(len(ps))])
			}
			if service && len(ps) >= 4 {
				total++
			}
			cl.Methods = append(cl.Methods, Method{Name: fmt.Sprintf("op%d", m), Params: ps})
		}
		classes = append(classes, cl)
	}
	return Input{Kind: "evaluate", Via: "model", Classes: classes}
}

func contains(s []string, x string) bool {
	for _, y := range s {
		if y == x {
			return true
		}
	}
	return false
}

func genGit(r *rand.Rand, cli bool) Input {
	// <= 6 source files (distinct names for the related-file search), plus tests and other files
	dirs := []string{"src/main/java/app/", "app/", "", "mod/src/"}
	bases := shuffled(r, []string{"Order.java", "Cart.java", "Pay.java", "Ledger.java", "Mail.java", "Clock.java"})
	ns := 3 + r.Intn(4)
	sources := []File{}
	for i := 0; i < ns; i++ {
		if r.Intn(5) == 0 {
			sources = append(sources, File{Pre: []string{"", "mod-a/", "x/y/"}[r.Intn(3)], Core: true, Segs: []string{"shop", bases[i]}})
		} else {
			sources = append(sources, File{Pre: dirs[r.Intn(len(dirs))], Core: false, Segs: []string{bases[i]}})
		}
	}
	twin := !cli && r.Intn(20) == 0 // two paths with one name after the marker: a repeated item in a transaction (quota)
	others := []File{
		{Pre: "src/test/java/app/", Segs: []string{"OrderTest.java"}},
		{Pre: "", Segs: []string{"CartTest.java"}},
		{Pre: "", Segs: []string{"README.md"}},
		{Pre: "docs/", Segs: []string{"notes.java.txt"}},
		{Pre: "web/", Segs: []string{"app.js"}},
		{Pre: "", Core: true, Segs: []string{"shop", "PayTest.java"}},
		{Pre: "", Segs: []string{"pom.xml"}},
	}
	core := r.Perm(ns)[:2+r.Intn(ns-1)]
	ncommits := r.Intn(11)
	if cli && ncommits == 0 {
		ncommits = 1 // `git log` refuses a repository without any commit: an empty history exists only for the API route
	}
	commits := []Commit{}
	for c := 0; c < ncommits; c++ {
		ch := []File{}
		switch k := r.Intn(10); {
		case k < 6:
			for _, i := range core {
				ch = append(ch, sources[i])
			}
			for i := range sources {
				if !containsInt(core, i) && r.Intn(3) == 0 {
					ch = append(ch, sources[i])
				}
			}
		case k < 8:
			for _, i := range core[1:] {
				ch = append(ch, sources[i])
			}
			for i := range sources {
				if !containsInt(core, i) && r.Intn(2) == 0 {
					ch = append(ch, sources[i])
				}
			}
		default:
			for i := range sources {
				if r.Intn(2) == 0 {
					ch = append(ch, sources[i])
				}
			}
		}
		for _, o := range others {
			if r.Intn(4) == 0 {
				ch = append(ch, o)
			}
		}
		if r.Intn(8) == 0 {
			// a commit that changes more than ten files
			for k := 0; len(ch) <= 10; k++ {
				ch = append(ch, File{Pre: "assets/", Segs: []string{fmt.Sprintf("img%d.png", k)}})
			}
		}
		if twin && len(ch) > 0 && r.Intn(2) == 0 {
			for _, f := range ch {
				if f.Core {
					ch = append(ch, File{Pre: "other-module/", Core: true, Segs: f.Segs})
					break
				}
			}
		}
		r.Shuffle(len(ch), func(i, j int) { ch[i], ch[j] = ch[j], ch[i] })
		commits = append(commits, Commit{Changes: ch})
	}
	nd := 0 // size of the dataset is not known here; offer supports over the number of commits
	if ncommits > 0 {
		nd = ncommits
	}
	opt := genOpt(r, nd)
	if r.Intn(3) == 0 {
		opt = Opt{Sup: Frac{1, 10}, Conf: Frac{9, 10}, Lift: Frac{0, 1}, MaxLen: 0} // the defaults
	}
	via := "api"
	if cli {
		via = "cli"
	}
	return Input{Kind: "git", Via: via, Commits: commits, Opt: opt}
}

func containsInt(s []int, x int) bool {
	for _, y := range s {
		if y == x {
			return true
		}
	}
	return false
}
