// Harness for the apriori suite (extension X04): the association-rule miner pkg/infrastructure/apriori and its two
// users. An abstract case is one of
//
//	kind "miner"     transactions + options; the real NewApriori(tx).Calculate(opt) runs on tx and on tx2 (the same
//	                 transactions in another order) and every relation record is projected
//	kind "evaluate"  classes with methods and parameter names; via "model" the structs go to the real
//	                 evaluate.Analyser.Analysis, via "cli" they are written to coca_reporter/deps.json and the coca
//	                 binary runs `coca evaluate`; ServiceSummary.RelatedMethod is projected
//	kind "git"       commits with changed files + options; via "api" the CommitMessage structs go to the real
//	                 git.GetRelatedFiles with the options as its JSON configuration, via "cli" a real repository is
//	                 built with git and the coca binary runs `coca git -r <config>` in it
//
// No expected values here: floats are reported as the simplest fraction within 1e-9 (see toQ), item lists as they
// come, and TLC (X04AprioriRef!Diff) judges.
package main

import (
	"encoding/json"
	"fmt"
	"math"
	"os"
	"os/exec"
	"path/filepath"
	"runtime"
	"strings"
	"time"

	"github.com/modernizing/coca/pkg/application/evaluate"
	cocagit "github.com/modernizing/coca/pkg/application/git"
	"github.com/modernizing/coca/pkg/domain/core_domain"
	"github.com/modernizing/coca/pkg/infrastructure/apriori"

	"verifharness/lib"
)

// ---------------------------------------------------------------- abstract input

type Frac struct {
	Num int `json:"num"`
	Den int `json:"den"`
}

type Opt struct {
	Sup    Frac `json:"sup"`
	Conf   Frac `json:"conf"`
	Lift   Frac `json:"lift"`
	MaxLen int  `json:"maxlen"`
}

type Method struct {
	Name   string   `json:"name"`
	Params []string `json:"params"`
}

type Class struct {
	Name    string   `json:"name"`
	Service bool     `json:"service"`
	Methods []Method `json:"methods"`
}

type File struct {
	Pre  string   `json:"pre"`
	Core bool     `json:"core"`
	Segs []string `json:"segs"`
}

type Commit struct {
	Changes []File `json:"changes"`
}

// Input is the union of the three kinds; every record carries every key (TLC reads only those of its kind).
type Input struct {
	Kind    string     `json:"kind"`
	Via     string     `json:"via"`
	Tx      [][]string `json:"tx"`
	Tx2     [][]string `json:"tx2"`
	Opt     Opt        `json:"opt"`
	Classes []Class    `json:"classes"`
	Commits []Commit   `json:"commits"`
}

type Case struct {
	Case  string `json:"case"`
	Input Input  `json:"input"`
}

// ---------------------------------------------------------------- observation

type Q struct {
	Num int  `json:"num"`
	Den int  `json:"den"`
	Ok  bool `json:"ok"`
}

type Stat struct {
	Base []string `json:"base"`
	Add  []string `json:"add"`
	Conf Q        `json:"conf"`
	Lift Q        `json:"lift"`
}

type Rec struct {
	Items   []string `json:"items"`
	Support Q        `json:"support"`
	Stats   []Stat   `json:"stats"`
}

type Run struct {
	Records []Rec `json:"records"`
}

type Obs struct {
	Panic      bool       `json:"panic"`
	Wellformed bool       `json:"wellformed"`
	Runs       []Run      `json:"runs"`
	Related    []string   `json:"related"`
	Groups     [][]string `json:"groups"`
	Mentions   []string   `json:"mentions"`
	Note       string     `json:"note,omitempty"`
}

type Record struct {
	Case     string            `json:"case"`
	Input    Input             `json:"input"`
	Rendered map[string]string `json:"rendered,omitempty"`
	Observed Obs               `json:"observed"`
}

func emptyObs() Obs {
	return Obs{Runs: []Run{}, Related: []string{}, Groups: [][]string{}, Mentions: []string{}}
}

func strs(s []string) []string {
	if s == nil {
		return []string{}
	}
	return s
}

func normalize(in *Input) {
	if in.Tx == nil {
		in.Tx = [][]string{}
	}
	if in.Tx2 == nil {
		in.Tx2 = [][]string{}
	}
	for i := range in.Tx {
		in.Tx[i] = strs(in.Tx[i])
	}
	for i := range in.Tx2 {
		in.Tx2[i] = strs(in.Tx2[i])
	}
	if in.Opt.Sup.Den == 0 {
		in.Opt.Sup = Frac{1, 2}
	}
	if in.Opt.Conf.Den == 0 {
		in.Opt.Conf = Frac{0, 1}
	}
	if in.Opt.Lift.Den == 0 {
		in.Opt.Lift = Frac{0, 1}
	}
	if in.Classes == nil {
		in.Classes = []Class{}
	}
	for i := range in.Classes {
		if in.Classes[i].Methods == nil {
			in.Classes[i].Methods = []Method{}
		}
		for k := range in.Classes[i].Methods {
			in.Classes[i].Methods[k].Params = strs(in.Classes[i].Methods[k].Params)
		}
	}
	if in.Commits == nil {
		in.Commits = []Commit{}
	}
	for i := range in.Commits {
		if in.Commits[i].Changes == nil {
			in.Commits[i].Changes = []File{}
		}
		for k := range in.Commits[i].Changes {
			in.Commits[i].Changes[k].Segs = strs(in.Commits[i].Changes[k].Segs)
		}
	}
	if in.Via == "" {
		in.Via = map[string]string{"miner": "api", "evaluate": "model", "git": "api"}[in.Kind]
	}
}

func short(s string, n int) string {
	if len(s) > n {
		return s[len(s)-n:]
	}
	return s
}

// toQ reports a float as a fraction: the first continued-fraction convergent (they are the best rational
// approximations, smallest denominators first) that lies within 1e-9 of it, denominator <= 10000. ok = false when
// there is none (or the value is not finite): the Reference then counts the number as wrong whatever it is.
func toQ(x float64) Q {
	if math.IsNaN(x) || math.IsInf(x, 0) || math.Abs(x) > 1e5 {
		return Q{0, 1, false}
	}
	neg := x < 0
	if neg {
		x = -x
	}
	var p0, q0, p1, q1 float64 = 0, 1, 1, 0
	y := x
	for i := 0; i < 40; i++ {
		a := math.Floor(y)
		p0, p1 = p1, a*p1+p0
		q0, q1 = q1, a*q1+q0
		if q1 > 10000 {
			break
		}
		if math.Abs(x-p1/q1) <= 1e-9 {
			n := int(p1)
			if neg {
				n = -n
			}
			return Q{n, int(q1), true}
		}
		f := y - a
		if f < 1e-13 {
			break
		}
		y = 1 / f
	}
	return Q{0, 1, false}
}

func fl(f Frac) float64 { return float64(f.Num) / float64(f.Den) }

// ---------------------------------------------------------------- miner

// settle lets the goroutines the miner started finish (or fail): the miner talks to them over channels and returns
// when it has seen their end marker; a goroutine that dies after that takes the process with it, which is then what
// this case observes.
func settle(baseline int) {
	deadline := time.Now().Add(150 * time.Millisecond)
	for runtime.NumGoroutine() > baseline && time.Now().Before(deadline) {
		time.Sleep(200 * time.Microsecond)
	}
}

func mine(tx [][]string, opt Opt) Run {
	// the code keeps (and sorts) the slices it is given: hand it private copies
	cp := make([][]string, len(tx))
	for i, t := range tx {
		cp[i] = append([]string{}, t...)
	}
	base := runtime.NumGoroutine()
	res := apriori.NewApriori(cp).Calculate(apriori.NewOptions(fl(opt.Sup), fl(opt.Conf), fl(opt.Lift), opt.MaxLen))
	settle(base)
	run := Run{Records: []Rec{}}
	for _, r := range res {
		rec := Rec{Items: strs(append([]string{}, r.GetSupportRecord().GetItems()...)), Support: toQ(r.GetSupportRecord().GetSupport()), Stats: []Stat{}}
		for _, s := range r.GetOrderedStatistic() {
			rec.Stats = append(rec.Stats, Stat{Base: strs(append([]string{}, s.GetBase()...)), Add: strs(append([]string{}, s.GetAdd()...)),
				Conf: toQ(s.GetConfidence()), Lift: toQ(s.GetLift())})
		}
		run.Records = append(run.Records, rec)
	}
	return run
}

func runMiner(in Input, o *Obs) {
	p, msg := lib.Guard(func() {
		o.Runs = append(o.Runs, mine(in.Tx, in.Opt))
		o.Runs = append(o.Runs, mine(in.Tx2, in.Opt))
	})
	if p {
		o.Panic = true
		o.Runs = []Run{}
		o.Note = short(msg, 300)
	}
	o.Wellformed = !p
}

// ---------------------------------------------------------------- evaluate

func buildClasses(in Input) []core_domain.CodeDataStruct {
	out := []core_domain.CodeDataStruct{}
	for _, c := range in.Classes {
		if strings.Contains(strings.ToLower(c.Name), "service") != c.Service {
			fmt.Fprintln(os.Stderr, "harness: class name and service flag of the case disagree:", c.Name)
			os.Exit(2)
		}
		ds := core_domain.CodeDataStruct{Package: "com.acme.app", NodeName: c.Name, Type: "Class",
			FilePath: "src/main/java/com/acme/app/" + c.Name + ".java"}
		for k, m := range c.Methods {
			f := core_domain.CodeFunction{Name: m.Name, ReturnType: "void",
				Position: core_domain.CodePosition{StartLine: 10 * (k + 1), StopLine: 10*(k+1) + 3}}
			for _, p := range m.Params {
				// coca's model keeps the parameter NAME in TypeValue and its type in TypeType
				f.Parameters = append(f.Parameters, core_domain.CodeProperty{TypeValue: p, TypeType: "String"})
			}
			ds.Functions = append(ds.Functions, f)
		}
		out = append(out, ds)
	}
	return out
}

func roundTrip(v []core_domain.CodeDataStruct) []core_domain.CodeDataStruct {
	b, _ := json.MarshalIndent(v, "", "\t")
	var out []core_domain.CodeDataStruct
	_ = json.Unmarshal(b, &out)
	return out
}

// identifiers for the CLI route: `coca evaluate` also reads identify.json and marshals its summary, which needs at
// least two classes and two accessor methods (the standard deviations are NaN otherwise and nothing is written).
func someIdentifiers() []core_domain.CodeDataStruct {
	mk := func(name string, n int) core_domain.CodeDataStruct {
		ds := core_domain.CodeDataStruct{Package: "com.acme.app", NodeName: name, Type: "Class"}
		for i := 0; i < n; i++ {
			ds.Functions = append(ds.Functions, core_domain.CodeFunction{Name: fmt.Sprintf("getField%d", i), ReturnType: "String",
				Position: core_domain.CodePosition{StartLine: 5 + 4*i, StopLine: 7 + 4*i + i}})
		}
		return ds
	}
	return []core_domain.CodeDataStruct{mk("Alpha", 2), mk("Beta", 3)}
}

func scratchDir(prefix string) string {
	d, err := os.MkdirTemp(os.Getenv("VERIF_SCRATCH"), prefix)
	if err != nil {
		fmt.Fprintln(os.Stderr, "harness:", err)
		os.Exit(2)
	}
	return d
}

func coca(dir string, args ...string) (string, error) {
	bin := os.Getenv("VERIF_COCA")
	if bin == "" {
		fmt.Fprintln(os.Stderr, "harness: VERIF_COCA not set")
		os.Exit(2)
	}
	cmd := exec.Command(bin, args...)
	cmd.Dir = dir
	cmd.Env = append(os.Environ(), "TMPDIR="+dir, "HOME="+dir)
	out, err := cmd.CombinedOutput()
	return string(out), err
}

func runEvaluate(in Input, o *Obs) {
	deps := roundTrip(buildClasses(in))
	if in.Via == "cli" {
		dir := scratchDir("apriori-ev-")
		defer os.RemoveAll(dir)
		rep := filepath.Join(dir, "coca_reporter")
		must(os.MkdirAll(rep, 0o755))
		b, _ := json.MarshalIndent(deps, "", "\t")
		must(os.WriteFile(filepath.Join(rep, "deps.json"), b, 0o644))
		ib, _ := json.MarshalIndent(someIdentifiers(), "", "\t")
		must(os.WriteFile(filepath.Join(rep, "identify.json"), ib, 0o644))
		out, err := coca(dir, "evaluate")
		if err != nil {
			o.Panic = true
			o.Note = short(out, 300)
			return
		}
		raw, err := os.ReadFile(filepath.Join(rep, "evaluate.json"))
		if err != nil {
			o.Note = "no evaluate.json: " + err.Error()
			return
		}
		var res struct {
			ServiceSummary struct {
				RelatedMethod []string
			}
		}
		if err := json.Unmarshal(raw, &res); err != nil {
			o.Note = "evaluate.json: " + err.Error()
			return
		}
		o.Related = strs(res.ServiceSummary.RelatedMethod)
		o.Wellformed = true
		return
	}
	p, msg := lib.Guard(func() {
		base := runtime.NumGoroutine()
		res := evaluate.NewEvaluateAnalyser().Analysis(deps, nil)
		settle(base)
		o.Related = strs(append([]string{}, res.ServiceSummary.RelatedMethod...))
		o.Wellformed = true
	})
	if p {
		o.Panic = true
		o.Wellformed = false
		o.Related = []string{}
		o.Note = short(msg, 300)
	}
}

// ---------------------------------------------------------------- git

const marker = "core/main/java/"

func pathOf(f File) string {
	p := f.Pre
	if f.Core {
		p += marker
	}
	return p + strings.Join(f.Segs, "/")
}

func checkFile(f File) {
	if strings.Contains(f.Pre, marker) || strings.Contains(strings.Join(f.Segs, "/"), marker) || len(f.Segs) == 0 {
		fmt.Fprintln(os.Stderr, "harness: file of the case outside the abstraction:", pathOf(f))
		os.Exit(2)
	}
	for _, s := range f.Segs {
		if s == "" || strings.Contains(s, "/") {
			fmt.Fprintln(os.Stderr, "harness: file of the case outside the abstraction:", pathOf(f))
			os.Exit(2)
		}
	}
}

func configJSON(opt Opt) []byte {
	b, _ := json.Marshal(map[string]interface{}{"minSupport": fl(opt.Sup), "minConfidence": fl(opt.Conf), "minLift": fl(opt.Lift), "maxLength": opt.MaxLen})
	return b
}

func must(err error) {
	if err != nil {
		fmt.Fprintln(os.Stderr, "harness:", err)
		os.Exit(2)
	}
}

func git(dir string, env []string, args ...string) {
	cmd := exec.Command("git", args...)
	cmd.Dir = dir
	cmd.Env = append(append(os.Environ(), "HOME="+dir, "GIT_CONFIG_NOSYSTEM=1", "GIT_AUTHOR_NAME=ann", "GIT_AUTHOR_EMAIL=ann@example.org",
		"GIT_COMMITTER_NAME=ann", "GIT_COMMITTER_EMAIL=ann@example.org"), env...)
	if out, err := cmd.CombinedOutput(); err != nil {
		fmt.Fprintf(os.Stderr, "harness: git %v: %v %s\n", args, err, out)
		os.Exit(2)
	}
}

func runGit(in Input, rendered map[string]string, o *Obs) {
	for _, c := range in.Commits {
		for _, f := range c.Changes {
			checkFile(f)
		}
	}
	cfg := configJSON(in.Opt)
	rendered["config"] = string(cfg)
	if in.Via == "cli" {
		dir := scratchDir("apriori-git-")
		defer os.RemoveAll(dir)
		git(dir, nil, "init", "-q", ".")
		for i, c := range in.Commits {
			seen := map[string]bool{}
			for _, f := range c.Changes {
				p := pathOf(f)
				if seen[p] {
					fmt.Fprintln(os.Stderr, "harness: a commit of a cli case changes one path twice:", p)
					os.Exit(2)
				}
				seen[p] = true
				full := filepath.Join(dir, filepath.FromSlash(p))
				must(os.MkdirAll(filepath.Dir(full), 0o755))
				fh, err := os.OpenFile(full, os.O_APPEND|os.O_CREATE|os.O_WRONLY, 0o644)
				must(err)
				fmt.Fprintf(fh, "line of commit %d\n", i+1)
				fh.Close()
			}
			date := fmt.Sprintf("2020-01-%02dT10:00:00", 1+i%28)
			git(dir, []string{"GIT_AUTHOR_DATE=" + date, "GIT_COMMITTER_DATE=" + date}, "add", "-A")
			git(dir, []string{"GIT_AUTHOR_DATE=" + date, "GIT_COMMITTER_DATE=" + date}, "commit", "-q", "--allow-empty", "-m", fmt.Sprintf("change %d", i+1))
		}
		must(os.WriteFile(filepath.Join(dir, "related.json"), cfg, 0o644))
		out, err := coca(dir, "git", "-r", "related.json")
		if err != nil {
			o.Panic = true
			o.Note = short(out, 300)
			return
		}
		rendered["stdout"] = short(out, 2000)
		// what the command shows: which of the changed files (by path, or by the dotted name of the part after the
		// marker) occur in its output
		seen := map[string]bool{}
		for _, c := range in.Commits {
			for _, f := range c.Changes {
				for _, name := range []string{pathOf(f), strings.Join(f.Segs, ".")} {
					if !seen[name] && strings.Contains(out, name) {
						seen[name] = true
						o.Mentions = append(o.Mentions, name)
					}
				}
			}
		}
		o.Wellformed = true
		return
	}
	var msgs []cocagit.CommitMessage
	for i, c := range in.Commits {
		m := cocagit.CommitMessage{Rev: fmt.Sprintf("%07x", 0xabc000+i), Author: "ann", Date: "2020-01-01", Message: fmt.Sprintf("change %d", i+1)}
		for _, f := range c.Changes {
			m.Changes = append(m.Changes, cocagit.FileChange{Added: 1, Deleted: 0, File: pathOf(f), Mode: ""})
		}
		msgs = append(msgs, m)
	}
	p, msg := lib.Guard(func() {
		base := runtime.NumGoroutine()
		res := cocagit.GetRelatedFiles(msgs, cfg)
		settle(base)
		for _, g := range res {
			o.Groups = append(o.Groups, strs(append([]string{}, g...)))
		}
		o.Wellformed = true
	})
	if p {
		o.Panic = true
		o.Wellformed = false
		o.Groups = [][]string{}
		o.Note = short(msg, 300)
	}
}

// ---------------------------------------------------------------- entry points

func one(raw json.RawMessage) interface{} {
	var c Case
	if err := json.Unmarshal(raw, &c); err != nil {
		panic(err)
	}
	normalize(&c.Input)
	rec := Record{Case: c.Case, Input: c.Input, Rendered: map[string]string{}, Observed: emptyObs()}
	switch c.Input.Kind {
	case "miner":
		runMiner(c.Input, &rec.Observed)
	case "evaluate":
		runEvaluate(c.Input, &rec.Observed)
	case "git":
		runGit(c.Input, rec.Rendered, &rec.Observed)
	default:
		fmt.Fprintln(os.Stderr, "harness: unknown kind", c.Input.Kind)
		os.Exit(2)
	}
	return rec
}

func abnormal(raw json.RawMessage, timeout bool, stderr string) interface{} {
	var c Case
	json.Unmarshal(raw, &c)
	normalize(&c.Input)
	note := "process died: "
	if timeout {
		note = "timeout: "
	}
	o := emptyObs()
	o.Panic = true
	// the first lines of a Go crash name the reason
	o.Note = note + short(firstLines(stderr, 3), 300)
	return Record{Case: c.Case, Input: c.Input, Observed: o}
}

func firstLines(s string, n int) string {
	ls := strings.Split(strings.TrimSpace(s), "\n")
	if len(ls) > n {
		ls = ls[:n]
	}
	return strings.Join(ls, " | ")
}

func main() {
	lib.Main(lib.Handler{One: one, Gen: gen, Abnormal: abnormal})
}
