// Harness for the testsmell suite (C11): renders an abstract tree of Java test and production
// classes, drives the real code in the sequence of cmd/tbs.go (GetJavaTestFiles -> LoadTestIdentify
// -> JavaFullApp.AnalysisFiles -> TbsApp.AnalysisPath in-process, or the coca binary `coca tbs -p DIR`
// + coca_reporter/tbs.json + the printed table), and projects the report into abstract findings
// {file, type, line}. No expected values here: TLC (TestSmellRef!Diff) judges.
package main

import (
	"encoding/json"
	"fmt"
	"os"
	"os/exec"
	"path/filepath"
	"regexp"
	"strconv"
	"strings"

	"github.com/modernizing/coca/cmd/cmd_util"
	"github.com/modernizing/coca/pkg/adapter/cocafile"
	"github.com/modernizing/coca/pkg/application/analysis/javaapp"
	"github.com/modernizing/coca/pkg/application/tbs"
	"github.com/modernizing/coca/pkg/domain/core_domain"

	"verifharness/lib"
)

// ---- abstract input (the JSON shape shared with spec/TestSmellRef.tla)

type Arg struct {
	Lit  string `json:"lit"`  // literal / identifier text (ignored when Call is present)
	Call []Call `json:"call"` // zero or one nested invocation
}

type Call struct {
	Recv string `json:"recv"` // "" (unqualified) | System.out | Thread | a variable / type name
	F    string `json:"f"`    // method name; for a creation the created type
	New  bool   `json:"new"`  // `new F(args)`
	Args []Arg  `json:"args"`
}

type Stmt struct {
	Noise bool   `json:"noise"` // a statement without any invocation (Call is ignored)
	Call  Call   `json:"call"`
	Wrap  string `json:"wrap"` // "" expression statement | decl | if | try | for
	Join  bool   `json:"join"` // rendered on the same line as the previous statement
}

type Anno struct {
	Name string `json:"name"`
	Arg  string `json:"arg"` // text between the parentheses, "" = none
}

type Method struct {
	Name  string `json:"name"`
	Annos []Anno `json:"annos"`
	Body  []Stmt `json:"body"`
}

type File struct {
	Dirs       []string `json:"dirs"` // directories below the analysed root
	Name       string   `json:"name"` // file name = Cls + ".java"
	Pkg        string   `json:"pkg"`
	Cls        string   `json:"cls"`
	Imports    []string `json:"imports"`    // text after `import `
	ClassAnnos []Anno   `json:"classAnnos"` // annotations of the class itself
	Fields     []string `json:"fields"`     // field declarations, text without the final `;`
	Methods    []Method `json:"methods"`
}

type Extra struct { // a file that is not a Java class (resources, notes)
	Dirs []string `json:"dirs"`
	Name string   `json:"name"`
}

type Input struct {
	Layout string  `json:"layout"` // flat | maven (informational)
	Via    string  `json:"via"`    // api | cli
	Rel    bool    `json:"rel"`    // analyse the tree as "." from inside its root (the CLI default `-p .`) instead of by absolute path
	Style  int     `json:"style"`  // seed of the layout choices of the renderer (white space, brace style, comments)
	Files  []File  `json:"files"`
	Extras []Extra `json:"extras"`
}

type Case struct {
	Case    string          `json:"case"`
	Input   Input           `json:"input"`
	Machine json.RawMessage `json:"machine,omitempty"` // the Machine's report (TLC cases; drift note only)
}

// ---- rendered facts and observation

type MethodFacts struct {
	First int   `json:"first"` // line of the first annotation / modifier of the method
	Last  int   `json:"last"`  // line of its closing brace
	Lines []int `json:"lines"` // line of every statement of the body (line of its invocation)
}

type FileFacts struct {
	Path    string        `json:"path"`
	Methods []MethodFacts `json:"methods"`
}

type Facts struct {
	Files []FileFacts `json:"files"`
}

type Finding struct {
	File string `json:"file"` // relative to the analysed root, slash form
	Type string `json:"type"`
	Line int    `json:"line"`
}

type Obs struct {
	Panic    bool      `json:"panic"`
	Timeout  bool      `json:"timeout"`
	Findings []Finding `json:"findings"`
	Nums     int       `json:"nums"`     // cli: the number printed after "Test Bad Smell nums:", -1 otherwise
	HasTable bool      `json:"hasTable"` // cli: a table was printed
	Table    []Finding `json:"table"`    // cli: its rows
	Note     string    `json:"note,omitempty"`
}

type Record struct {
	Case     string          `json:"case"`
	Input    Input           `json:"input"`
	Facts    Facts           `json:"facts"`
	Observed Obs             `json:"observed"`
	Machine  json.RawMessage `json:"machine,omitempty"`
}

func normArgs(as []Arg) []Arg {
	if as == nil {
		return []Arg{}
	}
	for i := range as {
		if as[i].Call == nil {
			as[i].Call = []Call{}
		}
		for j := range as[i].Call {
			as[i].Call[j].Args = normArgs(as[i].Call[j].Args)
		}
		if len(as[i].Call) > 0 {
			as[i].Lit = ""
		}
	}
	return as
}

func normalize(c *Case) {
	in := &c.Input
	if in.Files == nil {
		in.Files = []File{}
	}
	if in.Extras == nil {
		in.Extras = []Extra{}
	}
	if in.Via == "" {
		in.Via = "api"
	}
	if in.Layout == "" {
		in.Layout = "flat"
	}
	for i := range in.Extras {
		if in.Extras[i].Dirs == nil {
			in.Extras[i].Dirs = []string{}
		}
	}
	for i := range in.Files {
		f := &in.Files[i]
		if f.Dirs == nil {
			f.Dirs = []string{}
		}
		if f.Imports == nil {
			f.Imports = []string{}
		}
		if f.Fields == nil {
			f.Fields = []string{}
		}
		if f.ClassAnnos == nil {
			f.ClassAnnos = []Anno{}
		}
		if f.Methods == nil {
			f.Methods = []Method{}
		}
		for j := range f.Methods {
			m := &f.Methods[j]
			if m.Annos == nil {
				m.Annos = []Anno{}
			}
			if m.Body == nil {
				m.Body = []Stmt{}
			}
			for k := range m.Body {
				m.Body[k].Call.Args = normArgs(m.Body[k].Call.Args)
			}
		}
	}
}

func short(s string, n int) string {
	if len(s) > n {
		return s[len(s)-n:]
	}
	return s
}

func rel(root, p string) string {
	r, err := filepath.Rel(root, p)
	if err != nil {
		return filepath.ToSlash(p)
	}
	return filepath.ToSlash(r)
}

// the sequence of cmd/tbs.go, in this process (cwd = scratch: LoadTestIdentify writes coca_reporter/ there)
func viaAPI(scratch, root string, relative bool, o *Obs) {
	old, _ := os.Getwd()
	os.Chdir(scratch)
	defer os.Chdir(old)
	arg := root
	if relative {
		os.Chdir(root)
		arg = "."
		root = "."
	}
	p, msg := lib.Guard(func() {
		files := cocafile.GetJavaTestFiles(arg)
		identifiers := cmd_util.LoadTestIdentify(files)
		identifiersMap := core_domain.BuildIdentifierMap(identifiers)
		analysisApp := javaapp.NewJavaFullApp()
		classNodes := analysisApp.AnalysisFiles(identifiers, files)
		app := tbs.NewTbsApp()
		for _, r := range app.AnalysisPath(classNodes, identifiersMap) {
			o.Findings = append(o.Findings, Finding{File: rel(root, r.FileName), Type: r.Type, Line: r.Line})
		}
	})
	if p {
		o.Panic = true
		o.Findings = []Finding{}
		o.Note = short(msg, 300)
	}
}

type cliSmell struct {
	FileName *string `json:"FileName"`
	Type     *string `json:"Type"`
	Line     *int    `json:"Line"`
}

var numsRe = regexp.MustCompile(`Test Bad Smell nums:\s+(\d+)`)

func viaCLI(scratch, root string, relative bool, o *Obs) {
	bin := os.Getenv("VERIF_COCA")
	if bin == "" {
		fmt.Fprintln(os.Stderr, "harness: VERIF_COCA not set")
		os.Exit(2)
	}
	cmd := exec.Command(bin, "tbs", "-p", root)
	cmd.Dir = scratch
	reporter := scratch
	if relative {
		cmd = exec.Command(bin, "tbs", "-p", ".")
		cmd.Dir = root
		reporter = root
		root = "."
	}
	cmd.Env = append(os.Environ(), "TMPDIR="+scratch, "HOME="+scratch)
	out, err := cmd.CombinedOutput()
	if err != nil {
		// the command died (a Go panic exits with status 2 and a goroutine dump)
		o.Panic = true
		o.Note = short(string(out), 300)
		return
	}
	raw, err := os.ReadFile(filepath.Join(reporter, "coca_reporter", "tbs.json"))
	if err != nil {
		fmt.Fprintln(os.Stderr, "harness: no tbs.json:", err)
		os.Exit(2)
	}
	var list []cliSmell
	if err := json.Unmarshal(raw, &list); err != nil {
		fmt.Fprintln(os.Stderr, "harness: tbs.json:", err)
		os.Exit(2)
	}
	for _, t := range list {
		if t.FileName == nil || t.Type == nil || t.Line == nil {
			fmt.Fprintln(os.Stderr, "harness: tbs.json entry without FileName/Type/Line")
			os.Exit(2)
		}
		o.Findings = append(o.Findings, Finding{File: rel(root, *t.FileName), Type: *t.Type, Line: *t.Line})
	}
	text := string(out)
	if m := numsRe.FindStringSubmatch(text); m != nil {
		o.Nums, _ = strconv.Atoi(m[1])
	}
	// the table: | TYPE | FILENAME | LINE | rows below a header row
	for _, ln := range strings.Split(text, "\n") {
		ln = strings.TrimSpace(ln)
		if !strings.HasPrefix(ln, "|") {
			continue
		}
		cells := strings.Split(strings.Trim(ln, "|"), "|")
		if len(cells) != 3 {
			continue
		}
		for i := range cells {
			cells[i] = strings.TrimSpace(cells[i])
		}
		if strings.EqualFold(cells[0], "TYPE") && strings.EqualFold(cells[2], "LINE") {
			o.HasTable = true
			continue
		}
		if strings.Trim(cells[0]+cells[1]+cells[2], "-") == "" {
			continue // the rule below the header
		}
		n, err := strconv.Atoi(cells[2])
		if err != nil {
			fmt.Fprintln(os.Stderr, "harness: table row not understood:", ln)
			os.Exit(2)
		}
		o.Table = append(o.Table, Finding{File: rel(root, cells[1]), Type: cells[0], Line: n})
	}
}

func one(raw json.RawMessage) interface{} {
	var c Case
	if err := json.Unmarshal(raw, &c); err != nil {
		panic(err)
	}
	normalize(&c)
	rec := Record{Case: c.Case, Input: c.Input, Machine: c.Machine,
		Observed: Obs{Findings: []Finding{}, Table: []Finding{}, Nums: -1}}
	scratch, err := os.MkdirTemp(os.Getenv("VERIF_SCRATCH"), "tbs-")
	if err != nil {
		fmt.Fprintln(os.Stderr, "harness:", err)
		os.Exit(2)
	}
	defer os.RemoveAll(scratch)
	scratch, _ = filepath.Abs(scratch)
	root := filepath.Join(scratch, "proj")
	if err := os.MkdirAll(root, 0o755); err == nil {
		rec.Facts, err = render(root, c.Input)
	}
	if err != nil {
		fmt.Fprintln(os.Stderr, "harness: render:", err)
		os.RemoveAll(scratch)
		os.Exit(2)
	}
	if c.Input.Via == "cli" {
		viaCLI(scratch, root, c.Input.Rel, &rec.Observed)
	} else {
		viaAPI(scratch, root, c.Input.Rel, &rec.Observed)
	}
	if os.Getenv("TESTSMELL_KEEP") != "" {
		// development aid: keep the rendered tree next to the scratch directory
		os.Rename(scratch, scratch+"-kept")
	}
	return rec
}

func abnormal(raw json.RawMessage, timeout bool, stderr string) interface{} {
	if !timeout && strings.Contains(stderr, "harness:") {
		// the harness itself gave up (tool problem, output not understood): no verdict, never an observation
		fmt.Fprintln(os.Stderr, "testsmell:", short(stderr, 600))
		os.Exit(2)
	}
	var c Case
	json.Unmarshal(raw, &c)
	normalize(&c)
	facts := Facts{Files: []FileFacts{}}
	for _, f := range c.Input.Files {
		_, ff := renderFile(f, c.Input.Style)
		facts.Files = append(facts.Files, ff)
	}
	return Record{Case: c.Case, Input: c.Input, Facts: facts, Machine: c.Machine,
		Observed: Obs{Panic: !timeout, Timeout: timeout, Findings: []Finding{}, Table: []Finding{}, Nums: -1, Note: short(stderr, 300)}}
}

func main() {
	lib.Main(lib.Handler{One: one, Gen: gen, Abnormal: abnormal})
}
