package main

import (
	"fmt"
	"os"
	"path/filepath"
	"strings"
)

// writer that knows the line it is on
type lw struct {
	b    strings.Builder
	line int // number of the line being written (1-based)
}

func newLW() *lw { return &lw{line: 1} }

// ln writes one complete line
func (w *lw) ln(s string) {
	w.b.WriteString(s)
	w.b.WriteString("\n")
	w.line++
}

// deterministic layout choice number k of a (style, file, method) triple
func pick(style int, salt string, k int, n int) int {
	h := uint32(2166136261)
	for _, c := range fmt.Sprintf("%d|%s|%d", style, salt, k) {
		h ^= uint32(c)
		h *= 16777619
	}
	h ^= h >> 13
	h *= 0x5bd1e995
	h ^= h >> 15
	return int(h % uint32(n))
}

func renderCall(c Call) string {
	var as []string
	for _, a := range c.Args {
		if len(a.Call) > 0 {
			as = append(as, renderCall(a.Call[0]))
		} else {
			as = append(as, a.Lit)
		}
	}
	args := "(" + strings.Join(as, ", ") + ")"
	if c.New {
		return "new " + c.F + args
	}
	if c.Recv != "" {
		return c.Recv + "." + c.F + args
	}
	return c.F + args
}

// statements without any invocation; some mention the evidence patterns in a comment or a string only
var noiseStmts = []string{
	`int n%d = %d;`,
	`String s%d = "v" + %d;`,
	`boolean b%d = %d > 1;`,
	`long t%d = %dL * 2;`,
	`// System.out.println(%d); Thread.sleep(%d);`,
	`String q%d = "assertEquals(%d, 1); System.out.println(1)";`,
	`/* assertTrue(ok%d); Thread.sleep(%d); */`,
}

// renderFile returns the Java text of one class and the facts about what was rendered where.
func renderFile(f File, style int) (string, FileFacts) {
	w := newLW()
	salt := strings.Join(f.Dirs, "/") + "/" + f.Name
	ff := FileFacts{Path: strings.Join(append(append([]string{}, f.Dirs...), f.Name), "/"), Methods: []MethodFacts{}}
	if pick(style, salt, 0, 4) == 0 {
		w.ln("/* generated for the testsmell suite */")
	}
	if f.Pkg != "" {
		w.ln("package " + f.Pkg + ";")
		w.ln("")
	}
	for _, im := range f.Imports {
		w.ln("import " + im + ";")
	}
	if len(f.Imports) > 0 {
		w.ln("")
	}
	for _, a := range f.ClassAnnos {
		t := "@" + a.Name
		if a.Arg != "" {
			t += "(" + a.Arg + ")"
		}
		w.ln(t)
	}
	w.ln("public class " + f.Cls + " {")
	for _, fd := range f.Fields {
		w.ln("    " + fd + ";")
	}
	if len(f.Fields) > 0 {
		w.ln("")
	}
	vn := 0
	for mi, m := range f.Methods {
		ms := fmt.Sprintf("%s#%d", salt, mi)
		mf := MethodFacts{Lines: []int{}}
		if pick(style, ms, 1, 3) == 0 {
			w.ln("    // " + m.Name)
		}
		mf.First = w.line
		// annotations: each on its own line, or all on the line of the signature
		sameLine := pick(style, ms, 2, 4) == 0
		var anns []string
		for _, a := range m.Annos {
			s := "@" + a.Name
			if a.Arg != "" {
				s += "(" + a.Arg + ")"
			}
			anns = append(anns, s)
		}
		mods := "public "
		isTest := false
		for _, a := range m.Annos {
			if a.Name == "Test" || a.Name == "Ignore" {
				isTest = true
			}
		}
		if !isTest && len(m.Annos) == 0 {
			mods = []string{"private ", "public ", "", "protected ", "private static "}[pick(style, ms, 3, 5)]
		} else if isTest {
			mods = []string{"public ", "public ", "public ", "", "public final "}[pick(style, ms, 3, 5)]
		}
		throws := []string{"", " throws Exception", " throws Throwable", ""}[pick(style, ms, 4, 4)]
		sig := mods + "void " + m.Name + "()" + throws
		if sameLine && len(anns) > 0 {
			sig = strings.Join(anns, " ") + " " + sig
		} else {
			for _, a := range anns {
				w.ln("    " + a)
			}
		}
		if pick(style, ms, 5, 5) == 0 {
			w.ln("    " + sig)
			w.ln("    {")
		} else {
			w.ln("    " + sig + " {")
		}
		// body
		pending := "" // text of the line being assembled (statements joined on one line)
		flush := func() {
			if pending != "" {
				w.ln(pending)
				pending = ""
			}
		}
		for si, s := range m.Body {
			var text string
			if s.Noise {
				vn++
				text = fmt.Sprintf(noiseStmts[pick(style, ms, 10+si, len(noiseStmts))], vn, vn)
			} else {
				text = renderCall(s.Call)
			}
			plainForm := s.Noise || s.Wrap == "" || s.Wrap == "decl"
			if !s.Noise && s.Wrap == "decl" {
				vn++
				typ := "Object"
				if s.Call.New {
					typ = s.Call.F
				}
				text = fmt.Sprintf("%s v%d = %s", typ, vn, text)
			}
			if !s.Noise {
				text += ";"
			}
			if s.Noise {
				// always a line of its own (it may be a comment): nothing is ever joined to it
				flush()
				mf.Lines = append(mf.Lines, w.line)
				w.ln("        " + text)
				continue
			}
			if plainForm {
				if s.Join && pending != "" {
					pending += " " + text
				} else {
					flush()
					pending = "        " + text
				}
				mf.Lines = append(mf.Lines, w.line)
				continue
			}
			flush()
			switch s.Wrap {
			case "if":
				w.ln("        if (" + []string{"flag", "n > 0", "x != null"}[pick(style, ms, 20+si, 3)] + ") {")
				mf.Lines = append(mf.Lines, w.line)
				w.ln("            " + text)
				w.ln("        }")
			case "try":
				w.ln("        try {")
				mf.Lines = append(mf.Lines, w.line)
				w.ln("            " + text)
				w.ln("        } catch (Exception e) {")
				w.ln("        }")
			case "for":
				w.ln("        for (int i = 0; i < 3; i++) {")
				mf.Lines = append(mf.Lines, w.line)
				w.ln("            " + text)
				w.ln("        }")
			default:
				mf.Lines = append(mf.Lines, w.line)
				w.ln("        " + text)
			}
		}
		flush()
		if len(m.Body) == 0 && pick(style, ms, 6, 3) == 0 {
			w.ln("        // nothing here")
		}
		mf.Last = w.line
		w.ln("    }")
		if mi < len(f.Methods)-1 || pick(style, ms, 7, 2) == 0 {
			w.ln("")
		}
		ff.Methods = append(ff.Methods, mf)
	}
	w.ln("}")
	return w.b.String(), ff
}

func render(root string, in Input) (Facts, error) {
	facts := Facts{Files: []FileFacts{}}
	for _, f := range in.Files {
		text, ff := renderFile(f, in.Style)
		p := filepath.Join(append(append([]string{root}, f.Dirs...), f.Name)...)
		if err := os.MkdirAll(filepath.Dir(p), 0o755); err != nil {
			return facts, err
		}
		if err := os.WriteFile(p, []byte(text), 0o644); err != nil {
			return facts, err
		}
		facts.Files = append(facts.Files, ff)
	}
	for _, e := range in.Extras {
		p := filepath.Join(append(append([]string{root}, e.Dirs...), e.Name)...)
		if err := os.MkdirAll(filepath.Dir(p), 0o755); err != nil {
			return facts, err
		}
		if err := os.WriteFile(p, []byte("expected=1\nnote: not a java class\n"), 0o644); err != nil {
			return facts, err
		}
	}
	return facts, nil
}
