package main

import (
	"fmt"
	"math/rand"
	"strings"
)

// Seeded random abstract trees (direction B): wider than the Machine's constants - several classes per
// tree, flat and Maven layouts, production twins, 0..9 statements per method, nested invocations,
// statements wrapped in if/try/for, two statements on one line, assertion multiplicities around 5.
// Only abstract inputs are produced here; nothing about what the report should be.

type g struct{ r *rand.Rand }

func lit(s string) Arg { return Arg{Lit: s, Call: []Call{}} }
func nest(c Call) Arg  { return Arg{Lit: "", Call: []Call{c}} }
func call(recv, f string, args ...Arg) Call {
	if args == nil {
		args = []Arg{}
	}
	return Call{Recv: recv, F: f, Args: args}
}
func creation(t string, args ...Arg) Call {
	if args == nil {
		args = []Arg{}
	}
	return Call{F: t, New: true, Args: args}
}

var atoms = []string{"1", "2", "42", "true", "false", "a", "b", "n", "\"x\"", "\"msg\"", "null", "0.5"}

func (x *g) atom() string { return atoms[x.r.Intn(len(atoms))] }

func (x *g) two() (string, string) {
	if x.r.Intn(12) == 0 {
		// two long texts that agree for their first 80 characters and differ at the end: textually NOT identical
		p := "\"the quick brown fox jumps over the lazy dog and the five boxing wizards jump quickly again "
		return p + "one\"", p + "two\""
	}
	a := x.atom()
	b := x.atom()
	for b == a {
		b = x.atom()
	}
	return a, b
}

// an invocation without nested invocations that is not an assertion, a print or a sleep
func (x *g) plain() Call {
	a, b := x.two()
	switch x.r.Intn(9) {
	case 0:
		return call("calc", "add", lit(a), lit(b))
	case 1:
		return call("calc", "compute", lit(a))
	case 2:
		return call("service", "run")
	case 3:
		return call("", "Show", lit(a), lit(b))
	case 4:
		return call("list", "size")
	case 5:
		return call("Math", "max", lit(a), lit(b))
	case 6:
		return call("util", "load", lit("\"f\""))
	case 7:
		return call("System.err", "println", lit(a))
	default:
		return call("calc", "get")
	}
}

func (x *g) assertion(kind int) Call {
	a, b := x.two()
	var v Arg
	if x.r.Intn(6) == 0 {
		v = nest(x.plain())
	} else {
		v = lit(b)
	}
	switch kind % 6 {
	case 0:
		return call("", "assertEquals", lit(a), v)
	case 1:
		return call("", "assertTrue", v)
	case 2:
		return call("", "assertNotNull", v)
	case 3:
		return call("Assert", "assertEquals", lit(a), v)
	case 4:
		return call("", "assertEquals", lit("\"m\""), lit(a), v)
	default:
		return call("", "verify", v)
	}
}

func (x *g) eqArgs() Call {
	a := x.atom()
	switch x.r.Intn(7) {
	case 0:
		return call("", "assertEquals", lit(a), lit(a))
	case 1:
		return call("", "assertSame", lit(a), lit(a))
	case 2:
		return call("calc", "add", lit(a), lit(a))
	case 3:
		return call("Math", "max", lit(a), lit(a))
	case 4:
		c := call("calc", "get")
		return call("", "assertEquals", nest(c), nest(c))
	case 5:
		return call("Assert", "assertEquals", lit(a), lit(a))
	default:
		return call("System.out", "printf", lit(a), lit(a))
	}
}

func (x *g) print() Call {
	f := []string{"println", "print", "printf", "println"}[x.r.Intn(4)]
	if x.r.Intn(8) == 0 {
		return call("System.out", f, nest(call("calc", "get")))
	}
	return call("System.out", f, lit(x.atom()))
}

func (x *g) sleep() Call {
	return call("Thread", "sleep", lit([]string{"10", "500", "1000L"}[x.r.Intn(3)]))
}

// look-alikes that are none of the evidence patterns
func (x *g) lookalike() Call {
	switch x.r.Intn(10) {
	case 6: // receivers that merely contain the evidence receiver's name
		return call([]string{"FakeClockThread", "ThreadUtil", "worker", "MyThread"}[x.r.Intn(4)], "sleep", lit("500"))
	case 7:
		return call([]string{"MySystem.out", "System.outer", "Systemx.out"}[x.r.Intn(3)], "println", lit(x.atom()))
	case 8:
		return call("Thread", "sleepy", lit("1"))
	case 9:
		return call("System.out", "printer", lit(x.atom()))
	case 0:
		return call("System.out", "flush")
	case 1:
		return call("TimeUnit.SECONDS", "sleep", lit("1"))
	case 2:
		return call("Thread", "yield")
	case 3:
		return call("System.err", "print", lit(x.atom()))
	case 4:
		return call("calc", "add", lit("1"), lit("1"), lit("2")) // three arguments, two of them equal
	default:
		return call("out", "println", lit(x.atom()))
	}
}

func (x *g) creationCall() Call {
	switch x.r.Intn(4) {
	case 0:
		return creation("Calc")
	case 1:
		return creation("Order", lit(x.atom()))
	case 2:
		a := x.atom()
		return creation("Pair", lit(a), lit(a))
	default:
		return creation("StringBuilder")
	}
}

// names whose being an assertion the statement does not settle (free zone of the Reference)
var freeNames = []string{"isValid", "checkout", "shouldRun", "specify", "expect", "ensure", "validate", "mustBe"}

var helperNames = []string{"prepare", "doWork", "fill", "setUpData", "cleanUp", "makeFixture"}

func (x *g) stmtOf(c Call) Stmt {
	s := Stmt{Call: c}
	switch n := x.r.Intn(100); {
	case n < 70:
	case n < 78:
		if c.New || (c.Recv != "" && c.Recv != "System.out" && c.Recv != "Thread" && c.Recv != "System.err") {
			s.Wrap = "decl"
		}
	case n < 86:
		s.Wrap = "if"
	case n < 93:
		s.Wrap = "try"
	default:
		s.Wrap = "for"
	}
	if (s.Wrap == "" || s.Wrap == "decl") && x.r.Intn(12) == 0 {
		s.Join = true
	}
	return s
}

// body of n statements assembled from the evidence patterns; helpers = callable helper names of the class
func (x *g) body(n int, helpers []string, free bool) []Stmt {
	body := []Stmt{}
	// multiplicity family: k occurrences of one assertion kind (k around the threshold)
	if n >= 4 && x.r.Intn(3) == 0 {
		k := []int{4, 5, 6, 5, 4, 7}[x.r.Intn(6)]
		kind := x.r.Intn(6)
		for i := 0; i < k; i++ {
			body = append(body, x.stmtOf(x.assertion(kind)))
		}
		n -= 3
		// next to it, one ordinary call repeated as often: a verdict taken from "the last group of repeated calls"
		// then depends on which group a map hands out last
		if x.r.Intn(2) == 0 {
			pc := x.plain()
			for i := 0; i < k; i++ {
				body = append(body, x.stmtOf(pc))
			}
		}
	}
	for i := 0; i < n; i++ {
		var s Stmt
		switch p := x.r.Intn(100); {
		case p < 12:
			s = x.stmtOf(x.print())
		case p < 22:
			s = x.stmtOf(x.sleep())
		case p < 40:
			s = x.stmtOf(x.assertion(x.r.Intn(6)))
		case p < 50:
			s = x.stmtOf(x.eqArgs())
		case p < 60 && len(helpers) > 0:
			recv := ""
			if x.r.Intn(5) == 0 {
				recv = "this"
			}
			s = x.stmtOf(call(recv, helpers[x.r.Intn(len(helpers))]))
		case p < 75:
			s = x.stmtOf(x.plain())
		case p < 83:
			s = x.stmtOf(x.creationCall())
		case p < 90:
			s = x.stmtOf(x.lookalike())
		case p < 96:
			s = Stmt{Noise: true, Call: Call{Args: []Arg{}}}
		default:
			if free {
				s = x.stmtOf(call("calc", freeNames[x.r.Intn(len(freeNames))], lit(x.atom())))
			} else {
				s = x.stmtOf(x.plain())
			}
		}
		body = append(body, s)
	}
	x.r.Shuffle(len(body), func(i, j int) { body[i], body[j] = body[j], body[i] })
	if len(body) > 0 {
		body[0].Join = false
	}
	return body
}

func invocations(b []Stmt) (calls, news int) {
	var walk func(c Call)
	walk = func(c Call) {
		if c.New {
			news++
		} else {
			calls++
		}
		for _, a := range c.Args {
			for _, n := range a.Call {
				walk(n)
			}
		}
	}
	for _, s := range b {
		if !s.Noise {
			walk(s.Call)
		}
	}
	return
}

var testClsNames = []string{"CalcTest", "OrderTests", "UserServiceTest", "ParserTest", "RepoTests", "IOTest"}
var testRootOnlyNames = []string{"Fixtures", "CalcIT", "TestBase", "Scenarios"} // test files only by their directory
var prodClsNames = []string{"Calc", "OrderService", "Contest", "TestUtil", "Latest", "Protests", "Attest"}
var pkgs = [][]string{{"p"}, {"com", "acme"}, {"org", "demo", "core"}, {}}

func (x *g) class(cls string, dirs []string, pkg []string, isTestish bool, k int, allowKnown, free bool) File {
	f := File{Dirs: dirs, Name: cls + ".java", Pkg: strings.Join(pkg, "."), Cls: cls,
		Imports: []string{}, Fields: []string{}, Methods: []Method{}}
	f.Imports = append(f.Imports, "org.junit.Test", "org.junit.Ignore")
	switch x.r.Intn(4) {
	case 0:
		f.Imports = append(f.Imports, "static org.junit.Assert.assertEquals", "static org.junit.Assert.assertTrue")
	case 1:
		f.Imports = append(f.Imports, "static org.junit.Assert.*")
	case 2:
		f.Imports = append(f.Imports, "org.junit.Assert", "static org.junit.Assert.assertNotNull", "static org.mockito.Mockito.verify")
	}
	f.ClassAnnos = []Anno{}
	if x.r.Intn(5) == 0 {
		f.ClassAnnos = append(f.ClassAnnos, Anno{Name: "RunWith", Arg: "JUnit4.class"})
	}
	if x.r.Intn(2) == 0 {
		f.Fields = append(f.Fields, "private Calc calc = new Calc()")
	}
	if x.r.Intn(3) == 0 {
		f.Fields = append(f.Fields, "private boolean flag = true", "java.util.List<String> list")
	}
	// helpers first decided so that test bodies can call them
	nh := x.r.Intn(3)
	hs := []string{}
	perm := x.r.Perm(len(helperNames))
	for i := 0; i < nh; i++ {
		hs = append(hs, helperNames[perm[i]])
	}
	var ms []Method
	for i, h := range hs {
		callable := []string{}
		if free && i > 0 && x.r.Intn(2) == 0 {
			callable = hs[:i] // a helper calling an earlier helper (depth 2): free zone
		}
		ms = append(ms, Method{Name: h, Annos: []Anno{}, Body: x.body(x.r.Intn(4), callable, free)})
	}
	nt := 1 + x.r.Intn(3)
	for i := 0; i < nt; i++ {
		m := Method{Name: fmt.Sprintf("test%s%d", []string{"Adds", "Parses", "Loads", "Saves"}[x.r.Intn(4)], i)}
		switch p := x.r.Intn(20); {
		case p < 11:
			m.Annos = []Anno{{Name: "Test"}}
		case p < 13:
			m.Annos = []Anno{{Name: "Test", Arg: []string{"expected = Exception.class", "timeout = 100"}[x.r.Intn(2)]}}
		case p < 15:
			m.Annos = []Anno{{Name: "Ignore", Arg: []string{"", "\"later\""}[x.r.Intn(2)]}}
		case p < 18:
			m.Annos = []Anno{{Name: "Test"}, {Name: "Ignore", Arg: []string{"", "\"flaky\""}[x.r.Intn(2)]}}
		default:
			m.Annos = []Anno{{Name: "Ignore"}, {Name: "Test"}}
		}
		// a test method may carry other annotations as well, before or after @Test / @Ignore
		switch x.r.Intn(6) {
		case 0:
			m.Annos = append(m.Annos, Anno{Name: "SuppressWarnings", Arg: "\"unchecked\""})
		case 1:
			m.Annos = append([]Anno{{Name: "Deprecated"}}, m.Annos...)
		}
		n := []int{0, 0, 1, 2, 2, 3, 3, 4, 5, 6, 7, 9}[x.r.Intn(12)]
		m.Body = x.body(n, hs, free)
		if x.r.Intn(8) == 0 {
			// a body made of object creations only (no method call at all)
			m.Body = []Stmt{}
			for k := 1 + x.r.Intn(3); k > 0; k-- {
				m.Body = append(m.Body, x.stmtOf(creation([]string{"Calc", "Item", "StringBuilder"}[x.r.Intn(3)])))
			}
		}
		if !allowKnown {
			// keep the two listed known-finding shapes out of the cases that probe everything else
			calls, news := invocations(m.Body)
			if calls == 1 && news == 0 {
				m.Body = append(m.Body, x.stmtOf(x.plain()))
			}
			if calls == 0 && news == 0 && len(m.Annos) == 1 && m.Annos[0].Name == "Ignore" {
				m.Annos = append(m.Annos, Anno{Name: "Test"})
			}
		}
		ms = append(ms, m)
	}
	// methods that are no tests: no annotation or a foreign one
	for i := x.r.Intn(3); i > 0; i-- {
		an := [][]Anno{{}, {{Name: "Before"}}, {{Name: "After"}}, {{Name: "Override"}}, {{Name: "SuppressWarnings", Arg: "\"unchecked\""}}}[x.r.Intn(5)]
		ms = append(ms, Method{Name: fmt.Sprintf("other%d", i), Annos: an, Body: x.body(1+x.r.Intn(4), nil, false)})
	}
	x.r.Shuffle(len(ms), func(i, j int) { ms[i], ms[j] = ms[j], ms[i] })
	f.Methods = ms
	_ = isTestish
	_ = k
	return f
}

func gen(seed int64, n int, tier string) []interface{} {
	r := rand.New(rand.NewSource(seed*104729 + 11))
	x := &g{r: r}
	var out []interface{}
	for k := 0; k < n; k++ {
		allowKnown := k%5 == 2 // a minority of cases may contain the listed known-finding shapes
		free := k%5 == 4       // a minority contains don't-care shapes
		in := Input{Via: "api", Rel: r.Intn(3) == 0, Style: r.Intn(1 << 20), Files: []File{}, Extras: []Extra{}}
		if k%7 == 3 {
			in.Via = "cli"
		}
		maven := r.Intn(5) < 3
		seen := map[string]bool{}
		add := func(f File) {
			// one class of a name per tree (two classes p.CalcTest in one tree are not conventional)
			if !seen[f.Name] {
				seen[f.Name] = true
				in.Files = append(in.Files, f)
			}
		}
		nTest := 1 + r.Intn(2)
		nProd := r.Intn(3)
		if maven {
			in.Layout = "maven"
			mod := []string{}
			if r.Intn(4) == 0 {
				mod = []string{"module-a"}
			}
			for i := 0; i < nTest; i++ {
				pkg := pkgs[r.Intn(len(pkgs))]
				dirs := append(append(append([]string{}, mod...), "src", "test", "java"), pkg...)
				var cls string
				if r.Intn(4) == 0 {
					cls = testRootOnlyNames[r.Intn(len(testRootOnlyNames))]
				} else {
					cls = testClsNames[r.Intn(len(testClsNames))]
				}
				add(x.class(cls, dirs, pkg, true, k, allowKnown, free))
			}
			for i := 0; i < nProd; i++ {
				pkg := pkgs[r.Intn(len(pkgs))]
				dirs := append(append(append([]string{}, mod...), "src", "main", "java"), pkg...)
				add(x.class(prodClsNames[r.Intn(len(prodClsNames))], dirs, pkg, false, k, true, free))
			}
			if r.Intn(3) == 0 {
				in.Extras = append(in.Extras, Extra{Dirs: append(append([]string{}, mod...), "src", "test", "resources"), Name: "data.properties"})
			}
			if r.Intn(4) == 0 {
				pkg := pkgs[r.Intn(len(pkgs)-1)]
				in.Extras = append(in.Extras, Extra{Dirs: append(append(append([]string{}, mod...), "src", "test", "java"), pkg...), Name: []string{"notes.txt", "package.html", "fixture.json"}[r.Intn(3)]})
			}
		} else {
			in.Layout = "flat"
			for i := 0; i < nTest; i++ {
				pkg := pkgs[r.Intn(len(pkgs))]
				dirs := [][]string{{}, {"sub"}, {"a", "b"}, {"tests"}}[r.Intn(4)]
				add(x.class(testClsNames[r.Intn(len(testClsNames))], dirs, pkg, true, k, allowKnown, free))
			}
			for i := 0; i < nProd; i++ {
				pkg := pkgs[r.Intn(len(pkgs))]
				dirs := [][]string{{}, {"sub"}, {"main"}, {"src", "test"}}[r.Intn(4)]
				add(x.class(prodClsNames[r.Intn(len(prodClsNames))], dirs, pkg, false, k, true, free))
			}
			if r.Intn(4) == 0 {
				in.Extras = append(in.Extras, Extra{Dirs: []string{}, Name: []string{"README.md", "LoadTest.txt", "notes.java.txt"}[r.Intn(3)]})
			}
		}
		r.Shuffle(len(in.Files), func(i, j int) { in.Files[i], in.Files[j] = in.Files[j], in.Files[i] })
		out = append(out, Case{Case: fmt.Sprintf("rand-%d-%d", seed, k), Input: in})
	}
	return out
}
