package main

import (
	"fmt"
	"math/rand"
)

// gen: seeded random abstract cases, wider than TLC's constants: 2-5 classes in up to 4 packages, call graphs with
// chains, shared callees, cycles and callees outside the model, 0-7 APIs (repeated, handlers outside the model, equal
// sizes), every flag combination, -r lists with names that are prefixes of each other, with and without the final
// dot, with empty elements. The two listed defect shapes (a listed package name occurring INSIDE a name, a comma in a
// cell) are generated in a minority of the cases only.
func gen(seed int64, n int, tier string) []interface{} {
	r := rand.New(rand.NewSource(seed*15485863 + 5))
	out := []interface{}{}
	for i := 0; i < n; i++ {
		in := genCase(r)
		normalize(&in)
		out = append(out, Case{Case: fmt.Sprintf("rand-%d-%d", seed, i), Input: in})
	}
	return out
}

type world struct {
	pkgs  []string
	inner bool // some package name ends in another one's name ("app." inside "..webapp.")
}

var worlds = []world{
	{pkgs: []string{"com.acme.shop.web", "com.acme.shop.core", "com.acme.pay", "org.ext.lib"}},
	{pkgs: []string{"com.phodal.pholedge.book", "com.phodal.pholedge.user", "com.phodal.common", "org.spring.data"}},
	{pkgs: []string{"shop.api", "shop.domain", "shop.infra.db", "util"}},
	{pkgs: []string{"app.web.webapp", "app.svc", "org.lib", "app"}, inner: true},
	{pkgs: []string{"core.api", "com.score.api", "core", "net.core.x"}, inner: true},
}

var classNames = []string{"OrderController", "CartController", "Service", "Repo", "Main", "S", "Util_1", "A$B"}
var methodNames = []string{"get", "list", "create", "run", "find", "save", "a", "b"}
var uriPool = []string{"/", "/orders", "/orders/{id}", "/orders/{id}/items", "/cart", "/cart/add", "/api/v1/users", "/api/v2/users", "/b"}
var verbs = []string{"GET", "GET", "POST", "PUT", "DELETE"}

func genCase(r *rand.Rand) Input {
	w := worlds[r.Intn(3)]
	if r.Intn(10) == 0 {
		w = worlds[3+r.Intn(2)] // listed defect shape (quota)
	}
	// declared methods
	type mref struct{ p, c, m string }
	var decl []mref
	seen := map[mref]bool{}
	nm := 2 + r.Intn(9)
	for len(decl) < nm {
		x := mref{w.pkgs[r.Intn(len(w.pkgs))], classNames[r.Intn(len(classNames))], methodNames[r.Intn(len(methodNames))]}
		if seen[x] {
			continue
		}
		seen[x] = true
		decl = append(decl, x)
	}
	outside := []mref{{"java.util", "List", "add"}, {w.pkgs[0], "Missing", "gone"}}
	methods := []Method{}
	for i, d := range decl {
		m := Method{Pkg: d.p, Node: d.c, Name: d.m, Calls: []Callee{}}
		nc := r.Intn(4)
		if r.Intn(3) == 0 {
			nc = 0
		}
		for k := 0; k < nc; k++ {
			var t mref
			switch x := r.Intn(10); {
			case x < 6 && i+1 < len(decl): // forward: acyclic part
				t = decl[i+1+r.Intn(len(decl)-i-1)]
			case x < 8:
				t = decl[r.Intn(len(decl))] // anywhere: cycles, self calls
			default:
				t = outside[r.Intn(len(outside))]
			}
			m.Calls = append(m.Calls, Callee{Pkg: t.p, Node: t.c, Name: t.m})
		}
		methods = append(methods, m)
	}
	// flags
	remove := []string{}
	if r.Intn(4) != 0 {
		k := 1 + r.Intn(3)
		for j := 0; j < k; j++ {
			p := w.pkgs[r.Intn(len(w.pkgs))]
			switch r.Intn(6) {
			case 0: // a parent package
				for q := len(p) - 1; q > 0; q-- {
					if p[q] == '.' {
						p = p[:q]
						break
					}
				}
				p += "."
			case 1: // without the final dot, as in the README's multi-package example
			default:
				p += "."
			}
			remove = append(remove, p)
		}
		if r.Intn(12) == 0 {
			remove = append(remove, "") // a trailing comma
		}
		if r.Intn(12) == 0 {
			remove = append(remove, "not.in.the.project.")
		}
	}
	if r.Intn(6) == 0 {
		// `coca call -r`: one name
		root := decl[r.Intn(len(decl))]
		if len(remove) == 0 {
			remove = []string{w.pkgs[r.Intn(len(w.pkgs))] + "."}
		}
		return Input{Cmd: "call", Methods: methods, Apis: []Api{},
			Flags: Flags{Remove: remove[:1], Root: root.p + "." + root.c + "." + root.m}}
	}
	uris := append([]string{}, uriPool...)
	if r.Intn(15) == 0 {
		uris = append(uris, "/items/{id:[0-9]{1,3}}", "/q/{a,b}") // listed defect shape (quota): a comma in a cell
	}
	if w.inner && r.Intn(3) == 0 {
		uris = append(uris, "/files/"+w.pkgs[1]+".txt")
	}
	na := r.Intn(8)
	apis := []Api{}
	for k := 0; k < na; k++ {
		var h mref
		switch x := r.Intn(10); {
		case x < 8:
			h = decl[r.Intn(len(decl))]
		case x < 9 && len(apis) > 0:
			apis = append(apis, apis[r.Intn(len(apis))]) // the same API twice
			continue
		default:
			h = outside[1]
		}
		apis = append(apis, Api{Verb: verbs[r.Intn(len(verbs))], Uri: uris[r.Intn(len(uris))], Pkg: h.p, Node: h.c, Name: h.m})
	}
	agg := ""
	if r.Intn(3) == 0 {
		agg = []string{"/orders", "/api/v1", "/", "/cart/", "/nothing", "/b"}[r.Intn(6)]
	}
	return Input{Cmd: "api", Methods: methods, Apis: apis,
		Flags: Flags{Count: r.Intn(6) != 0, Sort: r.Intn(2) == 0, Remove: remove, Aggregate: agg}}
}
