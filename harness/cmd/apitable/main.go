// Harness for the apitable suite (extension X05): the presentation layer of `coca api` (count table, api.csv,
// api.dot, --sort, --aggregate, -r) and `coca call -r`.
//
// An abstract case is a code model (methods with their calls), a list of APIs and the flags. It is rendered as
// coca_reporter/deps.json + apis.json + identify.json in TWO scratch directories, and the coca binary (VERIF_COCA)
// runs in each, one OS process per command, cwd and TMPDIR inside the scratch directory:
//
//	plain    coca api -c                         | coca call -c <root>
//	flagged  coca api [-c] [-s] [-r a,b] [-a p]  | coca call -c <root> -r <name>
//
// What both printed and wrote (the table on stdout, api.csv, api.dot / call.dot) is read back by strict readers and
// projected. No expected values here: TLC (X05ApiTableRef!Diff) relates the flagged output to the plain one.
package main

import (
	"encoding/csv"
	"encoding/json"
	"fmt"
	"os"
	"os/exec"
	"path/filepath"
	"regexp"
	"strconv"
	"strings"
	"sync"

	"github.com/modernizing/coca/pkg/domain/api_domain"
	"github.com/modernizing/coca/pkg/domain/core_domain"

	"verifharness/lib"
)

type Callee struct {
	Pkg  string `json:"pkg"`
	Node string `json:"node"`
	Name string `json:"name"`
}

type Method struct {
	Pkg   string   `json:"pkg"`
	Node  string   `json:"node"`
	Name  string   `json:"name"`
	Calls []Callee `json:"calls"`
}

type Api struct {
	Verb string `json:"verb"`
	Uri  string `json:"uri"`
	Pkg  string `json:"pkg"`
	Node string `json:"node"`
	Name string `json:"name"`
}

type Flags struct {
	Count     bool     `json:"count"`
	Sort      bool     `json:"sort"`
	Remove    []string `json:"remove"`
	Aggregate string   `json:"aggregate"`
	Root      string   `json:"root"`
}

type Input struct {
	Cmd     string   `json:"cmd"` // "api" | "call"
	Methods []Method `json:"methods"`
	Apis    []Api    `json:"apis"`
	Flags   Flags    `json:"flags"`
}

type Case struct {
	Case  string `json:"case"`
	Input Input  `json:"input"`
}

type Row struct {
	Size   int    `json:"size"`
	Method string `json:"method"`
	Uri    string `json:"uri"`
	Caller string `json:"caller"`
}

type Seg struct {
	Marker [2]string   `json:"marker"`
	Edges  [][2]string `json:"edges"`
}

type Table struct {
	Present bool  `json:"present"`
	Ok      bool  `json:"ok"`
	Rows    []Row `json:"rows"`
}

type Csv struct {
	Ok   bool  `json:"ok"`
	Rows []Row `json:"rows"`
}

type Out struct {
	Dotok bool        `json:"dotok"`
	Segs  []Seg       `json:"segs"`
	Edges [][2]string `json:"edges"`
	Table Table       `json:"table"`
	Csv   Csv         `json:"csv"`
}

type Obs struct {
	Panic bool   `json:"panic"`
	Base  Out    `json:"base"`
	With  Out    `json:"with"`
	Note  string `json:"note,omitempty"`
}

type Record struct {
	Case     string            `json:"case"`
	Input    Input             `json:"input"`
	Rendered map[string]string `json:"rendered,omitempty"`
	Observed Obs               `json:"observed"`
}

func emptyOut() Out {
	return Out{Segs: []Seg{}, Edges: [][2]string{}, Table: Table{Rows: []Row{}}, Csv: Csv{Rows: []Row{}}}
}

func normalize(in *Input) {
	if in.Methods == nil {
		in.Methods = []Method{}
	}
	for i := range in.Methods {
		if in.Methods[i].Calls == nil {
			in.Methods[i].Calls = []Callee{}
		}
	}
	if in.Apis == nil {
		in.Apis = []Api{}
	}
	if in.Flags.Remove == nil {
		in.Flags.Remove = []string{}
	}
}

func short(s string, n int) string {
	if len(s) > n {
		return s[len(s)-n:]
	}
	return s
}

// ---------------------------------------------------------------- render

func buildModel(in Input) []core_domain.CodeDataStruct {
	clzs := []core_domain.CodeDataStruct{}
	index := map[string]int{}
	for _, m := range in.Methods {
		key := m.Pkg + "\x00" + m.Node
		i, ok := index[key]
		if !ok {
			i = len(clzs)
			index[key] = i
			clzs = append(clzs, core_domain.CodeDataStruct{NodeName: m.Node, Package: m.Pkg, Type: "Class"})
		}
		f := core_domain.CodeFunction{Name: m.Name}
		for _, c := range m.Calls {
			f.FunctionCalls = append(f.FunctionCalls, core_domain.CodeCall{Package: c.Pkg, NodeName: c.Node, FunctionName: c.Name})
		}
		clzs[i].Functions = append(clzs[i].Functions, f)
	}
	return clzs
}

func buildApis(in Input) []api_domain.RestAPI {
	apis := []api_domain.RestAPI{}
	for _, a := range in.Apis {
		apis = append(apis, api_domain.RestAPI{Uri: a.Uri, HttpMethod: a.Verb, MethodName: a.Name, PackageName: a.Pkg, ClassName: a.Node})
	}
	return apis
}

func must(err error) {
	if err != nil {
		fmt.Fprintln(os.Stderr, "harness:", err)
		os.Exit(2)
	}
}

func reporter(dir string, in Input) {
	rep := filepath.Join(dir, "coca_reporter")
	must(os.MkdirAll(rep, 0o755))
	b, _ := json.MarshalIndent(buildModel(in), "", "\t")
	must(os.WriteFile(filepath.Join(rep, "deps.json"), b, 0o644))
	a, _ := json.MarshalIndent(buildApis(in), "", "\t")
	must(os.WriteFile(filepath.Join(rep, "apis.json"), a, 0o644))
	must(os.WriteFile(filepath.Join(rep, "identify.json"), []byte("[]"), 0o644))
}

func argsFor(in Input, flagged bool) []string {
	f := in.Flags
	if in.Cmd == "call" {
		args := []string{"call", "-c", f.Root}
		if flagged && len(f.Remove) > 0 && f.Remove[0] != "" {
			args = append(args, "-r", f.Remove[0])
		}
		return args
	}
	if !flagged {
		return []string{"api", "-c"}
	}
	args := []string{"api"}
	if f.Count {
		args = append(args, "-c")
	}
	if f.Sort {
		args = append(args, "-s")
	}
	if r := strings.Join(f.Remove, ","); r != "" {
		args = append(args, "-r", r)
	}
	if f.Aggregate != "" {
		args = append(args, "-a", f.Aggregate)
	}
	return args
}

// ---------------------------------------------------------------- project (strict readers)

var sepLine = regexp.MustCompile(`^\|(-+\|)+$`)

func cells(line string) []string {
	parts := strings.Split(line, "|")
	if len(parts) < 3 || parts[0] != "" || parts[len(parts)-1] != "" {
		return nil
	}
	out := []string{}
	for _, p := range parts[1 : len(parts)-1] {
		out = append(out, strings.TrimSpace(p))
	}
	return out
}

func rowOf(c []string) (Row, bool) {
	if len(c) != 4 {
		return Row{}, false
	}
	n, err := strconv.Atoi(c[0])
	if err != nil {
		return Row{}, false
	}
	return Row{Size: n, Method: c[1], Uri: c[2], Caller: c[3]}, true
}

func isHeader(c []string) bool {
	return len(c) == 4 && strings.EqualFold(c[0], "size") && strings.EqualFold(c[1], "method") && strings.EqualFold(c[2], "uri") && strings.EqualFold(c[3], "caller")
}

// readTable: the lines of stdout that start with '|': header, separator, one line per row.
func readTable(stdout string) Table {
	t := Table{Rows: []Row{}}
	var lines []string
	for _, l := range strings.Split(stdout, "\n") {
		l = strings.TrimRight(l, " \r")
		if strings.HasPrefix(l, "|") {
			lines = append(lines, l)
		}
	}
	if len(lines) == 0 {
		return t
	}
	t.Present = true
	if len(lines) < 2 || !isHeader(cells(lines[0])) || !sepLine.MatchString(lines[1]) {
		return t
	}
	for _, l := range lines[2:] {
		r, ok := rowOf(cells(l))
		if !ok {
			t.Rows = []Row{}
			return t
		}
		t.Rows = append(t.Rows, r)
	}
	t.Ok = true
	return t
}

// readCsv: api.csv as a csv reader sees it (fields split at commas unless quoted, blank lines skipped, surrounding
// blanks dropped): a header record, then one record of four fields per row.
func readCsv(text string) Csv {
	c := Csv{Rows: []Row{}}
	rd := csv.NewReader(strings.NewReader(text))
	rd.FieldsPerRecord = -1
	rd.TrimLeadingSpace = true
	recs, err := rd.ReadAll()
	if err != nil {
		return c
	}
	trim := func(r []string) []string {
		out := []string{}
		for _, f := range r {
			out = append(out, strings.TrimSpace(f))
		}
		return out
	}
	if len(recs) == 0 || !isHeader(trim(recs[0])) {
		return c
	}
	for _, r := range recs[1:] {
		row, ok := rowOf(trim(r))
		if !ok {
			c.Rows = []Row{}
			return c
		}
		c.Rows = append(c.Rows, row)
	}
	c.Ok = true
	return c
}

func readApiDot(text string, o *Out) {
	g := lib.ParseSimpleDot(text)
	o.Dotok = g.Wellformed
	// an API's chain starts at its root-marker edge (the only edges whose source contains a blank)
	for _, e := range g.Edges {
		if strings.Contains(e[0], " ") {
			o.Segs = append(o.Segs, Seg{Marker: e, Edges: [][2]string{}})
		} else if len(o.Segs) > 0 {
			s := &o.Segs[len(o.Segs)-1]
			s.Edges = append(s.Edges, e)
		} else {
			o.Dotok = false
		}
	}
}

// ---------------------------------------------------------------- drive

func runOnce(in Input, flagged bool, scratch string, rendered map[string]string, mu *sync.Mutex) (Out, bool, string) {
	o := emptyOut()
	dir, err := os.MkdirTemp(scratch, "apitable-")
	must(err)
	defer os.RemoveAll(dir)
	reporter(dir, in)
	args := argsFor(in, flagged)
	cmd := exec.Command(os.Getenv("VERIF_COCA"), args...)
	cmd.Dir = dir
	cmd.Env = append(os.Environ(), "TMPDIR="+dir, "HOME="+dir)
	var so, se strings.Builder
	cmd.Stdout = &so
	cmd.Stderr = &se
	runErr := cmd.Run()
	key := "plain"
	if flagged {
		key = "flagged"
	}
	mu.Lock()
	rendered[key+".args"] = strings.Join(args, " ")
	rendered[key+".stdout"] = short(so.String(), 3000)
	mu.Unlock()
	if runErr != nil {
		return o, true, fmt.Sprintf("coca %v: %v %s", args, runErr, short(se.String(), 300))
	}
	rep := filepath.Join(dir, "coca_reporter")
	if in.Cmd == "call" {
		b, err := os.ReadFile(filepath.Join(rep, "call.dot"))
		if err == nil {
			g := lib.ParseSimpleDot(string(b))
			o.Dotok = g.Wellformed
			o.Edges = g.Edges
			mu.Lock()
			rendered[key+".call.dot"] = short(string(b), 3000)
			mu.Unlock()
		}
		return o, false, ""
	}
	o.Table = readTable(so.String())
	if b, err := os.ReadFile(filepath.Join(rep, "api.csv")); err == nil {
		o.Csv = readCsv(string(b))
		mu.Lock()
		rendered[key+".api.csv"] = short(string(b), 3000)
		mu.Unlock()
	}
	if b, err := os.ReadFile(filepath.Join(rep, "api.dot")); err == nil {
		readApiDot(string(b), &o)
		mu.Lock()
		rendered[key+".api.dot"] = short(string(b), 3000)
		mu.Unlock()
	}
	return o, false, ""
}

func one(raw json.RawMessage) interface{} {
	var c Case
	if err := json.Unmarshal(raw, &c); err != nil {
		panic(err)
	}
	normalize(&c.Input)
	if os.Getenv("VERIF_COCA") == "" {
		fmt.Fprintln(os.Stderr, "harness: VERIF_COCA not set")
		os.Exit(2)
	}
	rec := Record{Case: c.Case, Input: c.Input, Rendered: map[string]string{}, Observed: Obs{Base: emptyOut(), With: emptyOut()}}
	scratch := os.Getenv("VERIF_SCRATCH")
	// the two commands are independent OS processes on their own copies of coca_reporter: run them side by side
	var wg sync.WaitGroup
	var mu sync.Mutex
	var pb, pw bool
	var nb, nw string
	wg.Add(2)
	go func() {
		defer wg.Done()
		rec.Observed.Base, pb, nb = runOnce(c.Input, false, scratch, rec.Rendered, &mu)
	}()
	go func() {
		defer wg.Done()
		rec.Observed.With, pw, nw = runOnce(c.Input, true, scratch, rec.Rendered, &mu)
	}()
	wg.Wait()
	if pb || pw {
		rec.Observed.Panic = true
		rec.Observed.Note = short(nb+" "+nw, 600)
	}
	return rec
}

func abnormal(raw json.RawMessage, timeout bool, stderr string) interface{} {
	var c Case
	json.Unmarshal(raw, &c)
	normalize(&c.Input)
	note := "process died: "
	if timeout {
		note = "timeout: "
	}
	return Record{Case: c.Case, Input: c.Input, Observed: Obs{Panic: true, Base: emptyOut(), With: emptyOut(), Note: note + short(stderr, 300)}}
}

func main() {
	lib.Main(lib.Handler{One: one, Gen: gen, Abnormal: abnormal})
}
