// Harness for CallGraph / RCallGraph (C03, C04, C07-call-graph part).
package main

import (
	"encoding/json"
	"fmt"
	"math/rand"
	"os"
	"os/exec"
	"path/filepath"
	"strings"

	"github.com/modernizing/coca/pkg/application/call"
	"github.com/modernizing/coca/pkg/application/rcall"
	"github.com/modernizing/coca/pkg/domain/api_domain"
	"github.com/modernizing/coca/pkg/domain/core_domain"

	"verifharness/lib"
)

type Callee struct {
	Pkg  string `json:"pkg"`
	Node string `json:"node"`
	Name string `json:"name"`
}

type Method struct {
	Pkg   string   `json:"pkg"`
	Node  string   `json:"node"`
	Name  string   `json:"name"`
	Calls []Callee `json:"calls"`
}

type Input struct {
	Methods []Method          `json:"methods"`
	DI      map[string]string `json:"di"`
}

type Api struct {
	Verb string `json:"verb"`
	Uri  string `json:"uri"`
	Pkg  string `json:"pkg"`
	Node string `json:"node"`
	Name string `json:"name"`
}

type Op struct {
	// kind: call | rcall | api (in-process API)  —  clicall | clircall (the coca binary on a deps.json, one OS process per command)
	Kind   string `json:"kind"`
	Root   string `json:"root"`
	Lookup bool   `json:"lookup"`
	Apis   []Api  `json:"apis"`
}

type Case struct {
	Case  string `json:"case"`
	Input Input  `json:"input"`
	Ops   []Op   `json:"ops"`
}

type Seg struct {
	Marker [2]string   `json:"marker"`
	Edges  [][2]string `json:"edges"`
}

type Obs struct {
	Panic      bool                `json:"panic"`
	Timeout    bool                `json:"timeout"`
	Wellformed bool                `json:"wellformed"`
	Edges      [][2]string         `json:"edges"`
	Segs       []Seg               `json:"segs"`
	Sizes      []int               `json:"sizes"`
	Rmap       map[string][]string `json:"rmap"`
	Note       string              `json:"note,omitempty"`
}

type Record struct {
	Case     string `json:"case"`
	Input    Input  `json:"input"`
	Ops      []Op   `json:"ops"`
	Observed []Obs  `json:"observed"`
}

func emptyObs() Obs {
	return Obs{Edges: [][2]string{}, Segs: []Seg{}, Sizes: []int{}, Rmap: map[string][]string{}}
}

func buildModel(in Input) []core_domain.CodeDataStruct {
	var clzs []core_domain.CodeDataStruct
	index := map[string]int{}
	for _, m := range in.Methods {
		key := m.Pkg + "\x00" + m.Node
		i, ok := index[key]
		if !ok {
			i = len(clzs)
			index[key] = i
			clzs = append(clzs, core_domain.CodeDataStruct{NodeName: m.Node, Package: m.Pkg, Type: "Class"})
		}
		f := core_domain.CodeFunction{Name: m.Name}
		for _, c := range m.Calls {
			f.FunctionCalls = append(f.FunctionCalls, core_domain.CodeCall{Package: c.Pkg, NodeName: c.Node, FunctionName: c.Name})
		}
		clzs[i].Functions = append(clzs[i].Functions, f)
	}
	return clzs
}

// the analysers of a history: every other case (by the hash of its name) keeps ONE call-graph analyser and ONE
// reverse-call analyser for all its requests, the way a long-lived program does; the others make new ones per request
var sharedCall call.CallGraph
var sharedRCall rcall.RCallGraph
var haveShared bool
var shareAnalysers bool

func analysers() (call.CallGraph, rcall.RCallGraph) {
	if !shareAnalysers {
		return call.NewCallGraph(), rcall.NewRCallGraph()
	}
	if !haveShared {
		sharedCall, sharedRCall, haveShared = call.NewCallGraph(), rcall.NewRCallGraph(), true
	}
	return sharedCall, sharedRCall
}

// the model of a history: with shared analysers the requests of a history are also handed the SAME model value (a
// program that loads deps.json once and asks several questions); a request must not alter the model it is handed
var sharedModel []core_domain.CodeDataStruct

func modelOf(in Input) []core_domain.CodeDataStruct {
	if !shareAnalysers {
		return buildModel(in)
	}
	if sharedModel == nil {
		sharedModel = buildModel(in)
	}
	return sharedModel
}

func runOp(in Input, op Op) Obs {
	o := emptyObs()
	clzs := modelOf(in)
	p, msg := lib.Guard(func() {
		switch op.Kind {
		case "call":
			cg, _ := analysers()
			dot := cg.Analysis(op.Root, clzs, op.Lookup)
			g := lib.ParseSimpleDot(dot)
			o.Wellformed = g.Wellformed
			o.Edges = g.Edges
		case "rcall":
			_, rg := analysers()
			dot := rg.Analysis(op.Root, clzs, func(m map[string][]string) {
				for k, v := range m {
					o.Rmap[k] = append([]string{}, v...)
				}
			})
			g := lib.ParseSimpleDot(dot)
			o.Wellformed = g.Wellformed
			o.Edges = g.Edges
		case "api":
			var apis []api_domain.RestAPI
			for _, a := range op.Apis {
				apis = append(apis, api_domain.RestAPI{Uri: a.Uri, HttpMethod: a.Verb, MethodName: a.Name, PackageName: a.Pkg, ClassName: a.Node})
			}
			cg, _ := analysers()
			dot, counts := cg.AnalysisByFiles(apis, clzs, in.DI)
			g := lib.ParseSimpleDot(dot)
			o.Wellformed = g.Wellformed
			o.Edges = g.Edges
			// an API's chain starts at its root-marker edge (the only edges whose source contains a blank)
			for _, e := range g.Edges {
				if strings.Contains(e[0], " ") {
					o.Segs = append(o.Segs, Seg{Marker: e, Edges: [][2]string{}})
				} else if len(o.Segs) > 0 {
					s := &o.Segs[len(o.Segs)-1]
					s.Edges = append(s.Edges, e)
				} else {
					o.Wellformed = false
				}
			}
			for _, c := range counts {
				o.Sizes = append(o.Sizes, c.Size)
			}
		case "clicall", "clircall":
			cli(in, op, clzs, &o)
		default:
			panic("harness: unknown op " + op.Kind)
		}
	})
	if p {
		o = emptyObs()
		o.Panic = true
		o.Note = msg
	}
	return o
}

// cli runs `coca call` / `coca rcall` on the model written as deps.json, in a scratch working directory
func cli(in Input, op Op, clzs []core_domain.CodeDataStruct, o *Obs) {
	dir, err := os.MkdirTemp(os.Getenv("VERIF_SCRATCH"), "cg-")
	if err != nil {
		panic(err)
	}
	defer os.RemoveAll(dir)
	b, _ := json.Marshal(clzs)
	os.WriteFile(filepath.Join(dir, "deps.json"), b, 0o644)
	args := []string{"call", "-c", op.Root, "-d", "deps.json"}
	out := "call.dot"
	if op.Kind == "clircall" {
		args = []string{"rcall", "-c", op.Root, "-d", "deps.json"}
		out = "rcall.dot"
	} else if op.Lookup {
		args = append(args, "-l")
	}
	cmd := exec.Command(os.Getenv("VERIF_COCA"), args...)
	cmd.Dir = dir
	cmd.Env = append(os.Environ(), "TMPDIR="+dir)
	if outb, err := cmd.CombinedOutput(); err != nil {
		panic(fmt.Sprintf("coca %v failed: %v %s", args, err, outb))
	}
	dot, err := os.ReadFile(filepath.Join(dir, "coca_reporter", out))
	if err != nil {
		panic("no " + out)
	}
	g := lib.ParseSimpleDot(string(dot))
	o.Wellformed = g.Wellformed
	o.Edges = g.Edges
	if op.Kind == "clircall" {
		mb, err := os.ReadFile(filepath.Join(dir, "coca_reporter", "rcallmap.json"))
		if err != nil {
			panic("no rcallmap.json")
		}
		m := map[string][]string{}
		if err := json.Unmarshal(mb, &m); err != nil {
			panic("rcallmap.json does not parse")
		}
		for k, v := range m {
			o.Rmap[k] = append([]string{}, v...)
		}
	}
}

func one(raw json.RawMessage) interface{} {
	var c Case
	if err := json.Unmarshal(raw, &c); err != nil {
		panic(err)
	}
	if c.Input.DI == nil {
		c.Input.DI = map[string]string{}
	}
	rec := Record{Case: c.Case, Input: c.Input, Ops: c.Ops}
	for i := range rec.Ops {
		if rec.Ops[i].Apis == nil {
			rec.Ops[i].Apis = []Api{}
		}
	}
	for i := range rec.Input.Methods {
		if rec.Input.Methods[i].Calls == nil {
			rec.Input.Methods[i].Calls = []Callee{}
		}
	}
	h := 0
	for _, ch := range c.Case {
		h = h*31 + int(ch)
	}
	shareAnalysers = h%2 == 0
	for _, op := range rec.Ops {
		rec.Observed = append(rec.Observed, runOp(rec.Input, op))
	}
	return rec
}

func abnormal(raw json.RawMessage, timeout bool, stderr string) interface{} {
	var c Case
	json.Unmarshal(raw, &c)
	if c.Input.DI == nil {
		c.Input.DI = map[string]string{}
	}
	rec := Record{Case: c.Case, Input: c.Input, Ops: c.Ops}
	for i := range rec.Ops {
		if rec.Ops[i].Apis == nil {
			rec.Ops[i].Apis = []Api{}
		}
		o := emptyObs()
		o.Timeout = timeout
		o.Panic = !timeout
		o.Note = stderr
		if len(o.Note) > 300 {
			o.Note = o.Note[:300]
		}
		rec.Observed = append(rec.Observed, o)
	}
	for i := range rec.Input.Methods {
		if rec.Input.Methods[i].Calls == nil {
			rec.Input.Methods[i].Calls = []Callee{}
		}
	}
	return rec
}

// ---------------------------------------------------------------- direction (B): seeded random models

// boundaryCase: an acyclic call tree whose number of expansions lies around the fixed budget
// (5..10), requested through several APIs in one AnalysisByFiles call (the big root first or
// last, then inner nodes whose own trees fit), and through `call` on the same roots.
func boundaryCase(r *rand.Rand, id string) Case {
	k := 5 + r.Intn(6) // expandable nodes
	in := Input{DI: map[string]string{}}
	name := func(i int) Callee {
		return Callee{Pkg: "p", Node: fmt.Sprintf("T%d", i%3), Name: fmt.Sprintf("n%d", i)}
	}
	ms := make([]Method, k)
	for i := 0; i < k; i++ {
		c := name(i)
		ms[i] = Method{Pkg: c.Pkg, Node: c.Node, Name: c.Name, Calls: []Callee{}}
	}
	// node i>0 gets a random parent among 0..i-1 (so every node is reachable from n0 exactly once: tree)
	for i := 1; i < k; i++ {
		p := r.Intn(i)
		if r.Intn(3) == 0 {
			p = i - 1 // deep chains
		}
		ms[p].Calls = append(ms[p].Calls, name(i))
	}
	// every node must be expandable: leaves call an external method; sprinkle extra external callees
	for i := 0; i < k; i++ {
		if len(ms[i].Calls) == 0 || r.Intn(4) == 0 {
			ms[i].Calls = append(ms[i].Calls, Callee{"x", "E", fmt.Sprintf("e%d", r.Intn(3))})
		}
		r.Shuffle(len(ms[i].Calls), func(a, b int) { ms[i].Calls[a], ms[i].Calls[b] = ms[i].Calls[b], ms[i].Calls[a] })
	}
	in.Methods = ms
	api := func(i int) Api {
		c := name(i)
		return Api{Verb: "GET", Uri: fmt.Sprintf("/n/%d", i), Pkg: c.Pkg, Node: c.Node, Name: c.Name}
	}
	id0 := func(i int) string { c := name(i); return c.Pkg + "." + c.Node + "." + c.Name }
	var ops []Op
	inner := []int{1 + r.Intn(k-1), 1 + r.Intn(k-1), r.Intn(k)}
	switch r.Intn(3) {
	case 0:
		ops = append(ops, Op{Kind: "api", Apis: []Api{api(0), api(inner[0]), api(inner[1])}})
	case 1:
		ops = append(ops, Op{Kind: "api", Apis: []Api{api(inner[0]), api(0), api(inner[1]), api(inner[2])}})
	default:
		ops = append(ops, Op{Kind: "call", Root: id0(0), Apis: []Api{}}, Op{Kind: "call", Root: id0(inner[0]), Apis: []Api{}},
			Op{Kind: "api", Apis: []Api{api(0), api(inner[1])}}, Op{Kind: "call", Root: id0(inner[0]), Apis: []Api{}})
	}
	return Case{Case: id, Input: in, Ops: ops}
}

func gen(seed int64, n int, tier string) []interface{} {
	r := rand.New(rand.NewSource(seed))
	var out []interface{}
	for k := 0; k < n; k++ {
		if k%3 == 2 {
			out = append(out, boundaryCase(r, fmt.Sprintf("bound-%d-%d", seed, k)))
			continue
		}
		nm := 2 + r.Intn(14)
		if r.Intn(4) == 0 {
			nm = 10 + r.Intn(11)
		}
		ncls := 1 + r.Intn(4)
		quote := r.Intn(12) == 0
		var decl []Callee
		seen := map[string]bool{}
		for len(decl) < nm {
			c := Callee{Pkg: []string{"p", "q.r", "p", ""}[r.Intn(4)], Node: fmt.Sprintf("C%d", r.Intn(ncls)), Name: fmt.Sprintf("m%d", r.Intn(nm*2))}
			if quote && r.Intn(3) == 0 {
				c.Name = c.Name + "\"x"
			}
			key := c.Pkg + "." + c.Node + "." + c.Name
			if seen[key] {
				continue
			}
			seen[key] = true
			decl = append(decl, c)
		}
		ext := []Callee{{"x", "E", "e"}, {"x", "E", "f"}, {"java.util", "List", "add"}, {"", "", "orphan"}, {"p", "C0", ""}, {"q.r", "Iface", "run"}}
		// a library method whose class and method name coincide with a project method of another package
		if r.Intn(2) == 0 {
			d := decl[r.Intn(len(decl))]
			ext = append(ext, Callee{"org.lib.ext", d.Node, d.Name}, Callee{"org.lib.ext", d.Node, d.Name})
		}
		style := r.Intn(4) // 0 sparse tree-ish, 1 dense, 2 chain/cycle, 3 star
		in := Input{DI: map[string]string{}}
		for i, d := range decl {
			m := Method{Pkg: d.Pkg, Node: d.Node, Name: d.Name, Calls: []Callee{}}
			var nc int
			switch style {
			case 0:
				nc = r.Intn(3)
			case 1:
				nc = r.Intn(6)
			case 2:
				nc = 1 + r.Intn(2)
			default:
				if i == 0 {
					nc = 3 + r.Intn(6)
				} else {
					nc = r.Intn(2)
				}
			}
			for j := 0; j < nc; j++ {
				switch {
				case r.Intn(6) == 0:
					m.Calls = append(m.Calls, ext[r.Intn(len(ext))])
				case style == 0 && i+1 < len(decl):
					m.Calls = append(m.Calls, decl[i+1+r.Intn(len(decl)-i-1)])
				case style == 2:
					m.Calls = append(m.Calls, decl[(i+1+j*r.Intn(2))%len(decl)])
				default:
					m.Calls = append(m.Calls, decl[r.Intn(len(decl))])
				}
				if r.Intn(8) == 0 && len(m.Calls) > 0 { // parallel edge
					m.Calls = append(m.Calls, m.Calls[len(m.Calls)-1])
				}
			}
			in.Methods = append(in.Methods, m)
		}
		// overloads: a second (third) method of the same full name with calls of its own; a map keyed by the full name
		// keeps one of them, a pass over all functions sees every call site
		if r.Intn(2) == 0 {
			for k := 1 + r.Intn(3); k > 0; k-- {
				src := in.Methods[r.Intn(len(in.Methods))]
				ov := Method{Pkg: src.Pkg, Node: src.Node, Name: src.Name, Calls: []Callee{}}
				for j := 1 + r.Intn(3); j > 0; j-- {
					ov.Calls = append(ov.Calls, decl[r.Intn(len(decl))])
				}
				at := r.Intn(len(in.Methods) + 1)
				in.Methods = append(in.Methods[:at], append([]Method{ov}, in.Methods[at:]...)...)
			}
		}
		if r.Intn(3) == 0 {
			// DI: an interface q.r.Iface implemented by a declared class, or class -> class
			d := decl[r.Intn(len(decl))]
			in.DI["q.r.Iface"] = d.Pkg + "." + d.Node
			if r.Intn(2) == 0 {
				a, b := decl[r.Intn(len(decl))], decl[r.Intn(len(decl))]
				if r.Intn(2) == 0 {
					a = d // a chain: the implementation registered for the interface is itself a key (Iface -> a -> b);
					// a callee is replaced by its registered implementation once, not along the chain
				}
				in.DI[a.Pkg+"."+a.Node] = b.Pkg + "." + b.Node
			}
		}
		pick := func() string {
			switch r.Intn(8) {
			case 0:
				return "p.Nope.absent"
			case 1:
				return "x.E.e"
			}
			d := decl[r.Intn(len(decl))]
			return d.Pkg + "." + d.Node + "." + d.Name
		}
		var ops []Op
		nops := 1 + r.Intn(3)
		for j := 0; j < nops; j++ {
			switch r.Intn(4) {
			case 0, 1:
				kind := "call"
				if r.Intn(6) == 0 {
					kind = "clicall"
				}
				ops = append(ops, Op{Kind: kind, Root: pick(), Lookup: r.Intn(4) == 0, Apis: []Api{}})
			case 2:
				kind := "rcall"
				if r.Intn(5) == 0 {
					kind = "clircall"
				}
				ops = append(ops, Op{Kind: kind, Root: pick(), Apis: []Api{}})
			default:
				na := 1 + r.Intn(4)
				op := Op{Kind: "api", Apis: []Api{}}
				for a := 0; a < na; a++ {
					d := decl[r.Intn(len(decl))]
					if r.Intn(10) == 0 {
						d = Callee{"p", "Nope", "absent"}
					}
					op.Apis = append(op.Apis, Api{Verb: []string{"GET", "POST", "PUT", "DELETE"}[r.Intn(4)], Uri: fmt.Sprintf("/api/v%d/{id}", r.Intn(5)), Pkg: d.Pkg, Node: d.Node, Name: d.Name})
				}
				ops = append(ops, op)
			}
			if r.Intn(3) == 0 { // repeat the same request in the same process (C07)
				ops = append(ops, ops[len(ops)-1])
			}
		}
		out = append(out, Case{Case: fmt.Sprintf("rand-%d-%d", seed, k), Input: in, Ops: ops})
	}
	return out
}

func main() {
	lib.Main(lib.Handler{One: one, Gen: gen, Abnormal: abnormal})
}
