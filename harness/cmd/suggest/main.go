// Harness for the suggest suite (extension X02): `coca suggest` (design-pattern suggestions).
// An abstract case is a list of classes, each a list of function shapes {ctor, params, calls, span}.
// It is turned into the []core_domain.CodeDataStruct handed to the real suggest.SuggestApp.AnalysisPath
//
//	via "model"  by building the structs directly (and passing them through JSON as the commands do)
//	via "java"   by rendering a Java project and analysing it with the real identifier + full passes
//	via "cli"    by writing the dependence file and running the coca binary (`coca suggest`, with -d FILE when
//	             input.dflag is set); the printed table is read back
//
// The record carries `model` = the projection of exactly the structs that were handed over (per function:
// IsConstructor, number of Parameters, number of FunctionCalls, Position.StartLine/StopLine) and `observed` =
// the projected suggestions. No expected values here: TLC (X02SuggestRef!Diff) judges.
package main

import (
	"encoding/json"
	"fmt"
	"os"
	"os/exec"
	"path/filepath"
	"strings"

	"github.com/modernizing/coca/pkg/application/analysis/javaapp"
	"github.com/modernizing/coca/pkg/application/suggest"
	"github.com/modernizing/coca/pkg/domain/core_domain"

	"verifharness/lib"
)

type Func struct {
	Ctor   bool `json:"ctor"`
	Params int  `json:"params"`
	Calls  int  `json:"calls"`
	Span   int  `json:"span"` // stop line - start line of the declaration
}

type Class struct {
	Pkg   string `json:"pkg"`
	Name  string `json:"name"`
	Type  string `json:"type"` // "Class" | "Interface" | anything else (model only)
	Funcs []Func `json:"funcs"`
}

type Input struct {
	Via     string  `json:"via"`
	DFlag   bool    `json:"dflag"`
	Classes []Class `json:"classes"`
}

type Case struct {
	Case  string `json:"case"`
	Input Input  `json:"input"`
}

type MFunc struct {
	Ctor   bool `json:"ctor"`
	Params int  `json:"params"`
	Calls  int  `json:"calls"`
	Start  int  `json:"start"`
	Stop   int  `json:"stop"`
}

type MClass struct {
	File  string  `json:"file"`
	Pkg   string  `json:"pkg"`
	Name  string  `json:"name"`
	Type  string  `json:"type"`
	Funcs []MFunc `json:"funcs"`
}

type Sug struct {
	File     string   `json:"file"`
	Pkg      string   `json:"pkg"`
	Class    string   `json:"class"`
	Patterns []string `json:"patterns"`
	Reasons  []string `json:"reasons"`
	Size     int      `json:"size"`
	Line     int      `json:"line"`
}

type Obs struct {
	Panic      bool   `json:"panic"`
	Wellformed bool   `json:"wellformed"`
	Sized      bool   `json:"sized"`
	Suggests   []Sug  `json:"suggests"`
	Note       string `json:"note,omitempty"`
}

type Record struct {
	Case     string            `json:"case"`
	Input    Input             `json:"input"`
	Model    []MClass          `json:"model"`
	Rendered map[string]string `json:"rendered,omitempty"`
	Observed Obs               `json:"observed"`
}

func normalize(in *Input) {
	if in.Via == "" {
		in.Via = "model"
	}
	if in.Classes == nil {
		in.Classes = []Class{}
	}
	for i := range in.Classes {
		if in.Classes[i].Funcs == nil {
			in.Classes[i].Funcs = []Func{}
		}
		if in.Classes[i].Type == "" {
			in.Classes[i].Type = "Class"
		}
	}
}

func short(s string, n int) string {
	if len(s) > n {
		return s[len(s)-n:]
	}
	return s
}

// ---------------------------------------------------------------- render

func relFile(c Class) string {
	return strings.ReplaceAll(c.Pkg, ".", "/") + "/" + c.Name + ".java"
}

func buildModel(in Input) []core_domain.CodeDataStruct {
	out := []core_domain.CodeDataStruct{}
	for _, c := range in.Classes {
		ds := core_domain.CodeDataStruct{Package: c.Pkg, NodeName: c.Name, Type: c.Type, FilePath: relFile(c)}
		line := 3
		for i, f := range c.Funcs {
			fn := core_domain.CodeFunction{Name: fmt.Sprintf("m%d", i), IsConstructor: f.Ctor,
				Position: core_domain.CodePosition{StartLine: line, StopLine: line + f.Span}}
			if f.Ctor {
				fn.Name = c.Name
			} else {
				fn.ReturnType = "void"
			}
			for p := 0; p < f.Params; p++ {
				fn.Parameters = append(fn.Parameters, core_domain.CodeProperty{TypeType: "int", TypeValue: fmt.Sprintf("a%d", p)})
			}
			for k := 0; k < f.Calls; k++ {
				fn.FunctionCalls = append(fn.FunctionCalls, core_domain.CodeCall{Package: c.Pkg, NodeName: c.Name, FunctionName: fmt.Sprintf("step%d", k)})
			}
			ds.Functions = append(ds.Functions, fn)
			line += f.Span + 2
		}
		out = append(out, ds)
	}
	return out
}

func roundTrip(v []core_domain.CodeDataStruct) []core_domain.CodeDataStruct {
	b, _ := json.MarshalIndent(v, "", "\t")
	var out []core_domain.CodeDataStruct
	_ = json.Unmarshal(b, &out)
	return out
}

var paramTypes = []string{"int", "String", "long", "double", "boolean", "char", "Object", "float"}

// renderJava: one file per class. A function of span 0 stands on one line; otherwise its header is followed
// by span-1 body lines and the closing brace on its own line; the calls are spread over the body lines (all on
// the header line when there is no body line), the remaining body lines are assignments or comments.
func renderJava(root string, in Input) (map[string]string, error) {
	texts := map[string]string{}
	for _, c := range in.Classes {
		var b strings.Builder
		if c.Pkg != "" {
			fmt.Fprintf(&b, "package %s;\n\n", c.Pkg)
		}
		iface := c.Type == "Interface"
		if iface {
			fmt.Fprintf(&b, "public interface %s {\n", c.Name)
		} else {
			fmt.Fprintf(&b, "public class %s {\n    private int state;\n\n", c.Name)
		}
		for i, f := range c.Funcs {
			ps := []string{}
			for p := 0; p < f.Params; p++ {
				ps = append(ps, fmt.Sprintf("%s a%d", paramTypes[(p+i)%len(paramTypes)], p))
			}
			head := fmt.Sprintf("    void m%d(%s)", i, strings.Join(ps, ", "))
			if iface {
				b.WriteString(head + ";\n")
				continue
			}
			if f.Ctor {
				head = fmt.Sprintf("    public %s(%s)", c.Name, strings.Join(ps, ", "))
			} else {
				head = "    public" + head[3:]
			}
			calls := []string{}
			for k := 0; k < f.Calls; k++ {
				calls = append(calls, fmt.Sprintf("step%d();", k%4))
			}
			body := f.Span - 1
			switch {
			case f.Span == 0:
				b.WriteString(head + " { " + strings.Join(calls, " ") + " }\n")
			case body == 0:
				b.WriteString(head + " { " + strings.Join(calls, " ") + "\n    }\n")
			default:
				b.WriteString(head + " {\n")
				per := (len(calls) + body - 1) / body
				for l := 0; l < body; l++ {
					lo, hi := l*per, (l+1)*per
					if lo > len(calls) {
						lo = len(calls)
					}
					if hi > len(calls) {
						hi = len(calls)
					}
					if lo < hi {
						b.WriteString("        " + strings.Join(calls[lo:hi], " ") + "\n")
					} else if l%2 == 0 {
						fmt.Fprintf(&b, "        this.state = %d;\n", l)
					} else {
						b.WriteString("        // nothing here\n")
					}
				}
				b.WriteString("    }\n")
			}
			b.WriteString("\n")
		}
		anyCall := false
		for _, f := range c.Funcs {
			anyCall = anyCall || f.Calls > 0
		}
		if !iface && anyCall {
			for k := 0; k < 4; k++ {
				fmt.Fprintf(&b, "    private void step%d() { }\n", k)
			}
		}
		b.WriteString("}\n")
		rel := filepath.FromSlash(relFile(c))
		p := filepath.Join(root, rel)
		if err := os.MkdirAll(filepath.Dir(p), 0o755); err != nil {
			return nil, err
		}
		if err := os.WriteFile(p, []byte(b.String()), 0o644); err != nil {
			return nil, err
		}
		texts[filepath.ToSlash(rel)] = b.String()
	}
	return texts, nil
}

// ---------------------------------------------------------------- project

func projectModel(deps []core_domain.CodeDataStruct) []MClass {
	out := []MClass{}
	for _, d := range deps {
		mc := MClass{File: d.FilePath, Pkg: d.Package, Name: d.NodeName, Type: d.Type, Funcs: []MFunc{}}
		for _, f := range d.Functions {
			mc.Funcs = append(mc.Funcs, MFunc{Ctor: f.IsConstructor, Params: len(f.Parameters), Calls: len(f.FunctionCalls),
				Start: f.Position.StartLine, Stop: f.Position.StopLine})
		}
		out = append(out, mc)
	}
	return out
}

func parts(s string) []string {
	if s == "" {
		return []string{}
	}
	return strings.Split(s, ", ")
}

// ---------------------------------------------------------------- drive

func viaCLI(scratch string, in Input, deps []core_domain.CodeDataStruct, o *Obs) {
	bin := os.Getenv("VERIF_COCA")
	if bin == "" {
		fmt.Fprintln(os.Stderr, "harness: VERIF_COCA not set")
		os.Exit(2)
	}
	b, _ := json.MarshalIndent(deps, "", "\t")
	args := []string{"suggest"}
	if in.DFlag {
		p := filepath.Join(scratch, "model", "my-deps.json")
		if err := os.MkdirAll(filepath.Dir(p), 0o755); err != nil {
			panic("harness: " + err.Error())
		}
		if err := os.WriteFile(p, b, 0o644); err != nil {
			panic("harness: " + err.Error())
		}
		args = append(args, "-d", p)
	} else {
		rep := filepath.Join(scratch, "coca_reporter")
		if err := os.MkdirAll(rep, 0o755); err != nil {
			panic("harness: " + err.Error())
		}
		if err := os.WriteFile(filepath.Join(rep, "deps.json"), b, 0o644); err != nil {
			panic("harness: " + err.Error())
		}
	}
	cmd := exec.Command(bin, args...)
	cmd.Dir = scratch
	cmd.Env = append(os.Environ(), "TMPDIR="+scratch, "HOME="+scratch)
	var so, se strings.Builder
	cmd.Stdout = &so
	cmd.Stderr = &se
	if err := cmd.Run(); err != nil {
		o.Panic = true
		o.Note = short(err.Error()+": "+se.String(), 300)
		return
	}
	// strict reader of the table: | CLASS | PATTERN | REASON | header, a +---+ or |---| rule, one row per suggestion
	rows := 0
	sawHeader := false
	for _, line := range strings.Split(so.String(), "\n") {
		t := strings.TrimSpace(line)
		if t == "" {
			continue
		}
		if !strings.HasPrefix(t, "|") || !strings.HasSuffix(t, "|") {
			continue // progress chatter around the table ("App elapsed: ..")
		}
		if strings.Trim(t, "|-+ ") == "" {
			continue
		}
		cells := strings.Split(strings.Trim(t, "|"), "|")
		if len(cells) != 3 {
			o.Note = "row without three cells: " + short(t, 100)
			return
		}
		for i := range cells {
			cells[i] = strings.TrimSpace(cells[i])
		}
		if !sawHeader {
			if strings.ToUpper(cells[0]) != "CLASS" || strings.ToUpper(cells[1]) != "PATTERN" || strings.ToUpper(cells[2]) != "REASON" {
				o.Note = "unexpected header: " + short(t, 100)
				return
			}
			sawHeader = true
			continue
		}
		rows++
		o.Suggests = append(o.Suggests, Sug{Class: cells[0], Patterns: parts(cells[1]), Reasons: parts(cells[2])})
	}
	if !sawHeader && rows == 0 && strings.TrimSpace(so.String()) != "" && strings.Contains(so.String(), "|") {
		o.Note = "table not understood"
		return
	}
	o.Wellformed = true
}

func one(raw json.RawMessage) interface{} {
	var c Case
	if err := json.Unmarshal(raw, &c); err != nil {
		panic(err)
	}
	normalize(&c.Input)
	rec := Record{Case: c.Case, Input: c.Input, Model: []MClass{}, Observed: Obs{Suggests: []Sug{}, Sized: c.Input.Via != "cli"}}
	scratch, err := os.MkdirTemp(os.Getenv("VERIF_SCRATCH"), "suggest-")
	if err != nil {
		fmt.Fprintln(os.Stderr, "harness:", err)
		os.Exit(2)
	}
	defer os.RemoveAll(scratch)
	o := &rec.Observed
	var deps []core_domain.CodeDataStruct
	if c.Input.Via == "java" {
		src := filepath.Join(scratch, "src")
		texts, err := renderJava(src, c.Input)
		if err != nil {
			fmt.Fprintln(os.Stderr, "harness: render:", err)
			os.RemoveAll(scratch)
			os.Exit(2)
		}
		rec.Rendered = texts
		p, msg := lib.Guard(func() {
			identApp := javaapp.NewJavaIdentifierApp()
			idents := identApp.AnalysisPath(src)
			fullApp := javaapp.NewJavaFullApp()
			deps = roundTrip(fullApp.AnalysisPath(src, idents))
		})
		if p {
			o.Panic = true
			o.Note = "analysis: " + short(msg, 300)
			return rec
		}
		// file paths relative to the analysed directory (projection; the code under test only copies them)
		for i := range deps {
			if r, err := filepath.Rel(src, deps[i].FilePath); err == nil {
				deps[i].FilePath = filepath.ToSlash(r)
			}
		}
	} else {
		deps = roundTrip(buildModel(c.Input))
	}
	rec.Model = projectModel(deps)
	if c.Input.Via == "cli" {
		viaCLI(scratch, c.Input, deps, o)
		return rec
	}
	p, msg := lib.Guard(func() {
		app := suggest.NewSuggestApp()
		for _, s := range app.AnalysisPath(deps) {
			o.Suggests = append(o.Suggests, Sug{File: s.File, Pkg: s.Package, Class: s.Class, Patterns: parts(s.Pattern),
				Reasons: parts(s.Reason), Size: s.Size, Line: s.Line})
		}
		o.Wellformed = true
	})
	if p {
		o.Panic = true
		o.Wellformed = false
		o.Suggests = []Sug{}
		o.Note = short(msg, 300)
	}
	return rec
}

func abnormal(raw json.RawMessage, timeout bool, stderr string) interface{} {
	var c Case
	json.Unmarshal(raw, &c)
	normalize(&c.Input)
	note := "process died: "
	if timeout {
		note = "timeout: "
	}
	return Record{Case: c.Case, Input: c.Input, Model: []MClass{},
		Observed: Obs{Panic: true, Sized: c.Input.Via != "cli", Suggests: []Sug{}, Note: note + short(stderr, 300)}}
}

func main() {
	lib.Main(lib.Handler{One: one, Gen: gen, Abnormal: abnormal})
}
