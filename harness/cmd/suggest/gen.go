package main

import (
	"fmt"
	"math/rand"
)

// gen: seeded random abstract cases, wider than TLC's constants: 1..6 classes (classes, interfaces, other types),
// 0..8 functions each, 0..9 parameters, 0..14 calls, 0..12 lines, values drawn around the thresholds of the
// three rules; first function a long non-constructor in a minority of classes.
func gen(seed int64, n int, tier string) []interface{} {
	r := rand.New(rand.NewSource(seed*104729 + 5))
	pkgs := []string{"com.acme.shop", "com.acme.pay", "org.demo"}
	names := []string{"Order", "Cart", "Invoice", "Ledger", "Clock", "Mailer", "Bee", "Insect"}
	near := func(center int) int {
		v := center + r.Intn(5) - 2
		if v < 0 {
			v = 0
		}
		return v
	}
	out := []interface{}{}
	for i := 0; i < n; i++ {
		via := "model"
		dflag := false
		switch k := r.Intn(20); {
		case k < 7:
			via = "java"
		case k < 9:
			via = "cli"
			dflag = r.Intn(4) == 0
		}
		nc := 1 + r.Intn(3)
		if r.Intn(5) == 0 {
			nc = 1 + r.Intn(6)
		}
		used := map[string]bool{}
		classes := []Class{}
		for len(classes) < nc {
			c := Class{Pkg: pkgs[r.Intn(len(pkgs))], Name: names[r.Intn(len(names))], Type: "Class", Funcs: []Func{}}
			key := c.Pkg + "." + c.Name
			if via == "cli" {
				key = c.Name // the table shows no package: class names distinct
			}
			if used[key] {
				if via == "model" && r.Intn(6) == 0 {
					// the same class listed twice (model only)
				} else {
					continue
				}
			}
			used[key] = true
			switch k := r.Intn(10); {
			case k == 0:
				c.Type = "Interface"
			case k == 1 && via != "java":
				c.Type = []string{"CreatorClass", "Struct", ""}[r.Intn(3)]
				if c.Type == "" {
					c.Type = "InnerStructures"
				}
			}
			nf := r.Intn(5)
			if r.Intn(4) == 0 {
				nf = r.Intn(9)
			}
			ctorBias := r.Intn(4) // 0: few constructors .. 3: mostly constructors
			for k := 0; k < nf; k++ {
				f := Func{Ctor: r.Intn(4) < ctorBias+1}
				switch r.Intn(3) {
				case 0:
					f.Params = r.Intn(4)
				case 1:
					f.Params = near(5)
				default:
					f.Params = r.Intn(10)
				}
				switch r.Intn(3) {
				case 0:
					f.Calls = r.Intn(3)
				case 1:
					f.Calls = near(f.Params + 4)
				default:
					f.Calls = r.Intn(15)
				}
				switch r.Intn(3) {
				case 0:
					f.Span = near(f.Params - 2)
				case 1:
					f.Span = r.Intn(3)
				default:
					f.Span = r.Intn(13)
				}
				if k == 0 && r.Intn(6) == 0 {
					f.Ctor = false
					f.Params = 5 + r.Intn(4)
				}
				if c.Type == "Interface" && via == "java" {
					f.Ctor = false
				}
				c.Funcs = append(c.Funcs, f)
			}
			classes = append(classes, c)
		}
		out = append(out, Case{Case: fmt.Sprintf("rand-%d-%d", seed, i), Input: Input{Via: via, DFlag: dflag, Classes: classes}})
	}
	return out
}
