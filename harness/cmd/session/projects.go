package main

import (
	"fmt"
	"os"
	"path/filepath"
)

// Three small Spring projects that share class names but differ in what the classes do, so that a report computed
// from the wrong project (or from a mixture of two) is visibly different. Fixed texts: the abstract input of a
// session is the command sequence; the projects are its constants.

func projectFiles(k int) map[string]string {
	v := fmt.Sprintf("v%d", k)
	extraCall := ""
	extraField := ""
	extraImport := ""
	switch k {
	case 2:
		extraField = "    @Autowired\n    private AuditLog audit;\n"
		extraCall = "        audit.record(order);\n"
	case 3:
		extraField = "    private PriceTable prices;\n"
		extraCall = "        prices.lookup(order);\n        prices.lookup(order);\n"
	}
	files := map[string]string{}
	main := "src/main/java/com/acme/shop/"
	test := "src/test/java/com/acme/shop/"
	files[main+"OrderController.java"] = `package com.acme.shop;

import org.springframework.web.bind.annotation.*;
import org.springframework.beans.factory.annotation.Autowired;

@RestController
@RequestMapping("/` + v + `/orders")
public class OrderController {
    @Autowired
    private OrderService orderService;

    // TODO(` + v + `): paging for project ` + v + `
    @GetMapping("/{id}")
    public Order find(String id) {
        return orderService.find(id);
    }

    @PostMapping
    public Order create(@RequestBody Order order) {
        return orderService.place(order);
    }
` + map[int]string{1: "", 2: `
    @DeleteMapping("/{id}")
    public void cancel(String id) {
        orderService.cancel(id);
    }
`, 3: `
    @PutMapping("/{id}/price")
    public Order reprice(String id, @RequestBody Order order) {
        return orderService.place(order);
    }
`}[k] + `}
`
	files[main+"OrderService.java"] = `package com.acme.shop;

import org.springframework.beans.factory.annotation.Autowired;
import org.springframework.stereotype.Service;
` + extraImport + `
@Service
public class OrderService {
    @Autowired
    private OrderRepository orderRepository;
` + extraField + `
    public Order find(String id) {
        return orderRepository.load(id);
    }

    public Order place(Order order) {
        // FIXME rounding of totals in ` + v + `
` + extraCall + `        orderRepository.save(order);
        return order;
    }

    public void cancel(String id) {
        Order order = orderRepository.load(id);
        orderRepository.remove(order);
    }

    public Order findLatest(String customer, String region, String channel, String currency) {
        return null;
    }
}
`
	files[main+"OrderRepository.java"] = `package com.acme.shop;

public class OrderRepository {
    public Order load(String id) {
        return new Order();
    }

    public void save(Order order) {
    }

    public void remove(Order order) {
    }
}
`
	files[main+"Order.java"] = `package com.acme.shop;

public class Order {
    private String id;
    private int total;

    public String getId() {
        return id;
    }

    public void setId(String id) {
        this.id = id;
    }

    public int getTotal() {
        return total;
    }

    public void setTotal(int total) {
        this.total = total;
    }
}
`
	files[main+"StringUtils.java"] = `package com.acme.shop;

public class StringUtils {
    public static boolean isBlank(String s) {
        return s == null || s.length() == 0;
    }

    public static String orEmpty` + map[int]string{1: "", 2: "Text", 3: "Value"}[k] + `(String s) {
        return s;
    }
}
`
	switch k {
	case 2:
		files[main+"AuditLog.java"] = `package com.acme.shop;

public class AuditLog {
    public void record(Order order) {
        // TODO write to the audit table
    }
}
`
	case 3:
		files[main+"PriceTable.java"] = `package com.acme.shop;

public class PriceTable {
    public int lookup(Order order) {
        return 0;
    }

    public int lookupAll(Order first, Order second, Order third, Order fourth, Order fifth, Order sixth) {
        return 0;
    }
}
`
	}
	smell := map[int]string{
		1: `    @Test
    public void placesOrder() {
        Order order = new Order();
        service.place(order);
    }
`,
		2: `    @Test
    @Ignore
    public void placesOrder() {
        Order order = new Order();
        service.place(order);
        assertEquals(order.getId(), order.getId());
    }

    @Test
    public void empty() {
    }
`,
		3: `    @Test
    public void placesOrder() throws Exception {
        Order order = new Order();
        Thread.sleep(10);
        System.out.println(order);
        assertNotNull(service.place(order));
    }
`,
	}[k]
	files[test+"OrderServiceTest.java"] = `package com.acme.shop;

import org.junit.Ignore;
import org.junit.Test;
import static org.junit.Assert.*;

public class OrderServiceTest {
    private OrderService service = new OrderService();

` + smell + `}
`
	files["scripts/release.py"] = "# TODO(ops): publish " + v + " to the mirror\nprint(\"release " + v + "\")\n"
	return files
}

func writeProject(root string, k int) {
	dir := filepath.Join(root, fmt.Sprintf("proj%d", k))
	for rel, text := range projectFiles(k) {
		p := filepath.Join(dir, filepath.FromSlash(rel))
		if err := os.MkdirAll(filepath.Dir(p), 0o755); err != nil {
			panic("harness: mkdir: " + err.Error())
		}
		if err := os.WriteFile(p, []byte(text), 0o644); err != nil {
			panic("harness: write: " + err.Error())
		}
	}
}
