package main

import (
	"strings"

	"github.com/awalterschulze/gographviz"
)

// Strict reader for the DOT subset that coca's architecture graph is written in
// (gographviz's writer): a `digraph`/`graph` header, nested `subgraph <id> { ... }`
// blocks carrying `label="..."`, node statements `<id> [ k=v, ... ]`, edge statements
// `<id>-><id>[ k=v ]` and empty statements `;`. It is a projector: it reports what is
// written (which node statements under which cluster labels, which edge statements),
// and `Wellformed = false` for anything outside the subset, for an edge operator that
// does not fit the graph kind, for unbalanced braces or trailing text. It does not know
// what the graph should contain.

type DotNode struct {
	ID    string   `json:"id"`
	Label string   `json:"label"`
	Path  []string `json:"path"` // labels of the enclosing clusters, outermost first
}

type Dot struct {
	Wellformed bool        `json:"wellformed"`
	Nodes      []DotNode   `json:"nodes"`
	Edges      [][2]string `json:"edges"`
}

type tok struct {
	kind string // id, str, sym, eof, bad
	text string
}

func lexDot(s string) []tok {
	var out []tok
	i := 0
	isID := func(c byte) bool {
		return c == '_' || c >= '0' && c <= '9' || c >= 'a' && c <= 'z' || c >= 'A' && c <= 'Z' || c >= 0x80
	}
	for i < len(s) {
		c := s[i]
		switch {
		case c == ' ' || c == '\t' || c == '\n' || c == '\r':
			i++
		case c == '"':
			j := i + 1
			var b strings.Builder
			closed := false
			for j < len(s) {
				if s[j] == '\\' && j+1 < len(s) {
					if s[j+1] == '"' {
						b.WriteByte('"')
					} else {
						b.WriteByte('\\')
						b.WriteByte(s[j+1])
					}
					j += 2
					continue
				}
				if s[j] == '"' {
					closed = true
					j++
					break
				}
				b.WriteByte(s[j])
				j++
			}
			if !closed {
				out = append(out, tok{"bad", s[i:]})
				return out
			}
			out = append(out, tok{"str", b.String()})
			i = j
		case c == '-' && i+1 < len(s) && (s[i+1] == '>' || s[i+1] == '-'):
			out = append(out, tok{"sym", s[i : i+2]})
			i += 2
		case strings.IndexByte("{}[];,=", c) >= 0:
			out = append(out, tok{"sym", string(c)})
			i++
		case isID(c):
			j := i
			for j < len(s) && isID(s[j]) {
				j++
			}
			out = append(out, tok{"id", s[i:j]})
			i = j
		default:
			out = append(out, tok{"bad", string(c)})
			return out
		}
	}
	out = append(out, tok{"eof", ""})
	return out
}

type dotParser struct {
	t        []tok
	p        int
	ok       bool
	directed bool
	d        *Dot
}

func (q *dotParser) peek() tok { return q.t[q.p] }
func (q *dotParser) next() tok {
	t := q.t[q.p]
	if q.p < len(q.t)-1 {
		q.p++
	}
	return t
}
func (q *dotParser) sym(s string) bool {
	if q.peek().kind == "sym" && q.peek().text == s {
		q.next()
		return true
	}
	return false
}
func (q *dotParser) name() (string, bool) {
	if q.peek().kind == "id" || q.peek().kind == "str" {
		return q.next().text, true
	}
	return "", false
}

// attrs parses `[ k=v, k=v ]` (already positioned at `[`).
func (q *dotParser) attrs() (map[string]string, bool) {
	m := map[string]string{}
	if !q.sym("[") {
		return m, false
	}
	for !q.sym("]") {
		k, ok := q.name()
		if !ok || !q.sym("=") {
			return m, false
		}
		v, ok := q.name()
		if !ok {
			return m, false
		}
		m[k] = v
		if q.sym(",") || q.sym(";") {
			continue
		}
		if q.peek().kind == "sym" && q.peek().text == "]" {
			continue
		}
		return m, false
	}
	return m, true
}

type cluster struct {
	label    string
	hasLabel bool
	subs     []*cluster
	nodes    []DotNode // Path filled in afterwards
}

// block parses statements up to the closing brace into a cluster tree.
func (q *dotParser) block() (*cluster, bool) {
	c := &cluster{}
	for {
		t := q.peek()
		switch {
		case t.kind == "eof" || t.kind == "bad":
			return c, false
		case t.kind == "sym" && t.text == "}":
			q.next()
			return c, true
		case t.kind == "sym" && t.text == ";":
			q.next()
		case t.kind == "id" && t.text == "subgraph":
			q.next()
			if _, ok := q.name(); !ok {
				return c, false
			}
			if !q.sym("{") {
				return c, false
			}
			sub, ok := q.block()
			if !ok {
				return c, false
			}
			c.subs = append(c.subs, sub)
		case t.kind == "id" || t.kind == "str":
			id := q.next().text
			switch {
			case q.sym("="):
				v, ok := q.name()
				if !ok {
					return c, false
				}
				if id == "label" {
					if c.hasLabel {
						return c, false // two labels for one cluster
					}
					c.label, c.hasLabel = v, true
				}
			case q.peek().kind == "sym" && (q.peek().text == "->" || q.peek().text == "--"):
				op := q.next().text
				if (op == "->") != q.directed {
					return c, false
				}
				to, ok := q.name()
				if !ok {
					return c, false
				}
				if q.peek().kind == "sym" && q.peek().text == "[" {
					if _, ok := q.attrs(); !ok {
						return c, false
					}
				}
				q.d.Edges = append(q.d.Edges, [2]string{id, to})
			case q.peek().kind == "sym" && q.peek().text == "[":
				a, ok := q.attrs()
				if !ok {
					return c, false
				}
				lbl, hasLabel := a["label"]
				if !hasLabel {
					lbl = id
				}
				c.nodes = append(c.nodes, DotNode{ID: id, Label: lbl})
			default:
				c.nodes = append(c.nodes, DotNode{ID: id, Label: id}) // a bare node statement
			}
		default:
			return c, false
		}
	}
}

// place gives every node statement the labels of its enclosing clusters, outermost first.
func (q *dotParser) place(c *cluster, path []string, top bool) bool {
	here := path
	if !top {
		if !c.hasLabel {
			return false // a cluster without a label cannot be placed on a package path
		}
		here = append(append([]string{}, path...), c.label)
	}
	for _, n := range c.nodes {
		n.Path = append([]string{}, here...)
		q.d.Nodes = append(q.d.Nodes, n)
	}
	for _, s := range c.subs {
		if !q.place(s, here, false) {
			return false
		}
	}
	return true
}

func parseArchDot(s string) Dot {
	d := Dot{Wellformed: false, Nodes: []DotNode{}, Edges: [][2]string{}}
	q := &dotParser{t: lexDot(s), d: &d}
	h := q.next()
	if h.kind != "id" || (h.text != "digraph" && h.text != "graph") {
		return d
	}
	q.directed = h.text == "digraph"
	if _, ok := q.name(); !ok {
		return d
	}
	if !q.sym("{") {
		return d
	}
	root, ok := q.block()
	if !ok {
		return d
	}
	if !q.place(root, nil, true) {
		return d
	}
	for q.sym(";") {
	}
	if q.peek().kind != "eof" {
		return d
	}
	// second opinion: the repository's own DOT library must be able to read the text back
	if _, err := gographviz.ParseString(s); err != nil {
		return d
	}
	d.Wellformed = true
	return d
}
