// Harness for command sessions (extension X10).
//
// An abstract case is a sequence of coca commands (steps) and, for every step, its slice: the steps that wrote the
// files it reads (computed by the TLA+ Machine spec/X10Session.tla, checked again by the trace spec). The harness
//
//   - runs the whole session in a fresh working directory that holds the three fixed projects (proj1, proj2, proj3),
//   - runs the slice of every step in another fresh working directory,
//   - after every step records the outcome, the canonical text of what the command printed and a canonical hash of
//     every file under coca_reporter/.
//
// via "cli": every step is one process of the coca binary (VERIF_COCA), cwd and TMPDIR inside the working directory.
// via "cmd": every run (the session, each slice) is served by ONE fresh process through cmd.NewRootCmd, all flags of
// a command given explicitly at every request (a flag that is not given keeps the value of the previous request:
// that is how the flag library works, not something the commands promise anything about).
//
// No expected values: TLC (X10SessionRef!Diff) relates the session's observations to the slices' observations.
package main

import (
	"bytes"
	"crypto/sha1"
	"encoding/hex"
	"encoding/json"
	"fmt"
	"os"
	"os/exec"
	"path/filepath"
	"regexp"
	"sort"
	"strings"

	cocacmd "github.com/modernizing/coca/cmd"

	"verifharness/lib"
)

type Step struct {
	Cmd  string `json:"cmd"`
	Proj int    `json:"proj"`
	Flag bool   `json:"flag"`
}

type Case struct {
	Case   string  `json:"case"`
	Via    string  `json:"via"`
	Steps  []Step  `json:"steps"`
	Slices [][]int `json:"slices"`
	// Sub: this process serves exactly this run (list of 1-based step indices) in-process and reports its observations
	Sub []int `json:"sub,omitempty"`
}

type FileObs struct {
	Name string `json:"name"`
	Hash string `json:"hash"`
}

type StepObs struct {
	Failed bool      `json:"failed"`
	Stdout string    `json:"stdout"`
	Files  []FileObs `json:"files"`
	Note   string    `json:"note,omitempty"`
}

type Observed struct {
	Full   []StepObs `json:"full"`
	Sliced []StepObs `json:"sliced"`
}

type Record struct {
	Case     string   `json:"case"`
	Via      string   `json:"via"`
	Steps    []Step   `json:"steps"`
	Slices   [][]int  `json:"slices"`
	Observed Observed `json:"observed"`
	// SubObs: the observations of a Sub run (internal, between the parent and its child process)
	SubObs []StepObs `json:"subObs,omitempty"`
}

const depsPath = "coca_reporter/deps.json"

func argsOf(s Step) []string {
	p := fmt.Sprintf("proj%d", s.Proj)
	b := func(v bool) string {
		if v {
			return "true"
		}
		return "false"
	}
	switch s.Cmd {
	case "analysis":
		return []string{"analysis", "-p", p, "-i=" + b(s.Flag)}
	case "api":
		return []string{"api", "-p", p, "-d", depsPath, "-r", "", "-a", "", "-c=true", "-s=false", "-f=" + b(s.Flag)}
	case "call":
		return []string{"call", "-c", "com.acme.shop.OrderController.create", "-d", depsPath, "-r", "", "-l=false"}
	case "rcall":
		return []string{"rcall", "-c", "com.acme.shop.OrderRepository.save", "-d", depsPath, "-r", ""}
	case "arch":
		return []string{"arch", "-d", depsPath, "-P=false", "-H=false", "-v=false", "-x", ""}
	case "count":
		return []string{"count", "-d", depsPath, "-t", "0"}
	case "concept":
		return []string{"concept", "-d", depsPath}
	case "evaluate":
		return []string{"evaluate", "-d", depsPath}
	case "suggest":
		return []string{"suggest", "-d", depsPath}
	case "bs":
		if s.Flag {
			return []string{"bs", "-p", p, "-x", "", "-s", "type"}
		}
		return []string{"bs", "-p", p, "-x", "", "-s", ""}
	case "tbs":
		return []string{"tbs", "-p", p, "-s=false"}
	case "todo":
		if s.Flag {
			return []string{"todo", "-p", p, "-e", ".java,.py", "-g=false"}
		}
		return []string{"todo", "-p", p, "-e", ".java", "-g=false"}
	}
	panic("harness: unknown command " + s.Cmd)
}

// ---------------------------------------------------------------- canonical forms

func canonJSON(v interface{}) string {
	switch x := v.(type) {
	case map[string]interface{}:
		ks := make([]string, 0, len(x))
		for k := range x {
			ks = append(ks, k)
		}
		sort.Strings(ks)
		var b strings.Builder
		b.WriteString("{")
		for _, k := range ks {
			b.WriteString(fmt.Sprintf("%q:", k))
			b.WriteString(canonJSON(x[k]))
			b.WriteString(",")
		}
		b.WriteString("}")
		return b.String()
	case []interface{}:
		// collections: two runs may list the same elements in another order (map iteration); that is C08's subject
		es := make([]string, 0, len(x))
		for _, e := range x {
			es = append(es, canonJSON(e))
		}
		sort.Strings(es)
		return "[" + strings.Join(es, ",") + "]"
	default:
		b, _ := json.Marshal(x)
		return string(b)
	}
}

var stampRe = regexp.MustCompile(`^\d{4}/\d{2}/\d{2} \d{2}:\d{2}:\d{2} `)

func canonLines(s string) string {
	var ls []string
	for _, l := range strings.Split(s, "\n") {
		l = strings.TrimSpace(stampRe.ReplaceAllString(l, ""))
		if l == "" || strings.Contains(l, "cpu.pprof") || strings.HasPrefix(l, "profile:") || strings.HasPrefix(l, "cmd.Run() failed") ||
			strings.HasPrefix(l, "App elapsed:") { // the one line every command prints that is a measurement, not a report
			continue
		}
		ls = append(ls, l)
	}
	sort.Strings(ls)
	return strings.Join(ls, "\n")
}

// arch.dot numbers its nodes and clusters in map iteration order: compare what is drawn, not the numbers
func canonArchDot(s string) string {
	d := parseArchDot(s)
	if !d.Wellformed {
		return "malformed:" + canonLines(s)
	}
	name := map[string]string{}
	var ls []string
	for _, n := range d.Nodes {
		full := strings.Join(append(append([]string{}, n.Path...), n.Label), ".")
		name[n.ID] = full
		ls = append(ls, "node "+full)
	}
	for _, e := range d.Edges {
		ls = append(ls, "edge "+name[e[0]]+" -> "+name[e[1]])
	}
	sort.Strings(ls)
	return strings.Join(ls, "\n")
}

func hashOf(s string) string {
	h := sha1.Sum([]byte(s))
	return hex.EncodeToString(h[:8])
}

func snapshot(wd string) []FileObs {
	out := []FileObs{}
	ents, err := os.ReadDir(filepath.Join(wd, "coca_reporter"))
	if err != nil {
		return out
	}
	for _, e := range ents {
		n := e.Name()
		if e.IsDir() || strings.HasSuffix(n, ".svg") {
			continue
		}
		b, err := os.ReadFile(filepath.Join(wd, "coca_reporter", n))
		if err != nil {
			continue
		}
		var c string
		switch {
		case strings.HasSuffix(n, ".json"):
			var v interface{}
			if json.Unmarshal(b, &v) == nil {
				c = canonJSON(v)
			} else {
				c = "unparsable:" + string(b)
			}
		case n == "arch.dot":
			c = canonArchDot(string(b))
		default:
			c = canonLines(string(b))
		}
		out = append(out, FileObs{Name: n, Hash: hashOf(c)})
	}
	sort.Slice(out, func(i, j int) bool { return out[i].Name < out[j].Name })
	return out
}

// ---------------------------------------------------------------- running

func prepare(wd string) {
	if err := os.MkdirAll(filepath.Join(wd, "tmp"), 0o755); err != nil {
		panic("harness: mkdir: " + err.Error())
	}
	for k := 1; k <= 3; k++ {
		writeProject(wd, k)
	}
}

// runCli: the steps one after the other, one process of the binary each
func runCli(wd string, steps []Step) []StepObs {
	coca := os.Getenv("VERIF_COCA")
	if coca == "" {
		panic("harness: VERIF_COCA not set")
	}
	var obs []StepObs
	for _, s := range steps {
		cmd := exec.Command(coca, argsOf(s)...)
		cmd.Dir = wd
		cmd.Env = append(os.Environ(), "TMPDIR="+filepath.Join(wd, "tmp"), "HOME="+wd)
		var so, se bytes.Buffer
		cmd.Stdout = &so
		cmd.Stderr = &se
		err := cmd.Run()
		o := StepObs{Failed: err != nil, Stdout: hashOf(canonLines(so.String())), Files: snapshot(wd)}
		if err != nil {
			o.Note = tailStr(se.String(), 300)
		}
		obs = append(obs, o)
	}
	return obs
}

// runCmd: the steps one after the other through the root command, in THIS process
func runCmd(wd string, steps []Step) []StepObs {
	if err := os.Chdir(wd); err != nil {
		panic("harness: chdir: " + err.Error())
	}
	var obs []StepObs
	for _, s := range steps {
		var buf bytes.Buffer
		p, msg := lib.Guard(func() {
			root := cocacmd.NewRootCmd(&buf)
			root.SetArgs(argsOf(s))
			if err := root.Execute(); err != nil {
				panic("command failed: " + err.Error())
			}
		})
		o := StepObs{Failed: p, Stdout: hashOf(canonLines(buf.String())), Files: snapshot(wd)}
		if p {
			o.Note = tailStr(msg, 300)
		}
		obs = append(obs, o)
	}
	return obs
}

func tailStr(s string, n int) string {
	if len(s) > n {
		return s[len(s)-n:]
	}
	return s
}

func pickSteps(all []Step, idx []int) []Step {
	var out []Step
	for _, i := range idx {
		if i < 1 || i > len(all) {
			panic("harness: slice index out of range")
		}
		out = append(out, all[i-1])
	}
	return out
}

// oneRun executes one run (the steps with the given 1-based indices) in its own fresh working directory
func oneRun(c Case, scratch string, tag string, idx []int) []StepObs {
	steps := pickSteps(c.Steps, idx)
	if c.Via == "cmd" {
		// a fresh process serves the whole run
		raw, err := lib.Fresh(Case{Case: c.Case, Via: "cmd", Steps: c.Steps, Slices: c.Slices, Sub: idx})
		var r Record
		if err == nil {
			err = json.Unmarshal(raw, &r)
		}
		if err != nil || len(r.SubObs) != len(idx) {
			// the process died (a fatal exit or a crash of the command): every step of this run is a failure
			out := make([]StepObs, len(idx))
			for i := range out {
				out[i] = StepObs{Failed: true, Stdout: "", Files: []FileObs{}, Note: fmt.Sprint("run process failed: ", err)}
			}
			return out
		}
		return r.SubObs
	}
	wd := filepath.Join(scratch, tag)
	prepare(wd)
	return runCli(wd, steps)
}

func one(raw json.RawMessage) interface{} {
	var c Case
	if err := json.Unmarshal(raw, &c); err != nil {
		panic(err)
	}
	if c.Via == "" {
		c.Via = "cli"
	}
	if c.Slices == nil {
		c.Slices = [][]int{}
	}
	scratch, err := os.MkdirTemp(os.Getenv("VERIF_SCRATCH"), "session-")
	if err != nil {
		panic(err)
	}
	if os.Getenv("VERIF_SESSION_KEEP") == "" { // debugging aid: keep the working directories
		defer os.RemoveAll(scratch)
	}
	if c.Sub != nil {
		wd := filepath.Join(scratch, "sub")
		prepare(wd)
		return Record{Case: c.Case, Via: c.Via, Steps: c.Steps, Slices: c.Slices, SubObs: runCmd(wd, pickSteps(c.Steps, c.Sub)),
			Observed: Observed{Full: []StepObs{}, Sliced: []StepObs{}}}
	}
	if len(c.Slices) != len(c.Steps) {
		panic("harness: a case needs one slice per step")
	}
	rec := Record{Case: c.Case, Via: c.Via, Steps: c.Steps, Slices: c.Slices, Observed: Observed{Full: []StepObs{}, Sliced: []StepObs{}}}
	all := make([]int, len(c.Steps))
	for i := range all {
		all[i] = i + 1
	}
	rec.Observed.Full = oneRun(c, scratch, "full", all)
	for i, sl := range c.Slices {
		if len(sl) == 0 || sl[len(sl)-1] != i+1 {
			panic("harness: the slice of a step ends with the step")
		}
		if len(sl) == i+1 {
			// the slice is the whole prefix: run it again all the same (a second, independent execution)
		}
		obs := oneRun(c, scratch, fmt.Sprintf("slice%d", i+1), sl)
		rec.Observed.Sliced = append(rec.Observed.Sliced, obs[len(obs)-1])
	}
	return rec
}

func abnormal(raw json.RawMessage, timeout bool, stderr string) interface{} {
	var c Case
	json.Unmarshal(raw, &c)
	if c.Slices == nil {
		c.Slices = [][]int{}
	}
	rec := Record{Case: c.Case, Via: c.Via, Steps: c.Steps, Slices: c.Slices, Observed: Observed{Full: []StepObs{}, Sliced: []StepObs{}}}
	for range c.Steps {
		rec.Observed.Full = append(rec.Observed.Full, StepObs{Failed: true, Files: []FileObs{}, Note: "process died: " + tailStr(stderr, 300)})
		rec.Observed.Sliced = append(rec.Observed.Sliced, StepObs{Failed: false, Files: []FileObs{}})
	}
	return rec
}

// gen: a few fixed sessions with their slices (the trace spec re-computes every slice and rejects a wrong one);
// the bulk of the sessions comes from TLC, which computes the slices from the Machine.
func gen(seed int64, n int, tier string) []interface{} {
	st := func(c string, p int, f bool) Step { return Step{Cmd: c, Proj: p, Flag: f} }
	fixed := []Case{
		{Steps: []Step{st("analysis", 1, true), st("api", 1, false), st("analysis", 2, true), st("api", 2, true)}, Slices: [][]int{{1}, {1, 2}, {3}, {3, 4}}},
		{Steps: []Step{st("analysis", 1, true), st("api", 1, false), st("analysis", 2, true), st("api", 2, false)}, Slices: [][]int{{1}, {1, 2}, {3}, {1, 2, 3, 4}}},
		{Steps: []Step{st("tbs", 1, false), st("tbs", 2, false)}, Slices: [][]int{{1}, {1, 2}}},
		{Steps: []Step{st("analysis", 1, true), st("todo", 1, true), st("todo", 2, false)}, Slices: [][]int{{1}, {2}, {3}}},
		{Steps: []Step{st("analysis", 2, true), st("arch", 0, false), st("evaluate", 0, false)}, Slices: [][]int{{1}, {1, 2}, {1, 3}}},
		{Steps: []Step{st("analysis", 3, true), st("analysis", 1, false), st("call", 0, false), st("rcall", 0, false), st("count", 0, false)},
			Slices: [][]int{{1}, {1, 2}, {1, 2, 3}, {1, 2, 4}, {1, 2, 5}}},
		{Steps: []Step{st("bs", 1, true), st("bs", 2, false), st("analysis", 2, true), st("suggest", 0, false), st("concept", 0, false)},
			Slices: [][]int{{1}, {2}, {3}, {3, 4}, {3, 5}}},
	}
	var out []interface{}
	for k := 0; k < n && k < 2*len(fixed); k++ {
		c := fixed[k%len(fixed)]
		c.Case = fmt.Sprintf("fixed-%d", k)
		c.Via = []string{"cli", "cmd"}[(k/len(fixed)+int(seed))%2]
		out = append(out, c)
	}
	return out
}

func main() {
	lib.Main(lib.Handler{One: one, Gen: gen, Abnormal: abnormal})
}
