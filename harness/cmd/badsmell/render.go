package main

// Renderer: abstract case -> Java text + the facts about that text (line of every
// method's first annotation, header and closing brace; lines of the parentheses of every
// top-level if condition). Layout choices the abstract input leaves open (member order,
// filler statements, compact or block style, modifiers, parameter types, comments,
// sub-directories) are drawn from a generator seeded by the case id, so a replay renders
// the same text. It decides nothing about findings.

import (
	"fmt"
	"hash/fnv"
	"math/rand"
	"os"
	"path/filepath"
	"strings"
)

type writer struct {
	lines []string
}

func (w *writer) next() int          { return len(w.lines) + 1 } // number of the line written next
func (w *writer) add(s string)       { w.lines = append(w.lines, s) }
func (w *writer) text() string       { return strings.Join(w.lines, "\n") + "\n" }
func (w *writer) addAll(ss []string) { w.lines = append(w.lines, ss...) }

type ctx struct {
	rnd   *rand.Rand
	iface bool
	local int // counter for unique local names
}

func (c *ctx) atom() string {
	k := c.rnd.Intn(90) + 1
	if c.iface {
		return []string{fmt.Sprintf("hashCode() > %d", k), fmt.Sprintf("hashCode() != %d", k), "toString() != null"}[c.rnd.Intn(3)]
	}
	return []string{fmt.Sprintf("f0 > %d", k), fmt.Sprintf("f0 != %d", k), fmt.Sprintf("f0 < %d", k), fmt.Sprintf("hashCode() > %d", k)}[c.rnd.Intn(4)]
}

func (c *ctx) act() string {
	k := c.rnd.Intn(90) + 1
	if c.iface {
		return []string{"hashCode();", "toString();", fmt.Sprintf("System.out.println(%d);", k)}[c.rnd.Intn(3)]
	}
	return []string{fmt.Sprintf("f0 = %d;", k), "f0++;", "f0--;", fmt.Sprintf("System.out.println(%d);", k), fmt.Sprintf("f0 += %d;", k)}[c.rnd.Intn(5)]
}

func (c *ctx) selector() string {
	if c.iface {
		return "hashCode()"
	}
	return "f0"
}

// head renders "kw (e1 <op> e2 ... eh)" over h lines; the last line ends with tail
func (c *ctx) head(kw string, h int, atoms []string, op, tail string) []string {
	if h <= 1 {
		return []string{kw + " (" + strings.Join(atoms[:1], "") + ")" + tail}
	}
	switch c.rnd.Intn(4) {
	case 0:
		// the opening parenthesis ends the first line, the first operand starts on the second (still h lines from
		// the "(" to the ")")
		out := []string{kw + " ("}
		for i := 1; i < h; i++ {
			l := "        " + atoms[i]
			if i < h-1 {
				l += " " + op
			} else {
				l += ")" + tail
			}
			out = append(out, l)
		}
		return out
	case 1:
		// the closing parenthesis has the last line to itself
		out := []string{kw + " (" + atoms[0]}
		for i := 1; i < h-1; i++ {
			out = append(out, "        "+op+" "+atoms[i])
		}
		return append(out, ")"+tail)
	}
	out := []string{kw + " (" + atoms[0]}
	for i := 1; i < h; i++ {
		l := "        " + op + " " + atoms[i]
		if i == h-1 {
			l += ")" + tail
		}
		out = append(out, l)
	}
	return out
}

func (c *ctx) atoms(h int) []string {
	if h < 1 {
		h = 1
	}
	a := make([]string, h)
	for i := range a {
		a[i] = c.atom()
	}
	return a
}

func indent(ls []string) []string {
	out := make([]string, len(ls))
	for i, l := range ls {
		out[i] = "    " + l
	}
	return out
}

// nestedIf: an if that is NOT a top-level statement, with a condition of nh lines
func (c *ctx) nestedIf(nh int) []string {
	return c.head("if", nh, c.atoms(nh), "&&", " { "+c.act()+" }")
}

// stmt renders one top-level statement compactly; for t == "if" it also returns the
// offsets (relative to the first line of the statement) of the condition's parentheses
func (c *ctx) stmt(g Group) (lines []string, cond [2]int, isIf bool) {
	h, nh := g.H, g.NH
	if h < 1 {
		h = 1
	}
	inner := func() []string {
		if nh > 0 {
			return c.nestedIf(nh)
		}
		return []string{c.act()}
	}
	switch g.T {
	case "if":
		isIf = true
		cond = [2]int{0, h - 1}
		if nh == 0 {
			tail := " " + c.act()
			if c.rnd.Intn(2) == 0 {
				tail = " { " + c.act() + " }"
			}
			lines = c.head("if", h, c.atoms(h), "&&", tail)
			return
		}
		lines = c.head("if", h, c.atoms(h), "&&", " {")
		lines = append(lines, indent(c.nestedIf(nh))...)
		ei := c.head("} else if", nh, c.atoms(nh), "||", " {")
		lines = append(lines, ei...)
		lines = append(lines, "    "+c.act(), "}")
	case "switch":
		sel := []string{c.selector()}
		for i := 1; i < h; i++ {
			sel = append(sel, fmt.Sprint(i))
		}
		if h == 1 && nh == 0 {
			lines = []string{"switch (" + c.selector() + ") { case 1: " + c.act() + " break; default: break; }"}
			return
		}
		lines = c.head("switch", h, sel, "+", " {")
		lines = append(lines, "    case 1:")
		lines = append(lines, indent(indent(inner()))...)
		lines = append(lines, "        break;", "    default:", "        break;", "}")
	case "while":
		if h == 1 && nh == 0 {
			lines = []string{"while (" + c.atom() + ") { " + c.act() + " }"}
			return
		}
		lines = c.head("while", h, c.atoms(h), "&&", " {")
		lines = append(lines, indent(inner())...)
		lines = append(lines, "}")
	case "sync":
		if h == 1 && nh == 0 {
			lines = []string{"synchronized (this) { " + c.act() + " }"}
			return
		}
		if h == 1 {
			lines = []string{"synchronized (this) {"}
		} else {
			lines = []string{"synchronized (this"}
			for i := 1; i < h; i++ {
				l := "        .getClass()"
				if i == h-1 {
					l += ") {"
				}
				lines = append(lines, l)
			}
		}
		lines = append(lines, indent(inner())...)
		lines = append(lines, "}")
	case "for":
		c.local++
		v := fmt.Sprintf("i%d", c.local)
		hd := fmt.Sprintf("for (int %s = 0; %s < 3; %s++)", v, v, v)
		if nh == 0 {
			lines = []string{hd + " { " + c.act() + " }"}
			return
		}
		lines = append([]string{hd + " {"}, indent(inner())...)
		lines = append(lines, "}")
	case "try":
		if nh == 0 {
			lines = []string{"try { " + c.act() + " } finally { " + c.act() + " }"}
			return
		}
		lines = append([]string{"try {"}, indent(inner())...)
		lines = append(lines, "} finally {", "    "+c.act(), "}")
	case "do":
		if nh == 0 {
			lines = []string{"do { " + c.act() + " } while (" + c.atom() + ");"}
			return
		}
		lines = append([]string{"do {"}, indent(inner())...)
		lines = append(lines, "} while ("+c.atom()+");")
	case "block":
		if nh == 0 {
			lines = []string{"{ " + c.act() + " }"}
			return
		}
		lines = append([]string{"{"}, indent(inner())...)
		lines = append(lines, "}")
	case "assert":
		lines = []string{"assert " + c.atom() + ";"}
	case "local":
		c.local++
		lines = []string{fmt.Sprintf("int v%d = %d;", c.local, c.rnd.Intn(50))}
	default: // "expr"
		lines = []string{c.act()}
	}
	return
}

func (c *ctx) filler() string {
	c.local++
	switch c.rnd.Intn(8) {
	case 0:
		return fmt.Sprintf("int v%d = %d;", c.local, c.rnd.Intn(50))
	case 1:
		return fmt.Sprintf("// step %d: if (ready) { go(); }", c.local)
	case 2:
		return ""
	case 3:
		return fmt.Sprintf("String s%d = \"if (a) { switch (b) {\";", c.local)
	case 4:
		return "/* switch (mode) { default: } */"
	default:
		return c.act()
	}
}

var normalNames = []string{"run", "work", "apply", "load", "store", "build", "check", "merge", "visit", "handle",
	"update", "render", "compute", "execute", "process", "flush", "reset", "open", "close", "notifyOwner", "forget", "assetOf"}
var paramTypes = []string{"int", "long", "String", "boolean", "double", "int[]", "java.util.List<String>", "final int", "Object", "char"}
var annLines = []string{"@Deprecated", "@SuppressWarnings(\"unchecked\")", "@Override", "@SafeVarargs", "@SuppressWarnings({\"a\", \"b\"})"}

func params(rnd *rand.Rand, n int, va bool) string {
	ps := make([]string, n)
	for i := range ps {
		t := paramTypes[rnd.Intn(len(paramTypes))]
		if va && i == n-1 {
			t = []string{"int", "String", "Object"}[rnd.Intn(3)] + "..."
		}
		ps[i] = fmt.Sprintf("%s p%d", t, i)
	}
	return strings.Join(ps, ", ")
}

// method renders one method (4-space member indentation) at the writer's current line
func renderMethod(w *writer, rnd *rand.Rand, f File, m Method, idx int) MFacts {
	c := &ctx{rnd: rnd, iface: f.Kind == "interface"}
	mf := MFacts{First: w.next(), Conds: [][2]int{}}
	for a := 0; a < m.Ann; a++ {
		w.add("    " + annLines[rnd.Intn(len(annLines))])
	}
	mf.Start = w.next()
	var name, ret string
	switch m.NK {
	case "get":
		name, ret = fmt.Sprintf("getV%d", idx), "int"
	case "set":
		name, ret = fmt.Sprintf("setV%d", idx), "void"
	default:
		name, ret = fmt.Sprintf("%s%d", normalNames[rnd.Intn(len(normalNames))], idx), "void"
	}
	rest := name + "(" + params(rnd, m.Params, m.VA) + ")"
	if rnd.Intn(6) == 0 {
		rest += " throws Exception"
	}
	sig := ret + " " + rest
	if m.Abs {
		if c.iface {
			w.add("    " + []string{"", "public ", "abstract ", "public abstract "}[rnd.Intn(4)] + sig + ";")
		} else {
			w.add("    " + []string{"public ", "protected ", ""}[rnd.Intn(3)] + "abstract " + sig + ";")
		}
		mf.Close = mf.Start
		return mf
	}
	var mods string
	if c.iface {
		mods = []string{"default ", "default ", "public default "}[rnd.Intn(3)]
	} else {
		mods = []string{"public ", "public ", "protected ", "private ", "", "public final ", "public synchronized "}[rnd.Intn(7)]
	}
	retLine := ""
	if m.NK == "get" {
		if c.iface {
			retLine = "return 0;"
		} else {
			retLine = "return f0;"
		}
	}
	// the statements, compact
	type block struct {
		lines []string
		cond  [2]int
		isIf  bool
	}
	var blocks []block
	need := 0
	for _, g := range m.Stmts {
		for k := 0; k < g.N; k++ {
			ls, cond, isIf := c.stmt(g)
			blocks = append(blocks, block{ls, cond, isIf})
			need += len(ls)
		}
	}
	if retLine != "" {
		need++
	}
	d := m.Len
	if need == 0 && d == 0 {
		w.add("    " + mods + sig + " { }")
		mf.Close = mf.Start
		return mf
	}
	if len(blocks) == 0 && d == 0 { // single-line accessor
		w.add("    " + mods + sig + " { " + retLine + " }")
		mf.Close = mf.Start
		return mf
	}
	if d < need+1 {
		d = need + 1
	}
	spare := d - 1 - need
	// spend some spare lines on block style for plain one-line ifs
	for i := range blocks {
		b := &blocks[i]
		if spare >= 2 && b.isIf && len(b.lines) == 1 && strings.HasSuffix(b.lines[0], "}") && rnd.Intn(3) == 0 {
			open := strings.Index(b.lines[0], " { ")
			if open > 0 {
				body := strings.TrimSuffix(b.lines[0][open+3:], " }")
				b.lines = []string{b.lines[0][:open] + " {", "    " + body, "}"}
				spare -= 2
			}
		}
	}
	// a wrapped signature: modifiers and return type on the line the declaration starts on, the name on the next
	wrapped := spare >= 1 && rnd.Intn(4) == 0
	if wrapped {
		spare--
	}
	// distribute the remaining spare lines as fillers between the statements
	gaps := make([]int, len(blocks)+1)
	for ; spare > 0; spare-- {
		gaps[rnd.Intn(len(gaps))]++
	}
	if wrapped {
		w.add("    " + mods + ret)
		w.add("            " + rest + " {")
	} else {
		w.add("    " + mods + sig + " {")
	}
	for i := 0; i <= len(blocks); i++ {
		for k := 0; k < gaps[i]; k++ {
			fl := c.filler()
			if fl == "" {
				w.add("")
			} else {
				w.add("        " + fl)
			}
		}
		if i < len(blocks) {
			b := blocks[i]
			if b.isIf {
				at := w.next()
				mf.Conds = append(mf.Conds, [2]int{at + b.cond[0], at + b.cond[1]})
			}
			for _, l := range b.lines {
				w.add("        " + l)
			}
		}
	}
	if retLine != "" {
		w.add("        " + retLine)
	}
	mf.Close = w.next()
	w.add("    }")
	return mf
}

func allMethods(f File) []Method {
	ms := append([]Method{}, f.Methods...)
	for i := 0; i < f.PadGet; i++ {
		ms = append(ms, Method{NK: "get", Stmts: []Group{}})
	}
	for i := 0; i < f.PadNormal; i++ {
		ms = append(ms, Method{NK: "normal", Stmts: []Group{}})
	}
	return ms
}

func renderFile(rnd *rand.Rand, f File, pkg string) (string, []MFacts) {
	w := &writer{}
	ms := allMethods(f)
	if rnd.Intn(4) == 0 {
		w.add("// generated for the bad-smell conformance check")
	}
	w.add("package " + pkg + ";")
	w.add("")
	if rnd.Intn(2) == 0 {
		w.add("import java.util.List;")
		if rnd.Intn(2) == 0 {
			w.add("import java.util.Map;")
		}
		w.add("")
	}
	if rnd.Intn(3) == 0 {
		w.addAll([]string{"/**", " * " + f.Name + ": if (documented) { switch (nothing) { } }", " */"})
	}
	abstractClass := false
	for _, m := range ms {
		if m.Abs {
			abstractClass = true
		}
	}
	iface := f.Kind == "interface"
	switch {
	case iface:
		w.add("public interface " + f.Name + " {")
	case abstractClass:
		w.add("public abstract class " + f.Name + ext(f) + " {")
	default:
		w.add([]string{"public class ", "public class ", "public final class ", "class "}[rnd.Intn(4)] + f.Name + ext(f) + " {")
	}
	if iface {
		if rnd.Intn(2) == 0 {
			w.add("    int LIMIT = 3;")
			w.add("")
		}
	} else {
		w.add("    private int f0;")
		if rnd.Intn(3) == 0 {
			w.add("    private String note = \"if (x) { switch (y) { } }\";")
		}
		w.add("")
		if f.Ext || rnd.Intn(4) == 0 {
			w.add("    public " + f.Name + "() {")
			if f.Ext {
				w.add("        super.toString();")
			}
			w.add("        this.f0 = 1;")
			w.add("    }")
			w.add("")
		}
	}
	facts := make([]MFacts, len(ms))
	order := rnd.Perm(len(ms))
	for n, j := range order {
		if rnd.Intn(5) == 0 {
			w.add("    // member " + fmt.Sprint(j))
		} else if rnd.Intn(8) == 0 {
			w.addAll([]string{"    /**", "     * if (described) { }", "     */"})
		}
		facts[j] = renderMethod(w, rnd, f, ms[j], j)
		if n < len(order)-1 || rnd.Intn(2) == 0 {
			w.add("")
		}
	}
	w.add("}")
	return w.text(), facts
}

func ext(f File) string {
	if f.Ext {
		return " extends Exception"
	}
	return ""
}

func seedOf(id string) int64 {
	h := fnv.New64a()
	h.Write([]byte(id))
	return int64(h.Sum64() & 0x7fffffffffffffff)
}

// render writes the tree below root (root == "" : compute the facts only)
func render(root, caseID string, in Input) (Facts, []string, error) {
	rnd := rand.New(rand.NewSource(seedOf(caseID)))
	facts := Facts{Files: []FFacts{}}
	var texts []string
	dirs := []string{"", "", "core", "core/model", "api"}
	for _, f := range in.Files {
		dir := dirs[rnd.Intn(len(dirs))]
		pkg := "app"
		if dir != "" {
			pkg = "app." + strings.ReplaceAll(dir, "/", ".")
		}
		text, mf := renderFile(rnd, f, pkg)
		p := f.Name + ".java"
		if dir != "" {
			p = dir + "/" + p
		}
		facts.Files = append(facts.Files, FFacts{Path: p, Methods: mf})
		texts = append(texts, text)
		if root != "" {
			full := filepath.Join(root, filepath.FromSlash(p))
			if err := os.MkdirAll(filepath.Dir(full), 0o755); err != nil {
				return facts, nil, err
			}
			if err := os.WriteFile(full, []byte(text), 0o644); err != nil {
				return facts, nil, err
			}
		}
	}
	if root != "" {
		if err := os.MkdirAll(root, 0o755); err != nil {
			return facts, nil, err
		}
		// files the analysis must not pick up
		if rnd.Intn(3) == 0 {
			os.WriteFile(filepath.Join(root, "notes.txt"), []byte("if (a) {\n}\n"), 0o644)
		}
		if rnd.Intn(4) == 0 {
			os.WriteFile(filepath.Join(root, "Old.java.bak"), []byte("class Old { }\n"), 0o644)
		}
	}
	return facts, texts, nil
}
