// Harness for the bad-smell suite (C10).
//
// Renders an abstract case (classes / interfaces with methods whose length, parameter
// count, top-level if / switch counts and condition heights are given) to a directory of
// Java files, analyses it with the real code twice - in process through
// BadSmellApp.AnalysisPath + IdentifyBadSmell, and through the coca binary
// (`coca bs -p DIR -x kinds [-s type]` -> coca_reporter/bs.json) - and projects both
// reports to [kind, file, line, size] records. No expected values: judgement is done by
// TLC (spec/BadSmellRef.tla) on the trace record.
package main

import (
	"bytes"
	"encoding/json"
	"fmt"
	"os"
	"os/exec"
	"path/filepath"
	"strconv"
	"strings"
	"time"

	"github.com/antlr/antlr4/runtime/Go/antlr/v4"
	parser "github.com/modernizing/coca/languages/java"
	"github.com/modernizing/coca/pkg/application/bs"

	"verifharness/lib"
)

type Group struct {
	T  string `json:"t"`
	H  int    `json:"h"`
	NH int    `json:"nh"`
	N  int    `json:"n"`
}

type Method struct {
	NK     string  `json:"nk"`
	Ann    int     `json:"ann"`
	Params int     `json:"params"`
	VA     bool    `json:"va"`
	Abs    bool    `json:"abs"`
	Len    int     `json:"len"`
	Stmts  []Group `json:"stmts"`
}

type File struct {
	Name      string   `json:"name"`
	Kind      string   `json:"kind"`
	Ext       bool     `json:"ext"`
	Methods   []Method `json:"methods"`
	PadGet    int      `json:"padGet"`
	PadNormal int      `json:"padNormal"`
}

type Input struct {
	Files  []File   `json:"files"`
	Ignore []string `json:"ignore"`
	Sort   bool     `json:"sort"`
}

type Case struct {
	Case  string `json:"case"`
	Input Input  `json:"input"`
	// Cli: also run the coca binary (always done when the sort option is on: cmd/bs.go is the only caller of the sort)
	Cli bool `json:"cli"`
}

type MFacts struct {
	First int      `json:"first"`
	Start int      `json:"start"`
	Close int      `json:"close"`
	Conds [][2]int `json:"conds"`
}

type FFacts struct {
	Path    string   `json:"path"`
	Methods []MFacts `json:"methods"`
}

type Facts struct {
	Files        []FFacts `json:"files"`
	SyntaxErrors int      `json:"syntaxErrors"`
}

type Finding struct {
	Kind string `json:"kind"`
	File string `json:"file"`
	Line int    `json:"line"`
	Size int    `json:"size"`
}

type ObsGroup struct {
	Key   string    `json:"key"`
	Items []Finding `json:"items"`
}

type Cli struct {
	Ran        bool       `json:"ran"`
	Failed     bool       `json:"failed"`
	Wellformed bool       `json:"wellformed"`
	Grouped    bool       `json:"grouped"`
	List       []Finding  `json:"list"`
	Groups     []ObsGroup `json:"groups"`
	Note       string     `json:"note,omitempty"`
}

type Obs struct {
	Panic bool      `json:"panic"`
	Api   []Finding `json:"api"`
	Cli   Cli       `json:"cli"`
	Note  string    `json:"note,omitempty"`
}

type Record struct {
	Case     string `json:"case"`
	Input    Input  `json:"input"`
	Facts    Facts  `json:"facts"`
	Observed Obs    `json:"observed"`
}

func normalize(in *Input) {
	if in.Files == nil {
		in.Files = []File{}
	}
	if in.Ignore == nil {
		in.Ignore = []string{}
	}
	for i := range in.Files {
		if in.Files[i].Methods == nil {
			in.Files[i].Methods = []Method{}
		}
		for j := range in.Files[i].Methods {
			if in.Files[i].Methods[j].Stmts == nil {
				in.Files[i].Methods[j].Stmts = []Group{}
			}
		}
	}
}

func emptyObs() Obs {
	return Obs{Api: []Finding{}, Cli: Cli{List: []Finding{}, Groups: []ObsGroup{}}}
}

// ---------------------------------------------------------------- projection (no judgement)

// rel turns the path the report names into the path below the analysed directory
func rel(root, p string) string {
	if r, err := filepath.Rel(root, p); err == nil && !strings.HasPrefix(r, "..") {
		return filepath.ToSlash(r)
	}
	return filepath.ToSlash(p)
}

// lineNo: the report carries the line as a string; "" = the finding names no line
func lineNo(s string) int {
	if s == "" {
		return 0
	}
	n, err := strconv.Atoi(s)
	if err != nil {
		return -1
	}
	return n
}

type cliSmell struct {
	EntityName string `json:"EntityName"`
	Line       string `json:"Line"`
	BS         string `json:"BS"`
	Size       *int   `json:"Size"`
}

func projectCli(root string, s cliSmell) (Finding, bool) {
	if s.Size == nil {
		return Finding{}, false
	}
	return Finding{Kind: s.BS, File: rel(root, s.EntityName), Line: lineNo(s.Line), Size: *s.Size}, true
}

// orderedKeys returns the keys of a JSON object in document order
func orderedKeys(raw []byte) ([]string, bool) {
	dec := json.NewDecoder(bytes.NewReader(raw))
	t, err := dec.Token()
	if err != nil || t != json.Delim('{') {
		return nil, false
	}
	var keys []string
	for dec.More() {
		t, err := dec.Token()
		if err != nil {
			return nil, false
		}
		k, ok := t.(string)
		if !ok {
			return nil, false
		}
		keys = append(keys, k)
		var skip json.RawMessage
		if err := dec.Decode(&skip); err != nil {
			return nil, false
		}
	}
	return keys, true
}

func viaCLI(scratch, root string, in Input, c *Cli) {
	bin := os.Getenv("VERIF_COCA")
	if bin == "" {
		fmt.Fprintln(os.Stderr, "harness: VERIF_COCA not set")
		os.Exit(2)
	}
	args := []string{"bs", "-p", root}
	if len(in.Ignore) > 0 {
		args = append(args, "-x", strings.Join(in.Ignore, ","))
	}
	if in.Sort {
		args = append(args, "-s", "type")
	}
	cmd := exec.Command(bin, args...)
	cmd.Dir = scratch
	cmd.Env = append(os.Environ(), "TMPDIR="+scratch, "HOME="+scratch)
	out, err := cmd.CombinedOutput()
	if err != nil {
		c.Failed = true
		c.Note = short(string(out), 300)
		return
	}
	raw, err := os.ReadFile(filepath.Join(scratch, "coca_reporter", "bs.json"))
	if err != nil {
		c.Failed = true
		c.Note = "no bs.json: " + err.Error()
		return
	}
	raw = bytes.TrimSpace(raw)
	if bytes.Equal(raw, []byte("null")) { // the empty report
		c.Wellformed = true
		return
	}
	if len(raw) > 0 && raw[0] == '[' {
		var list []cliSmell
		if err := json.Unmarshal(raw, &list); err != nil {
			c.Note = "bs.json: " + err.Error()
			return
		}
		for _, s := range list {
			f, ok := projectCli(root, s)
			if !ok {
				c.Note = "bs.json: entry without Size"
				c.List = []Finding{}
				return
			}
			c.List = append(c.List, f)
		}
		c.Wellformed = true
		return
	}
	var m map[string][]cliSmell
	keys, ok := orderedKeys(raw)
	if err := json.Unmarshal(raw, &m); err != nil || !ok {
		c.Note = "bs.json: neither a list nor an object of lists"
		return
	}
	c.Grouped = true
	for _, k := range keys {
		g := ObsGroup{Key: k, Items: []Finding{}}
		for _, s := range m[k] {
			f, ok := projectCli(root, s)
			if !ok {
				c.Note = "bs.json: entry without Size"
				c.Groups = []ObsGroup{}
				return
			}
			g.Items = append(g.Items, f)
		}
		c.Groups = append(c.Groups, g)
	}
	c.Wellformed = true
}

func short(s string, n int) string {
	s = strings.TrimSpace(s)
	if len(s) > n {
		return s[:n]
	}
	return s
}

// ---------------------------------------------------------------- syntax check of the rendered text

type countingListener struct {
	*antlr.DefaultErrorListener
	n int
}

func (c *countingListener) SyntaxError(recognizer antlr.Recognizer, offendingSymbol interface{}, line, column int, msg string, e antlr.RecognitionException) {
	c.n++
}

// syntaxErrors parses text with the repository's own Java grammar and counts what it rejects
func syntaxErrors(text string) int {
	cl := &countingListener{DefaultErrorListener: antlr.NewDefaultErrorListener()}
	lexer := parser.NewJavaLexer(antlr.NewInputStream(text))
	lexer.RemoveErrorListeners()
	lexer.AddErrorListener(cl)
	p := parser.NewJavaParser(antlr.NewCommonTokenStream(lexer, 0))
	p.RemoveErrorListeners()
	p.AddErrorListener(cl)
	p.CompilationUnit()
	return cl.n
}

// ---------------------------------------------------------------- one case

func one(raw json.RawMessage) interface{} {
	var c Case
	if err := json.Unmarshal(raw, &c); err != nil {
		panic(err)
	}
	normalize(&c.Input)
	rec := Record{Case: c.Case, Input: c.Input, Observed: emptyObs()}
	scratch, err := os.MkdirTemp(os.Getenv("VERIF_SCRATCH"), "bs-")
	if err != nil {
		fmt.Fprintln(os.Stderr, "harness:", err)
		os.Exit(2)
	}
	defer os.RemoveAll(scratch)
	root := filepath.Join(scratch, "src")
	facts, texts, err := render(root, c.Case, c.Input)
	if err != nil {
		fmt.Fprintln(os.Stderr, "harness: render:", err)
		os.RemoveAll(scratch)
		os.Exit(2)
	}
	for i, t := range texts {
		facts.SyntaxErrors += syntaxErrors(t)
		if os.Getenv("BS_DUMP") != "" { // development aid: show the rendered text
			fmt.Fprintf(os.Stderr, "=== %s\n%s", facts.Files[i].Path, t)
		}
	}
	rec.Facts = facts

	// in process: AnalysisPath + IdentifyBadSmell(ignore)
	o := &rec.Observed
	p, msg := lib.Guard(func() {
		app := bs.NewBadSmellApp()
		nodes := app.AnalysisPath(root)
		for _, s := range app.IdentifyBadSmell(nodes, c.Input.Ignore) {
			o.Api = append(o.Api, Finding{Kind: s.Bs, File: rel(root, s.File), Line: lineNo(s.Line), Size: s.Size})
		}
	})
	if p {
		o.Panic = true
		o.Api = []Finding{}
		o.Note = short(msg, 300)
	}
	// the coca binary: ignore list and sort option as the user passes them
	if c.Cli || c.Input.Sort {
		o.Cli.Ran = true
		viaCLI(scratch, root, c.Input, &o.Cli)
	}
	return rec
}

func abnormal(raw json.RawMessage, timeout bool, stderr string) interface{} {
	var c Case
	json.Unmarshal(raw, &c)
	normalize(&c.Input)
	// The case process died outside lib.Guard or ran into the time limit. On a crowded machine that can be
	// the environment (fork failure, a starved process); a crash of the code under test is deterministic.
	// So the case is run once more in another fresh process, and only a second failure is recorded.
	if again, err := lib.Fresh(c); err == nil && json.Valid(again) && len(again) > 0 {
		return again
	}
	o := emptyObs()
	o.Panic = true
	o.Cli.Ran = true
	o.Cli.Failed = true
	o.Note = short(stderr, 300)
	if timeout {
		o.Note = "timeout " + o.Note
	}
	// facts of the text that was (or would have been) rendered, so that TLC can still evaluate the record
	facts, _, err := render("", c.Case, c.Input)
	if err != nil {
		facts = Facts{Files: []FFacts{}}
	}
	return Record{Case: c.Case, Input: c.Input, Facts: facts, Observed: o}
}

func main() {
	lib.Main(lib.Handler{One: one, Gen: gen, Abnormal: abnormal, CaseTimeout: 90 * time.Second})
}
