package main

// Seeded random abstract cases, wider than TLC's constants: 1-4 files, 0-26 methods,
// every measure concentrated around its threshold but ranging well beyond it, every
// statement kind as a top-level distractor, annotation lines, variable-arity and
// body-less methods, random ignore lists (with names that are not kinds) and sort on/off.

import (
	"fmt"
	"math/rand"
)

var allKinds = []string{"longMethod", "longParameterList", "largeClass", "dataClass", "lazyElement",
	"repeatedSwitches", "complexCondition", "refusedBequest", "graphConnectedCall"}

// around draws a value near threshold t (t-2 .. t+2 mostly, sometimes anywhere in lo..hi)
func around(rnd *rand.Rand, t, lo, hi int) int {
	if rnd.Intn(4) == 0 {
		return lo + rnd.Intn(hi-lo+1)
	}
	v := t - 2 + rnd.Intn(5)
	if v < lo {
		v = lo
	}
	if v > hi {
		v = hi
	}
	return v
}

var distract = []string{"while", "sync", "for", "try", "do", "assert", "expr", "local", "block"}

func genMethod(rnd *rand.Rand, iface bool) Method {
	m := Method{NK: "normal", Stmts: []Group{}}
	switch rnd.Intn(6) {
	case 0:
		m.NK = "get"
	case 1:
		m.NK = "set"
	}
	if rnd.Intn(5) == 0 {
		m.Ann = 1 + rnd.Intn(2)
	}
	switch rnd.Intn(3) {
	case 0:
		m.Params = around(rnd, 5, 0, 9)
	default:
		m.Params = rnd.Intn(4)
	}
	if m.Params > 0 && rnd.Intn(5) == 0 {
		m.VA = true
	}
	if (iface && rnd.Intn(2) == 0) || (!iface && rnd.Intn(12) == 0) {
		m.Abs = true
		return m
	}
	// statements
	if rnd.Intn(2) == 0 {
		nGroups := 1 + rnd.Intn(4)
		for g := 0; g < nGroups; g++ {
			gr := Group{H: 1, N: 1}
			switch r := rnd.Intn(10); {
			case r < 4:
				gr.T = "if"
				if rnd.Intn(2) == 0 {
					gr.N = around(rnd, 4, 1, 11)
				}
				if rnd.Intn(3) == 0 {
					gr.H = around(rnd, 4, 1, 7)
				}
				if rnd.Intn(6) == 0 {
					gr.NH = around(rnd, 4, 1, 6)
				}
			case r < 6:
				gr.T = "switch"
				if rnd.Intn(2) == 0 {
					gr.N = around(rnd, 8, 1, 11)
				}
				if rnd.Intn(6) == 0 {
					gr.H = around(rnd, 4, 1, 6)
				}
				if rnd.Intn(6) == 0 {
					gr.NH = around(rnd, 4, 1, 6)
				}
			default:
				gr.T = distract[rnd.Intn(len(distract))]
				gr.N = 1 + rnd.Intn(3)
				if (gr.T == "while" || gr.T == "sync") && rnd.Intn(3) == 0 {
					gr.H = around(rnd, 4, 1, 6)
				}
				if gr.T != "assert" && gr.T != "expr" && gr.T != "local" && rnd.Intn(3) == 0 {
					gr.NH = around(rnd, 4, 1, 6)
				}
			}
			m.Stmts = append(m.Stmts, gr)
		}
	}
	switch rnd.Intn(3) {
	case 0:
		m.Len = around(rnd, 30, 0, 45)
	case 1:
		m.Len = rnd.Intn(8)
	default:
		m.Len = 0
	}
	return m
}

func genFile(rnd *rand.Rand, k int) File {
	f := File{Name: fmt.Sprintf("%s%d", []string{"Order", "Account", "Node", "Parser", "Shape", "Ledger"}[rnd.Intn(6)], k), Kind: "class", Methods: []Method{}}
	if rnd.Intn(4) == 0 {
		f.Kind = "interface"
	}
	if f.Kind == "class" && rnd.Intn(5) == 0 {
		f.Ext = true
	}
	iface := f.Kind == "interface"
	switch rnd.Intn(6) {
	case 0: // no methods at all
	case 1: // accessors only
		f.PadGet = 1 + rnd.Intn(4)
		for i := rnd.Intn(3); i > 0; i-- {
			m := genMethod(rnd, iface)
			m.NK = []string{"get", "set"}[rnd.Intn(2)]
			f.Methods = append(f.Methods, m)
		}
	case 2: // around the large-class threshold
		f.PadNormal = around(rnd, 19, 15, 24)
		f.PadGet = rnd.Intn(4)
		for i := rnd.Intn(3); i > 0; i-- {
			f.Methods = append(f.Methods, genMethod(rnd, iface))
		}
	default:
		for i := 1 + rnd.Intn(5); i > 0; i-- {
			f.Methods = append(f.Methods, genMethod(rnd, iface))
		}
		if rnd.Intn(3) == 0 {
			f.PadGet = rnd.Intn(3)
		}
	}
	return f
}

func gen(seed int64, n int, tier string) []interface{} {
	rnd := rand.New(rand.NewSource(seed*7919 + 17))
	out := make([]interface{}, 0, n)
	for i := 0; i < n; i++ {
		in := Input{Files: []File{}, Ignore: []string{}}
		for k := 1 + rnd.Intn(4); k > 0; k-- {
			in.Files = append(in.Files, genFile(rnd, len(in.Files)+1))
		}
		switch rnd.Intn(3) {
		case 0:
			for _, kd := range allKinds {
				if rnd.Intn(3) == 0 {
					in.Ignore = append(in.Ignore, kd)
				}
			}
			if rnd.Intn(6) == 0 { // a name that is not a kind removes nothing
				in.Ignore = append(in.Ignore, "shotgunSurgery")
			}
			rnd.Shuffle(len(in.Ignore), func(a, b int) { in.Ignore[a], in.Ignore[b] = in.Ignore[b], in.Ignore[a] })
		}
		in.Sort = rnd.Intn(2) == 0
		out = append(out, Case{Case: fmt.Sprintf("rand-%d-%d", seed, i), Input: in, Cli: in.Sort || rnd.Intn(3) == 0})
	}
	return out
}
