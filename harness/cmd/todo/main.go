// Harness for the todo suite (C17): renders abstract source texts (sequences of cells) into a
// directory of files, drives the real `coca todo` code (todo.TodoApp.AnalysisPath in-process, or
// the coca binary + coca_reporter/simple-todos.json), and projects the report into abstract
// entries {file, line, assignee, words}. No expected values here: TLC (TodoRef!Diff) judges.
package main

import (
	"bytes"
	"encoding/json"
	"fmt"
	cocacmd "github.com/modernizing/coca/cmd"
	"os"
	"os/exec"
	"path/filepath"
	"strings"

	"github.com/modernizing/coca/pkg/application/todo"

	"verifharness/lib"
)

type File struct {
	Name  string   `json:"name"` // path below the scanned directory, without extension
	Ext   string   `json:"ext"`
	Cells []string `json:"cells"`
}

type Input struct {
	Files   []File   `json:"files"`
	Filters []string `json:"filters"`
	Via     string   `json:"via"` // "api" | "cli" | "cmd" (the root command served in-process, after an earlier todo request)
}

type Case struct {
	Case  string `json:"case"`
	Input Input  `json:"input"`
	// what the TLA+ Machine reported for this input (TLC cases only); passed through untouched for
	// the Machine-vs-code drift note in the evidence, never used for a verdict
	Machine json.RawMessage `json:"machine,omitempty"`
}

type Entry struct {
	File     string   `json:"file"`
	Line     int      `json:"line"`
	Assignee string   `json:"assignee"`
	Words    []string `json:"words"`
}

type Obs struct {
	Panic      bool    `json:"panic"`
	Timeout    bool    `json:"timeout"`
	Wellformed bool    `json:"wellformed"`
	Todos      []Entry `json:"todos"`
	Note       string  `json:"note,omitempty"`
}

type Record struct {
	Case     string          `json:"case"`
	Input    Input           `json:"input"`
	Observed Obs             `json:"observed"`
	Machine  json.RawMessage `json:"machine,omitempty"`
}

func normalize(c *Case) {
	if c.Input.Files == nil {
		c.Input.Files = []File{}
	}
	for i := range c.Input.Files {
		if c.Input.Files[i].Cells == nil {
			c.Input.Files[i].Cells = []string{}
		}
	}
	if c.Input.Filters == nil {
		c.Input.Filters = []string{}
	}
	if c.Input.Via == "" {
		c.Input.Via = "api"
	}
}

// render writes the tree below root; the text of a file is the concatenation of its cells.
func render(root string, in Input) error {
	for _, f := range in.Files {
		p := filepath.Join(root, filepath.FromSlash(f.Name+f.Ext))
		if err := os.MkdirAll(filepath.Dir(p), 0o755); err != nil {
			return err
		}
		if err := os.WriteFile(p, []byte(strings.Join(f.Cells, "")), 0o644); err != nil {
			return err
		}
	}
	return nil
}

// project: file relative to the scanned directory (slash form), line, assignee as reported,
// message split at white space.
func project(root string, filename string, line int, assignee string, message string) Entry {
	rel, err := filepath.Rel(root, filename)
	if err != nil {
		rel = filename
	}
	w := strings.Fields(message)
	if w == nil {
		w = []string{}
	}
	return Entry{File: filepath.ToSlash(rel), Line: line, Assignee: assignee, Words: w}
}

func short(s string, n int) string {
	if len(s) > n {
		return s[len(s)-n:]
	}
	return s
}

func viaAPI(root string, in Input, o *Obs) {
	p, msg := lib.Guard(func() {
		app := todo.NewTodoApp()
		for _, t := range app.AnalysisPath(root, in.Filters) {
			o.Todos = append(o.Todos, project(root, t.Filename, t.Line, t.Assignee, t.Message))
		}
	})
	o.Wellformed = true
	if p {
		o.Panic = true
		o.Todos = []Entry{}
		o.Note = short(msg, 300)
	}
}

// the entries of coca_reporter/simple-todos.json as the command writes them
type cliTodo struct {
	Assignee *string `json:"Assignee"`
	Filename *string `json:"Filename"`
	Line     *int    `json:"Line"`
	Message  *string `json:"Message"`
}

func viaCLI(scratch, root string, in Input, o *Obs) {
	bin := os.Getenv("VERIF_COCA")
	if bin == "" {
		fmt.Fprintln(os.Stderr, "harness: VERIF_COCA not set")
		os.Exit(2)
	}
	cmd := exec.Command(bin, "todo", "-p", root, "-e", strings.Join(in.Filters, ","))
	cmd.Dir = scratch
	cmd.Env = append(os.Environ(), "TMPDIR="+scratch, "HOME="+scratch)
	out, err := cmd.CombinedOutput()
	if err != nil {
		// the command died (a Go panic exits with status 2 and a goroutine dump)
		o.Panic = true
		o.Note = short(string(out), 300)
		return
	}
	readReport(scratch, root, o)
}

func readReport(scratch, root string, o *Obs) {
	raw, err := os.ReadFile(filepath.Join(scratch, "coca_reporter", "simple-todos.json"))
	if err != nil {
		o.Note = "no simple-todos.json: " + err.Error()
		return
	}
	var list []cliTodo
	if err := json.Unmarshal(raw, &list); err != nil {
		o.Note = "simple-todos.json: " + err.Error()
		return
	}
	for _, t := range list {
		if t.Assignee == nil || t.Filename == nil || t.Line == nil || t.Message == nil {
			o.Note = "simple-todos.json: entry without Assignee/Filename/Line/Message"
			o.Todos = []Entry{}
			return
		}
		o.Todos = append(o.Todos, project(root, *t.Filename, *t.Line, *t.Assignee, *t.Message))
	}
	o.Wellformed = true
}

// viaCmd: the root command of package cmd serves two todo requests in ONE process, the way the repository's own cmd
// tests and any embedding program use it: first a request over the same tree that selects EVERY extension present in
// it, then the request under observation with its own -e list (always given explicitly). The report of the second
// request is read from coca_reporter/simple-todos.json. The Reference has no variable an earlier request could leave
// anything in: files with other extensions are not scanned, whatever was asked before.
func viaCmd(scratch, root string, in Input, o *Obs) {
	if err := os.Chdir(scratch); err != nil {
		panic("harness: chdir: " + err.Error())
	}
	all := []string{}
	seen := map[string]bool{}
	for _, f := range in.Files {
		if !seen[f.Ext] && f.Ext != "" && !strings.Contains(f.Ext, ",") {
			seen[f.Ext] = true
			all = append(all, f.Ext)
		}
	}
	for _, e := range in.Filters {
		if !seen[e] && e != "" && !strings.Contains(e, ",") {
			seen[e] = true
			all = append(all, e)
		}
	}
	serve := func(exts []string) (bool, string) {
		return lib.Guard(func() {
			var buf bytes.Buffer
			root_ := cocacmd.NewRootCmd(&buf)
			root_.SetArgs([]string{"todo", "-p", root, "-e", strings.Join(exts, ",")})
			if err := root_.Execute(); err != nil {
				panic("command failed: " + err.Error())
			}
		})
	}
	serve(all) // the earlier request; whatever it does is not the observation
	os.Remove(filepath.Join(scratch, "coca_reporter", "simple-todos.json"))
	if p, msg := serve(in.Filters); p {
		o.Panic = true
		o.Note = short(msg, 300)
		return
	}
	readReport(scratch, root, o)
}

func one(raw json.RawMessage) interface{} {
	var c Case
	if err := json.Unmarshal(raw, &c); err != nil {
		panic(err)
	}
	normalize(&c)
	rec := Record{Case: c.Case, Input: c.Input, Observed: Obs{Todos: []Entry{}}, Machine: c.Machine}
	scratch, err := os.MkdirTemp(os.Getenv("VERIF_SCRATCH"), "todo-")
	if err != nil {
		fmt.Fprintln(os.Stderr, "harness:", err)
		os.Exit(2)
	}
	defer os.RemoveAll(scratch)
	root := filepath.Join(scratch, "src")
	if err := os.MkdirAll(root, 0o755); err == nil {
		err = render(root, c.Input)
	}
	if err != nil {
		fmt.Fprintln(os.Stderr, "harness: render:", err)
		os.RemoveAll(scratch)
		os.Exit(2)
	}
	if c.Input.Via == "cmd" {
		viaCmd(scratch, root, c.Input, &rec.Observed)
	} else if c.Input.Via == "cli" {
		viaCLI(scratch, root, c.Input, &rec.Observed)
	} else {
		viaAPI(root, c.Input, &rec.Observed)
	}
	return rec
}

func abnormal(raw json.RawMessage, timeout bool, stderr string) interface{} {
	var c Case
	json.Unmarshal(raw, &c)
	normalize(&c)
	return Record{Case: c.Case, Input: c.Input, Machine: c.Machine,
		Observed: Obs{Panic: !timeout, Timeout: timeout, Todos: []Entry{}, Note: short(stderr, 300)}}
}

func main() {
	lib.Main(lib.Handler{One: one, Gen: gen, Abnormal: abnormal})
}
