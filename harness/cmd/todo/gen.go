package main

// Direction (B): seeded random abstract inputs, wider than TLC's constants: several files and
// extensions, longer texts, code tokens, literals that contain comment markers and the word,
// comments of the three kinds with every text shape the quantifier names, CRLF line ends,
// non-ASCII words. Only builds cells; nothing here knows what the report should be.

import (
	"fmt"
	"math/rand"
	"strings"
)

func isWordByte(b byte) bool {
	return b == '_' || (b >= '0' && b <= '9') || (b >= 'a' && b <= 'z') || (b >= 'A' && b <= 'Z') || b >= 0x80
}

// builder keeps the cell convention: two cells that end / begin with an identifier character are
// never adjacent (a blank is put between them).
type builder struct {
	cells []string
}

func (b *builder) add(cs ...string) {
	for _, c := range cs {
		if c == "" {
			continue
		}
		if n := len(b.cells); n > 0 {
			l := b.cells[n-1]
			if isWordByte(l[len(l)-1]) && isWordByte(c[0]) {
				b.cells = append(b.cells, " ")
			}
		}
		b.cells = append(b.cells, c)
	}
}

type g struct {
	r  *rand.Rand
	nl string
}

func (x *g) pick(s ...string) string { return s[x.r.Intn(len(s))] }
func (x *g) p(n int) bool            { return x.r.Intn(n) == 0 }

func (x *g) marker() string {
	w := x.pick("TODO", "todo", "Todo", "FIXME", "fixme", "FixMe", "ToDo", "tOdO", "fIXME", "TODO", "TODO")
	return w
}

var prose = []string{"add", "more", "content", "fix", "this", "later", "x", "refactor", "see", "issue", "42", "null", "check",
	"remove", "when", "v2", "is", "out", "a", "I", "handle", "error", "naïve", "待办", "é", "not_done", "mytodo", "autofixme"}

var codeToks = []string{"int", "x", "=", "1", ";", "{", "}", "foo", ".", "bar", "return", "@Override", "->", "+", "-", "%", "<", ">", "!",
	",", "[", "]", "==", "&&", "public", "class", "def", "func", "let", "0x1F", "3.14", "null", "true", "?", "|", "^", "~", "todoList", "TODO_MAX", "fixmeLater"}

func (x *g) word() string { return prose[x.r.Intn(len(prose))] }

// message text of a comment (cells); inside a comment quotes and markers are plain text
func (x *g) message(b *builder, kind string, max int) {
	n := x.r.Intn(max + 1)
	for i := 0; i < n; i++ {
		switch x.r.Intn(22) {
		case 0:
			b.add(":")
		case 1:
			b.add("(", x.word(), ")")
		case 2:
			b.add(x.pick("\"", "'", "`"))
		case 3:
			b.add("#")
		case 4:
			b.add("/")
		case 5:
			if kind != "block" {
				b.add("*")
			} else {
				b.add("*", " ")
			}
		case 6:
			b.add(x.pick(",", ".", "!", "?", "-", "=", ";", "@", "->", "..."))
		case 7:
			b.add(x.marker()) // mentions the word later in its text
		case 8:
			if kind == "block" { // continuation line, with or without `*` decoration
				b.add(x.nl)
				if x.p(3) {
					b.add(x.pick(" ", "\t", " "))
				}
				if !x.p(3) {
					b.add(" ", "*")
				}
				b.add(" ")
			} else {
				b.add("\t")
			}
		case 9:
			if kind != "block" {
				b.add("/", "/")
			} else {
				b.add("/", "*")
			}
		case 10:
			if kind != "block" {
				b.add("*", "/")
			} else {
				b.add(" ")
			}
		default:
			b.add(" ", x.word())
		}
		if x.p(2) {
			b.add(" ")
		}
	}
}

// text of a comment after its marker
func (x *g) commentText(b *builder, kind string, quotaFree bool) {
	shape := x.r.Intn(20)
	switch {
	case shape == 0: // empty
	case shape == 1: // one cell
		b.add(x.pick(" ", "x", ":", "*", "(", ")", "!", "\t", x.marker(), "#", "/", "\"", "'"))
		if kind == "block" && b.cells[len(b.cells)-1] == "*" {
			b.add(" ") // keep "*" apart from the closing pair
		}
	case shape <= 4: // prose, may mention the word later
		b.add(x.pick("", " ", " ", "\t"))
		b.add(x.word())
		x.message(b, kind, 5)
	case shape <= 6: // almost a marker
		b.add(x.pick("", " ", " "))
		b.add(x.pick("TOD", "TO", "FIX", "@TODO", "-todo", ".FIXME", "XTODO", "mytodo", "=TODO", "ToD0", "T0DO", "F1XME"))
		if x.p(2) {
			b.add(" ", x.marker())
		}
		x.message(b, kind, 3)
	default: // marker forms
		lead := x.pick("", "", " ", " ", " ", "  ", "\t", " \t")
		for _, ch := range lead {
			b.add(string(ch))
		}
		if quotaFree && x.p(2) {
			// don't-care shapes, a minority: decoration / repeated marker / longer identifier
			switch x.r.Intn(3) {
			case 0:
				if kind == "block" {
					if x.p(2) {
						b.add("*", " ")
					} else {
						b.add(x.nl, " ", "*", " ")
					}
				} else if kind == "line" {
					b.add("/", " ")
				} else {
					b.add("#", " ")
				}
				b.add(x.marker())
			case 1:
				b.add(x.marker() + x.pick("s", "S", "_list", "1", "s2"))
			default:
				if kind == "block" {
					b.add(x.nl, "\t")
				}
				b.add(x.marker())
			}
		} else {
			b.add(x.marker())
		}
		// colon
		switch x.r.Intn(10) {
		case 0, 1, 2, 3:
			b.add(":")
		case 4:
			if quotaFree {
				b.add(" ", ":")
			}
		case 5:
			if quotaFree {
				b.add(":", ":")
			}
		}
		// assignee
		last := b.cells[len(b.cells)-1]
		switch x.r.Intn(12) {
		case 0, 1, 2:
			if isWordByte(last[len(last)-1]) || quotaFree {
				b.add("(", x.pick("phodal", "bob", "a", "J_Doe", "x1", "TODO", "me"), ")")
			}
		case 3:
			b.add("(", ")")
		case 4:
			b.add("(", x.word())
		case 5:
			if quotaFree {
				if x.p(2) {
					b.add(" ")
				}
				b.add("(")
				if x.p(3) {
					b.add(" ")
				}
				b.add("a")
				switch x.r.Intn(4) {
				case 0:
					b.add(" ", "b")
				case 1:
					b.add(".b")
				case 2:
					b.add(" ")
				default:
					b.add("@c.d")
				}
				b.add(")")
			}
		case 6:
			if quotaFree {
				b.add(" ", "(", x.pick("phodal", "bob"), ")")
			}
		}
		switch x.r.Intn(6) {
		case 0:
			b.add(":")
		case 1:
			b.add(" ", ":")
		}
		if !x.p(5) {
			b.add(" ")
		}
		x.message(b, kind, 6)
	}
}

// string literal on one line; may contain comment markers and the word
func (x *g) stringLit(b *builder) {
	b.add("\"")
	n := x.r.Intn(5)
	for i := 0; i < n; i++ {
		switch x.r.Intn(12) {
		case 0:
			b.add("/", "/")
		case 1:
			b.add("/", "*")
		case 2:
			b.add("*", "/")
		case 3:
			b.add("#")
		case 4:
			b.add("\\", "\"")
		case 5:
			b.add("\\", "\\")
		case 6:
			b.add(x.pick("'", "`", ":", "(", ")"))
		case 7, 8:
			b.add(" ", x.marker(), x.pick(":", "", " "))
		default:
			b.add(" ", x.word())
		}
	}
	b.add("\"")
}

func (x *g) charLit(b *builder) {
	b.add("'")
	switch x.r.Intn(4) {
	case 0:
		b.add("\\", x.pick("'", "\\", "\"", "n", "t"))
	default:
		b.add(x.pick("#", "/", "*", "\"", "x", ":", "(", "`", " ", "T"))
	}
	b.add("'")
}

func (x *g) templateLit(b *builder) int {
	lines := 0
	b.add("`")
	n := x.r.Intn(5)
	for i := 0; i < n; i++ {
		switch x.r.Intn(8) {
		case 0:
			b.add("/", "/", " ", x.marker(), " ", x.word())
		case 1:
			b.add("#", " ", x.marker())
		case 2:
			b.add(x.nl)
			lines++
		case 3:
			b.add("/", "*", " ", x.marker(), " ", "*", "/")
		case 4:
			b.add(x.pick("\"", "'"))
		default:
			b.add(" ", x.word())
		}
	}
	b.add("`")
	return lines
}

func (x *g) code(b *builder) {
	n := 1 + x.r.Intn(4)
	for i := 0; i < n; i++ {
		switch x.r.Intn(14) {
		case 0:
			b.add("(")
		case 1:
			b.add(")")
		case 2:
			b.add(":")
		case 3:
			b.add(" ", "/", " ") // division
		case 4:
			b.add(" ", "*", " ") // multiplication
		default:
			b.add(codeToks[x.r.Intn(len(codeToks))])
		}
		if x.p(2) {
			b.add(" ")
		}
	}
}

func (x *g) file(quotaFree, illFormed bool) []string {
	b := &builder{}
	x.nl = "\n"
	if x.p(6) {
		x.nl = "\r\n"
	}
	nlines := x.r.Intn(9)
	if x.p(5) {
		nlines = x.r.Intn(3)
	}
	for ln := 0; ln < nlines; ln++ {
		if x.p(3) {
			b.add(x.pick(" ", "\t", " "))
		}
		nseg := x.r.Intn(4)
		closed := false
		for s := 0; s < nseg && !closed; s++ {
			switch x.r.Intn(16) {
			case 0, 1, 2:
				x.code(b)
			case 3, 4:
				x.stringLit(b)
			case 5:
				x.charLit(b)
			case 6:
				if x.p(2) {
					x.templateLit(b)
				} else {
					x.code(b)
				}
			case 7, 8, 9:
				b.add("/", "/")
				x.commentText(b, "line", quotaFree)
				closed = true
			case 10, 11, 12:
				b.add("#")
				x.commentText(b, "hash", quotaFree)
				closed = true
			default:
				b.add("/", "*")
				x.commentText(b, "block", quotaFree)
				if b.cells[len(b.cells)-1] == "/" && len(b.cells) >= 3 && b.cells[len(b.cells)-2] != "*" {
					b.add(" ")
				}
				b.add("*", "/")
				if x.p(2) {
					b.add(" ")
				}
			}
		}
		if ln < nlines-1 || !x.p(3) {
			b.add(x.nl)
		}
	}
	if quotaFree && x.p(4) { // unterminated block comment at end of file: must not crash
		b.add("/", "*")
		x.commentText(b, "block", false)
	}
	if illFormed { // outside the quantifier: unterminated string
		b.add(x.nl, "x", " ", "=", " ", "\"", "oops", x.nl, "/", "/", " ", "TODO", " ", "y", x.nl)
	}
	return b.cells
}

var allExts = []string{".java", ".py", ".go", ".js", ".ts", ".kt", ".groovy", ".gradle", ".txt", ".md", ".javax", ".jav", ".phodal", ".java", ".py", ".d.ts", ".ts", ".R", ".r", ".S"}
var names = []string{"a", "B", "Todo", "sub/c", "sub/deep/d", "x.java", "my.test", "todo", "FIXME", "p.py", "src/main/E"}

func gen(seed int64, n int, tier string) []interface{} {
	r := rand.New(rand.NewSource(seed*7919 + 17))
	x := &g{r: r, nl: "\n"}
	var out []interface{}
	for k := 0; k < n; k++ {
		quotaFree := k%5 == 4   // a minority of cases contains don't-care shapes
		illFormed := k%40 == 39 // and a few lie outside the quantifier
		nf := 1 + r.Intn(3)
		in := Input{Via: "api"}
		if k%8 == 3 {
			in.Via = "cli"
		} else if k%8 == 6 { // the root command in-process, after an earlier request over every extension of the tree
			in.Via = "cmd"
		}
		seen := map[string]bool{}
		for len(in.Files) < nf {
			f := File{Name: names[r.Intn(len(names))], Ext: allExts[r.Intn(len(allExts))]}
			if seen[f.Name+f.Ext] || seen[strings.ToLower(f.Name+f.Ext)] {
				continue
			}
			seen[f.Name+f.Ext] = true
			seen[strings.ToLower(f.Name+f.Ext)] = true
			f.Cells = x.file(quotaFree, illFormed && len(in.Files) == 0)
			if f.Cells == nil {
				f.Cells = []string{}
			}
			if k%25 == 11 && len(in.Files) == 0 {
				// a very long first line (a generated constant, a minified script): one string literal of 70 000 characters
				f.Cells = append([]string{"\"", strings.Repeat("x", 70000), "\"", x.nl}, f.Cells...)
			}
			in.Files = append(in.Files, f)
		}
		switch r.Intn(4) {
		case 0: // the command's default list
			in.Filters = []string{".java", ".py", ".go", ".ts", ".js", ".kt", ".groovy", ".gradle"}
		case 1: // exactly the extension of one of the files
			in.Filters = []string{in.Files[r.Intn(len(in.Files))].Ext}
		default:
			m := 1 + r.Intn(4)
			used := map[string]bool{}
			for len(in.Filters) < m {
				e := allExts[r.Intn(len(allExts))]
				if !used[e] {
					used[e] = true
					in.Filters = append(in.Filters, e)
				}
			}
		}
		out = append(out, Case{Case: fmt.Sprintf("rand-%d-%d", seed, k), Input: in})
	}
	return out
}
