module verifharness

go 1.18

require github.com/modernizing/coca v0.0.0

require github.com/yourbasic/radix v0.0.0-20180308122924-cbe1cc82e907 // indirect

replace github.com/modernizing/coca => /repo
