module verifharness

go 1.18

require (
	github.com/antlr/antlr4/runtime/Go/antlr/v4 v4.0.0-20221202181307-76fa05c21b12
	github.com/awalterschulze/gographviz v0.0.0-20190522210029-fa59802746ab
	github.com/modernizing/coca v0.0.0
)

require (
	github.com/boyter/scc v0.0.0-20200907020550-91af61dfda0d // indirect
	github.com/dbaggerman/cuba v0.3.2 // indirect
	github.com/huleTW/bad-smell-analysis v0.1.0 // indirect
	github.com/iancoleman/strcase v0.0.0-20191112232945-16388991a334 // indirect
	github.com/json-iterator/go v1.1.9 // indirect
	github.com/mattn/go-runewidth v0.0.7 // indirect
	github.com/minio/blake2b-simd v0.0.0-20160723061019-3f5f724cb5b1 // indirect
	github.com/modern-go/concurrent v0.0.0-20180306012644-bacd9c7ef1dd // indirect
	github.com/modern-go/reflect2 v0.0.0-20180701023420-4b7aa43c6742 // indirect
	github.com/olekukonko/tablewriter v0.0.4 // indirect
	github.com/sabhiram/go-gitignore v0.0.0-20180611051255-d3107576ba94 // indirect
	github.com/spf13/cobra v0.0.5 // indirect
	github.com/spf13/pflag v1.0.3 // indirect
	github.com/yourbasic/radix v0.0.0-20180308122924-cbe1cc82e907 // indirect
	golang.org/x/exp v0.0.0-20220722155223-a9213eeb770e // indirect
	golang.org/x/text v0.3.0 // indirect
	gonum.org/v1/gonum v0.6.2 // indirect
	gopkg.in/yaml.v2 v2.2.4 // indirect
)

replace github.com/modernizing/coca => /repo
