// Package lib: shared plumbing of the conformance harnesses.
//
// A harness binary renders abstract cases (from TLC or from its own seeded generator)
// into concrete inputs, drives the real coca code, and projects what came back into an
// abstract observation. It contains no expected values: judgement is done by TLC on
// the ndjson trace it writes.
//
//	<bin> gen -seed S -n N [-tier T]     abstract cases, one JSON per line, on stdout
//	<bin> run [-j N] [-inproc]           cases on stdin -> trace records on stdout
//	<bin> one                            one case on stdin -> one record on stdout
//
// `run` executes every case in a fresh OS process (`one`) unless -inproc is given, so
// process-global state of the code under test cannot leak between cases.
package lib

import (
	"bufio"
	"bytes"
	"context"
	"encoding/json"
	"flag"
	"fmt"
	"io"
	"os"
	"os/exec"
	"path/filepath"
	"runtime"
	"strings"
	"sync"
	"time"
)

type Handler struct {
	// One executes one case and returns the trace record (any JSON-marshalable value).
	One func(c json.RawMessage) interface{}
	// Gen returns n seeded random abstract cases.
	Gen func(seed int64, n int, tier string) []interface{}
	// Abnormal builds the record for a case whose process timed out or died.
	Abnormal func(c json.RawMessage, timeout bool, stderr string) interface{}
	// CaseTimeout per isolated case (default 30s).
	CaseTimeout time.Duration
}

func Main(h Handler) {
	if len(os.Args) < 2 {
		fmt.Fprintln(os.Stderr, "usage: gen|run|one")
		os.Exit(2)
	}
	switch os.Args[1] {
	case "gen":
		fs := flag.NewFlagSet("gen", flag.ExitOnError)
		seed := fs.Int64("seed", 1, "")
		n := fs.Int("n", 100, "")
		tier := fs.String("tier", "quick", "")
		fs.Parse(os.Args[2:])
		w := bufio.NewWriter(os.Stdout)
		enc := json.NewEncoder(w)
		enc.SetEscapeHTML(false)
		for _, c := range h.Gen(*seed, *n, *tier) {
			if err := enc.Encode(c); err != nil {
				fmt.Fprintln(os.Stderr, err)
				os.Exit(2)
			}
		}
		w.Flush()
	case "one":
		in, _ := io.ReadAll(os.Stdin)
		devnull()
		rec := h.One(json.RawMessage(bytes.TrimSpace(in)))
		emit(realStdout, rec)
	case "run":
		fs := flag.NewFlagSet("run", flag.ExitOnError)
		j := fs.Int("j", runtime.NumCPU(), "")
		inproc := fs.Bool("inproc", false, "")
		fs.Parse(os.Args[2:])
		runAll(h, *j, *inproc)
	default:
		fmt.Fprintln(os.Stderr, "unknown mode", os.Args[1])
		os.Exit(2)
	}
}

var realStdout = os.Stdout

// the code under test prints progress to stdout; keep our stdout clean
func devnull() {
	realStdout = os.Stdout
	f, err := os.OpenFile(os.DevNull, os.O_WRONLY, 0)
	if err == nil {
		os.Stdout = f
	}
}

func emit(w io.Writer, rec interface{}) {
	var buf bytes.Buffer
	enc := json.NewEncoder(&buf)
	enc.SetEscapeHTML(false)
	if err := enc.Encode(rec); err != nil {
		fmt.Fprintln(os.Stderr, "marshal:", err)
		os.Exit(2)
	}
	w.Write(buf.Bytes())
}

func runAll(h Handler, j int, inproc bool) {
	sc := bufio.NewScanner(os.Stdin)
	sc.Buffer(make([]byte, 1<<20), 1<<28)
	var cases [][]byte
	for sc.Scan() {
		b := bytes.TrimSpace(sc.Bytes())
		if len(b) == 0 {
			continue
		}
		cases = append(cases, append([]byte(nil), b...))
	}
	out := make([][]byte, len(cases))
	if inproc {
		devnull()
		for i, c := range cases {
			var buf bytes.Buffer
			emit(&buf, h.One(json.RawMessage(c)))
			out[i] = buf.Bytes()
		}
	} else {
		to := h.CaseTimeout
		if to == 0 {
			to = 30 * time.Second
		}
		self, _ := os.Executable()
		var wg sync.WaitGroup
		idx := make(chan int)
		for w := 0; w < j; w++ {
			wg.Add(1)
			go func() {
				defer wg.Done()
				for i := range idx {
					out[i] = isolated(h, self, cases[i], to)
				}
			}()
		}
		for i := range cases {
			idx <- i
		}
		close(idx)
		wg.Wait()
	}
	w := bufio.NewWriterSize(realStdout, 1<<20)
	for _, b := range out {
		w.Write(b)
	}
	w.Flush()
}

// retryMu serialises the re-runs of cases whose process died or timed out: a machine under heavy load makes a
// healthy case miss its deadline, and such a case must not be reported as a crash or a hang of the code under
// test. A case is abnormal only if it fails three times, the last two alone and with four times the deadline.
// Once five cases have stayed abnormal after their re-runs the point is made and later ones are not re-run.
var retryMu sync.Mutex
var confirmedAbnormal int

func isolatedOnce(self string, c []byte, to time.Duration) (out []byte, timedOut bool, stderr string, err error) {
	ctx, cancel := context.WithTimeout(context.Background(), to)
	defer cancel()
	cmd := exec.CommandContext(ctx, self, "one")
	cmd.Stdin = bytes.NewReader(c)
	var so, se bytes.Buffer
	cmd.Stdout = &so
	cmd.Stderr = &se
	cmd.Env = append(os.Environ(), "GOMAXPROCS=2")
	err = cmd.Run()
	timedOut = ctx.Err() == context.DeadlineExceeded
	if err == nil && !timedOut && (!json.Valid(bytes.TrimSpace(so.Bytes())) || len(bytes.TrimSpace(so.Bytes())) == 0) {
		err = fmt.Errorf("no record on stdout")
	}
	return so.Bytes(), timedOut, se.String(), err
}

func isolated(h Handler, self string, c []byte, to time.Duration) []byte {
	out, timedOut, stderr, err := isolatedOnce(self, c, to)
	if err == nil && !timedOut {
		return out
	}
	retryMu.Lock()
	for try := 0; try < 2 && (err != nil || timedOut) && confirmedAbnormal < 5; try++ {
		fmt.Fprintf(os.Stderr, "case process failed (timeout=%v, %v); retry %d alone with deadline %v\n", timedOut, err, try+1, 4*to)
		out, timedOut, stderr, err = isolatedOnce(self, c, 4*to)
	}
	if err != nil || timedOut {
		confirmedAbnormal++
	}
	retryMu.Unlock()
	if err == nil && !timedOut {
		return out
	}
	var se bytes.Buffer
	se.WriteString(stderr)
	if timedOut {
		se.WriteString("\n[deadline exceeded three times, last deadline " + (4 * to).String() + "]")
	}
	if strings.Contains(se.String(), "panic: harness:") {
		// the harness itself gave up on this case (its own renderer or its use of git failed): that says nothing
		// about the code under test, so it must never become an observation
		fmt.Fprintf(os.Stderr, "harness fault (no verdict): %s\n", tail(se.String(), 2000))
		os.Exit(2)
	}
	if h.Abnormal == nil {
		fmt.Fprintf(os.Stderr, "case process failed (timeout=%v): %v\n%s\n", timedOut, err, tail(se.String(), 2000))
		os.Exit(2)
	}
	var buf bytes.Buffer
	emit(&buf, h.Abnormal(json.RawMessage(c), timedOut, tail(se.String(), 2000)))
	return buf.Bytes()
}

func tail(s string, n int) string {
	if len(s) > n {
		return s[len(s)-n:]
	}
	return s
}

// Guard runs f and reports whether it panicked (the panic value as text).
func Guard(f func()) (panicked bool, msg string) {
	defer func() {
		if r := recover(); r != nil {
			panicked = true
			msg = fmt.Sprint(r)
		}
	}()
	f()
	return
}

// GuardAt is Guard plus the innermost frame of the code under test (module github.com/modernizing/coca, generated
// parser excluded) on the panicking stack: "file.go:123 funcName". It only labels an observation; no verdict uses it.
func GuardAt(f func()) (panicked bool, msg string, site string) {
	defer func() {
		if r := recover(); r != nil {
			panicked = true
			msg = fmt.Sprint(r)
			pcs := make([]uintptr, 64)
			n := runtime.Callers(2, pcs)
			frames := runtime.CallersFrames(pcs[:n])
			for {
				fr, more := frames.Next()
				if strings.Contains(fr.Function, "github.com/modernizing/coca/") && !strings.Contains(fr.File, "/languages/") {
					fn := fr.Function[strings.LastIndex(fr.Function, "/")+1:]
					site = fmt.Sprintf("%s:%d %s", filepath.Base(fr.File), fr.Line, fn)
					break
				}
				if !more {
					break
				}
			}
		}
	}()
	f()
	return
}

// Fresh runs one (sub-)case in a fresh OS process of this same binary and returns the record it printed.
// Harnesses use it for histories that compare what several PROCESSES compute (e.g. two processing orders):
// inside one process a leaked table saturates after the first run and every later run is equally wrong.
func Fresh(subcase interface{}) (json.RawMessage, error) {
	b, err := json.Marshal(subcase)
	if err != nil {
		return nil, err
	}
	self, _ := os.Executable()
	ctx, cancel := context.WithTimeout(context.Background(), 60*time.Second)
	defer cancel()
	cmd := exec.CommandContext(ctx, self, "one")
	cmd.Stdin = bytes.NewReader(b)
	var so, se bytes.Buffer
	cmd.Stdout = &so
	cmd.Stderr = &se
	if err := cmd.Run(); err != nil {
		// once more, with a longer deadline: a loaded machine must not look like a crash of the code under test
		ctx2, cancel2 := context.WithTimeout(context.Background(), 240*time.Second)
		defer cancel2()
		cmd = exec.CommandContext(ctx2, self, "one")
		cmd.Stdin = bytes.NewReader(b)
		so.Reset()
		se.Reset()
		cmd.Stdout = &so
		cmd.Stderr = &se
		if err := cmd.Run(); err != nil {
			return nil, fmt.Errorf("fresh process: %v: %s", err, tail(se.String(), 500))
		}
	}
	return json.RawMessage(bytes.TrimSpace(so.Bytes())), nil
}
