package lib

import (
	"regexp"
	"strings"
)

// Strict reader for the DOT subset coca's call / rcall / api graphs are written in:
// a header line, optional `rankdir = LR;`, blank lines, edge statements
// `"a" -> "b";` with \" escapes, and the closing brace. Anything else => not well-formed.

var dotEdge = regexp.MustCompile(`^"((?:[^"\\]|\\.)*)" -> "((?:[^"\\]|\\.)*)";$`)

type DotGraph struct {
	Wellformed bool
	Edges      [][2]string
}

func unq(s string) string {
	var b strings.Builder
	for i := 0; i < len(s); i++ {
		if s[i] == '\\' && i+1 < len(s) {
			i++
		}
		b.WriteByte(s[i])
	}
	return b.String()
}

func ParseSimpleDot(s string) DotGraph {
	g := DotGraph{Wellformed: true, Edges: [][2]string{}}
	lines := strings.Split(s, "\n")
	// header
	i := 0
	if len(lines) == 0 || strings.TrimRight(lines[0], " ") != "digraph G {" {
		g.Wellformed = false
		return g
	}
	i = 1
	closed := false
	for ; i < len(lines); i++ {
		ln := lines[i]
		if closed {
			if strings.TrimSpace(ln) != "" {
				g.Wellformed = false
			}
			continue
		}
		switch {
		case ln == "":
		case ln == "rankdir = LR;":
		case ln == "}":
			closed = true
		default:
			m := dotEdge.FindStringSubmatch(ln)
			if m == nil {
				g.Wellformed = false
				continue
			}
			g.Edges = append(g.Edges, [2]string{unq(m[1]), unq(m[2])})
		}
	}
	if !closed {
		g.Wellformed = false
	}
	return g
}
