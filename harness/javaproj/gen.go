// Package javaproj: seeded random conventional Java projects (abstract form) shared by the harnesses.
package javaproj

import (
	"fmt"
	"math/rand"

	"verifharness/javagen"
)

// Seeded random conventional Java projects (direction B): wider than the TLC constants —
// several files and packages, all path kinds, overloads, members sharing a line, generic /
// array / qualified types, annotations with arguments, nested statements, several call
// sites per line, names reused across methods and files with different types.

type gctx struct {
	r        *rand.Rand
	classes  []javagen.Import // project classes (pkg, name) of selected files
	external []javagen.Import
	cur      *javagen.File // the file whose statements are being generated
}

var pkgs = []string{"com.acme.blog", "com.acme.blog.repo", "org.x"}
var extTypes = []javagen.Import{{Pkg: "ext.lib", Name: "Helper"}, {Pkg: "ext.lib", Name: "Repository"}, {Pkg: "ext.data", Name: "BlogRepository"}, {Pkg: "java.util", Name: "List"}, {Pkg: "java.util", Name: "Optional"}, {Pkg: "ext.lib", Name: "Base"},
	// the same simple name from two packages: which one a file means is decided by that file's own import
	{Pkg: "billing", Name: "Formatter"}, {Pkg: "legacy", Name: "Formatter"}}
var varNames = []string{"repo", "svc", "x", "item", "helper", "id", "foo", "e", "list"}
var callees = []string{"save", "find", "get", "run", "apply", "x", "of", "veryLongMethodNameForColumnArithmetic", "a"}

func (g *gctx) pick(xs []string) string { return xs[g.r.Intn(len(xs))] }

func (g *gctx) varType(f *javagen.File) string {
	r := g.r
	switch r.Intn(10) {
	case 0:
		return "String"
	case 1:
		return "int"
	case 2:
		return "List<" + g.classes[r.Intn(len(g.classes))].Name + ">"
	case 3:
		return g.classes[r.Intn(len(g.classes))].Name + "[]"
	case 4:
		return "java.util.Date"
	case 5, 6:
		e := g.external[r.Intn(len(g.external))]
		g.addImport(f, e)
		return e.Name
	default:
		c := g.classes[r.Intn(len(g.classes))]
		if c.Pkg != f.Pkg {
			g.addImport(f, c)
		}
		return c.Name
	}
}

func (g *gctx) addImport(f *javagen.File, im javagen.Import) {
	for _, x := range f.Imports {
		if x == im {
			return
		}
		if x.Name == im.Name { // a simple name is imported from one package only
			return
		}
	}
	f.Imports = append(f.Imports, im)
}

type vis struct {
	names []string
}

func (g *gctx) expr(depth int, v *vis, allowLambda bool) javagen.Expr {
	r := g.r
	if depth <= 0 {
		switch r.Intn(3) {
		case 0:
			return javagen.Expr{K: "lit", Text: []string{"1", "\"s\"", "\"über () .call()\"", "null", "true"}[r.Intn(5)]}
		case 1:
			if len(v.names) > 0 {
				return javagen.Expr{K: "var", Text: v.names[r.Intn(len(v.names))]}
			}
		}
		return javagen.Expr{K: "lit", Text: "0"}
	}
	nargs := r.Intn(3)
	args := []javagen.Expr{}
	for i := 0; i < nargs; i++ {
		if allowLambda && r.Intn(8) == 0 {
			body := g.expr(depth-1, v, false)
			for body.K != "call" && body.K != "new" {
				body = g.call(depth-1, v)
			}
			lam := javagen.Expr{K: "lambda", Text: "it", Body: &body}
			if g.cur != nil && r.Intn(2) == 0 {
				// an explicitly typed parameter of a plain project type, used as the receiver of the body's call
				c := g.classes[r.Intn(len(g.classes))]
				if c.Pkg != g.cur.Pkg {
					g.addImport(g.cur, c)
				}
				lam.Type = c.Name
				onIt := javagen.Expr{K: "call", RecvKind: "var", Recv: "it", Callee: g.pick(callees), Args: []javagen.Expr{}}
				lam.Body = &onIt
			}
			args = append(args, lam)
		} else {
			args = append(args, g.expr(depth-1-r.Intn(2), v, allowLambda))
		}
	}
	if r.Intn(6) == 0 {
		return javagen.Expr{K: "new", Type: g.classes[r.Intn(len(g.classes))].Name, Args: args}
	}
	c := g.call(depth, v)
	c.Args = args
	return c
}

func (g *gctx) call(depth int, v *vis) javagen.Expr {
	r := g.r
	e := javagen.Expr{K: "call", Callee: g.pick(callees), Args: []javagen.Expr{}}
	switch r.Intn(10) {
	case 0, 1:
		e.RecvKind = "none"
	case 2:
		e.RecvKind = "this"
		if r.Intn(2) == 0 && len(v.names) > 0 {
			e.Recv = v.names[0]
		}
	case 3:
		e.RecvKind = "static"
		e.Recv = []string{"Helper", "Collections", "Math"}[r.Intn(3)]
	case 4:
		if depth > 0 {
			// chained on a call or a creation whose text contains blanks (argument lists)
			inner := g.call(depth-1, v)
			if r.Intn(2) == 0 {
				inner.Args = []javagen.Expr{{K: "lit", Text: "\"a\""}, {K: "lit", Text: "n + 1"}}
			}
			if r.Intn(4) == 0 {
				inner = javagen.Expr{K: "new", Type: g.classes[r.Intn(len(g.classes))].Name, Args: []javagen.Expr{{K: "lit", Text: "1"}, {K: "lit", Text: "2"}}}
			}
			e.RecvKind = "call"
			e.RecvCall = &inner
			break
		}
		fallthrough
	default:
		if len(v.names) > 0 {
			e.RecvKind = "var"
			e.Recv = v.names[r.Intn(len(v.names))]
		} else {
			e.RecvKind = "none"
		}
	}
	return e
}

func (g *gctx) stmts(f *javagen.File, depth int, v *vis, n int) []javagen.Stmt {
	r := g.r
	g.cur = f
	out := []javagen.Stmt{}
	mark := len(v.names)
	for i := 0; i < n; i++ {
		switch k := r.Intn(12); {
		case k <= 2:
			name := g.pick(varNames)
			st := javagen.Stmt{K: "decl", Type: g.varType(f), Name: name, Final: r.Intn(5) == 0}
			already := false
			for _, x := range v.names {
				if x == name {
					already = true // Java forbids redeclaring a visible local/param; fields may be shadowed (handled by caller's list)
				}
			}
			for already { // a fresh name: the suffixed one must not be visible either (two suffixed names used to collide 1 time in 100)
				name = fmt.Sprintf("%s%d", st.Name, r.Intn(100))
				already = false
				for _, x := range v.names {
					if x == name {
						already = true
					}
				}
			}
			st.Name = name
			if r.Intn(3) > 0 {
				e := g.expr(2, v, true)
				st.E = &e
			}
			out = append(out, st)
			v.names = append(v.names, name)
		case k == 3:
			if len(v.names) > 0 {
				e := g.expr(2, v, true)
				if r.Intn(2) == 0 {
					e = javagen.Expr{K: "new", Type: g.classes[r.Intn(len(g.classes))].Name, Args: []javagen.Expr{}}
				}
				out = append(out, javagen.Stmt{K: "assign", Name: v.names[r.Intn(len(v.names))], E: &e})
				break
			}
			fallthrough
		case k <= 7:
			e := g.expr(2, v, true)
			for e.K != "call" && e.K != "new" {
				e = g.expr(2, v, true)
			}
			out = append(out, javagen.Stmt{K: "expr", E: &e})
		case k == 8 && depth > 0:
			e := g.call(1, v)
			st := javagen.Stmt{K: "if", E: &e, Then: g.stmts(f, depth-1, v, 1+r.Intn(2))}
			if r.Intn(2) == 0 {
				st.Els = g.stmts(f, depth-1, v, 1)
			}
			out = append(out, st)
		case k == 9 && depth > 0:
			e := g.call(1, v)
			kind := []string{"while", "for"}[r.Intn(2)]
			out = append(out, javagen.Stmt{K: kind, Name: "i", E: &e, Then: g.stmts(f, depth-1, v, 1+r.Intn(2))})
		case k == 10 && depth > 0:
			e := g.call(1, v)
			if r.Intn(2) == 0 {
				out = append(out, javagen.Stmt{K: "switch", E: &e, Cases: [][]javagen.Stmt{g.stmts(f, depth-1, v, 1), g.stmts(f, depth-1, v, 1)}})
			} else {
				st := javagen.Stmt{K: "try", Then: g.stmts(f, depth-1, v, 1+r.Intn(2)), Els: g.stmts(f, depth-1, v, 1)}
				if r.Intn(2) == 0 {
					st.Cases = [][]javagen.Stmt{g.stmts(f, depth-1, v, 1)}
				}
				out = append(out, st)
			}
		default:
			e := g.expr(1, v, false)
			out = append(out, javagen.Stmt{K: "expr", E: &javagen.Expr{K: "call", RecvKind: "none", Callee: "log", Args: []javagen.Expr{e}}})
		}
	}
	v.names = v.names[:mark]
	return out
}

var annPool = []javagen.Ann{
	{Name: "Deprecated", Form: "marker"},
	{Name: "Override", Form: "marker"},
	{Name: "Service", Form: "marker"},
	{Name: "SuppressWarnings", Form: "single", Args: []javagen.KV{{Key: "", Value: "\"unchecked\""}}},
	{Name: "Table", Form: "pairs", Args: []javagen.KV{{Key: "name", Value: "\"t_blog\""}, {Key: "schema", Value: "\"s\""}}},
	{Name: "Entity", Form: "pairs", Args: []javagen.KV{{Key: "value", Value: "{\"a\",\"b\"}"}}},
	{Name: "Component", Form: "single", Args: []javagen.KV{{Key: "", Value: "Const.NAME"}}},
}

func (g *gctx) anns(max int) []javagen.Ann {
	n := g.r.Intn(max + 1)
	out := []javagen.Ann{}
	seen := map[string]bool{}
	for i := 0; i < n; i++ {
		a := annPool[g.r.Intn(len(annPool))]
		if seen[a.Name] {
			continue
		}
		seen[a.Name] = true
		out = append(out, a)
	}
	return out
}

func (g *gctx) params(f *javagen.File) []javagen.Param {
	n := g.r.Intn(4)
	out := []javagen.Param{}
	used := map[string]bool{}
	for i := 0; i < n; i++ {
		name := g.pick(varNames)
		if used[name] {
			continue
		}
		used[name] = true
		pm := javagen.Param{Type: g.varType(f), Name: name}
		if (pm.Type == "String" || pm.Type == "int") && g.r.Intn(2) == 0 {
			pm.Array = true // String argv[]
		}
		out = append(out, pm)
	}
	return out
}

// Project is a pool of abstract files plus a cosmetic layout seed.
type Project struct {
	Files  []javagen.File
	Layout int
}

func Selected(f javagen.File) bool {
	return f.PathKind == "main" || f.PathKind == "maven" || f.PathKind == "neartest"
}

// Gen builds one random project. wantBodies: give (almost) every method a body with call sites.
func Gen(r *rand.Rand, wantBodies bool) Project {
	g := &gctx{r: r, external: extTypes}
	nf := 1 + r.Intn(6)
	c := Project{Layout: r.Intn(10000)}
	names := []string{"Blog", "BlogService", "Repo", "A", "UserAccountManagerImpl", "Post", "Util", "Dto", "Contest", "Latests", "TestKit", "Attestation"}
	r.Shuffle(len(names), func(i, j int) { names[i], names[j] = names[j], names[i] })
	kinds := make([]string, nf)
	for i := 0; i < nf; i++ {
		k := "main"
		switch r.Intn(12) {
		case 0:
			k = "testname"
		case 1:
			k = "testdir"
		case 2:
			k = "ignoredir"
		case 3:
			k = "ignoreglob"
		case 4:
			k = "testdata"
		case 5:
			k = "nonjava"
		case 6:
			k = "teststname"
		case 7, 8, 9:
			k = "maven"
		case 10:
			k = "neartest"
		}
		if i == 0 && k != "maven" {
			k = "main"
		}
		kinds[i] = k
		f := javagen.File{Id: fmt.Sprintf("f%d", i+1), PathKind: k, Pkg: pkgs[r.Intn(len(pkgs))]}
		f.Unit.Name = names[i]
		switch k {
		case "testname":
			f.Unit.Name += "Test"
		case "teststname":
			f.Unit.Name += "Tests"
		case "ignoreglob":
			f.Unit.Name += "Generated"
		}
		if k == "main" {
			// flat layout: directory = package path below an arbitrary prefix
			f.Dirs = []string{"", "app", "mod/a/b"}[r.Intn(3)]
			if f.Dirs != "" {
				f.Dirs += "/"
			}
			f.Dirs += pkgDir(f.Pkg)
		} else {
			f.Dirs = []string{"", "service", "mod/core"}[r.Intn(3)]
		}
		c.Files = append(c.Files, f)
		if k == "main" || k == "maven" || k == "neartest" {
			g.classes = append(g.classes, javagen.Import{Pkg: f.Pkg, Name: f.Unit.Name})
		}
	}
	for i := range c.Files {
		f := &c.Files[i]
		u := &f.Unit
		u.Kind = "class"
		if r.Intn(5) == 0 {
			u.Kind = "interface"
		}
		if r.Intn(8) == 0 {
			u.TParams = "<T>"
		}
		u.Anns = g.anns(2)
		if u.Kind == "class" && r.Intn(3) == 0 {
			var base javagen.Import
			if r.Intn(2) == 0 {
				base = g.external[r.Intn(len(g.external))]
			} else {
				base = g.classes[r.Intn(len(g.classes))]
			}
			if base.Name != u.Name {
				u.Ext = base.Name
				u.Extq = base.Pkg + "." + base.Name
				if base.Pkg != f.Pkg {
					g.addImport(f, base)
					// the import actually in force decides the qualified name
					for _, im := range f.Imports {
						if im.Name == base.Name {
							u.Extq = im.Pkg + "." + im.Name
						}
					}
				}
			}
		}
		if r.Intn(4) == 0 {
			e := g.external[r.Intn(len(g.external))]
			g.addImport(f, e)
			u.Impls = append(u.Impls, e.Name)
		}
		nm := r.Intn(7)
		usedNames := map[string]int{}
		fieldNames := []string{}
		for j := 0; j < nm; j++ {
			var m javagen.Member
			switch kk := r.Intn(10); {
			case kk <= 2 && u.Kind == "class":
				m = javagen.Member{Kind: "field", Name: g.pick(varNames), Type: g.varType(f), Mods: []string{"private"}}
				dup := false
				for _, x := range fieldNames {
					if x == m.Name {
						dup = true
					}
				}
				if dup {
					continue
				}
				fieldNames = append(fieldNames, m.Name)
			case kk == 3 && u.Kind == "class":
				m = javagen.Member{Kind: "ctor", Name: u.Name, Mods: []string{"public"}, Params: g.params(f)}
				if k := sig(m); usedNames[k] > 0 {
					continue
				} else {
					usedNames[k]++
				}
			default:
				m = javagen.Member{Kind: "method", Name: []string{"save", "find", "run", "get", "x", "handleRequestWithAVeryLongName"}[r.Intn(6)],
					Type: []string{"void", "String", "int", "List<String>", "Map<String,Blog>", "Blog[]", "T"}[r.Intn(7)], Params: g.params(f)}
				if m.Type == "T" {
					if u.TParams == "" {
						m.Generic = "<T>"
					}
				}
				if u.Kind == "class" {
					m.Mods = [][]string{{"public"}, {"private", "static"}, {"protected", "final"}, {}}[r.Intn(4)]
					m.Anns = g.anns(1)
				} else {
					m.Generic = ""
					if m.Type == "T" && u.TParams == "" {
						m.Type = "Object"
					}
					if r.Intn(3) == 0 {
						m.Anns = g.anns(2)
					}
				}
				if k := sig(m); usedNames[k] > 0 {
					continue
				} else {
					usedNames[k]++
				}
			}
			if j > 0 && r.Intn(25) == 0 && len(u.Members) > 0 && len(m.Anns) == 0 {
				m.SameLine = true
			}
			u.Members = append(u.Members, m)
		}
		// bodies (class methods and constructors)
		if u.Kind == "class" {
			earlier := []string{}
			for j := range u.Members {
				m := &u.Members[j]
				if m.Kind == "field" {
					earlier = append(earlier, m.Name)
					continue
				}
				if !wantBodies && r.Intn(3) > 0 {
					m.Body = []javagen.Stmt{}
					continue
				}
				v := &vis{}
				// visible receivers: fields declared earlier + parameters (a parameter may shadow a field)
				seen := map[string]bool{}
				for _, p := range m.Params {
					v.names = append(v.names, p.Name)
					seen[p.Name] = true
				}
				for _, fn := range earlier {
					if !seen[fn] {
						v.names = append(v.names, fn)
					}
				}
				m.Body = g.stmts(f, 2, v, r.Intn(6))
				if r.Intn(6) == 0 {
					// a creation whose FIRST argument is an unqualified call and a later argument another creation,
					// followed by the same unqualified call as a statement of its own
					cn := g.pick(callees)
					inner := javagen.Expr{K: "new", Type: g.classes[r.Intn(len(g.classes))].Name, Args: []javagen.Expr{}}
					outer := javagen.Expr{K: "new", Type: g.classes[r.Intn(len(g.classes))].Name,
						Args: []javagen.Expr{{K: "call", RecvKind: "none", Callee: cn, Args: []javagen.Expr{}}, inner}}
					again := javagen.Expr{K: "call", RecvKind: "none", Callee: cn, Args: []javagen.Expr{}}
					m.Body = append(m.Body, javagen.Stmt{K: "expr", E: &outer}, javagen.Stmt{K: "expr", E: &again})
				}
				if m.Kind == "method" && m.Type != "void" {
					m.Body = append(m.Body, javagen.Stmt{K: "return", E: &javagen.Expr{K: "lit", Text: "null"}})
				}
			}
		}
	}
	return c
}

func sig(m javagen.Member) string {
	s := m.Name + "("
	for _, p := range m.Params {
		s += p.Type + ","
	}
	return s + ")"
}

func pkgDir(p string) string {
	out := []rune{}
	for _, ch := range p {
		if ch == '.' {
			out = append(out, '/')
		} else {
			out = append(out, ch)
		}
	}
	return string(out)
}
