\* quick (layout): the moved class a.C (plain / with a nested class / enum; 3 header shapes; LF, CRLF, no final newline)
\* and one importer b.U (3 header shapes, blank line or not before the imports, every list of 1..2 imports out of
\* {a.C, a.CX, a.*, static a.C.make, decorated a.C}); one move; repaired switches (proposed_fixes/X01-1..3.patch)
SPECIFICATION Spec
CONSTANTS
  Histories <- HistoriesLayoutQuick
  NameRule = "file"
  CopyNode = TRUE
  KeepCR = TRUE
INVARIANTS X01_MovedExactly X01_NoCrash X01_OtherProjectsUntouched X01_TablesNotMixed Emit
