\* quick (layout, star-shaped): every moved file a.C (plain / nested class / enum / interface; 3 header shapes; LF, CRLF,
\* with and without final newline) with the simplest importer; every importer b.U (3 header shapes, blank line or not
\* before the imports, every list of 1..2 imports out of {a.C, a.CX, a.*, static a.C.make, decorated a.C}, eol, final
\* newline) with the simplest moved file and with a CRLF moved file that declares a nested class; one move;
\* repaired switches (proposed_fixes/X01-1..3.patch)
SPECIFICATION Spec
CONSTANTS
  Pool = "layout-quick"
  NameRule = "file"
  CopyNode = TRUE
  KeepCR = TRUE
INVARIANTS X01_MovedExactly X01_NoCrash X01_OtherProjectsUntouched X01_TablesNotMixed Emit
