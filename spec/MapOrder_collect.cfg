SPECIFICATION Spec
CONSTANTS
  Keys <- K4
  Shape = "collect"
  SortKey <- SKnone
INVARIANTS C08_CollectionInvariant
