\* the ways of naming a root, and roots whose own path matters: called latestData / nats.go / app.java, below gen, below
\* src/test, below websrc/test, below testData; a small Java tree; the walkers code, test and java; <= 2 lines, among them negated lines that name the root
SPECIFICATION Spec
CONSTANTS
  Universe <- UniverseSmall
  Walkers = {"code", "test", "java"}
  Roots <- RootsShapes
  Patterns <- PatternsRoots
  MaxLines = 2
  PathBase = "relative"
  TestDataTest = "directory"
  DirTest = "isdir"
INVARIANTS X07_Exact X07_Slice Emit
