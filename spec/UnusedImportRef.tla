------------------------- MODULE UnusedImportRef -------------------------
(* Property-level Reference for unused-import removal (C06).                          *)
(* rec.texts : Seq([path, before, after1, after2 : Seq(line),                         *)
(*                  imports : Seq([name, wild, static, line]), refs : Seq(name)])     *)
(* refs are the identifiers the renderer wrote, outside the package/import header, in *)
(* positions where a simple name refers to a type (type texts, annotations, creations,*)
(* static receivers, catch / throws / extends / implements) or to a statically        *)
(* imported member (unqualified callee names).                                        *)
EXTENDS Naturals, Sequences, FiniteSets, TLC

Range(s) == {s[i] : i \in DOMAIN s}
Item(p, k, w, t) == [prop |-> p, kind |-> k, where |-> w, tags |-> t]

\* the lines of `before` whose (1-based) numbers are not in `del`
Remove(before, del) == LET keep == SelectSeq([i \in DOMAIN before |-> i], LAMBDA i : i \notin del)
                       IN  [k \in DOMAIN keep |-> before[keep[k]]]

Unreferenced(t, im) == im.name \notin Range(t.refs)
\* single-type imports whose simple name is referenced nowhere else in the file: must be deleted
Must(t) == {t.imports[i].line : i \in {j \in DOMAIN t.imports : ~t.imports[j].wild /\ ~t.imports[j].static /\ Unreferenced(t, t.imports[j])}}
\* Free_C06_UnusedStaticImport: an unreferenced single static import may or may not be deleted
\* (the statement requires cleaning of unused single-type imports and allows deleting only unreferenced names)
Free(t) == {t.imports[i].line : i \in {j \in DOMAIN t.imports : ~t.imports[j].wild /\ t.imports[j].static /\ Unreferenced(t, t.imports[j])}}

Allowed(t, after) == \E F \in SUBSET Free(t) : after = Remove(t.before, Must(t) \cup F)

DiffFile(t) ==
  (IF Allowed(t, t.after1) THEN {}
   ELSE IF Len(t.after1) > Len(t.before) - Cardinality(Must(t))
        THEN {Item("C06", "unused-import-kept-or-wrong-line-deleted", t.path, {})}
        ELSE {Item("C06", "other-lines-deleted", t.path, {})}) \cup
  (IF t.after2 = t.after1 THEN {} ELSE {Item("C06", "second-run-changed-the-file", t.path, {})})

Diff(rec) ==
  IF rec.panic THEN {Item("C06", "panic", rec.note, {})}
  ELSE UNION {DiffFile(rec.texts[i]) : i \in DOMAIN rec.texts}
=============================================================================
