\* quick: every model of <= 2 classes with <= 2 recorded calls each; classes over 2 packages x 2 names,
\* callees over the same plus "no class"; the repaired value loop / callee test / key (proposed_fixes/X03-1.patch)
SPECIFICATION Spec
CONSTANTS
  MaxDeps = 2
  MaxCalls = 2
  Pkgs = {"", "x"}
  ClassNames = {"y", "Z"}
  CalleeNames = {"y", "Z", ""}
  ValueLoop = "index"
  CalleeTest = "classname"
  KeyForm = "pair"
INVARIANTS X03_NodesExact X03_LinksExact X03_LinkValues X03_Groups X03_CounterTable Emit
