-------------------------- MODULE X02Suggest_Trace --------------------------
(* Trace validation: every line of trace.ndjson is one model handed to the real          *)
(* suggest.SuggestApp.AnalysisPath (in-process, through the Java pipeline, or by the       *)
(* command `coca suggest`) in a fresh process; Diff (X02SuggestRef) is the oracle.  Never  *)
(* blocks: each discrepancy is printed and the rest of the trace is still checked.         *)
EXTENDS X02SuggestRef, Json
VARIABLE l
Trace == ndJsonDeserialize("trace.ndjson")
Init == l = 1
Step == /\ l <= Len(Trace)
        /\ LET d == Diff(Trace[l])
           IN  IF d = {} THEN TRUE ELSE PrintT(<<"DIFF", l, ToJson(d)>>)
        /\ l' = l + 1
Spec == Init /\ [][Step]_l
Accepted == TLCGet("stats").diameter - 1 = Len(Trace)
=============================================================================
