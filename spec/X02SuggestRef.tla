---------------------------- MODULE X02SuggestRef ----------------------------
(* Property-level Reference for the extension X02: `coca suggest` (design-pattern        *)
(* suggestions; suggest.SuggestApp.AnalysisPath, api_domain.Suggest / MergeSuggest,       *)
(* cmd/suggest.go).                                                                      *)
(*                                                                                      *)
(* STATEMENT (what the code documents: its comments, its field names, its fixture test).  *)
(* For every class of the model whose type is "Class" and which has at least one function *)
(* the following rules are evaluated over its CONSTRUCTORS:                               *)
(*   R1 "too many constructor"  pattern factory : the class has >= 3 constructors;        *)
(*                              size = the number of constructors                         *)
(*   R2 "too many parameters"   pattern builder : the longest constructor has >= 5        *)
(*                              parameters; size = that number of parameters              *)
(*   R3 "complex constructor"   pattern factory : some constructor with                   *)
(*                              (stop line - start line) > parameters - 3  and            *)
(*                              calls > parameters + 3;  line = its start line            *)
(* The rules that fire are merged into ONE suggestion per class (file, package, class,    *)
(* the distinct patterns joined by ", ", the distinct reasons joined by ", "); a class     *)
(* for which no rule fires, an interface, and a class without functions get nothing.      *)
(* The command `coca suggest [-d deps.json]` reads the model from the dependence file      *)
(* (default coca_reporter/deps.json) and prints one table row Class | Pattern | Reason     *)
(* per suggestion.                                                                        *)
(*                                                                                      *)
(* Written from this statement, not from the code.  Pure operators over the record:       *)
(*   rec.input    : the abstract case; only `via` ("model" | "java" | "cli") and          *)
(*                  `dflag` (cli: TRUE = the model is passed with -d, nothing at the       *)
(*                  default path) are read here                                           *)
(*   rec.model    : Seq([file, pkg, name, type,                                           *)
(*                       funcs : Seq([ctor, params, calls, start, stop])])                *)
(*                  projection of the []CodeDataStruct actually handed to the code        *)
(*   rec.observed : [panic, wellformed, sized,                                            *)
(*                   suggests : Seq([file, pkg, class, patterns : Seq(STRING),            *)
(*                                   reasons : Seq(STRING), size, line])]                 *)
(*                  patterns / reasons = the merged strings split at ", " (projection);   *)
(*                  sized = FALSE when the channel shows no file/package/size/line (cli)  *)
(*                                                                                      *)
(* Decisions where the statement is silent:                                              *)
(*   Free_X02_Order       order of the suggestions and of the parts of a merged pattern / *)
(*                        reason: judged as sets (parts must not repeat).                 *)
(*   Free_X02_SizeOfTwo   when R1 and R2 both fire the merged size may be either size.    *)
(*   Free_X02_SizeNoRule  when only R3 fires the size is not judged; when R3 does not     *)
(*                        fire the line is not judged.                                    *)
(*   Free_X02_SameClass   two classes of the model with the same package and name:        *)
(*                        suggestions are matched per class occurrence by (pkg, name)     *)
(*                        as a multiset.                                                  *)
EXTENDS Integers, Sequences, FiniteSets, TLC

Range(s) == {s[i] : i \in DOMAIN s}

Ctors(c) == {i \in DOMAIN c.funcs : c.funcs[i].ctor}
CtorCount(c) == Cardinality(Ctors(c))
MaxOf(S) == CHOOSE x \in S : \A y \in S : y <= x
LongestParams(c) == MaxOf({c.funcs[i].params : i \in Ctors(c)})

Eligible(c) == c.type = "Class" /\ Len(c.funcs) > 0

Complex(f) == f.ctor /\ (f.stop - f.start) > f.params - 3 /\ f.calls > f.params + 3
ComplexCtors(c) == {i \in Ctors(c) : Complex(c.funcs[i])}

R1(c) == Eligible(c) /\ CtorCount(c) >= 3
R2(c) == Eligible(c) /\ Ctors(c) # {} /\ LongestParams(c) >= 5
R3(c) == Eligible(c) /\ ComplexCtors(c) # {}

Reasons(c)  == (IF R1(c) THEN {"too many constructor"} ELSE {})
               \cup (IF R2(c) THEN {"too many parameters"} ELSE {})
               \cup (IF R3(c) THEN {"complex constructor"} ELSE {})
Patterns(c) == (IF R1(c) \/ R3(c) THEN {"factory"} ELSE {}) \cup (IF R2(c) THEN {"builder"} ELSE {})
Suggested(c) == Reasons(c) # {}

SizesAllowed(c) == (IF R1(c) THEN {CtorCount(c)} ELSE {}) \cup (IF R2(c) THEN {LongestParams(c)} ELSE {})
LinesAllowed(c) == {c.funcs[i].start : i \in ComplexCtors(c)}

-----------------------------------------------------------------------------
(* Known-defect shapes (spec-computed, narrow); a tag that is not listed in              *)
(* known_findings.json changes nothing.                                                  *)

\* the merged suggestion reports size 0 / line 0 although a sized rule / R3 fired
TagMergeDrops == "suggest.merge.size-line-dropped"
\* R2 reported from the FIRST FUNCTION of the class, which is not a constructor and has >= 5 parameters,
\* while no constructor has that many
TagFirstFunction == "suggest.builder.first-function-not-constructor"
FirstFunctionShape(c) == /\ Eligible(c) /\ ~c.funcs[1].ctor /\ c.funcs[1].params >= 5
                         /\ \A i \in Ctors(c) : c.funcs[i].params < c.funcs[1].params
\* `coca suggest -d FILE` reads the default dependence file instead of FILE
TagDFlag == "suggest.cli.dependence-flag-ignored"

-----------------------------------------------------------------------------
(* Diff *)

Item(k, w, t) == [prop |-> "X02", kind |-> k, where |-> w, tags |-> t]

NoRepeat(s) == \A i, j \in DOMAIN s : i # j => s[i] # s[j]
KeyOf(p, n) == p \o "." \o n

\* one observed suggestion against one class occurrence
DiffOne(c, s, sized) ==
  LET w == KeyOf(c.pkg, c.name)
      ff == IF FirstFunctionShape(c) THEN {TagFirstFunction} ELSE {}
  IN  (IF Range(s.reasons) = Reasons(c) /\ NoRepeat(s.reasons) THEN {}
       ELSE {Item("wrong-reasons", w, IF Range(s.reasons) \ Reasons(c) = {"too many parameters"} THEN ff ELSE {})})
      \cup (IF Range(s.patterns) = Patterns(c) /\ NoRepeat(s.patterns) THEN {}
            ELSE {Item("wrong-patterns", w, IF Range(s.patterns) \ Patterns(c) = {"builder"} THEN ff ELSE {})})
      \cup (IF ~sized THEN {}
            ELSE (IF s.file = c.file THEN {} ELSE {Item("wrong-file", w, {})})
                 \cup (IF SizesAllowed(c) = {} \/ s.size \in SizesAllowed(c) THEN {}
                       ELSE {Item("wrong-size", w, IF s.size = 0 THEN {TagMergeDrops} ELSE {})})
                 \cup (IF LinesAllowed(c) = {} \/ s.line \in LinesAllowed(c) THEN {}
                       ELSE {Item("wrong-line", w, IF s.line = 0 THEN {TagMergeDrops} ELSE {})}))

\* with `sized = FALSE` (the table of the command) only the class name identifies a row
SameClass(c, s, sized) == s.class = c.name /\ (~sized \/ s.pkg = c.pkg)

DiffAll(m, o) ==
  LET keys == {<<m[i].pkg, m[i].name>> : i \in DOMAIN m} \cup {<<o.suggests[k].pkg, o.suggests[k].class>> : k \in DOMAIN o.suggests}
      one(key) ==
        LET cs == SelectSeq(m, LAMBDA c : c.pkg = key[1] /\ c.name = key[2])
            ss == SelectSeq(o.suggests, LAMBDA s : s.pkg = key[1] /\ s.class = key[2])
            w  == KeyOf(key[1], key[2])
            want == SelectSeq(cs, Suggested)
        IN  IF Len(cs) = 1
            THEN (IF Len(ss) = 0 THEN (IF Suggested(cs[1]) THEN {Item("missing-suggestion", w, {})} ELSE {})
                  ELSE IF Len(ss) > 1 THEN {Item("not-merged", w, {})}
                  ELSE IF ~Suggested(cs[1])
                       THEN {Item("spurious-suggestion", w, IF FirstFunctionShape(cs[1]) /\ Range(ss[1].reasons) = {"too many parameters"}
                                                            THEN {TagFirstFunction} ELSE {})}
                       ELSE DiffOne(cs[1], ss[1], o.sized))
            ELSE IF Len(cs) = 0 THEN {Item("spurious-suggestion", w, {})}
            ELSE \* Free_X02_SameClass: several occurrences: same number of suggestions, each acceptable for some occurrence
                 \* (the known-defect tags are attached per shape of ANY occurrence: the occurrences cannot be told apart)
                 LET ff == IF \E j \in DOMAIN cs : FirstFunctionShape(cs[j]) THEN {TagFirstFunction} ELSE {}
                     md(s) == IF o.sized /\ (s.size = 0 \/ s.line = 0) THEN {TagMergeDrops} ELSE {}
                 IN  (IF Len(ss) = Len(want) THEN {} ELSE {Item("suggestion-count", w, ff)})
                     \cup UNION {IF \E j \in DOMAIN want : DiffOne(want[j], ss[k], o.sized) = {} THEN {}
                                 ELSE {Item("wrong-suggestion", w, ff \cup md(ss[k]))} : k \in DOMAIN ss}
  IN  UNION {one(key) : key \in keys}

\* the table of the command shows no package: rows are matched by class name alone; the harness keeps class
\* names distinct in cli cases (ModelOK)
Unpackaged(m) == [i \in DOMAIN m |-> [m[i] EXCEPT !.pkg = ""]]

ModelOK(in, m) == in.via = "cli" => \A i, j \in DOMAIN m : i # j => m[i].name # m[j].name

Diff(rec) ==
  LET in == rec.input
      m  == rec.model
      o  == rec.observed
      dflag == in.via = "cli" /\ in.dflag
  IN  IF ~ModelOK(in, m) THEN {Item("harness-bad-input", "", {})}
      ELSE IF o.panic THEN {Item("panic", "", IF dflag THEN {TagDFlag} ELSE {})}
      ELSE IF ~o.wellformed THEN {Item("malformed-output", "", {})}
      ELSE IF o.sized THEN DiffAll(m, o)
      ELSE DiffAll(Unpackaged(m), o)
=============================================================================
