----------------------------- MODULE CallGraph -----------------------------
(* Implementation-shaped Machine of coca's call-graph builders:                      *)
(*   call.BuildCallChain   (recursive expansion, process-global budget `loopCount`)  *)
(*   call.CallGraph.Analysis / AnalysisByFiles (where the budget is reset)           *)
(*   rcall.BuildRCallChain (budget `rLoopCount`, per-request `visited` set)          *)
(* executing a HISTORY of requests inside one process. One action per loop           *)
(* iteration / recursive call; the recursion is an explicit stack of frames.         *)
(* The Machine is judged by the same Reference (CallGraphRef!DiffOp) that judges the *)
(* real code in CallGraph_Trace.                                                     *)
EXTENDS CallGraphRef, SequencesExt, Json

CONSTANTS MaxCalls,      \* max length of a call list
          WithExt,       \* BOOLEAN: external / unresolved / creation callees in the alphabet
          WithDI,        \* BOOLEAN: DI maps and api requests in the alphabet
          Kinds          \* subset of {"call", "rcall", "lookup", "api"}: request kinds of the histories

VARIABLES model,         \* the abstract input (the JSON shape of CallGraphRef)
          ops,           \* the history of requests executed in this process
          pc,            \* index of the request being executed
          phase,         \* "idle" | "fwd" | "rev" | "done"
          stack,         \* explicit recursion stack: Seq([fn, idx, desc])
          loopCount,     \* call.loopCount  (package-level, survives requests)
          rLoopCount,    \* rcall.loopCount (package-level, survives requests)
          visited,       \* rcall: callers already expanded in this request
          out,           \* edges written so far for the current request (sequence, as printed)
          apiNo,         \* api request: index of the API being expanded
          segs, sizes,   \* api request: finished per-API chains and their reported sizes
          outs,          \* observations of the finished requests
          maps           \* methodMap (without / with DI) and the reverse map, built once per process image
                         \* (BuildMethodMap / BuildMethodCallMap are pure functions of the model)

vars == <<model, ops, pc, phase, stack, loopCount, rLoopCount, visited, out, apiNo, segs, sizes, outs, maps>>

M(p, n, f) == [pkg |-> p, node |-> n, name |-> f]
Decl == <<M("p", "A", "f"), M("p", "A", "g"), M("p", "B", "f")>>
Targets == Range(Decl) \cup (IF WithExt THEN {M("x", "E", "e"), M("", "", "o"), M("p", "B", "")} ELSE {})
CallLists == UNION {[1..n -> Targets] : n \in 0..MaxCalls}
DIs == IF WithDI THEN {<<>>, [x \in {"p.A"} |-> "p.B"], [x \in {"p.B"} |-> "p.A"]} ELSE {<<>>}
Roots == {Id(Decl[i]) : i \in DOMAIN Decl} \cup (IF WithExt THEN {"x.E.e"} ELSE {})

Op(k, r, lk, as) == [kind |-> k, root |-> r, lookup |-> lk, apis |-> as]
Api(d) == [verb |-> "GET", uri |-> "/a", pkg |-> d.pkg, node |-> d.node, name |-> d.name]
Histories ==
  (IF "call"   \in Kinds THEN {<<Op("call", r, FALSE, <<>>), Op("call", r, FALSE, <<>>)>> : r \in Roots} ELSE {}) \cup
  (IF "rcall"  \in Kinds THEN {<<Op("rcall", r, FALSE, <<>>), Op("rcall", r, FALSE, <<>>)>> : r \in Roots} ELSE {}) \cup
  (IF "lookup" \in Kinds THEN {<<Op("call", r, TRUE, <<>>), Op("rcall", r, FALSE, <<>>), Op("call", r, TRUE, <<>>)>> : r \in Roots} ELSE {}) \cup
  (IF "api"    \in Kinds THEN {<<Op("api", "", FALSE, <<Api(Decl[i]), Api(Decl[j])>>), Op("call", Id(Decl[i]), FALSE, <<>>)>> :
                                 i \in DOMAIN Decl, j \in DOMAIN Decl} ELSE {})

Init ==
  /\ model \in {[methods |-> [i \in DOMAIN Decl |-> [pkg |-> Decl[i].pkg, node |-> Decl[i].node, name |-> Decl[i].name, calls |-> cl[i]]],
                 di |-> d] : cl \in [DOMAIN Decl -> CallLists], d \in DIs}
  /\ ops \in Histories
  /\ pc = 1 /\ phase = "idle" /\ stack = <<>> /\ loopCount = 0 /\ rLoopCount = 0 /\ visited = {}
  /\ out = <<>> /\ apiNo = 0 /\ segs = <<>> /\ sizes = <<>> /\ outs = <<>>
  /\ maps = [plain |-> CallMapDI(model, <<>>), di |-> CallMapDI(model, model.di), rev |-> RMap(model)]

op == ops[pc]
\* methodMap: `coca call`/`rcall` pass no DI map, `coca api` does. The DI substitution is applied
\* when a child is read from the list; substituting the whole list up front is equivalent.
cm == IF op.kind = "api" THEN maps.di ELSE maps.plain
rm == maps.rev

Frame(f) == [fn |-> f, idx |-> 1, desc |-> FALSE]
Top == stack[Len(stack)]
Pop == SubSeq(stack, 1, Len(stack) - 1)
SetTop(f) == [stack EXCEPT ![Len(stack)] = f]

-----------------------------------------------------------------------------
(* forward: BuildCallChain *)

\* entering BuildCallChain(m): guard `loopCount > maxLoopCount`, increment, push a frame if m has calls
FwdEnter(stk, m) ==
  IF loopCount > Budget - 1 THEN /\ stack' = stk /\ loopCount' = loopCount
  ELSE /\ loopCount' = loopCount + 1
       /\ stack' = IF Expandable(cm, m) THEN Append(stk, Frame(m)) ELSE stk

StartCall ==    \* CallGraph.Analysis: resets the budget at entry (fix c59a89b), then expands the root
  /\ phase = "idle" /\ pc <= Len(ops) /\ op.kind = "call"
  /\ phase' = "fwd" /\ out' = <<>>
  /\ loopCount' = 1
  /\ stack' = IF Expandable(cm, op.root) THEN <<Frame(op.root)>> ELSE <<>>
  /\ UNCHANGED <<maps, model, ops, pc, rLoopCount, visited, apiNo, segs, sizes, outs>>

StartApi ==     \* AnalysisByFiles: one expansion per API, budget reset before each
  /\ phase = "idle" /\ pc <= Len(ops) /\ op.kind = "api"
  /\ phase' = "fwd" /\ out' = <<>> /\ apiNo' = 1 /\ segs' = <<>> /\ sizes' = <<>>
  /\ loopCount' = 1
  /\ stack' = IF Expandable(cm, Id(op.apis[1])) THEN <<Frame(Id(op.apis[1]))>> ELSE <<>>
  /\ UNCHANGED <<maps, model, ops, pc, rLoopCount, visited, outs>>

FwdReturn ==    \* loop of a frame exhausted: return to the caller
  /\ phase = "fwd" /\ stack # <<>> /\ Top.idx > Len(cm[Top.fn])
  /\ stack' = Pop
  /\ UNCHANGED <<maps, model, ops, pc, phase, loopCount, rLoopCount, visited, out, apiNo, segs, sizes, outs>>

FwdDescend ==   \* child has calls of its own: recurse first
  /\ phase = "fwd" /\ stack # <<>> /\ Top.idx <= Len(cm[Top.fn])
  /\ LET child == cm[Top.fn][Top.idx]
     IN  /\ Expandable(cm, child) /\ ~Top.desc
         /\ FwdEnter(SetTop([Top EXCEPT !.desc = TRUE]), child)
  /\ UNCHANGED <<maps, model, ops, pc, phase, rLoopCount, visited, out, apiNo, segs, sizes, outs>>

FwdEmit ==      \* write the edge fn -> child, next child
  /\ phase = "fwd" /\ stack # <<>> /\ Top.idx <= Len(cm[Top.fn])
  /\ LET child == cm[Top.fn][Top.idx]
     IN  /\ ~Expandable(cm, child) \/ Top.desc
         /\ out' = Append(out, <<Top.fn, child>>)
         /\ stack' = SetTop([Top EXCEPT !.idx = @ + 1, !.desc = FALSE])
  /\ UNCHANGED <<maps, model, ops, pc, phase, loopCount, rLoopCount, visited, apiNo, segs, sizes, outs>>

Obs(es, sg, sz, rmap) == [panic |-> FALSE, timeout |-> FALSE, wellformed |-> TRUE,
                          edges |-> es, segs |-> sg, sizes |-> sz, rmap |-> rmap]

\* `call -l` appends the reverse chain of the same root to the forward chain
StartLookup ==
  /\ phase = "fwd" /\ stack = <<>> /\ op.kind = "call" /\ op.lookup
  /\ phase' = "rev" /\ rLoopCount' = 1 /\ visited' = {op.root}
  /\ stack' = IF op.root \in DOMAIN rm THEN <<Frame(op.root)>> ELSE <<>>
  /\ UNCHANGED <<maps, model, ops, pc, loopCount, out, apiNo, segs, sizes, outs>>

FinishCall ==
  /\ phase = "fwd" /\ stack = <<>> /\ op.kind = "call" /\ ~op.lookup
  /\ outs' = Append(outs, Obs(out, <<>>, <<>>, <<>>))
  /\ pc' = pc + 1 /\ phase' = "idle" /\ out' = <<>>
  /\ UNCHANGED <<maps, model, ops, stack, loopCount, rLoopCount, visited, apiNo, segs, sizes>>

NextApi ==      \* one API finished: record its chain and size, start the next one with a fresh budget
  /\ phase = "fwd" /\ stack = <<>> /\ op.kind = "api"
  /\ LET a    == op.apis[apiNo]
         seg  == [marker |-> <<a.verb \o " " \o a.uri, Id(a)>>, edges |-> out]
         segs2  == Append(segs, seg)
         sizes2 == Append(sizes, Len(out) + 1)     \* len(strings.Split(chain, " -> "))
     IN  IF apiNo < Len(op.apis)
         THEN /\ segs' = segs2 /\ sizes' = sizes2 /\ apiNo' = apiNo + 1 /\ out' = <<>>
              /\ loopCount' = 1
              /\ stack' = IF Expandable(cm, Id(op.apis[apiNo + 1])) THEN <<Frame(Id(op.apis[apiNo + 1]))>> ELSE <<>>
              /\ UNCHANGED <<pc, phase, outs>>
         ELSE /\ outs' = Append(outs, Obs(<<>>, segs2, sizes2, <<>>))
              /\ pc' = pc + 1 /\ phase' = "idle" /\ out' = <<>> /\ segs' = <<>> /\ sizes' = <<>> /\ apiNo' = 0
              /\ UNCHANGED <<stack, loopCount>>
  /\ UNCHANGED <<maps, model, ops, rLoopCount, visited>>

-----------------------------------------------------------------------------
(* reverse: BuildRCallChain (after fix: budget reset per request, visited set) *)

RevEnter(stk, m) ==
  IF rLoopCount >= Budget - 1 THEN /\ stack' = stk /\ rLoopCount' = rLoopCount /\ visited' = visited
  ELSE /\ rLoopCount' = rLoopCount + 1
       /\ visited' = visited \cup {m}
       /\ stack' = IF m \in DOMAIN rm THEN Append(stk, Frame(m)) ELSE stk

StartRCall ==
  /\ phase = "idle" /\ pc <= Len(ops) /\ op.kind = "rcall"
  /\ phase' = "rev" /\ out' = <<>> /\ rLoopCount' = 1 /\ visited' = {op.root}
  /\ stack' = IF op.root \in DOMAIN rm THEN <<Frame(op.root)>> ELSE <<>>
  /\ UNCHANGED <<maps, model, ops, pc, loopCount, apiNo, segs, sizes, outs>>

RevReturn ==
  /\ phase = "rev" /\ stack # <<>> /\ Top.idx > Len(rm[Top.fn])
  /\ stack' = Pop
  /\ UNCHANGED <<maps, model, ops, pc, phase, loopCount, rLoopCount, visited, out, apiNo, segs, sizes, outs>>

RevDescend ==
  /\ phase = "rev" /\ stack # <<>> /\ Top.idx <= Len(rm[Top.fn])
  /\ LET child == rm[Top.fn][Top.idx]
     IN  /\ child \in DOMAIN rm /\ child \notin visited /\ ~Top.desc
         /\ RevEnter(SetTop([Top EXCEPT !.desc = TRUE]), child)
  /\ UNCHANGED <<maps, model, ops, pc, phase, loopCount, out, apiNo, segs, sizes, outs>>

RevEmit ==
  /\ phase = "rev" /\ stack # <<>> /\ Top.idx <= Len(rm[Top.fn])
  /\ LET child == rm[Top.fn][Top.idx]
     IN  /\ ~(child \in DOMAIN rm /\ child \notin visited) \/ Top.desc
         /\ out' = IF child = Top.fn THEN out ELSE Append(out, <<child, Top.fn>>)   \* `continue` on a self call
         /\ stack' = SetTop([Top EXCEPT !.idx = @ + 1, !.desc = FALSE])
  /\ UNCHANGED <<maps, model, ops, pc, phase, loopCount, rLoopCount, visited, apiNo, segs, sizes, outs>>

FinishRev ==
  /\ phase = "rev" /\ stack = <<>>
  /\ outs' = Append(outs, Obs(out, <<>>, <<>>, IF op.kind = "rcall" THEN rm ELSE <<>>))
  /\ pc' = pc + 1 /\ phase' = "idle" /\ out' = <<>>
  /\ UNCHANGED <<maps, model, ops, stack, loopCount, rLoopCount, visited, apiNo, segs, sizes>>

Finished == phase = "idle" /\ pc > Len(ops)
Done == Finished /\ UNCHANGED vars

Next == StartCall \/ StartApi \/ FwdReturn \/ FwdDescend \/ FwdEmit \/ StartLookup \/ FinishCall \/ NextApi
        \/ StartRCall \/ RevReturn \/ RevDescend \/ RevEmit \/ FinishRev \/ Done

Spec == Init /\ [][Next]_vars /\ WF_vars(Next)

-----------------------------------------------------------------------------
(* Properties *)

\* every edge written so far is a real call from a method reachable from the root (also mid-way)
C03_EdgeSound ==
  phase = "fwd" =>
    LET r == IF op.kind = "api" THEN Id(op.apis[apiNo]) ELSE op.root
    IN  out # <<>> => FwdSound(cm, r, out[Len(out)])      \* the edge just written (earlier ones were checked when written)

C03_BudgetBound == loopCount <= Budget /\ rLoopCount <= Budget - 1 /\ Len(stack) <= Budget

C04_EdgeSound == (phase = "rev" /\ op.kind = "rcall" /\ out # <<>>) => RevSound(rm, op.root, out[Len(out)])

\* every finished request satisfies the property-level Reference (root completeness,
\* exactness when the tree fits, size = edges + 1, reverse map, direct callers)
C03_C04_Reference ==
  (phase = "idle" /\ outs # <<>>) => DiffOp(model, ops[Len(outs)], outs[Len(outs)]) = {}

\* the same request repeated in one process yields the same graph
C07_SameTwice ==
  (phase = "idle" /\ outs # <<>>) =>
     \A i \in DOMAIN outs : ops[i] = ops[Len(outs)] => Graph(outs[i]) = Graph(outs[Len(outs)])

C03_C04_Terminates == <>Finished

\* generation: emit every explored history as a replay case for the real code
Emit == Finished => PrintT(<<"CASE", ToJson([input |-> model, ops |-> ops])>>)

=============================================================================
