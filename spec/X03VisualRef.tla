---------------------------- MODULE X03VisualRef ----------------------------
(* Property-level Reference for the extension X03: the D3 visualisation data that       *)
(* `coca arch -v` writes to coca_reporter/visual.json (visual.FromDeps).                 *)
(*                                                                                      *)
(* STATEMENT.  For any model (a list of classes, each with its recorded calls):          *)
(*   (1) nodes  = one per class full name and one per called class full name             *)
(*                (non-empty callee class); node ids are unique;                         *)
(*   (2) links  = one per recorded call with a non-empty callee class                    *)
(*                (source = the calling class, target = the called class);               *)
(*   (3) each link's value = the number of links with the same source and target;        *)
(*   (4) every node carries a group.                                                     *)
(* "full name" is package "." class name, as everywhere in coca (GetClassFullName).       *)
(*                                                                                      *)
(* Written from this statement, not from the code.  Pure operators over the record      *)
(* (JSON shape shared by the TLC generator, the Go renderer and the trace validator):    *)
(*   rec.input    : the abstract case (how the model was obtained; not read here)        *)
(*   rec.model    : Seq([pkg, name, calls : Seq([pkg, name])])                           *)
(*                  projection of the []CodeDataStruct actually handed to FromDeps       *)
(*                  (Package, NodeName, FunctionCalls[i].Package/.NodeName)              *)
(*   rec.observed : [panic, wellformed, nodes : Seq([id, group]),                        *)
(*                   links : Seq([source, target, value])]                               *)
(*                                                                                      *)
(* Decisions where the statement is silent:                                              *)
(*   Free_X03_Order   the order of nodes and of links is not stated: both are judged     *)
(*                    as (multi)sets.                                                    *)
(*   Free_X03_Group   the statement only says that nodes are grouped.  A group is        *)
(*                    accepted iff it is the 1-based position of a class of the model    *)
(*                    that either IS that node or CALLS it (a node is grouped with       *)
(*                    itself or with one of its callers).  Which of them is free.        *)
(*   A call is "with a non-empty callee class" iff its class name is not empty; the      *)
(*   package plays no role in that (a call with package "p" and no class has no callee   *)
(*   class, so it is neither a node nor a link).                                         *)
EXTENDS Integers, Sequences, FiniteSets, TLC

Range(s) == {s[i] : i \in DOMAIN s}

Full(p, n) == p \o "." \o n
FullOf(x) == Full(x.pkg, x.name)
HasClass(c) == c.name # ""

\* the recorded calls that must become links: <<index of the class, index of the call>>
LinkedCalls(m) == UNION {{<<i, k>> : k \in {j \in DOMAIN m[i].calls : HasClass(m[i].calls[j])}} : i \in DOMAIN m}
EmptyCalls(m)  == UNION {{<<i, k>> : k \in {j \in DOMAIN m[i].calls : ~HasClass(m[i].calls[j])}} : i \in DOMAIN m}

OwnIds(m)    == {FullOf(m[i]) : i \in DOMAIN m}
CalleeIds(m) == {FullOf(m[ik[1]].calls[ik[2]]) : ik \in LinkedCalls(m)}
NodeIds(m)   == OwnIds(m) \cup CalleeIds(m)

\* number of recorded calls from class full name s to class full name t
CallCount(m, s, t) ==
  Cardinality({ik \in LinkedCalls(m) : FullOf(m[ik[1]]) = s /\ FullOf(m[ik[1]].calls[ik[2]]) = t})

\* Free_X03_Group
GroupsAllowed(m, id) ==
  {i \in DOMAIN m : FullOf(m[i]) = id}
  \cup {ik[1] : ik \in {x \in LinkedCalls(m) : FullOf(m[x[1]].calls[x[2]]) = id}}

-----------------------------------------------------------------------------
(* Known-defect shapes (spec-computed, narrow).  They are attached so that a defect     *)
(* that is listed rather than repaired can be told from anything else; a tag that is    *)
(* not listed in known_findings.json changes nothing.                                   *)

\* the value of a link between a pair that is linked n >= 2 times is reported as 1
TagValueOne == "visual.link-value.stays-one"
\* a recorded call without class name still becomes the node/link "<package>."
TagEmptyCallee == "visual.empty-callee.dot-name"

EmptyCalleeIds(m) == {FullOf(m[ik[1]].calls[ik[2]]) : ik \in EmptyCalls(m)}

-----------------------------------------------------------------------------
(* Diff *)

Item(k, w, t) == [prop |-> "X03", kind |-> k, where |-> w, tags |-> t]

ObsCount(links, s, t) == Cardinality({i \in DOMAIN links : links[i].source = s /\ links[i].target = t})

DiffNodes(m, o) ==
  LET ids == {o.nodes[i].id : i \in DOMAIN o.nodes}
      exp == NodeIds(m)
      emp == EmptyCalleeIds(m)
  IN  {Item("duplicate-node", id, {}) : id \in {x \in ids : Cardinality({i \in DOMAIN o.nodes : o.nodes[i].id = x}) > 1}}
      \cup {Item("missing-node", id, {}) : id \in exp \ ids}
      \cup {Item("spurious-node", id, IF id \in emp THEN {TagEmptyCallee} ELSE {}) : id \in ids \ exp}

DiffLinks(m, o) ==
  LET pairsObs == {<<o.links[i].source, o.links[i].target>> : i \in DOMAIN o.links}
      pairsExp == {<<FullOf(m[ik[1]]), FullOf(m[ik[1]].calls[ik[2]])>> : ik \in LinkedCalls(m)}
      emp == EmptyCalleeIds(m)
      w(p) == p[1] \o " -> " \o p[2]
  IN  {Item("missing-link", w(p), {}) : p \in {q \in pairsExp : ObsCount(o.links, q[1], q[2]) < CallCount(m, q[1], q[2])}}
      \cup {Item("spurious-link", w(p), IF p[2] \in emp /\ CallCount(m, p[1], p[2]) = 0 THEN {TagEmptyCallee} ELSE {})
              : p \in {q \in pairsObs : ObsCount(o.links, q[1], q[2]) > CallCount(m, q[1], q[2])}}

\* (3): judged against the statement's own count (the number of recorded calls between the pair); links that
\* should not exist at all are charged by DiffLinks only
DiffValues(m, o) ==
  {Item("link-value", o.links[i].source \o " -> " \o o.links[i].target,
        IF o.links[i].value = 1 THEN {TagValueOne} ELSE {})
     : i \in {j \in DOMAIN o.links : LET n == CallCount(m, o.links[j].source, o.links[j].target)
                                     IN  n > 0 /\ o.links[j].value # n}}

DiffGroups(m, o) ==
  {Item("group", o.nodes[i].id, {})
     : i \in {j \in DOMAIN o.nodes : o.nodes[j].id \in NodeIds(m) /\ o.nodes[j].group \notin GroupsAllowed(m, o.nodes[j].id)}}

Diff(rec) ==
  LET m == rec.model
      o == rec.observed
  IN  IF o.panic THEN {Item("panic", "", {})}
      ELSE IF ~o.wellformed THEN {Item("malformed-output", "", {})}
      ELSE DiffNodes(m, o) \cup DiffLinks(m, o) \cup DiffValues(m, o) \cup DiffGroups(m, o)
=============================================================================
