\* thorough, Maven front-end only: every pom.xml with <= 3 <dependency> elements over the 8 shapes, 5 surroundings
\* (2925 cases; pom cases replay in 10 ms, so ALL of them are replayed on the real code, not a sample)
SPECIFICATION Spec
CONSTANTS
  Repaired = TRUE
  Kinds = {"pom"}
  MaxEntries = 3
  Groups = {"org.a"}
  PomShapes = {1, 2, 3, 4, 5, 6, 7, 8}
  Notations = {"sq"}
  Variants = {"plain"}
  Confs = {"implementation"}
  SurroundLevel = 2
  SrcMax = 0
  ImpMax = 1
  Units = {"class"}
  ExtraImports = {}
INVARIANTS C19_NoPanic C19_ExtractedExact C19_PrefixExact C19_OtherNotationsSkipped C19_UnusedExact Emit
