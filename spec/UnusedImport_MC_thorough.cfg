SPECIFICATION Spec
CONSTANTS
  MaxFiles = 2
  MaxLines = 4
INVARIANTS C06_OnlyUnusedImportLinesDeleted C06_Idempotent C06_NothingElseDeleted Emit
PROPERTY C06_Terminates
