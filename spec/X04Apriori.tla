------------------------------ MODULE X04Apriori ------------------------------
(* Implementation-shaped Machine of pkg/infrastructure/apriori/apriori.go and of the two   *)
(* loops that consume its result.                                                          *)
(*                                                                                         *)
(*   NewApriori:   for _, transaction := range transactions { a.addTransaction(..) }       *)
(*       NewTransaction / AddItem (the loop body of addTransaction: `items`,                *)
(*       `transactionIndexMap[item] = append(.., transactionNo)`) / EndTransaction          *)
(*       (`transactionNo++`)                                                               *)
(*   Calculate -> generateSupportRecords:                                                  *)
(*       StartCalc      candidates = initialCandidates() (sorted items), length = 1        *)
(*       CandidateStep  one candidate: calculateSupport (intersection of the index lists,   *)
(*                      with the `len(sumIndexes) == 0` re-assignment as written),          *)
(*                      `support < minSupport` -> skip; else relations = append(..) and the *)
(*                      support record goes to Calculate's loop: generateOrderedStatistics  *)
(*                      (bases = combinations(items, len-1)), filterOrderedStatistics,      *)
(*                      `len(filtered) == 0` -> no relation record                          *)
(*       EndLevel       length++, the maxLength test, createNextCandidates (all             *)
(*                      combinations for length < minLengthNeededForNextCandidates = 3,     *)
(*                      else only those whose (length-1)-subsets are all in the previous    *)
(*                      relations), loop test `len(candidates) > 0`                         *)
(*   users:  ReportStep  evaluate: `if len(items) >= 4 { RelatedMethod = items }`            *)
(*                       git:      `if len(items) > MIN_DATASET { available = append(..) }`  *)
(*                                                                                         *)
(* Items are the indices of ItemNames (which must be listed in the byte order Go's          *)
(* sort.Strings uses), so "sorted" is numeric order.  Numbers are exact fractions.          *)
(* The transactions are chosen incrementally, so TLC enumerates every transaction list      *)
(* within the bounds; at the end the Machine's result is judged by the same Reference       *)
(* (X04AprioriRef!Diff) that judges the real code, and the input is emitted as a replay     *)
(* case.  Two switches name the places where the code as it is deviates from the statement  *)
(* (proposed_fixes/X04.md):                                                                 *)
(*   IndexForm  "occurrences"  the index list gets the transaction number once per          *)
(*                             OCCURRENCE of the item (as written)                          *)
(*              "transactions" once per transaction (X04-1.patch)                           *)
(*   Sentinel   "inband"       a combination whose first item is named "STOP" is taken for  *)
(*                             the end marker of the channel: the consumer closes the       *)
(*                             channel under the producer, the process dies (as written)    *)
(*              "outofband"    the channel is closed by the producer (X04-2.patch)          *)
(* The registered cfgs run the code AS IT IS and demand that every discrepancy carries one  *)
(* of the Reference's narrow tags (X04_ResultExactOrTagged); `_repaired` demands exactness  *)
(* with both repairs; `_asis_EXPECTED_VIOLATION` shows TLC finding both defects alone.       *)
EXTENDS X04AprioriRef, Json

CONSTANTS ItemPool,       \* name of the item universe (below)
          MaxTx,          \* number of transactions
          MinTxLen, MaxTxLen,
          Ascending,      \* TRUE: transactions are strictly ascending (no repetition, one order)
          Mode,           \* "miner" | "evaluate" | "git"
          OptPool,        \* name of the option pool (below)
          IndexForm, Sentinel

\* item names in Go's string order (a cfg file cannot hold a sequence)
ItemNames ==
  CASE ItemPool = "abc"      -> <<"a", "b", "c">>
    [] ItemPool = "abcd"     -> <<"a", "b", "c", "d">>
    [] ItemPool = "stop"     -> <<"A", "STOP", "a">>
    [] ItemPool = "stopab"   -> <<"STOP", "a", "b">>
    [] ItemPool = "params"   -> <<"address", "age", "first", "id", "last">>
    [] ItemPool = "files"    -> <<"A.java", "B.java", "C.java", "D.java">>

NI == Len(ItemNames)
Idx == 1..NI
Name(i) == ItemNames[i]
Names(s) == [k \in DOMAIN s |-> Name(s[k])]

\* option pools live inside a CASE so that TLC evaluates only the selected one
OptSpace ==
  CASE OptPool = "evaluate" -> {OptEvaluate}
    [] OptPool = "git"      -> {[sup |-> s, conf |-> Q(9, 10), lift |-> Q(0, 1), maxlen |-> 0] : s \in {Q(1, 10), Q(1, 2)}}
                               \cup {[sup |-> Q(1, 2), conf |-> Q(1, 2), lift |-> Q(0, 1), maxlen |-> 3]}
    [] OptPool = "quick"    -> {[sup |-> Q(1, 2), conf |-> Q(0, 1), lift |-> Q(0, 1), maxlen |-> 0],
                                [sup |-> Q(1, 3), conf |-> Q(1, 2), lift |-> Q(1, 1), maxlen |-> 0],
                                [sup |-> Q(2, 3), conf |-> Q(1, 1), lift |-> Q(0, 1), maxlen |-> 2]}
    [] OptPool = "four"     -> {[sup |-> Q(1, 2), conf |-> Q(0, 1), lift |-> Q(0, 1), maxlen |-> 0],
                                [sup |-> Q(1, 3), conf |-> Q(1, 2), lift |-> Q(1, 1), maxlen |-> 0],
                                [sup |-> Q(2, 3), conf |-> Q(1, 1), lift |-> Q(0, 1), maxlen |-> 2],
                                [sup |-> Q(1, 2), conf |-> Q(1, 1), lift |-> Q(0, 1), maxlen |-> 1]}
    [] OptPool = "nine"     -> {[sup |-> s, conf |-> c, lift |-> Q(0, 1), maxlen |-> m]
                                  : s \in {Q(1, 2), Q(2, 3)}, c \in {Q(0, 1), Q(1, 1)}, m \in {0, 2}}
                               \cup {[sup |-> Q(1, 3), conf |-> Q(1, 2), lift |-> Q(1, 1), maxlen |-> 0]}
    [] OptPool = "one"      -> {[sup |-> Q(1, 2), conf |-> Q(0, 1), lift |-> Q(0, 1), maxlen |-> 0]}
    [] OptPool = "wide"     -> {[sup |-> s, conf |-> c, lift |-> l, maxlen |-> m]
                                  : s \in {Q(1, 4), Q(1, 2), Q(2, 3), Q(1, 1)}, c \in {Q(0, 1), Q(1, 2), Q(1, 1)},
                                    l \in {Q(0, 1), Q(1, 1), Q(3, 2)}, m \in {0, 1, 2}}

VARIABLES tx,             \* the transactions chosen so far (input); the last one is still being filled iff open
          open,
          opt,            \* input: options
          phase,          \* "load" | "calc" | "report" | "done" | "crashed"
          items,          \* a.items: items in order of first appearance
          index,          \* a.transactionIndexMap: item -> Seq(transaction number)
          transactionNo,
          length, candidates, ci, relations,     \* generateSupportRecords
          records,        \* Calculate's relationRecords
          ri, related, available                 \* the users' loops

vars == <<tx, open, opt, phase, items, index, transactionNo, length, candidates, ci, relations, records, ri, related, available>>

Init ==
  /\ tx = <<>> /\ open = FALSE
  /\ opt \in OptSpace
  /\ phase = "load"
  /\ items = <<>> /\ index = [i \in Idx |-> <<>>] /\ transactionNo = 0
  /\ length = 0 /\ candidates = <<>> /\ ci = 1 /\ relations = <<>>
  /\ records = <<>>
  /\ ri = 1 /\ related = <<>> /\ available = <<>>

-----------------------------------------------------------------------------
(* NewApriori *)

NewTransaction ==
  /\ phase = "load" /\ ~open /\ Len(tx) < MaxTx
  /\ tx' = Append(tx, <<>>) /\ open' = TRUE
  /\ UNCHANGED <<opt, phase, items, index, transactionNo, length, candidates, ci, relations, records, ri, related, available>>

AddItem ==            \* loop body of addTransaction
  /\ phase = "load" /\ open /\ Len(tx[Len(tx)]) < MaxTxLen
  /\ \E x \in Idx :
       LET cur == tx[Len(tx)] IN
       /\ IF Ascending /\ cur # <<>> THEN cur[Len(cur)] < x ELSE TRUE
       /\ Ascending => NI - x >= MinTxLen - (Len(cur) + 1)          \* an ascending transaction can still reach MinTxLen
       /\ tx' = [tx EXCEPT ![Len(tx)] = Append(@, x)]
       /\ items' = IF x \in Range(items) THEN items ELSE Append(items, x)
       /\ index' = IF IndexForm = "transactions" /\ index[x] # <<>> /\ index[x][Len(index[x])] = transactionNo
                   THEN index
                   ELSE [index EXCEPT ![x] = Append(@, transactionNo)]
  /\ UNCHANGED <<open, opt, phase, transactionNo, length, candidates, ci, relations, records, ri, related, available>>

EndTransaction ==
  /\ phase = "load" /\ open /\ Len(tx[Len(tx)]) >= MinTxLen
  /\ open' = FALSE /\ transactionNo' = transactionNo + 1
  /\ UNCHANGED <<tx, opt, phase, items, index, length, candidates, ci, relations, records, ri, related, available>>

-----------------------------------------------------------------------------
(* helpers shaped like the code's *)

RECURSIVE SortIdx(_)
SortIdx(S) == IF S = {} THEN <<>> ELSE LET m == CHOOSE x \in S : \A y \in S : x <= y IN <<m>> \o SortIdx(S \ {m})

\* combinations(iterable, r) in the order genCombinations produces them (lexicographic by position)
RECURSIVE Comb(_, _)
Comb(s, r) ==
  IF r = 0 THEN << <<>> >>
  ELSE IF Len(s) < r THEN <<>>
  ELSE LET rest == Comb(Tail(s), r - 1)
       IN  [k \in DOMAIN rest |-> <<s[1]>> \o rest[k]] \o Comb(Tail(s), r)

\* checkIfLastInStringChan on a real combination
LooksLikeEnd(c) == Len(c) > 0 /\ Name(c[1]) = "STOP"
HitsEnd(combos) == Sentinel = "inband" /\ \E k \in DOMAIN combos : LooksLikeEnd(combos[k])

\* transactionIntersection(first, second): the elements of second that occur in first
Intersection(first, second) == SelectSeq(second, LAMBDA e : e \in Range(first))

\* calculateSupport: the number of indexes left (over transactionNo)
RECURSIVE SumIndexes(_, _, _)
SumIndexes(its, k, sum) ==
  IF k > Len(its) THEN sum
  ELSE LET indexes == index[its[k]]
       IN  IF Len(indexes) = 0 THEN <<>>                                     \* `return 0.0`
           ELSE IF Len(sum) = 0 THEN SumIndexes(its, k + 1, indexes)          \* "Assign the indexes on the first time."
           ELSE SumIndexes(its, k + 1, Intersection(sum, indexes))
CalcSupport(its) ==
  IF Len(its) = 0 THEN Q(1, 1)
  ELSE IF transactionNo = 0 THEN Q(0, 1)
  ELSE Q(Len(SumIndexes(its, 1, <<>>)), transactionNo)

QDiv(a, b) == Q(a.num * b.den, a.den * b.num)
Obs(q) == [num |-> q.num, den |-> q.den, ok |-> q.den > 0]

\* itemDifference(items, base) for base \subseteq items
Difference(its, base) == SelectSeq(its, LAMBDA e : e \notin Range(base))

\* generateOrderedStatistic, in the shape of the output (names, fractions)
Stat(base, its, sup) ==
  LET add == Difference(its, base)
      conf == QDiv(sup, CalcSupport(base))
  IN  [base |-> Names(base), add |-> Names(add), conf |-> Obs(conf), lift |-> Obs(QDiv(conf, CalcSupport(add)))]
\* generateOrderedStatistics (bases = combinations(items, len-1)) + filterOrderedStatistics
Passes(st) == st.conf.ok /\ st.lift.ok /\ ~QLt(st.conf, opt.conf) /\ ~QLt(st.lift, opt.lift)
Filtered(its, sup) ==
  LET bases == Comb(its, Len(its) - 1)
  IN  SelectSeq([k \in DOMAIN bases |-> Stat(bases[k], its, sup)], Passes)

\* createNextCandidates(prevCandidates, length)
Unique(s) == SortIdx(UNION {Range(s[k]) : k \in DOMAIN s})      \* sort.Strings + uniqueItems
IsSubset(needle, haystack) == \E k \in DOMAIN haystack : Range(needle) \subseteq Range(haystack[k])
CreateNext(prev, len) ==
  LET tmp == Comb(Unique(prev), len)
  IN  IF len < 3 THEN tmp                                       \* minLengthNeededForNextCandidates
      ELSE SelectSeq(tmp, LAMBDA c : LET subs == Comb(c, len - 1) IN \A k \in DOMAIN subs : IsSubset(subs[k], prev))
\* does createNextCandidates read a combination that looks like the end marker?
CreateNextHitsEnd(prev, len) ==
  LET tmp == Comb(Unique(prev), len)
  IN  HitsEnd(tmp) \/ (len >= 3 /\ \E k \in DOMAIN tmp : HitsEnd(Comb(tmp[k], len - 1)))

-----------------------------------------------------------------------------
(* Calculate / generateSupportRecords *)

StartCalc ==
  /\ phase = "load" /\ ~open
  /\ phase' = "calc"
  /\ candidates' = LET s == SortIdx(Range(items)) IN [k \in DOMAIN s |-> <<s[k]>>]      \* initialCandidates
  /\ length' = 1 /\ ci' = 1 /\ relations' = <<>>
  /\ UNCHANGED <<tx, open, opt, items, index, transactionNo, records, ri, related, available>>

CandidateStep ==
  /\ phase = "calc" /\ ci <= Len(candidates)
  /\ LET c == candidates[ci]
         sup == CalcSupport(c)
     IN  IF QLt(sup, opt.sup)
         THEN UNCHANGED <<relations, records, phase>>
         ELSE IF HitsEnd(Comb(c, Len(c) - 1))            \* generateOrderedStatistics reads its bases from a channel
              THEN /\ phase' = "crashed" /\ UNCHANGED <<relations, records>>
              ELSE /\ relations' = Append(relations, c)
                   /\ records' = LET st == Filtered(c, sup)
                                 IN  IF st = <<>> THEN records              \* `len(filteredOrderedStatistics) == 0` -> continue
                                     ELSE Append(records, [items |-> Names(c), support |-> Obs(sup), stats |-> st])
                   /\ UNCHANGED phase
  /\ ci' = ci + 1
  /\ UNCHANGED <<tx, open, opt, items, index, transactionNo, length, candidates, ri, related, available>>

AfterMining == IF Mode = "miner" THEN "done" ELSE "report"

EndLevel ==
  /\ phase = "calc" /\ ci > Len(candidates)
  /\ length' = length + 1
  /\ IF opt.maxlen # 0 /\ length + 1 > opt.maxlen
     THEN /\ phase' = AfterMining /\ UNCHANGED <<candidates, relations, ci>>
     ELSE IF CreateNextHitsEnd(relations, length + 1)
     THEN /\ phase' = "crashed" /\ UNCHANGED <<candidates, relations, ci>>
     ELSE LET nxt == CreateNext(relations, length + 1)
          IN  /\ candidates' = nxt /\ relations' = <<>> /\ ci' = 1
              /\ phase' = IF Len(nxt) > 0 THEN "calc" ELSE AfterMining
  /\ UNCHANGED <<tx, open, opt, items, index, transactionNo, records, ri, related, available>>

-----------------------------------------------------------------------------
(* the users' loops over the relation records *)

ReportStep ==
  /\ phase = "report" /\ ri <= Len(records)
  /\ LET its == records[ri].items IN
     /\ related' = IF Mode = "evaluate" /\ Len(its) >= 4 THEN its ELSE related
     /\ available' = IF Mode = "git" /\ Len(its) > 2 THEN Append(available, its) ELSE available
  /\ ri' = ri + 1
  /\ UNCHANGED <<tx, open, opt, phase, items, index, transactionNo, length, candidates, ci, relations, records>>

EndReport ==
  /\ phase = "report" /\ ri > Len(records)
  /\ phase' = "done"
  /\ UNCHANGED <<tx, open, opt, items, index, transactionNo, length, candidates, ci, relations, records, ri, related, available>>

Finished == phase \in {"done", "crashed"}
Done == Finished /\ UNCHANGED vars

Next == NewTransaction \/ AddItem \/ EndTransaction \/ StartCalc \/ CandidateStep \/ EndLevel \/ ReportStep \/ EndReport \/ Done
Spec == Init /\ [][Next]_vars

-----------------------------------------------------------------------------
(* The abstract input the Machine has explored, and its output, in the shapes of the Reference *)

TxNames == [k \in DOMAIN tx |-> Names(tx[k])]

InputMiner == [kind |-> "miner", tx |-> TxNames, tx2 |-> TxNames, opt |-> opt]
ObservedMiner == [panic |-> phase = "crashed",
                  runs |-> IF phase = "crashed" THEN <<>> ELSE <<[records |-> records], [records |-> records]>>]

\* every transaction is one long-parameter method of a service class / one commit of source files
InputEvaluate == [kind |-> "evaluate", via |-> "model",
                  classes |-> <<[name |-> "OrderService", service |-> TRUE,
                                 methods |-> [k \in DOMAIN tx |-> [name |-> "m", params |-> Names(tx[k])]]]>>]
ObservedEvaluate == [panic |-> phase = "crashed", wellformed |-> TRUE, related |-> related]

InputGit == [kind |-> "git", via |-> "api", opt |-> opt,
             commits |-> [k \in DOMAIN tx |-> [changes |-> [j \in DOMAIN tx[k] |-> [pre |-> "", core |-> FALSE, segs |-> <<Name(tx[k][j])>>]]]]]
ObservedGit == [panic |-> phase = "crashed", groups |-> available, mentions |-> <<>>]

MachineDiff ==
  CASE Mode = "miner"    -> DiffMiner(InputMiner, ObservedMiner)
    [] Mode = "evaluate" -> DiffEvaluate(InputEvaluate, ObservedEvaluate)
    [] Mode = "git"      -> DiffGit(InputGit, ObservedGit)

-----------------------------------------------------------------------------
(* Properties *)

\* the Machine's result satisfies the Reference, except for discrepancies of the listed defect shapes
X04_ResultExactOrTagged == Finished => \A d \in MachineDiff : d.tags # {}
\* ... and without exception (for the repaired switches)
X04_ResultExact == Finished => MachineDiff = {}

\* level-wise pruning loses nothing: when a level has been processed, every set of that size that is frequent BY THE
\* STATEMENT is among the relations of the level, and (before) among its candidates
FrequentOfSize(n) == {S \in SUBSET Universe(TxNames) : Cardinality(S) = n /\ Frequent(TxNames, [opt EXCEPT !.maxlen = 0], S)}
AsNameSets(ss) == {{Name(ss[k][j]) : j \in DOMAIN ss[k]} : k \in DOMAIN ss}
\* (candidates change only at the start of a level, the index table only while loading: checked there)
X04_CandidatesComplete == (phase = "calc" /\ ci = 1) => FrequentOfSize(length) \subseteq AsNameSets(candidates)
X04_NoFrequentSetLost == (phase = "calc" /\ ci > Len(candidates)) => FrequentOfSize(length) \subseteq AsNameSets(relations)

\* registers: candidates of a level are sorted sets of that size, no candidate twice
X04_CandidateShape == (phase = "calc" /\ ci = 1) =>
  /\ \A k \in DOMAIN candidates : Len(candidates[k]) = length /\ \A j \in 1..length - 1 : candidates[k][j] < candidates[k][j + 1]
  /\ \A k, j \in DOMAIN candidates : candidates[k] = candidates[j] => k = j
\* the index table: without the repair an index list holds one entry per occurrence, with it one per transaction
X04_IndexTable == phase = "load" => \A x \in Idx :
  Len(index[x]) = IF IndexForm = "transactions"
                  THEN Cardinality({k \in DOMAIN tx : x \in Range(tx[k])})
                  ELSE Cardinality(UNION {{<<k, j>> : j \in {i \in DOMAIN tx[k] : tx[k][i] = x}} : k \in DOMAIN tx})

Emit == Finished => PrintT(<<"CASE", ToJson([input |-> [kind |-> Mode, tx |-> TxNames, opt |-> opt]])>>)

\* development aid (tlc -continue): print the violating inputs
ShowDiff == Finished => LET d == MachineDiff
                        IN  IF d = {} THEN TRUE ELSE PrintT(<<"NOTE", ToJson([tx |-> TxNames, opt |-> opt, diff |-> d])>>)
=============================================================================
