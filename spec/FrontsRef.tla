----------------------------- MODULE FrontsRef -----------------------------
(* Property-level Reference for C20: "Go and Python front-ends list every declaration  *)
(* under its own name".  Pure operators over one trace record                           *)
(*   rec.input    = [lang : "go" | "py", files : Seq(File)]                             *)
(*   rec.observed = [panic, files : Seq(FileObs), common : CommonObs]                   *)
(* Written from the property statement (properties.jsonl), not from the code.           *)
(*                                                                                      *)
(* Go File   : [pkg, imports : Seq([path, alias]), decls : Seq(Decl), ...]              *)
(*   Decl    : [k : "struct"|"iface"|"method"|"func", name, fields : Seq(Field),        *)
(*              specs : Seq([name, params, results]), recv, ptr, rv,                    *)
(*              params : Seq(Field), results : Seq(Field), body : Seq(Stmt)]            *)
(*   Field   : [names : Seq(STRING), form, pkg, base]       (`a, b *pkg.T`)             *)
(*   Stmt    : [k : "call"|"defer"|"assign"|"return", q, name, lhs, args]               *)
(* Py File   : [items : Seq(Item), ...]                                                 *)
(*   Item    : [k : "import"|"from"|"class"|"func", source, names : Seq([name, as]),    *)
(*              paren, name, decos : Seq([name, args]), bases,                          *)
(*              methods : Seq([name, decos, params, nested]), params, nested]           *)
(* FileObs   : [panic, accepts, imports : Seq([source, as, usage]),                     *)
(*              types : Seq([name, props : Seq([name, type]), decos : Seq(STRING),      *)
(*                           methods : Seq(FnObs)]),                                    *)
(*              funcs : Seq(FnObs), members : Seq([id, type])]                          *)
(*   FnObs   : [name, params : Seq([name, type]), decos : Seq(STRING),                  *)
(*              calls : Seq([node, fn])]                                                *)
(* CommonObs : [panic, accepts, ds : Seq(type entry as above)]   (CommonAnalysis)       *)
EXTENDS Naturals, Sequences, FiniteSets, TLC

Range(s) == {s[i] : i \in DOMAIN s}
Item(k, w, t) == [prop |-> "C20", kind |-> k, where |-> w, tags |-> t]

\* number of positions of s whose element satisfies P
Count(s, P(_)) == Cardinality({i \in DOMAIN s : P(s[i])})
\* number of occurrences of x in s
Occ(s, x) == Cardinality({i \in DOMAIN s : s[i] = x})
Distinct(s) == \A i, j \in DOMAIN s : s[i] = s[j] => i = j
NamesOf(s) == [i \in DOMAIN s |-> s[i].name]

RECURSIVE Concat(_)
Concat(ss) == IF ss = <<>> THEN <<>> ELSE Head(ss) \o Concat(Tail(ss))

-----------------------------------------------------------------------------
(* strings: last path element and dotted form of an import path *)

RECURSIVE LastSlash(_, _)
LastSlash(s, i) == IF i = 0 THEN 0 ELSE IF SubSeq(s, i, i) = "/" THEN i ELSE LastSlash(s, i - 1)
LastSeg(s) == SubSeq(s, LastSlash(s, Len(s)) + 1, Len(s))

RECURSIVE DottedFrom(_, _)
DottedFrom(s, i) == IF i > Len(s) THEN ""
                    ELSE (IF SubSeq(s, i, i) = "/" THEN "." ELSE SubSeq(s, i, i)) \o DottedFrom(s, i + 1)
Dotted(s) == DottedFrom(s, 1)

-----------------------------------------------------------------------------
(* Go *)

\* `a, b T` declares the two names a and b; an unnamed entry (parameter `int`, embedded field) has the name ""
RECURSIVE FlatFields(_)
FlatFields(fs) ==
  IF fs = <<>> THEN <<>>
  ELSE LET f == Head(fs)
       IN  (IF f.names = <<>> THEN <<[name |-> "", f |-> f]>>
            ELSE [i \in DOMAIN f.names |-> [name |-> f.names[i], f |-> f]]) \o FlatFields(Tail(fs))

TypeText(f) ==
  CASE f.form = "star"     -> "*" \o f.base
    [] f.form = "sel"      -> f.pkg \o "." \o f.base
    [] f.form = "starsel"  -> "*" \o f.pkg \o "." \o f.base
    [] f.form = "array"    -> "[]" \o f.base
    [] f.form = "arraysel" -> "[]" \o f.pkg \o "." \o f.base
    [] OTHER               -> f.base
\* Free_GoTypeSpelling: the statement does not say how a type is spelled in the model; the written text, the
\* bare element type and the qualified element type are all accepted
AllowedType(f) == {TypeText(f), f.base, f.pkg \o "." \o f.base}

GoTypes(f)   == SelectSeq(f.decls, LAMBDA d : d.k \in {"struct", "iface"})
GoMethods(f) == SelectSeq(f.decls, LAMBDA d : d.k = "method")
GoFuncs(f)   == SelectSeq(f.decls, LAMBDA d : d.k = "func")
GoTypeNames(f) == Range(NamesOf(GoTypes(f)))
MethodsOn(f, t) == SelectSeq(f.decls, LAMBDA d : d.k = "method" /\ d.recv = t)

LocalName(im) == IF im.alias # "" THEN im.alias ELSE LastSeg(im.path)

\* The quantifier: "any Go source file whose methods have receivers declared in that file"; names are
\* unambiguous (a file with two declarations of one name is not a Go program) and a receiver variable
\* neither shadows an import nor is shadowed by a parameter (`func (x T) M(x int)` is not a Go program).
GoInQuant(f) ==
  /\ \A d \in Range(GoMethods(f)) : d.recv \in GoTypeNames(f)
  /\ Range(NamesOf(GoMethods(f))) \cap Range(NamesOf(GoFuncs(f))) = {}     \* (keeps Free_GoMethodMembers unambiguous)
  /\ Distinct(NamesOf(GoTypes(f)) \o NamesOf(GoFuncs(f)))
  /\ \A t \in GoTypeNames(f) : Distinct(NamesOf(MethodsOn(f, t)))
  /\ \A d \in Range(GoMethods(f)) : /\ d.rv \notin {LocalName(im) : im \in Range(f.imports)}
                                     /\ (d.rv = "" \/ d.rv \notin Range(NamesOf(FlatFields(d.params))))

\* ---- calls: "each package-qualified or receiver call written as a statement, under its own name, exactly once"
Quals(f) == {LocalName(im) : im \in Range(f.imports)}
IsStmtCall(f, d, s) == /\ s.k = "call" /\ s.q # ""
                       /\ \/ s.q \in Quals(f)
                          \/ d.k = "method" /\ d.rv # "" /\ s.q = d.rv
\* Free_GoCallQualifier: the statement fixes the callee's own name; the qualifier may be shown as written
\* (package name / alias / receiver variable), as the import path, or as the receiver's type
AllowedNode(f, d, s) ==
  {s.q} \cup (IF d.k = "method" /\ s.q = d.rv THEN {d.recv, "*" \o d.recv} ELSE {})
        \cup UNION {{im.path, Dotted(im.path)} : im \in {x \in Range(f.imports) : LocalName(x) = s.q}}
MatchCall(f, d, s, c) == c.fn = s.name /\ c.node \in AllowedNode(f, d, s)
\* Free_GoOtherCalls: calls that are not statements of that kind (deferred calls, calls on the right of an
\* assignment or in a return, plain calls f(), calls on parameters) may or may not be listed
FreeMatch(f, d, s, c) ==
  \/ s.q # "" /\ c.node \in AllowedNode(f, d, s) /\ c.fn \in {s.name, ""}
  \/ s.q = "" /\ s.name # "" /\ (c.node = s.name \/ c.fn = s.name)

CallDiff(f, d, e, w) ==
  LET body   == d.body
      stmtIx == {i \in DOMAIN body : IsStmtCall(f, d, body[i])}
      freeIx == {i \in DOMAIN body : ~IsStmtCall(f, d, body[i]) /\ body[i].name # ""}
      same(i, j) == body[i].q = body[j].q /\ body[i].name = body[j].name
      firstIx == {i \in stmtIx : \A j \in stmtIx : same(i, j) => i <= j}
      nReq(i)  == Cardinality({j \in stmtIx : same(i, j)})
      nFree(i) == Cardinality({j \in freeIx : same(i, j)})
      nObs(i)  == Count(e.calls, LAMBDA c : MatchCall(f, d, body[i], c))
      lbl(i)   == w \o ": " \o body[i].q \o "." \o body[i].name
  IN  {Item("go-call-missing", lbl(i), {}) : i \in {x \in firstIx : nObs(x) < nReq(x)}} \cup
      {Item("go-call-duplicated", lbl(i), {}) : i \in {x \in firstIx : nObs(x) > nReq(x) + nFree(x)}} \cup
      {Item("go-call-unwritten", w \o ": " \o e.calls[k].node \o "." \o e.calls[k].fn, {}) :
         k \in {x \in DOMAIN e.calls : /\ \A i \in stmtIx : ~MatchCall(f, d, body[i], e.calls[x])
                                       /\ \A i \in freeIx : ~FreeMatch(f, d, body[i], e.calls[x])}}

\* ---- "each top-level function with its parameters"
ParamDiff(d, e, w) ==
  LET exp == FlatFields(d.params)
  IN  IF NamesOf(e.params) # NamesOf(exp) THEN {Item("go-func-params", w, {})}
      ELSE {Item("go-param-type", w \o "(" \o exp[i].name \o ")", {}) :
              i \in {x \in DOMAIN exp : e.params[x].type \notin AllowedType(exp[x].f)}}

\* a listing of names (observed) against required names (each exactly once) and optional names (each at most once)
ListingDiff(obs, req, opt, kMissing, kExtra, w) ==
  LET names == Range(obs) \cup Range(req)
  IN  {Item(kMissing, w \o n, {}) : n \in {x \in names : Occ(obs, x) < Occ(req, x)}} \cup
      {Item(kExtra, w \o n, {}) : n \in {x \in names : Occ(obs, x) > Occ(req, x) + Occ(opt, x)}}

\* ---- "each struct with its fields and methods, each interface with its method set"
GoTypeDiff(f, t, e, level) ==
  LET flat == IF t.k = "struct" THEN FlatFields(t.fields) ELSE [i \in DOMAIN t.specs |-> [name |-> t.specs[i].name]]
      req  == SelectSeq(NamesOf(flat), LAMBDA n : n # "")
      \* Free_GoEmbedded: an embedded field has no name of its own; it may be listed under "" or its type name, or not at all
      emb  == IF t.k = "struct" THEN SelectSeq(t.fields, LAMBDA x : x.names = <<>>) ELSE <<>>
      opt  == [i \in DOMAIN emb |-> ""] \o [i \in DOMAIN emb |-> emb[i].base]
      ms   == MethodsOn(f, t.name)
      w    == level \o t.name
      \* Free_GoIfaceMethodPlace: the method set of an interface may be shown among the members or among the methods
      members == IF t.k = "iface" THEN NamesOf(e.props) \o NamesOf(e.methods) ELSE NamesOf(e.props)
      methods == IF t.k = "iface" THEN <<>> ELSE NamesOf(e.methods)
  IN  ListingDiff(members, req, opt, "go-member-missing", "go-member-extra", w \o ".") \cup
      (IF t.k = "struct"
       THEN {Item("go-field-type", w \o "." \o flat[i].name, {}) :
               i \in {x \in DOMAIN flat : /\ flat[x].name # "" /\ Occ(NamesOf(flat), flat[x].name) = 1
                                          /\ Occ(NamesOf(e.props), flat[x].name) = 1
                                          /\ \E p \in Range(e.props) : p.name = flat[x].name /\ p.type \notin AllowedType(flat[x].f)}}
       ELSE {}) \cup
      ListingDiff(methods, NamesOf(ms), <<>>, "go-method-missing", "go-method-extra", w \o ".") \cup
      UNION {CallDiff(f, ms[i], CHOOSE m \in Range(e.methods) : m.name = ms[i].name, w \o "." \o ms[i].name) :
               i \in {x \in DOMAIN ms : Occ(NamesOf(e.methods), ms[x].name) = 1}}

\* a listing of named entries: every declared one exactly once, nothing undeclared; then each entry's content
EntriesDiff(decl, obs, kMissing, kDup, kUndeclared, w, Content(_, _)) ==
  {Item(kMissing, w \o decl[i].name, {}) : i \in {x \in DOMAIN decl : Occ(NamesOf(obs), decl[x].name) = 0}} \cup
  {Item(kDup, w \o decl[i].name, {}) : i \in {x \in DOMAIN decl : Occ(NamesOf(obs), decl[x].name) > 1}} \cup
  {Item(kUndeclared, w \o n, {}) : n \in Range(NamesOf(obs)) \ Range(NamesOf(decl))} \cup
  UNION {Content(decl[i], CHOOSE e \in Range(obs) : e.name = decl[i].name) :
           i \in {x \in DOMAIN decl : Occ(NamesOf(obs), decl[x].name) = 1}}

\* ---- "each import": its own name is the import path (Free_GoImportSpelling: with "/" or "."); Free_GoImportAlias:
\* the alias may be shown or not, but never another import's alias
MatchImport(im, oi) == oi.source \in {im.path, Dotted(im.path)} /\ oi.as \in {im.alias, ""}
GoImportDiff(f, o) ==
  LET ims == f.imports
      nDecl(i) == Cardinality({j \in DOMAIN ims : ims[j] = ims[i]})
      nObs(i)  == Count(o.imports, LAMBDA oi : MatchImport(ims[i], oi))
  IN  {Item("go-import-missing", ims[i].path, {}) : i \in {x \in DOMAIN ims : nObs(x) < nDecl(x)}} \cup
      {Item("go-import-duplicated", ims[i].path, {}) : i \in {x \in DOMAIN ims : nObs(x) > nDecl(x)}} \cup
      {Item("go-import-undeclared", o.imports[k].source, {}) :
         k \in {x \in DOMAIN o.imports : \A i \in DOMAIN ims : ~MatchImport(ims[i], o.imports[x])}}

\* ---- the file's member index (what the identifier pass hands to later files): only declared types, none twice
GoMemberDiff(f, o) ==
  {Item("go-member-index", o.members[k].id, {}) :
     k \in {x \in DOMAIN o.members : \/ o.members[x].id \notin GoTypeNames(f)
                                     \/ Count(o.members, LAMBDA m : m.id = o.members[x].id) > 1}}

DiffGoFile(f, o, w) ==
  IF ~o.accepts \/ ~GoInQuant(f) THEN {}              \* outside the quantifier: no judgement
  ELSE IF o.panic THEN {Item("panic", w, {})}         \* "neither front-end crashes on a file its parser accepts"
  ELSE EntriesDiff(GoTypes(f), o.types, "go-type-missing", "go-type-duplicated", "go-type-undeclared", w,
                   LAMBDA t, e : GoTypeDiff(f, t, e, w)) \cup
       \* Free_GoMethodMembers: whether methods also appear in the file's list of function members is not promised
       EntriesDiff(GoFuncs(f), SelectSeq(o.funcs, LAMBDA e : e.name \in Range(NamesOf(GoFuncs(f))) \/ e.name \notin Range(NamesOf(GoMethods(f)))),
                   "go-func-missing", "go-func-duplicated", "go-func-undeclared", w,
                   LAMBDA d, e : ParamDiff(d, e, w \o d.name) \cup CallDiff(f, d, e, w \o d.name)) \cup
       GoImportDiff(f, o) \cup GoMemberDiff(f, o)

-----------------------------------------------------------------------------
(* Python *)

PyClasses(f) == SelectSeq(f.items, LAMBDA it : it.k = "class")
PyFuncs(f)   == SelectSeq(f.items, LAMBDA it : it.k = "func")
PyImports(f) == SelectSeq(f.items, LAMBDA it : it.k \in {"import", "from"})
\* names of the defs nested in the functions / methods of the file
PyNestedOf(fns) == Concat([i \in DOMAIN fns |-> fns[i].nested])
PyNested(f) == PyNestedOf(PyFuncs(f)) \o Concat([i \in DOMAIN PyClasses(f) |-> PyNestedOf(PyClasses(f)[i].methods)])

\* the quantifier: imports, (decorated) classes with methods, (decorated) functions, nested defs; unambiguous names
PyInQuant(f) ==
  /\ Distinct(NamesOf(PyClasses(f)) \o NamesOf(PyFuncs(f)) \o PyNested(f))
  /\ \A c \in Range(PyClasses(f)) : Range(NamesOf(c.methods)) \cap Range(NamesOf(PyFuncs(f))) = {}
  /\ \A c \in Range(PyClasses(f)) : Distinct(NamesOf(c.methods) \o PyNested(f))

\* Free_PyDecoratorsOfFunctions: the statement promises the decorators of classes; for a function or method only
\* "no decorator that was not written on it" is demanded
ForeignDecos(fn, e, w) ==
  {Item("py-foreign-decorator", w \o "@" \o x, {}) :
     x \in {y \in Range(e.decos) : Occ(e.decos, y) > Occ(NamesOf(fn.decos), y)}}

\* Free_PyNestedDefs: a nested def may or may not be listed (at most once); it must not disturb the rest
PyClassDiff(c, e, w, nestedAll) ==
  (IF \A x \in Range(e.decos) \cup Range(NamesOf(c.decos)) : Occ(e.decos, x) = Occ(NamesOf(c.decos), x) THEN {}
   ELSE {Item("py-class-decorators", w \o c.name, {})}) \cup
  ListingDiff(NamesOf(e.methods), NamesOf(c.methods), nestedAll, "py-method-missing", "py-method-extra", w \o c.name \o ".") \cup
  UNION {ForeignDecos(c.methods[i], CHOOSE m \in Range(e.methods) : m.name = c.methods[i].name, w \o c.name \o "." \o c.methods[i].name) :
           i \in {x \in DOMAIN c.methods : Occ(NamesOf(e.methods), c.methods[x].name) = 1}}

\* ---- imports. One statement = one import; its own name is the module it names (`import m ...`: the first
\* module; `from m import ...`: m with its leading dots). Every further name of the statement is listed with it
\* exactly once, under the name or under its alias (Free_PyAliasOrName); the alias of the first module of an
\* `import` statement and the `*` of a star import may be listed or not (Free_PyFirstAlias, Free_PyStar).
PySource(s) == IF s.k = "import" THEN s.names[1].name ELSE s.source
PyReqNames(s) == IF s.k = "import" THEN Tail(s.names) ELSE s.names
PyOptUsage(s) == (IF s.k = "import" /\ s.names[1].as # "" THEN {s.names[1].as} ELSE {}) \cup
                 (IF s.k = "from" /\ s.names = <<>> THEN {"*"} ELSE {})
AllowedU(n) == {n.name} \cup (IF n.as # "" THEN {n.as} ELSE {})
Glued(n) == n.name \o "as" \o n.as
\* known defect shape (cannot be repaired: the repository's golden file import_stmt.json pins it): an item
\* `name as alias` of a `from m import ...` statement is listed as the glued text "namealias" with "as" in between
\* ("barasb"). The tag is computed per item: only the aliased name that is missing and the glued text standing in for it.
PyUsageDiff(s, oi, w) ==
  LET req == PyReqNames(s)
      \* a statement that binds one name twice (`import a as m, b as m`) is not judged name by name
      unamb == \A i, j \in DOMAIN req : i # j => AllowedU(req[i]) \cap (AllowedU(req[j]) \cup PyOptUsage(s)) = {}
      gluedNames == IF s.k = "from" THEN {Glued(req[j]) : j \in {x \in DOMAIN req : req[x].as # ""}} ELSE {}
  IN  IF ~unamb THEN {} ELSE
      {Item("py-import-name-missing", w \o " " \o req[j].name,
            IF s.k = "from" /\ req[j].as # "" /\ Glued(req[j]) \in Range(oi.usage) THEN {"py.from-import.alias-glued"} ELSE {}) :
         j \in {x \in DOMAIN req : Count(oi.usage, LAMBDA u : u \in AllowedU(req[x])) # 1}} \cup
      {Item("py-import-name-unwritten", w \o " " \o u,
            IF u \in gluedNames /\ Occ(oi.usage, u) = 1 THEN {"py.from-import.alias-glued"} ELSE {}) :
         u \in {x \in Range(oi.usage) : /\ \A j \in DOMAIN req : x \notin AllowedU(req[j])
                                        /\ \/ x \notin PyOptUsage(s)
                                           \/ Occ(oi.usage, x) > 1}}
PyImportDiff(f, o, w) ==
  LET ss == PyImports(f)
      srcs == {PySource(ss[i]) : i \in DOMAIN ss}
      nDecl(x) == Count(ss, LAMBDA s : PySource(s) = x)
      nObs(x)  == Count(o.imports, LAMBDA oi : oi.source = x)
  IN  {Item("py-import-missing", w \o x, {}) : x \in {y \in srcs : nObs(y) < nDecl(y)}} \cup
      {Item("py-import-duplicated", w \o x, {}) : x \in {y \in srcs : nObs(y) > nDecl(y)}} \cup
      {Item("py-import-undeclared", w \o o.imports[k].source, {}) : k \in {x \in DOMAIN o.imports : o.imports[x].source \notin srcs}} \cup
      \* statements and entries of one source are compared pairwise in written order when their numbers agree
      UNION {LET sx == SelectSeq(ss, LAMBDA s : PySource(s) = x)
                 ox == SelectSeq(o.imports, LAMBDA oi : oi.source = x)
             IN  IF Len(sx) # Len(ox) THEN {}
                 ELSE IF \E p \in [DOMAIN sx -> DOMAIN sx] :
                           /\ \A a, b \in DOMAIN sx : p[a] = p[b] => a = b
                           /\ \A a \in DOMAIN sx : PyUsageDiff(sx[a], ox[p[a]], "") = {}
                      THEN {}
                      ELSE UNION {PyUsageDiff(sx[a], ox[a], w \o x) : a \in DOMAIN sx} : x \in srcs}

\* The listing is promised "for any Python module": a module that is Python (valid by construction of the
\* renderer) but on which the shipped lexer/parser reports syntax errors is still judged. Only the crash
\* clause is limited to "a file its parser accepts": a crash on a module the parser rejected is not reported
\* as a crash, but as what it also is - a module whose declarations are not listed.
DiffPyFile(f, o, w) ==
  IF ~PyInQuant(f) THEN {}
  ELSE IF o.panic THEN {Item(IF o.accepts THEN "panic" ELSE "py-module-not-listed", w, {})}   \* no model at all
  ELSE EntriesDiff(PyClasses(f), o.types, "py-class-missing", "py-class-duplicated", "py-class-undeclared", w,
                   LAMBDA c, e : PyClassDiff(c, e, w, PyNested(f))) \cup
       \* Free_PyMethodMembers: whether methods also appear among the module-level function members is not promised
       ListingDiff(NamesOf(o.funcs), NamesOf(PyFuncs(f)),
                   PyNested(f) \o Concat([i \in DOMAIN PyClasses(f) |-> NamesOf(PyClasses(f)[i].methods)]),
                   "py-func-missing", "py-func-extra", w) \cup
       UNION {ForeignDecos(PyFuncs(f)[i], CHOOSE e \in Range(o.funcs) : e.name = PyFuncs(f)[i].name, w \o PyFuncs(f)[i].name) :
                i \in {x \in DOMAIN PyFuncs(f) : Occ(NamesOf(o.funcs), PyFuncs(f)[x].name) = 1}} \cup
       PyImportDiff(f, o, w)

-----------------------------------------------------------------------------
(* CommonAnalysis: identifier pass + full pass over all files of a directory, containers flattened into one *)
(* list. The list can carry types with their members and methods; Free_CommonFunctions: which functions it  *)
(* shows as entries of their own is not promised (only declared top-level functions, none twice).           *)

InQuant(lang, f) == IF lang = "go" THEN GoInQuant(f) ELSE PyInQuant(f)
TypesOf(lang, f) == IF lang = "go" THEN GoTypes(f) ELSE PyClasses(f)
FuncsOf(lang, f) == IF lang = "go" THEN GoFuncs(f) ELSE PyFuncs(f)

DiffCommon(in, obs) ==
  LET oc == obs.common
      fs == in.files
      allTypes == Concat([i \in DOMAIN fs |-> TypesOf(in.lang, fs[i])])
      allFuncs == Concat([i \in DOMAIN fs |-> FuncsOf(in.lang, fs[i])])
      allNested == IF in.lang = "py" THEN Concat([i \in DOMAIN fs |-> PyNested(fs[i])]) ELSE <<>>
      tnames == Range(NamesOf(allTypes))
      typeEntries == SelectSeq(oc.ds, LAMBDA e : e.name \in tnames)
      otherEntries == SelectSeq(oc.ds, LAMBDA e : e.name \notin tnames)
      inq == /\ \A i \in DOMAIN fs : InQuant(in.lang, fs[i]) /\ (in.lang = "go" => obs.files[i].accepts)
             \* a type name may be declared in several files of the directory (two modules each with a class Meta): each
             \* declaration is listed; what must stay unambiguous is type names against function and nested names
             /\ Distinct(NamesOf(allFuncs) \o allNested)
             /\ Range(NamesOf(allTypes)) \cap (Range(NamesOf(allFuncs)) \cup Range(allNested)) = {}
             /\ \A i \in DOMAIN fs : Distinct(NamesOf(TypesOf(in.lang, fs[i])))
      fileOf(t) == CHOOSE i \in DOMAIN fs : t \in Range(TypesOf(in.lang, fs[i]))
  IN  IF ~inq THEN {}
      ELSE IF oc.panic THEN {Item(IF oc.accepts THEN "panic" ELSE "common-not-listed", "common", {})}
      ELSE LET uniq == SelectSeq(allTypes, LAMBDA t : Occ(NamesOf(allTypes), t.name) = 1)
               multi == {n \in tnames : Occ(NamesOf(allTypes), n) > 1}
               raw == EntriesDiff(uniq, SelectSeq(typeEntries, LAMBDA e : e.name \notin multi), "common-type-missing", "common-type-duplicated",
                                  "common-type-undeclared", "common:",
                                  LAMBDA t, e : IF in.lang = "go" THEN GoTypeDiff(fs[fileOf(t)], t, e, "common:")
                                                ELSE PyClassDiff(t, e, "common:", allNested)) \cup
                      \* a name declared in k files is listed k times
                      {Item("common-type-missing", "common:" \o n, {}) : n \in {x \in multi : Occ(NamesOf(typeEntries), x) < Occ(NamesOf(allTypes), x)}} \cup
                      {Item("common-type-duplicated", "common:" \o n, {}) : n \in {x \in multi : Occ(NamesOf(typeEntries), x) > Occ(NamesOf(allTypes), x)}} \cup
                      {Item("common-entry-undeclared", "common:" \o otherEntries[k].name, {}) :
                         k \in {x \in DOMAIN otherEntries : \/ otherEntries[x].name \notin Range(NamesOf(allFuncs))
                                                            \/ Occ(NamesOf(otherEntries), otherEntries[x].name) > 1}}
           IN  raw

-----------------------------------------------------------------------------
DiffFile(lang, f, o, w) == IF lang = "go" THEN DiffGoFile(f, o, w) ELSE DiffPyFile(f, o, w)

Diff(rec) ==
  LET in == rec.input
      o  == rec.observed
  IN  IF o.panic THEN {Item("panic", "process", {})}
      ELSE UNION {DiffFile(in.lang, in.files[i], o.files[i], "f" \o ToString(i - 1) \o ":") : i \in DOMAIN in.files} \cup
           DiffCommon(in, o)
=============================================================================
