\* symbolic links (to a file, dangling, to a directory), a member called testData that is a directory, a link to one or a
\* plain file, a directory nested in a directory of the same name; the walkers code and java; <= 1 line
SPECIFICATION Spec
CONSTANTS
  Universe <- UniverseLinks
  Walkers = {"code", "java"}
  Roots <- RootsPlain
  Patterns <- PatternsJava
  MaxLines = 1
  PathBase = "relative"
  TestDataTest = "directory"
  DirTest = "isdir"
INVARIANTS X07_Exact X07_Slice Emit
