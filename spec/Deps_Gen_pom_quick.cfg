\* quick, Maven front-end only (pom cases are 3 % of Deps_MC_quick's cases and cost 10 ms to replay, so they get
\* their own enumeration and sample): every pom.xml with <= 3 <dependency> elements over the 8 shapes, 3 surroundings
SPECIFICATION Spec
CONSTANTS
  Repaired = TRUE
  Kinds = {"pom"}
  MaxEntries = 3
  Groups = {"org.a"}
  PomShapes = {1, 2, 3, 4, 5, 6, 7, 8}
  Notations = {"sq"}
  Variants = {"plain"}
  Confs = {"implementation"}
  SurroundLevel = 1
  SrcMax = 0
  ImpMax = 1
  Units = {"class"}
  ExtraImports = {}
INVARIANTS C19_NoPanic C19_ExtractedExact C19_PrefixExact C19_OtherNotationsSkipped C19_UnusedExact Emit
