\* all ordered pairs of files with <= 1 member (315 x 315), no VIEW: every pair is a distinct history
SPECIFICATION Spec
CONSTANTS
  MaxFiles = 2
  MaxMembers = 1
INVARIANTS C12_EntriesExact C12_OwnClass Emit
PROPERTY C07_NoCarryOver
