\* thorough: every model of <= 3 entries (so every iteration order of a 3-key map and entries listed twice), each with
\* <= 1 class-level call and <= 1 function of <= 1 call; callees: the two classes and one class outside the model
SPECIFICATION Spec
CONSTANTS
  MaxDeps = 3
  MaxField = 1
  MaxFns = 1
  MaxCalls = 1
  MaxInner = 0
  Pkgs = {"x"}
  ClassNames = {"y", "Z"}
  CalleePkgs = {"x"}
  CalleeNames = {"y", "Z", "Out"}
  SelfCalls = "skip"
  ClassLevel = "read"
  InnerCalls = "read"
INVARIANTS X06_Exact X06_Once X06_Sorted X06_Tables X06_ExcludeOnce Emit
