\* wide entries: <= 2 entries, each with <= 2 functions of <= 2 calls and <= 2 calls in inner structures, no class-level call
SPECIFICATION Spec
CONSTANTS
  MaxDeps = 2
  MaxField = 0
  MaxFns = 2
  MaxCalls = 2
  MaxInner = 2
  Pkgs = {"x"}
  ClassNames = {"y", "Z"}
  CalleePkgs = {"x"}
  CalleeNames = {"y", "Z"}
  SelfCalls = "skip"
  ClassLevel = "read"
  InnerCalls = "read"
INVARIANTS X06_Exact X06_Once X06_Sorted X06_Tables X06_ExcludeOnce Emit
