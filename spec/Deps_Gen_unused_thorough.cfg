\* thorough, unused report: <= 3 declared dependencies over 3 groups (org.a / org.ab / io.x) in both
\* front-ends with a project reference among them, x <= 2 source files of every type kind (class /
\* interface / enum / annotation) importing <= 2 names out of <group>.Api, <group>.*, an unrelated import
\* and imports that merely contain a group (free zone of the Reference)
SPECIFICATION Spec
CONSTANTS
  Repaired = TRUE
  Kinds = {"pom", "gradle"}
  MaxEntries = 3
  Groups = {"org.a", "org.ab", "io.x"}
  PomShapes = {2}
  Notations = {"sq", "project"}
  Variants = {"plain"}
  Confs = {"implementation"}
  SurroundLevel = 0
  SrcMax = 1
  ImpMax = 2
  Units = {"class", "interface", "enum", "annotation"}
  ExtraImports = {"java.util.List", "com.vendor.org.a.Thing", "org.abc.Other"}
INVARIANTS C19_NoPanic C19_ExtractedExact C19_PrefixExact C19_OtherNotationsSkipped C19_UnusedExact Emit
