\* quick, the 4/5/6 multiplicity family: every body of <= 6 statements over two assertion methods and
\* a helper that asserts (the 5th call may come from the helper)
SPECIFICATION Spec
CONSTANTS
  MaxBody = 6
  Alphabet = {"assertEq", "assertTrue", "helper"}
  AnnoKinds = {"T"}
  HelperKinds = {"assert"}
  PathKinds = {"flatTest"}
  Repaired = TRUE
INVARIANTS C11_FindingsExact C11_OnlyTestFiles C11_FileAttribution C11_LoopBounds Emit
