\* the code as it is on a small tree with the roots whose own path matters and <= 2 lines, among them negated lines that name
\* the root (`!proj`, `!/java`): X07_Sound is violated as well (a negated line that names a directory above the root takes
\* back whatever earlier lines ignored).  Not part of a check.
SPECIFICATION Spec
CONSTANTS
  Universe <- UniverseSmall
  Walkers = {"code", "test"}
  Roots <- RootsShapes
  Patterns <- PatternsRoots
  MaxLines = 2
  PathBase = "spelled"
  TestDataTest = "substring"
  DirTest = "none"
INVARIANTS X07_Complete X07_Sound X07_NoDirectory X07_Once X07_Slice
