\* quick, eval part: one method; every ordered arrangement of <= 3 tokens out of the seven modifiers + @Nullable/@CheckForNull/@Override
\* (821 modifier lists) x return sequences of length <= 2 over {null literal, other, comparison with null}
SPECIFICATION Spec
CONSTANTS
  Part = "eval"
  Repaired = TRUE
  MaxCalls = 0
  Targets = 3
  WithOverload = FALSE
  PreToks = {"public", "private", "protected", "static", "final", "abstract", "synchronized", "@Nullable", "@CheckForNull", "@Override"}
  MaxPre = 3
  RetKinds = {"null", "other", "cmp"}
  MaxRets = 2
  MaxMembers = 1
  WithCtor = FALSE
  MaxPieces = 1
  MaxNames = 1
INVARIANTS C18_CountsConserved C18_CountReference C18_StaticIsPermutationInvariant C18_NullableExactOnce C18_SummaryNumbers C18_NoStaleMethodState C18_ConceptSum Emit
