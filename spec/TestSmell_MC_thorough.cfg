\* thorough: every body of <= 4 statements over 13 symbols (30941 bodies) x 4 helper shapes, @Test, flat layout
SPECIFICATION Spec
CONSTANTS
  MaxBody = 4
  Alphabet = {"print", "printf", "sleep", "assertEq", "assertTrue", "eqAssert", "eqPlain", "helper", "thisHelper", "plain", "nested", "new", "noise"}
  AnnoKinds = {"T"}
  HelperKinds = {"none", "assert", "print", "eq"}
  PathKinds = {"flatTest"}
  Repaired = TRUE
INVARIANTS C11_FindingsExact C11_OnlyTestFiles C11_FileAttribution C11_LoopBounds Emit
