\* thorough, eval part: a class body of <= 2 members (methods alpha/beta incl. overloads, constructors) over {public, static, @Nullable, @Override}
\* in every order of <= 2 tokens, returns <= 2 over {null, other, tern} (about 200 000 class bodies)
SPECIFICATION Spec
CONSTANTS
  Part = "eval"
  Repaired = TRUE
  MaxCalls = 0
  Targets = 3
  WithOverload = FALSE
  PreToks = {"public", "static", "@Nullable", "@Override"}
  MaxPre = 2
  RetKinds = {"null", "other", "tern"}
  MaxRets = 2
  MaxMembers = 2
  WithCtor = TRUE
  MaxPieces = 1
  MaxNames = 1
INVARIANTS C18_CountsConserved C18_CountReference C18_StaticIsPermutationInvariant C18_NullableExactOnce C18_SummaryNumbers C18_NoStaleMethodState C18_ConceptSum Emit
