\* thorough, eval part: a class body of <= 3 members over {public, static, @Nullable, @Override}, returns <= 2 over {null, other, tern}
SPECIFICATION Spec
CONSTANTS
  Part = "eval"
  Repaired = TRUE
  MaxCalls = 0
  Targets = 3
  WithOverload = FALSE
  PreToks = {"public", "static", "@Nullable", "@Override"}
  MaxPre = 2
  RetKinds = {"null", "other", "tern"}
  MaxRets = 2
  MaxMembers = 3
  WithCtor = TRUE
  MaxPieces = 1
  MaxNames = 1
INVARIANTS C18_CountsConserved C18_CountReference C18_StaticIsPermutationInvariant C18_NullableExactOnce C18_SummaryNumbers C18_NoStaleMethodState C18_ConceptSum Emit
