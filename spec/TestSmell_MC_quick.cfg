\* quick: every body of <= 3 statements over 10 evidence symbols (1111 bodies) x 2 helper shapes,
\* @Test, flat *Test.java layout
SPECIFICATION Spec
CONSTANTS
  MaxBody = 3
  Alphabet = {"print", "sleep", "assertEq", "assertTrue", "eqAssert", "eqPlain", "helper", "thisHelper", "plain", "new"}
  AnnoKinds = {"T"}
  HelperKinds = {"none", "assert"}
  PathKinds = {"flatTest"}
  Repaired = TRUE
INVARIANTS C11_FindingsExact C11_OnlyTestFiles C11_FileAttribution C11_LoopBounds Emit
