\* quick: every body of <= 4 statements over 9 evidence symbols (7381 bodies) x 3 helper shapes,
\* @Test, flat *Test.java layout
SPECIFICATION Spec
CONSTANTS
  MaxBody = 4
  Alphabet = {"print", "sleep", "assertEq", "assertTrue", "eqAssert", "eqPlain", "helper", "plain", "new"}
  AnnoKinds = {"T"}
  HelperKinds = {"none", "assert", "print"}
  PathKinds = {"flatTest"}
  Repaired = TRUE
INVARIANTS C11_FindingsExact C11_OnlyTestFiles C11_FileAttribution C11_LoopBounds Emit
