--------------------------- MODULE JavaModelRef ---------------------------
(* Property-level Reference for the Java code model:                                 *)
(*   C01  every declared type / constructor / method appears exactly once            *)
(*   C02  recorded call sites are exactly the invocations written, with positions    *)
(*        selecting the callee identifier and receivers resolved by Java scoping     *)
(*   C07  a file's entries do not depend on other files, order or repetition         *)
(* A record is one process: rec.files (pool of abstract files), rec.facts (what the  *)
(* renderer knows about the text it wrote: path, member lines, call-site positions   *)
(* and the declarations of each receiver name visible at the site), rec.runs (each   *)
(* run = the list of file indices analysed in that order through AnalysisFiles; no   *)
(* runs = one AnalysisPath over the whole directory) and rec.observed[r].ident/full. *)
EXTENDS Naturals, Sequences, FiniteSets, TLC

Range(s) == {s[i] : i \in DOMAIN s}
Bag(s) == [x \in Range(s) |-> Cardinality({i \in DOMAIN s : s[i] = x})]
Item(p, k, w, t) == [prop |-> p, kind |-> k, where |-> w, tags |-> t]

\* non-test, non-ignored .java files; "neartest" = below a directory whose name merely begins like the test root (src/test/java8)
Selected(f) == f.pathKind \in {"main", "maven", "neartest"}
KindName(u) == IF u.kind = "class" THEN "Class" ELSE "Interface"

IsFn(m) == m.kind \in {"ctor", "method"}
FnSig(m, withParams) ==
  [name |-> m.name, ret |-> IF m.kind = "ctor" THEN "" ELSE m.type,
   params |-> IF withParams THEN [k \in DOMAIN m.params |-> [type |-> m.params[k].type, name |-> m.params[k].name]] ELSE <<>>]
ObsSig(fn, withParams) == [name |-> fn.name, ret |-> fn.ret, params |-> IF withParams THEN fn.params ELSE <<>>]

ExpAnnVals(a) == [k \in DOMAIN a.args |-> a.args[k].value]
ExpAnnKeys(a) == [k \in DOMAIN a.args |-> a.args[k].key]
AnnOk(a, o) ==
  /\ o.name = a.name
  /\ [k \in DOMAIN o.kvs |-> o.kvs[k].value] = ExpAnnVals(a)
  /\ a.form = "pairs" => [k \in DOMAIN o.kvs |-> o.kvs[k].key] = ExpAnnKeys(a)     \* Free: the key recorded for a single value
AnnsOk(as, os) == Len(as) = Len(os) /\ \A k \in DOMAIN as : AnnOk(as[k], os[k])

-----------------------------------------------------------------------------
(* C01 *)

DiffType(p, f, facts, t, pass) ==
  LET u == f.unit
      w == pass \o ":" \o f.pkg \o "." \o u.name
      full == pass = "full"
      expF == LET ms == SelectSeq(u.members, IsFn) IN [k \in DOMAIN ms |-> FnSig(ms[k], full)]
      named == SelectSeq(t.fns, LAMBDA fn : fn.name # "")
      obsF == [k \in DOMAIN named |-> ObsSig(named[k], full)]
  IN  (IF t.kind # KindName(u) THEN {Item(p, "wrong-kind", w, {})} ELSE {}) \cup
      \* superclass: the simple name as written or the qualified name Java resolves it to.
      \* Free_C01_InterfaceExtends: what an interface that extends other interfaces records as "superclass".
      (IF (u.kind = "interface" /\ u.impls # <<>>) \/ t.ext \in (IF u.ext = "" THEN {""} ELSE {u.ext, u.extq})
       THEN {} ELSE {Item(p, "wrong-superclass", w, {})}) \cup
      (IF AnnsOk(u.anns, t.anns) THEN {} ELSE {Item(p, "wrong-annotations", w, {})}) \cup
      (IF full /\ t.file # facts.relPath THEN {Item(p, "wrong-path", w, {})} ELSE {}) \cup
      {Item(p, "missing-function", w \o "#" \o s.name, {}) : s \in Range(expF) \ Range(obsF)} \cup
      {Item(p, "undeclared-function", w \o "#" \o s.name, {}) : s \in Range(obsF) \ Range(expF)} \cup
      {Item(p, "duplicated-function", w \o "#" \o s.name, {}) :
          s \in {x \in Range(obsF) \cap Range(expF) : Bag(obsF)[x] # Bag(expF)[x]}}

\* idxs = indices of the files handed to the pass
\* Two compilation units of one tree may declare the same package and type name (two modules of a build, a copied
\* module): each is a declared type and gets its own entry. The entries of such a group are told apart by their source
\* path in the full pass; the identifier pass has no path slot, so there an entry is accepted for a file of the group
\* when it matches that file's declaration.
DiffDecl(p, rec, idxs, o, pass) ==
  IF o.panic THEN {Item(p, "panic", pass, {})}
  ELSE
    LET sel == {i \in idxs : Selected(rec.files[i])}
        same(i, j) == rec.files[j].pkg = rec.files[i].pkg /\ rec.files[j].unit.name = rec.files[i].unit.name
        group(i) == {j \in sel : same(i, j)}
        match(i) == {k \in DOMAIN o.types : o.types[k].pkg = rec.files[i].pkg /\ o.types[k].name = rec.files[i].unit.name}
        byPath(i) == {k \in match(i) : o.types[k].file = rec.facts[i].relPath}
        cand(i) == IF pass = "full" /\ byPath(i) # {} THEN byPath(i) ELSE match(i)
        w(i) == pass \o ":" \o rec.files[i].unit.name
    IN  UNION {IF Cardinality(match(i)) < Cardinality(group(i)) THEN {Item(p, "missing-type", w(i), {})}
               ELSE IF Cardinality(match(i)) > Cardinality(group(i)) THEN {Item(p, "duplicated-type", w(i), {})}
               ELSE IF Cardinality(group(i)) = 1
                    THEN DiffType(p, rec.files[i], rec.facts[i], o.types[CHOOSE k \in match(i) : TRUE], pass)
               ELSE IF \E k \in cand(i) : DiffType(p, rec.files[i], rec.facts[i], o.types[k], pass) = {} THEN {}
               ELSE DiffType(p, rec.files[i], rec.facts[i], o.types[CHOOSE k \in cand(i) : TRUE], pass) : i \in sel} \cup
        {Item(p, "undeclared-type", pass \o ":" \o o.types[k].pkg \o "." \o o.types[k].name, {}) :
            k \in {k \in DOMAIN o.types : \A i \in sel : k \notin match(i)}}

-----------------------------------------------------------------------------
(* C02 *)

\* package a plain simple type name resolves to in file f: an import of that name, else a project class of the same package
Resolve(rec, f, T) ==
  LET imps == SelectSeq(f.imports, LAMBDA im : im.name = T)
  IN  IF imps # <<>> THEN imps[1].pkg
      \* (a processed file that is not part of the identifier set handed to the pass - rec.outsider - is no project class
      \* to the pass: receivers of its type are then among the unresolvable, free ones)
      ELSE IF \E j \in DOMAIN rec.files : j # rec.outsider /\ Selected(rec.files[j]) /\ rec.files[j].unit.name = T /\ rec.files[j].pkg = f.pkg
           THEN f.pkg ELSE ""

\* declared type of the receiver by Java scoping: innermost of local (declared earlier, in scope) / parameter / field (declared earlier)
RecvType(s) == IF s.localT # "" THEN s.localT ELSE IF s.paramT # "" THEN s.paramT ELSE s.fieldT

SiteDiff(p, rec, f, s, c, w) ==
  IF s.kind = "new"
  THEN (IF c.kind = "CreatorClass" /\ c.node = s.callee /\ c.callee = "" THEN {} ELSE {Item(p, "wrong-created-type", w, {})})
  ELSE
    (IF c.callee = s.callee /\ c.kind # "CreatorClass" THEN {} ELSE {Item(p, "wrong-callee", w, {})}) \cup
    \* the position selects precisely the callee identifier (columns counted in characters, or consistently in bytes)
    (IF c.line = s.line /\ (<<c.c0, c.c1>> = <<s.c0, s.c1>> \/ <<c.c0, c.c1>> = <<s.b0, s.b1>>) THEN {}
     ELSE {Item(p, "wrong-position", w, {})}) \cup
    \* Free: receivers inside lambda bodies - except the explicitly typed parameter of the lambda itself, `(T it) -> it.m()`,
    \* which is a declared parameter of a plain type like any other (the renderer reports its type as the innermost local)
    (IF s.inLambda /\ s.lambdaT = "" THEN {}
     ELSE IF s.recvKind = "none"
          THEN (IF c.node = f.unit.name /\ c.pkg = f.pkg THEN {} ELSE {Item(p, "wrong-receiver", w, {})})
     ELSE IF s.recvKind = "var" /\ RecvType(s) # "" /\ Resolve(rec, f, RecvType(s)) # ""
          THEN (IF c.node = RecvType(s) /\ c.pkg = Resolve(rec, f, RecvType(s)) THEN {} ELSE {Item(p, "wrong-receiver", w, {})})
     ELSE {})                                                                      \* Free: this./static/chained/unresolvable receivers

DiffCalls(p, rec, idxs, o) ==
  IF o.panic THEN {}
  ELSE UNION {
    LET f == rec.files[i]
        ts == {k \in DOMAIN o.types : o.types[k].pkg = f.pkg /\ o.types[k].name = f.unit.name}
    IN  IF Cardinality(ts) # 1 \/ f.unit.kind # "class" THEN {}
        ELSE LET t == o.types[CHOOSE k \in ts : TRUE]
             IN UNION {
                  LET m == f.unit.members[j]
                      fns == SelectSeq(t.fns, LAMBDA fn : ObsSig(fn, TRUE) = FnSig(m, TRUE))
                      sites == SelectSeq(rec.facts[i].sites, LAMBDA s : s.fn = j)
                      w == f.unit.name \o "#" \o m.name
                  IN  IF Len(fns) # 1 THEN {}                        \* reported by C01
                      ELSE IF Len(fns[1].calls) # Len(sites)
                           THEN {Item(p, "call-count", w \o " " \o ToString(<<Len(fns[1].calls), Len(sites)>>), {})}
                           ELSE UNION {SiteDiff(p, rec, f, sites[k], fns[1].calls[k], w \o "@" \o ToString(k)) : k \in DOMAIN sites}
                  : j \in {j \in DOMAIN f.unit.members : IsFn(f.unit.members[j])}}
    : i \in {i \in idxs : Selected(rec.files[i])}}

-----------------------------------------------------------------------------
(* C07: reference-free — the slice of a file is the same in every run that contains it *)

Slice(o, f) == {o.types[k] : k \in {k \in DOMAIN o.types : o.types[k].pkg = f.pkg /\ o.types[k].name = f.unit.name}}

DiffRepeat(rec) ==
  LET n == Len(rec.runs)
      has(r, i) == \E k \in DOMAIN rec.runs[r] : rec.runs[r][k] = i
      pairs == {<<i, r1, r2>> \in (DOMAIN rec.files) \X (1..n) \X (1..n) : r1 < r2 /\ has(r1, i) /\ has(r2, i)}
      differs(pass, i, r1, r2) ==
        LET o1 == IF pass = "ident" THEN rec.observed[r1].ident ELSE rec.observed[r1].full
            o2 == IF pass = "ident" THEN rec.observed[r2].ident ELSE rec.observed[r2].full
        IN  ~o1.panic /\ ~o2.panic /\ Slice(o1, rec.files[i]) # Slice(o2, rec.files[i])
  IN  {Item("C07", "file-result-differs", "ident:" \o rec.files[t[1]].unit.name \o " runs " \o ToString(<<t[2], t[3]>>), {}) :
          t \in {t \in pairs : differs("ident", t[1], t[2], t[3])}} \cup
      {Item("C07", "file-result-differs", "full:" \o rec.files[t[1]].unit.name \o " runs " \o ToString(<<t[2], t[3]>>), {}) :
          t \in {t \in pairs : differs("full", t[1], t[2], t[3])}}

Diff(rec) ==
  IF rec.runs = <<>>
  THEN LET all == DOMAIN rec.files
           o == rec.observed[1]
       IN  DiffDecl("C01", rec, all, o.ident, "ident") \cup DiffDecl("C01", rec, all, o.full, "full") \cup
           DiffCalls("C02", rec, all, o.full)
  ELSE UNION {LET idxs == Range(rec.runs[r])
                  o == rec.observed[r]
              IN  DiffDecl("C01", rec, idxs, o.ident, "ident") \cup DiffDecl("C01", rec, idxs, o.full, "full") \cup
                  DiffCalls("C02", rec, idxs, o.full)
              : r \in DOMAIN rec.runs} \cup DiffRepeat(rec)
=============================================================================
