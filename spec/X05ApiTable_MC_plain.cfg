\* the code AS IT IS on conventional input: <= 3 APIs of the model 'plain' (no listed package name occurs inside a name, no comma in a cell): the output is exact without any tag
SPECIFICATION Spec
CONSTANTS
  Cmd = "api"
  ModelPool = "plain"
  UriPool = "ab"
  RemovePool = "plain"
  MaxApis = 3
  RemoveForm = "anywhere"
  CsvForm = "joined"
INVARIANTS X05_OutputExact X05_FilterKeepsOrder X05_SortIsAPermutation X05_OneRowPerApi Emit
