\* quick, front-ends: every pom.xml / build.gradle with <= 2 entries over all <dependency> shapes
\* (8: child orders, optional children, exclusions before/after the coordinates, comments) and all
\* gradle notations (10) x variants (no version / version / "${..}" version / trailing closure /
\* block comment before) x 2 configurations, 3 surroundings each (nested <dependencies> of
\* dependencyManagement / plugins / profiles, buildscript { dependencies }, comments)
SPECIFICATION Spec
CONSTANTS
  Repaired = TRUE
  Kinds = {"pom", "gradle"}
  MaxEntries = 2
  Groups = {"org.a"}
  PomShapes = {1, 2, 3, 4, 5, 6, 7, 8}
  Notations = {"sq", "dq", "psq", "pdq", "project", "pproject", "filetree", "files", "map", "platform"}
  Variants = {"plain", "versioned", "interp", "closure", "commented"}
  Confs = {"implementation", "testCompile"}
  SurroundLevel = 1
  SrcMax = 0
  ImpMax = 2
  Units = {"class"}
  ExtraImports = {}
INVARIANTS C19_NoPanic C19_ExtractedExact C19_PrefixExact C19_OtherNotationsSkipped C19_UnusedExact Emit
