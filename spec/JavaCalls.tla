----------------------------- MODULE JavaCalls -----------------------------
(* Implementation-shaped Machine of the receiver-resolution part of the full pass    *)
(* (ast_java.JavaFullListener + ast_java_target_handler): the package-level tables   *)
(*   imports, mapFields, formalParameters, localVars, currentClz, currentPkg         *)
(* driven by the listener callbacks of a process that analyses several files.        *)
(* The input is chosen incrementally, one callback at a time (AddField, StartMethod, *)
(* LocalDecl, AssignNew, Call ...), and `hist` (hidden by VIEW) is the witness that  *)
(* is emitted for replay on the real code. Ghost variables g* carry what Java        *)
(* scoping says; every recorded call is compared with the Reference immediately.     *)
EXTENDS JavaModelRef, Json

CONSTANTS MaxFiles, MaxMethods, MaxStmts, MaxFields

Names == {"a", "b"}
Types == {"Foo", "BlogFoo", "Bar", "int"}
None == ""
ImportSets == {<<>>, <<[pkg |-> "ext", name |-> "Foo"]>>,
               <<[pkg |-> "other", name |-> "BlogFoo"], [pkg |-> "ext", name |-> "Foo"]>>,
               <<[pkg |-> "other", name |-> "BlogFoo"]>>,
               <<[pkg |-> "ext2", name |-> "Foo"]>>}      \* the same simple name imported from another package
Pkg == "p"
ProjectClasses == <<"p.Bar", "p.K1", "p.K2">>      \* clzs: the identifier set (held fixed)
ClsName(i) == <<"K1", "K2", "K3">>[i]
Empty == [n \in Names |-> None]
NoCall == [has |-> FALSE]

VARIABLES
  imports, mapFields, formals, locals, curClz, curPkg,    \* the listener's registers
  gFields, gParams, gLocals,                               \* ghost: declarations visible by Java scoping
  lastCall,                                                \* the call just recorded: [site, obs] or None
  nfiles, nmethods, nstmts, nfields, inMethod,             \* progress counters of the incremental input
  hist                                                     \* witness: the callbacks so far (hidden by VIEW)

regs == <<imports, mapFields, formals, locals, curClz, curPkg>>
vars == <<imports, mapFields, formals, locals, curClz, curPkg, gFields, gParams, gLocals, lastCall,
          nfiles, nmethods, nstmts, nfields, inMethod, hist>>
View == <<imports, mapFields, formals, locals, curClz, curPkg, gFields, gParams, gLocals, lastCall,
          nfiles, nmethods, nstmts, nfields, inMethod>>

Init ==
  /\ imports = <<>> /\ mapFields = Empty /\ formals = Empty /\ locals = Empty /\ curClz = "" /\ curPkg = ""
  /\ gFields = Empty /\ gParams = Empty /\ gLocals = Empty /\ lastCall = NoCall
  /\ nfiles = 0 /\ nmethods = 0 /\ nstmts = 0 /\ nfields = 0 /\ inMethod = FALSE /\ hist = <<>>

Ev(r) == hist' = Append(hist, r)

\* NewJavaFullListener + package/import/class callbacks of the next file
StartFile ==
  /\ ~inMethod /\ nfiles < MaxFiles
  /\ \E is \in ImportSets :
       /\ imports' = is                                \* imports = nil, then one EnterImportDeclaration each
       /\ Ev([e |-> "file", imports |-> is, cls |-> ClsName(nfiles + 1)])
  /\ mapFields' = Empty /\ formals' = Empty /\ locals' = Empty      \* fix c517924: tables reset per file
  /\ curPkg' = Pkg /\ curClz' = ClsName(nfiles + 1)
  /\ gFields' = Empty /\ gParams' = Empty /\ gLocals' = Empty
  /\ nfiles' = nfiles + 1 /\ nmethods' = 0 /\ nfields' = 0 /\ nstmts' = 0 /\ lastCall' = NoCall
  /\ UNCHANGED inMethod

\* EnterFieldDeclaration (primitive types have no class-type context: no entry)
AddField ==
  /\ nfiles > 0 /\ ~inMethod /\ nfields < MaxFields
  /\ \E n \in Names, t \in Types :
       /\ mapFields' = IF t = "int" THEN mapFields ELSE [mapFields EXCEPT ![n] = t]
       /\ gFields' = [gFields EXCEPT ![n] = t]
       /\ Ev([e |-> "field", name |-> n, type |-> t])
  /\ nfields' = nfields + 1 /\ lastCall' = NoCall
  /\ UNCHANGED <<imports, formals, locals, curClz, curPkg, gParams, gLocals, nfiles, nmethods, nstmts, inMethod>>

\* EnterMethodDeclaration: resetMethodScope, BuildMethodParameters (-> localVars), EnterFormalParameter (-> formalParameters)
StartMethod ==
  /\ nfiles > 0 /\ ~inMethod /\ nmethods < MaxMethods
  /\ \E ps \in {<<>>} \cup {<<[name |-> n, type |-> t]>> : n \in Names, t \in Types} :
       LET tab == [n \in Names |-> IF ps # <<>> /\ ps[1].name = n THEN ps[1].type ELSE None]
       IN  /\ formals' = tab /\ locals' = tab
           /\ gParams' = tab /\ gLocals' = Empty
           /\ Ev([e |-> "method", params |-> ps])
  /\ inMethod' = TRUE /\ nmethods' = nmethods + 1 /\ nstmts' = 0 /\ lastCall' = NoCall
  /\ UNCHANGED <<imports, mapFields, curClz, curPkg, gFields, nfiles, nfields>>

EndMethod ==
  /\ inMethod /\ inMethod' = FALSE /\ lastCall' = NoCall
  /\ Ev([e |-> "endmethod"])
  /\ UNCHANGED <<imports, mapFields, formals, locals, curClz, curPkg, gFields, gParams, gLocals, nfiles, nmethods, nstmts, nfields>>

\* EnterLocalVariableDeclaration:  T n;   (Java forbids redeclaring a visible local or parameter)
LocalDecl ==
  /\ inMethod /\ nstmts < MaxStmts
  /\ \E n \in Names, t \in Types :
       /\ gLocals[n] = None /\ gParams[n] = None
       /\ locals' = [locals EXCEPT ![n] = t]
       /\ gLocals' = [gLocals EXCEPT ![n] = t]
       /\ Ev([e |-> "decl", name |-> n, type |-> t])
  /\ nstmts' = nstmts + 1 /\ lastCall' = NoCall
  /\ UNCHANGED <<imports, mapFields, formals, curClz, curPkg, gFields, gParams, nfiles, nmethods, nfields, inMethod>>

\* EnterCreator for  n = new T();   types a name only if it has no declaration of its own (fix fc2daa8)
AssignNew ==
  /\ inMethod /\ nstmts < MaxStmts
  /\ \E n \in Names, t \in {"Foo", "Bar"} :
       /\ gLocals[n] # None \/ gParams[n] # None \/ gFields[n] # None        \* Java: the target is declared
       /\ locals' = IF locals[n] = None /\ formals[n] = None /\ mapFields[n] = None
                    THEN [locals EXCEPT ![n] = t] ELSE locals
       /\ Ev([e |-> "assign", name |-> n, type |-> t])
  /\ nstmts' = nstmts + 1 /\ lastCall' = NoCall
  /\ UNCHANGED <<imports, mapFields, formals, curClz, curPkg, gFields, gParams, gLocals, nfiles, nmethods, nfields, inMethod>>

\* WarpTargetFullType: self, import by simple name (fix 9d5217c), project class by simple name, same package
FullType(T) ==
  LET imps == SelectSeq(imports, LAMBDA im : im.name = T)
      prj  == SelectSeq(ProjectClasses, LAMBDA c : c = "p." \o T)
  IN  IF T = curClz THEN curPkg \o "." \o T
      ELSE IF imps # <<>> THEN imps[1].pkg \o "." \o T
      ELSE IF prj # <<>> THEN prj[1]
      ELSE ""
PkgOfFull(full, T) == SubSeq(full, 1, Len(full) - Len(T) - 1)

\* EnterMethodCall for  n.m();   ParseTargetType: local, then parameter, then field (fix ccad867)
Call ==
  /\ inMethod /\ nstmts < MaxStmts
  /\ \E n \in Names :
       /\ gLocals[n] # None \/ gParams[n] # None \/ gFields[n] # None        \* Java: the receiver is declared
       /\ LET T == IF locals[n] # None THEN locals[n] ELSE IF formals[n] # None THEN formals[n]
                   ELSE IF mapFields[n] # None THEN mapFields[n] ELSE n
              full == FullType(T)
              obs == [callee |-> "m", kind |-> "", line |-> 0, c0 |-> 0, c1 |-> 0,
                      node |-> T, pkg |-> IF full # "" THEN PkgOfFull(full, T) ELSE curPkg]
              site == [kind |-> "call", callee |-> "m", line |-> 0, c0 |-> 0, c1 |-> 0, b0 |-> 0, b1 |-> 0,
                       recvKind |-> "var", recv |-> n, inLambda |-> FALSE,
                       localT |-> gLocals[n], paramT |-> gParams[n], fieldT |-> gFields[n]]
          IN  lastCall' = [has |-> TRUE, site |-> site, obs |-> obs]
       /\ Ev([e |-> "call", recv |-> n])
  /\ nstmts' = nstmts + 1
  /\ UNCHANGED <<imports, mapFields, formals, locals, curClz, curPkg, gFields, gParams, gLocals, nfiles, nmethods, nfields, inMethod>>

\* EnterMethodCall for an unqualified  m();   recorded against the enclosing class
UnqCall ==
  /\ inMethod /\ nstmts < MaxStmts
  /\ LET obs == [callee |-> "m", kind |-> "", line |-> 0, c0 |-> 0, c1 |-> 0, node |-> curClz, pkg |-> curPkg]
         site == [kind |-> "call", callee |-> "m", line |-> 0, c0 |-> 0, c1 |-> 0, b0 |-> 0, b1 |-> 0,
                  recvKind |-> "none", recv |-> "", inLambda |-> FALSE, localT |-> "", paramT |-> "", fieldT |-> ""]
     IN  lastCall' = [has |-> TRUE, site |-> site, obs |-> obs]
  /\ Ev([e |-> "unq"])
  /\ nstmts' = nstmts + 1
  /\ UNCHANGED <<imports, mapFields, formals, locals, curClz, curPkg, gFields, gParams, gLocals, nfiles, nmethods, nfields, inMethod>>

Finished == ~inMethod /\ nfiles = MaxFiles /\ nmethods = MaxMethods
Done == Finished /\ UNCHANGED vars

Next == StartFile \/ AddField \/ StartMethod \/ EndMethod \/ LocalDecl \/ AssignNew \/ Call \/ UnqCall \/ Done
Spec == Init /\ [][Next]_vars

-----------------------------------------------------------------------------
\* the abstract file the Reference needs for type resolution: the current file's imports + the project
RefFile == [pkg |-> Pkg, imports |-> imports, unit |-> [name |-> curClz], pathKind |-> "main"]
RefRec == [files |-> <<RefFile, [pkg |-> Pkg, imports |-> <<>>, unit |-> [name |-> "Bar"], pathKind |-> "main"]>>, outsider |-> 0]

\* every recorded call carries the receiver type Java scoping gives it (same operator that judges the real code)
C02_ReceiverResolved ==
  lastCall.has => SiteDiff("C02", RefRec, RefFile, lastCall.site, lastCall.obs, "machine") = {}

\* nothing a method or file wrote is readable by the next one
C07_ScopeReset ==
  [][/\ (nfiles' = nfiles + 1 => mapFields' = Empty /\ formals' = Empty /\ locals' = Empty /\ imports' \in ImportSets)
     /\ (nmethods' = nmethods + 1 => \A n \in Names : formals'[n] = gParams'[n] /\ locals'[n] = gParams'[n])]_vars

\* every distinct (registers, ghost, call) state is emitted with the callback history that reaches it
Emit == lastCall.has => PrintT(<<"CASE", ToJson([events |-> hist])>>)
=============================================================================
