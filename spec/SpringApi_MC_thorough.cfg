\* every abstract file with <= 2 members (3 x 5 x 421 = 6315 files) as first and as second file of a process
SPECIFICATION Spec
CONSTANTS
  MaxFiles = 2
  MaxMembers = 2
VIEW View
INVARIANTS C12_EntriesExact C12_OwnClass Emit
PROPERTY C07_NoCarryOver
