\* both repairs (proposed_fixes/X04-1.patch, X04-2.patch): the result is exact, no tag needed; transactions with repeated items over a universe that contains "STOP"
SPECIFICATION Spec
CONSTANTS
  ItemPool = "stopab"
  MaxTx = 3
  MinTxLen = 0
  MaxTxLen = 2
  Ascending = FALSE
  Mode = "miner"
  OptPool = "four"
  IndexForm = "transactions"
  Sentinel = "outofband"
INVARIANTS X04_ResultExact X04_CandidatesComplete X04_NoFrequentSetLost X04_CandidateShape X04_IndexTable
