\* two files (one with blanks in its path), quick: <= 2 commits, <= 2 lines each
SPECIFICATION Spec
CONSTANTS
  MaxCommits = 2
  MaxLines = 2
  MaxNew = 2
  FilePoolName = "two"
  Kinds = {"code", "todo"}
  Moves = FALSE
  RangeEnd = "line"
  PrettyArg = "plain"
INVARIANTS X09_Details X09_LogLine X09_WalkIsStamp X09_OpenIsTag X09_SameTree Emit
