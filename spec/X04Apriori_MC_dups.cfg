\* thorough: every list of <= 3 transactions of <= 3 items with repetition and order over 3 items, 4 option settings: 262 564 inputs
SPECIFICATION Spec
CONSTANTS
  ItemPool = "abc"
  MaxTx = 3
  MinTxLen = 0
  MaxTxLen = 3
  Ascending = FALSE
  Mode = "miner"
  OptPool = "four"
  IndexForm = "occurrences"
  Sentinel = "inband"
INVARIANTS X04_ResultExactOrTagged X04_CandidatesComplete X04_NoFrequentSetLost X04_CandidateShape X04_IndexTable Emit
