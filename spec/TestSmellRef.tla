--------------------------- MODULE TestSmellRef ---------------------------
(* Property-level Reference for the test-smell report (C11), written from the        *)
(* property statement.  Pure operators over one trace record                         *)
(*   rec.input    : [layout, via, style, files : Seq(File), extras : Seq([dirs, name])]*)
(*     File   = [dirs : Seq(String), name, pkg, cls, imports, classAnnos, fields, methods : Seq(Method)] *)
(*     Method = [name, annos : Seq([name, arg]), body : Seq(Stmt)]                    *)
(*     Stmt   = [noise : BOOLEAN, call : Call, wrap, join]   (noise: no invocation)   *)
(*     Call   = [recv, f, new : BOOLEAN, args : Seq(Arg)]                             *)
(*     Arg    = [lit, call : Seq(Call) of length 0 or 1]   (an argument is a literal  *)
(*              text or one nested invocation; equal records <=> identical text)      *)
(*   rec.facts    : [files : Seq([path, methods : Seq([first, last, lines : Seq(Nat)])])]*)
(*                  what the renderer wrote where: span of every method, line of      *)
(*                  every statement                                                   *)
(*   rec.observed : [panic, timeout, findings : Seq([file, type, line]),              *)
(*                   nums, hasTable, table : Seq([file, type, line])]                 *)
(* Diff(rec) = set of discrepancies, {} iff the observation satisfies C11.            *)
EXTENDS Integers, Sequences, FiniteSets, TLC

Range(s) == {s[i] : i \in DOMAIN s}
Max2(a, b) == IF a > b THEN a ELSE b

RECURSIVE SumTo(_, _)            \* sum of g[1..n] for a function g
SumTo(g, n) == IF n = 0 THEN 0 ELSE g[n] + SumTo(g, n - 1)

-----------------------------------------------------------------------------
(* which files are test files: names *Test.java / *Tests.java or under src/test/java/ *)

HasSuffix(s, suf) == Len(s) >= Len(suf) /\ SubSeq(s, Len(s) - Len(suf) + 1, Len(s)) = suf
HasPrefix(s, pre) == Len(s) >= Len(pre) /\ SubSeq(s, 1, Len(pre)) = pre

RECURSIVE JoinPath(_, _)
JoinPath(dirs, name) == IF dirs = <<>> THEN name ELSE dirs[1] \o "/" \o JoinPath(Tail(dirs), name)
Path(f) == JoinPath(f.dirs, f.name)

UnderTestRoot(dirs) ==
  \E i \in 1..(Len(dirs) - 2) : dirs[i] = "src" /\ dirs[i + 1] = "test" /\ dirs[i + 2] = "java"

IsTestFile(f) ==
  HasSuffix(f.name, ".java") /\
  (HasSuffix(f.name, "Test.java") \/ HasSuffix(f.name, "Tests.java") \/ UnderTestRoot(f.dirs))

-----------------------------------------------------------------------------
(* the evidence patterns, as predicates over one invocation *)

IsPrint(c)  == ~c.new /\ c.recv = "System.out" /\ c.f \in {"print", "println", "printf"}
IsSleep(c)  == ~c.new /\ c.recv = "Thread" /\ c.f = "sleep"
IsTwoEqualArgs(c) == Len(c.args) = 2 /\ c.args[1] = c.args[2]

\* Which invocations are assertions.  The statement does not define the word; the
\* Reference is definite only on an unambiguous vocabulary: JUnit-style assert*/verify*
\* are assertions, the names below are not; any other name is free (Free_AssertionName).
NotAssertionNames ==
  {"add", "compute", "run", "Show", "size", "max", "load", "get", "equals", "println", "print", "printf",
   "sleep", "yield", "currentThread", "flush", "format", "same", "put", "close", "helper", "deep",
   "prepare", "doWork", "fill", "setUpData", "cleanUp", "makeFixture"}
AssertionStatus(c) ==
  IF c.new THEN "no"
  ELSE IF HasPrefix(c.f, "assert") \/ HasPrefix(c.f, "verify") THEN "yes"
  ELSE IF c.f \in NotAssertionNames THEN "no"
  ELSE "free"

\* every invocation written in a call expression, outermost first
RECURSIVE FlatCall(_), FlatArgs(_, _)
FlatCall(c) == <<c>> \o FlatArgs(c.args, 1)
FlatArgs(as, i) ==
  IF i > Len(as) THEN <<>>
  ELSE (IF as[i].call = <<>> THEN <<>> ELSE FlatCall(as[i].call[1])) \o FlatArgs(as, i + 1)

\* the invocations of a method body with the line each is written on: Seq([c, line])
RECURSIVE BodyCalls(_, _, _)
BodyCalls(body, lines, i) ==
  IF i > Len(body) THEN <<>>
  ELSE (IF body[i].noise THEN <<>>
        ELSE LET fc == FlatCall(body[i].call)
             IN  [k \in DOMAIN fc |-> [c |-> fc[k], line |-> lines[i]]])
       \o BodyCalls(body, lines, i + 1)

AnnoNames(m) == {m.annos[i].name : i \in DOMAIN m.annos}
IsTestMethod(m) == AnnoNames(m) \cap {"Test", "Ignore"} # {}

\* an invocation of a method declared in the same class: unqualified, or qualified by `this`
HelperTargets(f, c) ==
  IF c.new \/ c.recv \notin {"", "this"} THEN {} ELSE {j \in DOMAIN f.methods : f.methods[j].name = c.f}

Cnt(s, P(_)) == Cardinality({k \in DOMAIN s : P(s[k])})

-----------------------------------------------------------------------------
(* what the statement demands of one method: for every smell kind a range [lo, hi] of  *)
(* the number of findings, plus the lines of the print / sleep findings                *)

R(lo, hi) == [lo |-> lo, hi |-> hi]
Big == 999

MethodDemand(f, ff, t) ==
  LET m   == f.methods[t]
      D(j) == BodyCalls(f.methods[j].body, ff.methods[j].lines, 1)
      d   == D(t)                                    \* invocations written in the body
      RECURSIVE Inline(_)
      Inline(k) == IF k > Len(d) THEN <<>>
                   ELSE (LET hs == HelperTargets(f, d[k].c)
                         IN  IF hs = {} THEN <<>> ELSE D(CHOOSE j \in hs : TRUE)) \o Inline(k + 1)
      h   == Inline(1)                               \* invocations reached through one helper step
      all == d \o h
      \* Free_DeepHelper: a helper that itself calls a helper - the statement says "through a helper",
      \* not whether that is transitive; everything such a chain could contribute is optional
      deep == \E k \in DOMAIN h : HelperTargets(f, h[k].c) # {}
      nCalls == Cnt(d, LAMBDA e : ~e.c.new)
      nNews  == Cnt(d, LAMBDA e : e.c.new)
      names == AnnoNames(m)
      ign == IF "Ignore" \in names THEN 1 ELSE 0
      \* EmptyTest: "its body makes no call".  Free_CreationIsCall: whether `new T()` alone is a call
      empty == IF nCalls = 0 /\ nNews = 0 THEN R(1, 1)
               ELSE IF nCalls = 0 THEN R(0, 1)
               ELSE R(0, 0)
      \* Print / Sleep: one per such call written in the test method; Free_SmellInHelper: the same
      \* patterns inside an invoked helper may or may not be reported (the statement names the helper
      \* route only for assertions)
      pr  == SelectSeq(d, LAMBDA e : IsPrint(e.c))
      prH == SelectSeq(h, LAMBDA e : IsPrint(e.c))
      sl  == SelectSeq(d, LAMBDA e : IsSleep(e.c))
      slH == SelectSeq(h, LAMBDA e : IsSleep(e.c))
      \* RedundantAssertionTest: each two-argument call with identical arguments;
      \* Free_CreationIsCall again for `new T(a, a)`
      redLo == Cnt(d, LAMBDA e : ~e.c.new /\ IsTwoEqualArgs(e.c))
      redHi == redLo + Cnt(d, LAMBDA e : e.c.new /\ IsTwoEqualArgs(e.c)) + Cnt(h, LAMBDA e : IsTwoEqualArgs(e.c))
               + (IF deep THEN Big ELSE 0)
      \* UnknownTest: makes calls but none is an assertion, directly or through a helper
      anyYes  == \E k \in DOMAIN all : AssertionStatus(all[k].c) = "yes"
      anyFree == \E k \in DOMAIN all : AssertionStatus(all[k].c) = "free"
      unk == IF nCalls = 0 /\ nNews = 0 THEN R(0, 0)
             ELSE IF nCalls = 0 THEN R(0, 1)
             ELSE IF anyYes THEN R(0, 0)
             ELSE IF anyFree \/ deep THEN R(0, 1)
             ELSE R(1, 1)
      \* DuplicateAssertTest: one assertion method called at least 5 times.  Demanded when 5 written
      \* calls agree in receiver, name and arity; excluded when no possibly-assertion NAME occurs 5 times
      \* even counting helper bodies; in between (overloads, mixed qualification, helper bodies,
      \* Free_AssertionName) it is free
      same(a, b) == a.recv = b.recv /\ a.f = b.f /\ Len(a.args) = Len(b.args)
      dupMust == \E k \in DOMAIN d : AssertionStatus(d[k].c) = "yes" /\
                     Cnt(d, LAMBDA e : ~e.c.new /\ same(e.c, d[k].c)) >= 5
      dupMay  == deep \/ \E k \in DOMAIN all : AssertionStatus(all[k].c) # "no" /\
                     Cnt(all, LAMBDA e : ~e.c.new /\ e.c.f = all[k].c.f) >= 5
      dup == IF dupMust THEN R(1, 1) ELSE IF dupMay THEN R(0, 1) ELSE R(0, 0)
      zero == R(0, 0)
  IN  IF ~IsTestMethod(m)
      THEN [test |-> FALSE, IgnoreTest |-> zero, EmptyTest |-> zero, RedundantAssertionTest |-> zero,
            UnknownTest |-> zero, DuplicateAssertTest |-> zero,
            print |-> <<>>, printOpt |-> <<>>, sleep |-> <<>>, sleepOpt |-> <<>>, deep |-> FALSE,
            singleCall |-> FALSE, ignoreOnlyEmpty |-> FALSE, newsOnly |-> FALSE]
      ELSE [test |-> TRUE, IgnoreTest |-> R(ign, ign), EmptyTest |-> empty,
            RedundantAssertionTest |-> R(redLo, redHi), UnknownTest |-> unk, DuplicateAssertTest |-> dup,
            print |-> [k \in DOMAIN pr |-> pr[k].line], printOpt |-> [k \in DOMAIN prH |-> prH[k].line],
            sleep |-> [k \in DOMAIN sl |-> sl[k].line], sleepOpt |-> [k \in DOMAIN slH |-> slH[k].line],
            deep |-> deep,
            \* the two listed known-finding shapes (see Tags below)
            singleCall |-> ("Test" \in names /\ nCalls = 1 /\ nNews = 0 /\ h = <<>>),
            ignoreOnlyEmpty |-> ("Test" \notin names /\ "Ignore" \in names /\ nCalls = 0 /\ nNews = 0),
            \* Free_CreationIsCall leaves two readings of a body made of creations only, and each demands a finding:
            \* a creation is a call -> UnknownTest (calls, none an assertion); it is not -> EmptyTest (no call at all)
            newsOnly |-> (nCalls = 0 /\ nNews > 0)]

SpanTypes == {"IgnoreTest", "EmptyTest", "RedundantAssertionTest", "UnknownTest", "DuplicateAssertTest"}
LineTypes == {"RedundantPrintTest", "SleepyTest"}
AllTypes == SpanTypes \cup LineTypes

-----------------------------------------------------------------------------
Item(k, w, t) == [prop |-> "C11", kind |-> k, where |-> w, tags |-> t]

\* Known findings (defects of the code that the repository's own tests pin, so they cannot be
\* repaired without editing that suite); narrow labels computed from the input shape:
\*  tbs.emptytest.single-call : an EmptyTest finding for a @Test method whose body makes exactly one
\*      call (no creation, no inlined helper call)             - pinned by TestTbsApp_UnknownTest
\*  tbs.emptytest.ignore-only : no EmptyTest finding for a method annotated @Ignore only (no @Test)
\*      whose body makes no call                                - pinned by TestTbsApp_IgnoreTest
TagsSpurious(dm, T, extra) ==
  IF T = "EmptyTest" /\ dm.singleCall /\ extra = 1 THEN {"tbs.emptytest.single-call"} ELSE {}
TagsMissing(dm, T, short) ==
  IF T = "EmptyTest" /\ dm.ignoreOnlyEmpty /\ short = 1 THEN {"tbs.emptytest.ignore-only"} ELSE {}

\* Findings of the span kinds carry a line the statement does not fix (Free_LineOfSpanKinds): a
\* finding whose line lies inside a method's rendered span counts for that method, any other line
\* (the code uses 0 for IgnoreTest) counts for whichever method still lacks one.
DiffSpanType(f, ff, dem, obsF, T) ==
  LET n == Len(f.methods)
      ls == SelectSeq(obsF, LAMBDA o : o.type = T)
      inSpan(t, ln) == ff.methods[t].first <= ln /\ ln <= ff.methods[t].last
      a == [t \in 1..n |-> Cardinality({k \in DOMAIN ls : inSpan(t, ls[k].line)})]
      u == Cardinality({k \in DOMAIN ls : \A t \in 1..n : ~inSpan(t, ls[k].line)})
      deficit == SumTo([t \in 1..n |-> Max2(0, dem[t][T].lo - a[t])], n)
      spare   == SumTo([t \in 1..n |-> Max2(0, dem[t][T].hi - a[t])], n)
      w(t) == Path(f) \o ":" \o f.methods[t].name \o ":" \o T
  IN  {Item("spurious-finding", w(t), TagsSpurious(dem[t], T, a[t] - dem[t][T].hi)) :
          t \in {x \in 1..n : a[x] > dem[x][T].hi}} \cup
      (IF u < deficit
       THEN {Item("missing-finding", w(t), TagsMissing(dem[t], T, dem[t][T].lo - a[t])) :
               t \in {x \in 1..n : a[x] < dem[x][T].lo}}
       ELSE {}) \cup
      (IF u > spare THEN {Item("spurious-finding", Path(f) \o ":(no method at that line):" \o T, {})} ELSE {})

\* RedundantPrintTest / SleepyTest are demanded "at that call's line": per line of the file, the
\* number of findings lies between the calls written in test methods and those plus the ones in
\* invoked helper bodies
DiffLineType(f, dem, obsF, T) ==
  LET n == Len(f.methods)
      req(t) == IF T = "RedundantPrintTest" THEN dem[t].print ELSE dem[t].sleep
      opt(t) == IF T = "RedundantPrintTest" THEN dem[t].printOpt ELSE dem[t].sleepOpt
      ls == SelectSeq(obsF, LAMBDA o : o.type = T)
      lines == {ls[k].line : k \in DOMAIN ls} \cup UNION {Range(req(t)) : t \in 1..n}
      O(ln) == Cardinality({k \in DOMAIN ls : ls[k].line = ln})
      Rq(ln) == SumTo([t \in 1..n |-> Cardinality({k \in DOMAIN req(t) : req(t)[k] = ln})], n)
      Op(ln) == SumTo([t \in 1..n |-> Cardinality({k \in DOMAIN opt(t) : opt(t)[k] = ln})], n)
      anyDeep == \E t \in 1..n : dem[t].deep
      w(ln) == Path(f) \o ":" \o ToString(ln) \o ":" \o T
  IN  {Item("missing-finding", w(ln), {}) : ln \in {x \in lines : O(x) < Rq(x)}} \cup
      {Item("spurious-finding", w(ln), {}) : ln \in {x \in lines : O(x) > Rq(x) + Op(x) /\ ~anyDeep}}

DiffFile(f, ff, obs) ==
  LET obsF == SelectSeq(obs, LAMBDA o : o.file = Path(f))
      dem == [t \in DOMAIN f.methods |-> MethodDemand(f, ff, t)]
  IN  IF ~IsTestFile(f)
      \* "files that are not test files never produce a finding"
      THEN (IF obsF = <<>> THEN {} ELSE {Item("finding-in-non-test-file", Path(f), {})})
      ELSE UNION {DiffSpanType(f, ff, dem, obsF, T) : T \in SpanTypes} \cup
           UNION {DiffLineType(f, dem, obsF, T) : T \in LineTypes} \cup
           \* a test whose body only creates objects gets EmptyTest or UnknownTest (whichever reading of "call" is taken)
           LET n == Len(f.methods)
               inSpan(t, ln) == ff.methods[t].first <= ln /\ ln <= ff.methods[t].last
               eu == SelectSeq(obsF, LAMBDA o : o.type \in {"EmptyTest", "UnknownTest"})
               served(t) == \E k \in DOMAIN eu : inSpan(t, eu[k].line) \/ \A x \in 1..n : ~inSpan(x, eu[k].line)
           IN  {Item("missing-finding", Path(f) \o ":" \o f.methods[t].name \o ":EmptyTest-or-UnknownTest", {}) :
                  t \in {x \in 1..n : dem[x].test /\ dem[x].newsOnly /\ ~served(x)}}

Bag(s) == [x \in Range(s) |-> Cardinality({i \in DOMAIN s : s[i] = x})]

Diff(rec) ==
  LET in == rec.input
      o  == rec.observed
      paths == {Path(in.files[i]) : i \in DOMAIN in.files}
  IN  IF o.panic THEN {Item("panic", "", {})}
      ELSE IF o.timeout THEN {Item("no-termination", "", {})}
      ELSE
        UNION {DiffFile(in.files[i], rec.facts.files[i], o.findings) : i \in DOMAIN in.files} \cup
        \* "every finding names the file it was found in": a file name that is no class of the tree
        {Item("finding-names-no-file-of-the-tree", o.findings[k].file, {}) :
            k \in {x \in DOMAIN o.findings : o.findings[x].file \notin paths}} \cup
        {Item("unknown-finding-type", o.findings[k].type, {}) :
            k \in {x \in DOMAIN o.findings : o.findings[x].type \notin AllTypes}} \cup
        \* the command line: the printed number and the table agree with coca_reporter/tbs.json
        (IF in.via = "cli" /\ o.nums # Len(o.findings) THEN {Item("cli-count-differs", ToString(o.nums), {})} ELSE {}) \cup
        (IF in.via = "cli" /\ o.hasTable /\ Bag(o.table) # Bag(o.findings) THEN {Item("cli-table-differs", "", {})} ELSE {}) \cup
        (IF in.via = "cli" /\ ~o.hasTable /\ Len(o.findings) <= 20 /\ Len(o.findings) > 0
         THEN {Item("cli-table-missing", "", {})} ELSE {})
=============================================================================
