--------------------------- MODULE X09TodoGit_Trace ---------------------------
(* Trace validation: every line of trace.ndjson is one history built with real git in a      *)
(* scratch repository, on which the real todo.TodoApp (AnalysisPath, BuildWithGitHistory,    *)
(* shell.RunGitGetLog) ran in a fresh process inside that repository, or the coca binary     *)
(* ran `coca todo -g`; Diff (X09TodoGitRef) is the oracle.  Never blocks: each discrepancy   *)
(* is printed and the rest of the trace is still checked.                                    *)
EXTENDS X09TodoGitRef, Json
VARIABLE l
Trace == ndJsonDeserialize("trace.ndjson")
Init == l = 1
Step == /\ l <= Len(Trace)
        /\ LET d == Diff(Trace[l])
           IN  IF d = {} THEN TRUE ELSE PrintT(<<"DIFF", l, ToJson(d)>>)
        /\ l' = l + 1
Spec == Init /\ [][Step]_l
Accepted == TLCGet("stats").diameter - 1 = Len(Trace)
=============================================================================
