-------------------------- MODULE X10Session_Trace --------------------------
(* Trace validation: every line of trace.ndjson is one command session executed by the    *)
(* REAL commands (the coca binary, one process per step, or the root command of package   *)
(* cmd serving the whole run in one process) in a fresh working directory, together with  *)
(* the run of every step's slice in its own fresh directory; Diff (X10SessionRef) is the  *)
(* oracle.  Never blocks: each discrepancy is printed and the rest is still checked.      *)
EXTENDS X10SessionRef, Json
VARIABLE l
Trace == ndJsonDeserialize("trace.ndjson")
Init == l = 1
Step == /\ l <= Len(Trace)
        /\ LET d == Diff(Trace[l])
           IN  IF d = {} THEN TRUE ELSE PrintT(<<"DIFF", l, ToJson(d)>>)
        /\ l' = l + 1
Spec == Init /\ [][Step]_l
Accepted == TLCGet("stats").diameter - 1 = Len(Trace)
=============================================================================
