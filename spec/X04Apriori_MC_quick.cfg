\* quick: the code AS IT IS; every list of <= 3 transactions of <= 2 items (repetition allowed, any order, empty transactions included) over 3 items, 3 option settings.  Discrepancies must carry a tag of a listed defect shape.
SPECIFICATION Spec
CONSTANTS
  ItemPool = "abc"
  MaxTx = 3
  MinTxLen = 0
  MaxTxLen = 2
  Ascending = FALSE
  Mode = "miner"
  OptPool = "quick"
  IndexForm = "occurrences"
  Sentinel = "inband"
INVARIANTS X04_ResultExactOrTagged X04_CandidatesComplete X04_NoFrequentSetLost X04_CandidateShape X04_IndexTable Emit
