------------------------------ MODULE BadSmell ------------------------------
(* Implementation-shaped Machine of coca's bad-smell pipeline (C10):                 *)
(*   bs.BadSmellApp.AnalysisPath        loop over the Java files of a directory      *)
(*   bs_java.BadSmellListener           package-level registers, one callback per    *)
(*                                      class / method; buildMethodBSInfo +          *)
(*                                      countMethodIfSwitch over the top-level       *)
(*                                      statements of a method body                  *)
(*   bs.AnalysisBadSmell                the check* functions, one per smell          *)
(*   bs_domain.FilterBadSmellList       the ignore option                            *)
(*   bs_domain.SortSmellByType + cmd.isSmellHaveSize (string_helper.                 *)
(*                                      StringArrayContains) the `-s type` option    *)
(* One action per callback / loop body, variables named after the real registers.    *)
(* The input (files, then the ignore list and the sort flag) is chosen incrementally *)
(* by the action that first reads it. The Machine's report is judged by the same     *)
(* Reference (BadSmellRef!Diff) that judges the real code in BadSmell_Trace.         *)
(*                                                                                   *)
(* Repaired = TRUE models the code with proposed_fixes/C10-1..3 applied:             *)
(*   C10-1 StringArrayContains is a linear search (was: binary search over the       *)
(*         unsorted literal list of isSmellHaveSize - true for "largeClass" only)    *)
(*   C10-2 a variable-arity last parameter is counted as a parameter                 *)
(*   C10-3 bodies of interface (default/static) methods are scanned for if / switch  *)
(* Repaired = FALSE is the code as found (BadSmell_MC_asis.cfg, run by hand).        *)
EXTENDS BadSmellRef, Json

CONSTANTS Profiles,      \* subset of {"boundary", "shape", "class", "sort", "config"}: families of inputs
          Lens, Params, IfCounts, SwitchCounts, Heights,   \* probe values around the thresholds
          NameKinds, TypeKinds, Anns,
          ClassNormals, ClassGets,                         \* method counts of the class-level family
          SortLevels,                                      \* 0..k: size = smallest reported size + level
          SortKinds, SortMaxFiles, SortMix,                \* the `sort` family
          IgnoreSets,                                      \* ignore lists tried on every input
          ConfigIgnoreOver,                                \* the `config` family tries every subset of this set
          Sorts,                                           \* subset of BOOLEAN
          Repaired

VARIABLES prof,            \* input family of this behaviour
          files, facts,    \* the abstract input chosen so far and the layout of its text
          ignore, sort,    \* the configuration (chosen when first read)
          phase,
          \* --- AnalysisPath / listener registers
          nodeInfos,       \* bs.nodeInfos
          currentClzType,  \* bs_java.currentClzType (set by EnterClassDeclaration / EnterInterfaceDeclaration)
          methods,         \* bs_java.methods (reset by NewBadSmellListener)
          mi,              \* index of the member being visited
          cur,             \* the BSFunction under construction
          gi, rep, condNo, \* loop of buildMethodBSInfo over the block statements
          \* --- AnalysisBadSmell registers
          ni, fj, onlyGS, badSmellList,
          \* --- IdentifyBadSmell / cmd/bs.go
          filtered, sortSmells, keysLeft

vars == <<prof, files, facts, ignore, sort, phase, nodeInfos, currentClzType, methods, mi, cur, gi, rep, condNo,
          ni, fj, onlyGS, badSmellList, filtered, sortSmells, keysLeft>>

Max(a, b) == IF a > b THEN a ELSE b

-----------------------------------------------------------------------------
(* Input families *)

G(t, h, nh, n) == [t |-> t, h |-> h, nh |-> nh, n |-> n]
NonEmpty(gs) == SelectSeq(gs, LAMBDA g : g.n > 0)
Mth(nk, ann, params, va, abs, len, stmts) ==
  [nk |-> nk, ann |-> ann, params |-> params, va |-> va, abs |-> abs, len |-> len, stmts |-> NonEmpty(stmts)]
File(name, kind, ext, ms, pg, pn) ==
  [name |-> name, kind |-> kind, ext |-> ext, methods |-> ms, padGet |-> pg, padNormal |-> pn]

Name(k) == "F" \o ToString(k)

\* boundary: one method, every measure at threshold-1 / threshold / threshold+1
\*   ic top-level ifs (one of them with a condition of h lines), sc top-level switches
ProbeBody(ic, h, sc) == <<G("if", 1, 0, ic - 1), G("if", h, 0, 1), G("switch", 1, 0, sc)>>
Boundary(k) ==
  {File(Name(k), tk, FALSE, <<Mth(nk, a, p, FALSE, FALSE, l, ProbeBody(ic, h, sc))>>, 0, 0) :
     tk \in TypeKinds, nk \in NameKinds, a \in Anns, p \in Params, l \in Lens, ic \in IfCounts, h \in Heights, sc \in SwitchCounts}

\* shape: threshold-1 plain ifs (or switches) plus ONE other top-level statement that must not be counted,
\* with a head of 4 lines and / or a nested if whose condition spans 4 lines; variable-arity parameters
StmtKinds == {"if", "switch", "while", "sync", "for", "try", "do", "assert", "expr", "local", "block"}
Headed == {"if", "switch", "while", "sync"}       \* statements with a parenthesised head that may span lines
Nesting == StmtKinds \ {"assert", "expr", "local"}
Shape(k) ==
  {File(Name(k), tk, FALSE,
        <<Mth("normal", 0, p, p > 0, FALSE, 20,
              <<G(base, 1, 0, RepeatAtLeast - 1), G(t, IF t \in Headed THEN h ELSE 1, IF t \in Nesting THEN nh ELSE 0, 1)>>)>>, 0, 0) :
     tk \in TypeKinds, base \in {"if", "switch"}, t \in StmtKinds, h \in {1, CondLinesAtLeast}, nh \in {0, CondLinesAtLeast},
     p \in {0, ParamsOver, ParamsOver + 1}}

\* class: the class-level kinds - method counts around 0 / 1 / 20, getter-setter mixes, body-less methods
ClassLevelFiles(k) ==
  {File(Name(k), tk, e, ms, pg, pn) :
     tk \in TypeKinds, e \in {FALSE, TRUE}, pg \in ClassGets, pn \in ClassNormals,
     ms \in {<<>>, <<Mth("set", 0, 1, FALSE, FALSE, 2, <<>>)>>, <<Mth("normal", 0, 0, FALSE, TRUE, 0, <<>>)>>}}

\* sort: files with one finding of a sized kind each, sizes = smallest reported size + level, in every order
SizedFile(k, kind, lv) ==
  CASE kind = "longParameterList" -> File(Name(k), "class", FALSE, <<Mth("normal", 0, ParamsOver + 1 + lv, FALSE, FALSE, 2, <<>>)>>, 0, 0)
    [] kind = "longMethod"        -> File(Name(k), "class", FALSE, <<Mth("normal", 0, 0, FALSE, FALSE, LongMethodOver + 1 + lv, <<>>)>>, 0, 0)
    [] kind = "repeatedSwitches"  -> File(Name(k), "class", FALSE, <<Mth("normal", 0, 0, FALSE, FALSE, 2, <<G("if", 1, 0, RepeatAtLeast + lv)>>)>>, 0, 0)
    [] kind = "largeClass"        -> File(Name(k), "class", FALSE, <<>>, 0, LargeAtLeast + lv)
    [] kind = "dataClass"         -> File(Name(k), "class", FALSE, <<>>, 1 + lv, 0)
KindOfSized(f) ==
  IF f.padNormal > 0 THEN "largeClass" ELSE IF f.padGet > 0 THEN "dataClass"
  ELSE IF f.methods[1].params > 0 THEN "longParameterList"
  ELSE IF f.methods[1].stmts # <<>> THEN "repeatedSwitches" ELSE "longMethod"
SortFiles(k, fs) ==
  {SizedFile(k, kind, lv) : kind \in (IF fs = <<>> \/ SortMix THEN SortKinds ELSE {KindOfSized(fs[1])}), lv \in SortLevels}

\* config: three files that together show every kind (and refusedBequest), for the ignore / sort options
ConfigFiles ==
  <<File(Name(1), "class", TRUE,
         <<Mth("normal", 1, ParamsOver + 2, FALSE, FALSE, LongMethodOver + 3,
               <<G("if", 1, 0, RepeatAtLeast - 1), G("if", CondLinesAtLeast, 0, 1), G("switch", 1, 0, RepeatAtLeast)>>),
           Mth("get", 0, ParamsOver + 1, FALSE, FALSE, LongMethodOver + 1, <<G("if", 1, 0, RepeatAtLeast + 1)>>)>>, 0, LargeAtLeast),
    File(Name(2), "class", FALSE, <<>>, 0, 0),
    File(Name(3), "class", FALSE, <<>>, 2, 0)>>

Choices(p, fs) ==
  LET k == Len(fs) + 1
  IN  CASE p = "boundary" -> IF fs = <<>> THEN Boundary(k) ELSE {}
        [] p = "shape"    -> IF fs = <<>> THEN Shape(k) ELSE {}
        [] p = "class"    -> IF fs = <<>> THEN ClassLevelFiles(k) ELSE {}
        [] p = "sort"     -> IF k <= SortMaxFiles THEN SortFiles(k, fs) ELSE {}
        [] p = "config"   -> IF k <= Len(ConfigFiles) THEN {ConfigFiles[k]} ELSE {}
CanEnd(p, fs) == IF p = "config" THEN Len(fs) = Len(ConfigFiles) ELSE fs # <<>>

IgnoreChoices(p) == IF p = "config" THEN SUBSET ConfigIgnoreOver ELSE IgnoreSets

-----------------------------------------------------------------------------
(* Layout of the text the Machine imagines (the Go renderer reports its own, real facts):  *)
(* line 1 package, 3 type header, members from line 5, one blank line between members;     *)
(* a statement occupies the lines of its head plus those of what is nested in it.          *)

RECURSIVE Expand(_)
Expand(gs) == IF gs = <<>> THEN <<>> ELSE [k \in 1..Head(gs).n |-> Head(gs)] \o Expand(Tail(gs))

StmtLines(g) == g.h + (IF g.nh = 0 THEN 0 ELSE IF g.t = "if" THEN 2 * g.nh + 2 ELSE g.nh + 2)

RECURSIVE CondsFrom(_, _)
CondsFrom(ss, line) ==
  IF ss = <<>> THEN <<>>
  ELSE (IF Head(ss).t = "if" THEN <<<<line, line + Head(ss).h - 1>>>> ELSE <<>>) \o CondsFrom(Tail(ss), line + StmtLines(Head(ss)))

LayMethod(m, line) ==
  LET ss    == Expand(m.stmts)
      body  == SumSeq([k \in DOMAIN ss |-> StmtLines(ss[k])])
      start == line + m.ann
      d     == IF m.abs THEN 0 ELSE IF body = 0 THEN m.len ELSE Max(m.len, body + 1)
  IN  [first |-> line, start |-> start, close |-> start + d, conds |-> CondsFrom(ss, start + 1)]

RECURSIVE LayMethods(_, _, _)
LayMethods(ms, k, line) ==
  IF k > Len(ms) THEN <<>>
  ELSE LET r == LayMethod(ms[k], line) IN <<r>> \o LayMethods(ms, k + 1, r.close + 2)

LayoutFile(f) == [path |-> f.name \o ".java", methods |-> LayMethods(AllMethods(f), 1, 5)]

-----------------------------------------------------------------------------
(* What the parser tells the listener about a top-level block statement *)
IsStatement(t)  == t # "local"                     \* a local variable declaration is not a StatementContext
ChildCount(t)   == CASE t = "expr" -> 2 [] t = "block" -> 1 [] t = "assert" -> 3 [] t = "switch" -> 4 [] t = "do" -> 5 [] OTHER -> 3
SecondIsPar(t)  == t \in {"if", "switch", "while", "sync"}      \* child(1) is a ParExpressionContext
Keyword(t)      == CASE t = "sync" -> "synchronized" [] OTHER -> t

\* string_helper.StringArrayContains(smellList, key) as cmd.isSmellHaveSize calls it
SmellList == <<"largeClass", "repeatedSwitches", "longParameterList", "longMethod", "dataClass">>
Rank(s) == CASE s = "complexCondition" -> 1 [] s = "dataClass" -> 2 [] s = "graphConnectedCall" -> 3 [] s = "largeClass" -> 4
             [] s = "lazyElement" -> 5 [] s = "longMethod" -> 6 [] s = "longParameterList" -> 7 [] s = "refusedBequest" -> 8
             [] s = "repeatedSwitches" -> 9                       \* byte order of the kind names
RECURSIVE Search(_, _, _, _)
Search(s, x, i, j) ==          \* sort.SearchStrings: smallest index in [i, j) with s[h] >= x, assuming s sorted
  IF i >= j THEN i
  ELSE LET h == (i + j) \div 2
       IN  IF Rank(s[h + 1]) < Rank(x) THEN Search(s, x, h + 1, j) ELSE Search(s, x, i, h)
IsSmellHaveSize(key) ==
  IF Repaired THEN key \in Range(SmellList)
  ELSE LET i == Search(SmellList, key, 0, Len(SmellList)) IN i < Len(SmellList) /\ SmellList[i + 1] = key

\* sort.Slice(smells, size descending); for the short groups explored it is an insertion sort
RECURSIVE InsertDesc(_, _), SortDesc(_)
InsertDesc(sorted, x) ==
  IF sorted = <<>> THEN <<x>>
  ELSE IF Head(sorted).size >= x.size THEN <<Head(sorted)>> \o InsertDesc(Tail(sorted), x) ELSE <<x>> \o sorted
SortDesc(s) == IF s = <<>> THEN <<>> ELSE InsertDesc(SortDesc(SubSeq(s, 1, Len(s) - 1)), s[Len(s)])

Smell(kind, file, line, size) == [kind |-> kind, file |-> file, line |-> line, size |-> size]

-----------------------------------------------------------------------------
Init ==
  /\ prof \in Profiles
  /\ files = <<>> /\ facts = <<>> /\ ignore = {} /\ sort = FALSE
  /\ phase = "walk"
  /\ nodeInfos = <<>> /\ currentClzType = "" /\ methods = <<>> /\ mi = 0 /\ cur = <<>>
  /\ gi = 0 /\ rep = 0 /\ condNo = 0
  /\ ni = 0 /\ fj = 0 /\ onlyGS = TRUE /\ badSmellList = <<>>
  /\ filtered = <<>> /\ sortSmells = <<>> /\ keysLeft = {}

curFile  == files[Len(files)]
curMs    == AllMethods(curFile)
curFacts == facts[Len(facts)]

\* AnalysisPath loop body: NewBadSmellListener (methods = nil), walk; EnterClassDeclaration / EnterInterfaceDeclaration
StartFile ==
  /\ phase = "walk"
  /\ \E f \in Choices(prof, files) :
       /\ files' = Append(files, f)
       /\ facts' = Append(facts, LayoutFile(f))
       /\ currentClzType' = IF f.kind = "class" THEN "Class" ELSE "Interface"
  /\ methods' = <<>> /\ mi' = 1 /\ phase' = "file"
  /\ UNCHANGED <<prof, ignore, sort, nodeInfos, cur, gi, rep, condNo, ni, fj, onlyGS, badSmellList, filtered, sortSmells, keysLeft>>

\* EnterMethodDeclaration / EnterInterfaceMethodDeclaration: position, name, parameters
EnterMethod ==
  /\ phase = "file" /\ mi <= Len(curMs)
  /\ LET m  == curMs[mi]
         mf == curFacts.methods[mi]
         \* a class method's context starts at its return type, an interface method's at its first modifier / annotation
         startLine == IF curFile.kind = "class" THEN mf.start ELSE mf.first
         \* AllFormalParameter(): the variable-arity parameter is a LastFormalParameterContext
         nparams   == IF m.va /\ ~Repaired THEN m.params - 1 ELSE m.params
         scanned   == ~m.abs /\ m.stmts # <<>> /\ (curFile.kind = "class" \/ Repaired)
     IN  /\ cur' = [gs |-> IsGS(m), params |-> nparams, startLine |-> startLine, stopLine |-> mf.close,
                    ifSize |-> 0, switchSize |-> 0, ifInfo |-> <<>>]
         /\ IF scanned THEN phase' = "body" /\ gi' = 1 /\ rep' = 1 /\ condNo' = 1
            ELSE phase' = "endmethod" /\ UNCHANGED <<gi, rep, condNo>>
  /\ UNCHANGED <<prof, files, facts, ignore, sort, nodeInfos, currentClzType, methods, mi, ni, fj, onlyGS, badSmellList, filtered, sortSmells, keysLeft>>

\* buildMethodBSInfo loop body + countMethodIfSwitch, for one block statement
CountStmt ==
  /\ phase = "body"
  /\ LET m  == curMs[mi]
         g  == m.stmts[gi]
         mf == curFacts.methods[mi]
         counted == IsStatement(g.t) /\ ChildCount(g.t) >= 3 /\ SecondIsPar(g.t)
         isIf    == counted /\ Keyword(g.t) = "if"
         isSw    == counted /\ Keyword(g.t) = "switch"
     IN  /\ cur' = [cur EXCEPT !.ifSize = IF isIf THEN @ + 1 ELSE @,
                               !.ifInfo = IF isIf THEN Append(@, mf.conds[condNo]) ELSE @,
                               !.switchSize = IF isSw THEN @ + 1 ELSE @]
         /\ condNo' = IF g.t = "if" THEN condNo + 1 ELSE condNo
         /\ IF rep < g.n THEN rep' = rep + 1 /\ UNCHANGED <<gi, phase>>
            ELSE IF gi < Len(m.stmts) THEN gi' = gi + 1 /\ rep' = 1 /\ UNCHANGED phase
            ELSE phase' = "endmethod" /\ UNCHANGED <<gi, rep>>
  /\ UNCHANGED <<prof, files, facts, ignore, sort, nodeInfos, currentClzType, methods, mi, ni, fj, onlyGS, badSmellList, filtered, sortSmells, keysLeft>>

\* methods = append(methods, *method)
AppendMethod ==
  /\ phase = "endmethod"
  /\ methods' = Append(methods, cur) /\ mi' = mi + 1 /\ phase' = "file"
  /\ UNCHANGED <<prof, files, facts, ignore, sort, nodeInfos, currentClzType, cur, gi, rep, condNo, ni, fj, onlyGS, badSmellList, filtered, sortSmells, keysLeft>>

\* GetNodeInfo; nodeInfo.FilePath = file; nodeInfos = append(nodeInfos, nodeInfo)
ExitFile ==
  /\ phase = "file" /\ mi > Len(curMs)
  /\ nodeInfos' = Append(nodeInfos, [path |-> curFacts.path, type |-> currentClzType, ext |-> curFile.ext, functions |-> methods])
  /\ phase' = "walk"
  /\ UNCHANGED <<prof, files, facts, ignore, sort, currentClzType, methods, mi, cur, gi, rep, condNo, ni, fj, onlyGS, badSmellList, filtered, sortSmells, keysLeft>>

EndWalk ==
  /\ phase = "walk" /\ CanEnd(prof, files)
  /\ phase' = "node" /\ ni' = 1 /\ badSmellList' = <<>>
  /\ UNCHANGED <<prof, files, facts, ignore, sort, nodeInfos, currentClzType, methods, mi, cur, gi, rep, condNo, fj, onlyGS, filtered, sortSmells, keysLeft>>

-----------------------------------------------------------------------------
(* AnalysisBadSmell *)
node == nodeInfos[ni]

\* checkLazyElement, onlyHaveGetterAndSetter := true
StartNode ==
  /\ phase = "node" /\ ni <= Len(nodeInfos)
  /\ badSmellList' = IF node.type = "Class" /\ Len(node.functions) < 1
                     THEN Append(badSmellList, Smell("lazyElement", node.path, 0, 0)) ELSE badSmellList
  /\ onlyGS' = TRUE /\ fj' = 1 /\ phase' = "methods"
  /\ UNCHANGED <<prof, files, facts, ignore, sort, nodeInfos, currentClzType, methods, mi, cur, gi, rep, condNo, ni, filtered, sortSmells, keysLeft>>

\* loop body over node.Functions: checkLongMethod, getter/setter flag, checkLongParameterList, checkRepeatedSwitches, checkComplexIf
AnalyseMethod ==
  /\ phase = "methods" /\ fj <= Len(node.functions)
  /\ LET f == node.functions[fj]
         methodLength == f.stopLine - f.startLine
         long   == IF methodLength > 30 THEN <<Smell("longMethod", node.path, f.startLine, methodLength)>> ELSE <<>>
         paras  == IF f.params > 5 THEN <<Smell("longParameterList", node.path, f.startLine, f.params)>> ELSE <<>>
         swIf   == IF f.ifSize >= 8 THEN <<Smell("repeatedSwitches", node.path, f.startLine, f.ifSize)>> ELSE <<>>
         swSw   == IF f.switchSize >= 8 THEN <<Smell("repeatedSwitches", node.path, f.startLine, f.switchSize)>> ELSE <<>>
         cplx   == LET big == SelectSeq(f.ifInfo, LAMBDA c : c[2] - c[1] >= 3)
                   IN  [k \in DOMAIN big |-> Smell("complexCondition", node.path, big[k][1], 0)]
     IN  /\ badSmellList' = badSmellList \o long \o paras \o swIf \o swSw \o cplx
         /\ onlyGS' = (onlyGS /\ f.gs)
  /\ fj' = fj + 1
  /\ UNCHANGED <<prof, files, facts, ignore, sort, phase, nodeInfos, currentClzType, methods, mi, cur, gi, rep, condNo, ni, filtered, sortSmells, keysLeft>>

\* checkDataClass, checkRefusedBequest, checkLargeClass
FinishNode ==
  /\ phase = "methods" /\ fj > Len(node.functions)
  /\ LET n      == Len(node.functions)
         normal == Cardinality({k \in DOMAIN node.functions : ~node.functions[k].gs})
         data   == IF onlyGS /\ node.type = "Class" /\ n > 0 THEN <<Smell("dataClass", node.path, 0, n)>> ELSE <<>>
         refuse == IF node.ext THEN <<Smell("refusedBequest", node.path, 0, 0)>> ELSE <<>>
         large  == IF node.type = "Class" /\ normal >= 20 THEN <<Smell("largeClass", node.path, 0, normal)>> ELSE <<>>
     IN  badSmellList' = badSmellList \o data \o refuse \o large
  /\ ni' = ni + 1 /\ phase' = "node"
  /\ UNCHANGED <<prof, files, facts, ignore, sort, nodeInfos, currentClzType, methods, mi, cur, gi, rep, condNo, fj, onlyGS, filtered, sortSmells, keysLeft>>

-----------------------------------------------------------------------------
(* IdentifyBadSmell: the ignore list is read here *)
Filter ==
  /\ phase = "node" /\ ni > Len(nodeInfos)
  /\ \E ig \in IgnoreChoices(prof) :
       /\ ignore' = ig
       /\ filtered' = SelectSeq(badSmellList, LAMBDA x : x.kind \notin ig)
  /\ phase' = "output"
  /\ UNCHANGED <<prof, files, facts, sort, nodeInfos, currentClzType, methods, mi, cur, gi, rep, condNo, ni, fj, onlyGS, badSmellList, sortSmells, keysLeft>>

\* cmd/bs.go: sortType == "type" ?  SortSmellByType: first loop groups by kind
Output ==
  /\ phase = "output"
  /\ \E s \in Sorts :
       /\ sort' = s
       /\ IF s
          THEN LET ks == {filtered[k].kind : k \in DOMAIN filtered}
               IN  /\ sortSmells' = [k \in ks |-> SelectSeq(filtered, LAMBDA x : x.kind = k)]
                   /\ keysLeft' = ks /\ phase' = "sortkeys"
          ELSE phase' = "done" /\ UNCHANGED <<sortSmells, keysLeft>>
  /\ UNCHANGED <<prof, files, facts, ignore, nodeInfos, currentClzType, methods, mi, cur, gi, rep, condNo, ni, fj, onlyGS, badSmellList, filtered>>

\* second loop of SortSmellByType: for key, smells := range sortSmells { if filterFunc(key) { sort.Slice(...) } }
\* (map iteration order does not influence the result: the keys are taken in rank order)
SortKey ==
  /\ phase = "sortkeys" /\ keysLeft # {}
  /\ LET key == CHOOSE k \in keysLeft : \A k2 \in keysLeft : Rank(k) <= Rank(k2)
     IN  /\ sortSmells' = IF IsSmellHaveSize(key) THEN [sortSmells EXCEPT ![key] = SortDesc(@)] ELSE sortSmells
         /\ keysLeft' = keysLeft \ {key}
  /\ UNCHANGED <<prof, files, facts, ignore, sort, phase, nodeInfos, currentClzType, methods, mi, cur, gi, rep, condNo, ni, fj, onlyGS, badSmellList, filtered>>

EndSort ==
  /\ phase = "sortkeys" /\ keysLeft = {}
  /\ phase' = "done"
  /\ UNCHANGED <<prof, files, facts, ignore, sort, nodeInfos, currentClzType, methods, mi, cur, gi, rep, condNo, ni, fj, onlyGS, badSmellList, filtered, sortSmells, keysLeft>>

Finished == phase = "done"
Done == Finished /\ UNCHANGED vars

Next == StartFile \/ EnterMethod \/ CountStmt \/ AppendMethod \/ ExitFile \/ EndWalk
        \/ StartNode \/ AnalyseMethod \/ FinishNode \/ Filter \/ Output \/ SortKey \/ EndSort \/ Done

Spec == Init /\ [][Next]_vars

-----------------------------------------------------------------------------
(* The Machine's report as an observation, and the properties *)

RECURSIVE KeysInRankOrder(_)
KeysInRankOrder(ks) ==
  IF ks = {} THEN <<>>
  ELSE LET k == CHOOSE x \in ks : \A y \in ks : Rank(x) <= Rank(y) IN <<k>> \o KeysInRankOrder(ks \ {k})
Groups == LET ks == KeysInRankOrder(DOMAIN sortSmells) IN [a \in DOMAIN ks |-> [key |-> ks[a], items |-> sortSmells[ks[a]]]]

RECURSIVE SetToSeq(_)
SetToSeq(S) == IF S = {} THEN <<>> ELSE LET x == CHOOSE y \in S : \A z \in S : Rank(y) <= Rank(z) IN <<x>> \o SetToSeq(S \ {x})

Input == [files |-> files, ignore |-> SetToSeq(ignore), sort |-> sort]
Facts == [files |-> facts, syntaxErrors |-> 0]
Rec == [input |-> Input, facts |-> Facts,
        observed |-> [panic |-> FALSE, api |-> filtered,
                      cli |-> [ran |-> TRUE, failed |-> FALSE, wellformed |-> TRUE, grouped |-> sort,
                               list |-> IF sort THEN <<>> ELSE filtered,
                               groups |-> IF sort THEN Groups ELSE <<>>]]]

\* the layout the Machine imagines obeys the renderer's contract
C10_LayoutOK == (phase = "file" /\ mi = 1) => FactsOK([files |-> files], Facts)

\* the findings before filtering are exactly those the statement demands
C10_FindingsExact ==
  (phase = "node" /\ ni > Len(nodeInfos)) =>
     FlatDiff([files |-> files, ignore |-> <<>>, sort |-> FALSE], Facts, badSmellList, "all") = {}

\* the ignore option removes exactly the named kinds
C10_IgnoreExact ==
  phase = "output" =>
     /\ \A k \in DOMAIN filtered : filtered[k].kind \notin ignore
     /\ filtered = SelectSeq(badSmellList, LAMBDA x : x.kind \notin ignore)
     /\ FlatDiff([files |-> files, ignore |-> SetToSeq(ignore), sort |-> FALSE], Facts, filtered, "api") = {}

\* -s type: groups by kind, sized kinds in non-increasing size order
C10_SortedBySizeWithinKind == (Finished /\ sort) => GroupDiff(Groups) = {}

\* the whole report satisfies the property-level Reference
C10_Reference == Finished => Diff(Rec) = {}

\* generation: every explored abstract input becomes a replay case for the real code
Emit == Finished => PrintT(<<"CASE", ToJson([input |-> Input])>>)

\* by hand, with -continue: show every discrepancy of the unrepaired Machine
ShowDiff == Finished => (IF Diff(Rec) = {} THEN TRUE ELSE PrintT(<<"DIFF", 0, ToJson([input |-> Input, diff |-> Diff(Rec)])>>))
=============================================================================
