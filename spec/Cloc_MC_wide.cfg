\* thorough, by-directory: <= 2 sub-directories out of all five VCS/IDE/report names + east, web;
\* 3 languages x 4 file options (incl. zero-line files); DIR "." (the tree is the working directory);
\* filters none / java,py
SPECIFICATION Spec
CONSTANTS
  Shape = "bydir2w"
  Roots = {"."}
  ExtFilters = {"none", "java,py"}
  Tops = {1}
  Stride = 8
INVARIANTS C16_RowPerDirectory C16_CellsExact C16_SummaryIsSum C16_AgreesWithBase C16_RunTargetsCurrentDir
           C16_TopSortedTruncated C16_TopJsonExact Emit
