\* the code as it is, judged without tags: TLC finds (X04_ResultExact) a transaction with a repeated item whose support is counted per occurrence, and the crash on an item named "STOP".  Not part of a check; run with tlc -continue and INVARIANT ShowDiff to list every violating input.
SPECIFICATION Spec
CONSTANTS
  ItemPool = "stopab"
  MaxTx = 3
  MinTxLen = 0
  MaxTxLen = 2
  Ascending = FALSE
  Mode = "miner"
  OptPool = "quick"
  IndexForm = "occurrences"
  Sentinel = "inband"
INVARIANTS X04_ResultExact X04_CandidatesComplete X04_NoFrequentSetLost X04_CandidateShape X04_IndexTable
