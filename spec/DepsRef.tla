------------------------------ MODULE DepsRef ------------------------------
(* Property-level Reference for C19: "Declared build dependencies are all extracted;   *)
(* the unused report is exact". Pure operators over the abstract case record (the JSON *)
(* shape shared by the TLC Machine Deps.tla, the Go renderer and the trace validator): *)
(*                                                                                     *)
(*   rec.input.manifests : Seq([kind : "pom"|"gradle", dir, before, after, layout,     *)
(*                              entries : Seq(Entry)])                                 *)
(*     Entry = [notation, group, artifact, scope, version, children, comment]          *)
(*       notation  pom   : "dep"                                                       *)
(*                 gradle: "sq"  conf 'g:a:v'      "dq"  conf "g:a:v"                  *)
(*                         "psq" conf('g:a:v')     "pdq" conf("g:a:v")                 *)
(*                         "project" conf project(':a')   "pproject" conf(project(':a'))*)
(*                         "filetree" conf fileTree(..)   "files" conf files('..')     *)
(*                         "map" conf group: 'g', name: 'a'   "platform" conf platform('g:a:v') *)
(*       scope     pom: text of <scope> ("" = no such child); gradle: the configuration*)
(*   rec.input.sources   : Seq([dir, tree, unit, imports : Seq([name, form])])         *)
(*   rec.observed        : [panic, timeout,                                            *)
(*                          extract : Seq([panic, deps]),   one per manifest           *)
(*                          unused  : [panic, deps],        AnalysisPath               *)
(*                          table   : [panic, wellformed, deps]]  the sub-command      *)
(*     deps = Seq([group, artifact, scope])                                            *)
(*                                                                                     *)
(* Written from the property statement, not from the code. Every place where the       *)
(* statement is silent is a named Free_... operator.                                   *)
EXTENDS Naturals, Sequences, FiniteSets, TLC

Range(s) == {s[i] : i \in DOMAIN s}

-----------------------------------------------------------------------------
(* strings: "group id occurs in an import" *)

At(g, s, i) == i + Len(g) - 1 <= Len(s) /\ SubSeq(s, i, i + Len(g) - 1) = g

\* g is written somewhere inside s
Occurs(g, s) == g # "" /\ \E i \in 1..Len(s) : At(g, s, i)

\* s is g, or s continues g at a package boundary: import g.x.Y, import g.*, import static g.X.m
Leads(g, s) == g # "" /\ At(g, s, 1) /\ (Len(s) = Len(g) \/ SubSeq(s, Len(g) + 1, Len(g) + 1) = ".")

Imports(in) == UNION {{s.imports[k].name : k \in DOMAIN s.imports} : s \in Range(in.sources)}

\* Every reading of "occurs in an import" agrees that a dependency is imported when some import
\* starts with the group id at a package boundary, and that it is not when the group id is not
\* even a substring of any import.
Imported(g, imps)    == \E s \in imps : Leads(g, s)
NotImported(g, imps) == \A s \in imps : ~Occurs(g, s)
\* Free_OccursReading: in between (the group id is a substring of an import, but not a leading
\* run of whole package segments: `org.a` vs `org.ab.X`, `com.vendor.org.a.X`, `myorg.a.X`) the
\* statement does not say whether that counts as "occurs"; either answer is accepted.
Free_OccursReading(g, imps) == ~Imported(g, imps) /\ ~NotImported(g, imps)

-----------------------------------------------------------------------------
(* which entries are declared dependencies *)

\* "single- and double-quoted and parenthesised string notation" (and <dependency> elements)
StringNotations == {"dep", "sq", "dq", "psq", "pdq"}
\* Free_OtherCoordinateNotations: the statement names project references and file trees as the
\* other notations that are skipped. Map notation and platform(..) also carry a group and an
\* artifact; the statement neither promises nor forbids extracting them. They may be skipped or
\* extracted (with the right group, artifact and configuration), and must not disturb the rest.
Free_OtherCoordinateNotations == {"map", "platform"}
\* project(':x'), (project(':x')), fileTree(..), files(..): no coordinates, always skipped

Status(e) == IF e.notation \in StringNotations THEN "must"
             ELSE IF e.notation \in Free_OtherCoordinateNotations THEN "may"
             ELSE "never"

\* Free_DefaultScope: a <dependency> without <scope> has Maven's default scope; the statement
\* does not say whether the extracted scope is then empty or "compile".
Free_DefaultScope(kind, e, os) == kind = "pom" /\ e.scope = "" /\ os = "compile"

Match(o, c) == /\ o.group = c.e.group
               /\ o.artifact = c.e.artifact
               /\ (o.scope = c.e.scope \/ Free_DefaultScope(c.kind, c.e, o.scope))

\* candidates of one manifest, in declaration order: [e, kind, st \in {"must", "may", "never"}]
Cands(m, st(_)) == [i \in DOMAIN m.entries |-> [e |-> m.entries[i], kind |-> m.kind, st |-> st(m.entries[i])]]

\* the observed list is the candidate list without the "never" entries, with every "must"
\* entry, and with any of the "may" entries - in order, each exactly once
RECURSIVE Acc(_, _, _, _)
Acc(o, i, c, j) ==
  IF j > Len(c) THEN i > Len(o)
  ELSE \/ (c[j].st # "never" /\ i <= Len(o) /\ Match(o[i], c[j]) /\ Acc(o, i + 1, c, j + 1))
       \/ (c[j].st # "must" /\ Acc(o, i, c, j + 1))
Accepts(o, c) == Acc(o, 1, c, 1)

-----------------------------------------------------------------------------
(* itemised discrepancies *)

Item(k, w, t) == [prop |-> "C19", kind |-> k, where |-> w, tags |-> t]

Coord(g, a, s) == g \o ":" \o a \o ":" \o s

\* why a list is not accepted: what is missing, what is spurious, else the order
Explain(what, o, c) ==
  LET musts(k)   == {j \in DOMAIN c : c[j].st = "must" /\ c[j].e.group = c[k].e.group /\ c[j].e.artifact = c[k].e.artifact /\ c[j].e.scope = c[k].e.scope}
      found(k)   == {j \in DOMAIN o : Match(o[j], c[k])}
      missing    == {k \in DOMAIN c : c[k].st = "must" /\ Cardinality(found(k)) < Cardinality(musts(k))}
      same(j)    == {i \in DOMAIN o : o[i] = o[j]}
      sources(j) == {k \in DOMAIN c : c[k].st # "never" /\ Match(o[j], c[k])}
      extra      == {j \in DOMAIN o : Cardinality(same(j)) > Cardinality(sources(j))}
  IN  {Item(what \o "-missing", Coord(c[k].e.group, c[k].e.artifact, c[k].e.scope), {}) : k \in missing} \cup
      {Item(what \o "-spurious", Coord(o[j].group, o[j].artifact, o[j].scope), {}) : j \in extra} \cup
      (IF missing = {} /\ extra = {} THEN {Item(what \o "-order", "", {})} ELSE {})

Where(m) == m.kind \o ":" \o m.dir

\* extraction of one manifest (deps.AnalysisMaven / deps.AnalysisGradleString)
DiffExtract(m, ol) ==
  IF ol.panic THEN {Item("extract-panic", Where(m), {})}
  ELSE IF Accepts(ol.deps, Cands(m, Status)) THEN {}
  ELSE Explain("extract", ol.deps, Cands(m, Status))

\* the unused report: "exactly the sub-list of declared dependencies whose group id occurs in no
\* import of any Java source file of the project; a dependency that is imported anywhere is never
\* reported"
UnusedStatus(e, imps) ==
  IF Status(e) = "never" \/ Imported(e.group, imps) THEN "never"
  ELSE IF Status(e) = "must" /\ NotImported(e.group, imps) THEN "must"
  ELSE "may"

Perms(n) == {p \in [1..n -> 1..n] : \A a, b \in 1..n : p[a] = p[b] => a = b}

RECURSIVE Concat(_, _, _)
Concat(ms, p, i) == IF i > Len(ms) THEN <<>> ELSE ms[p[i]] \o Concat(ms, p, i + 1)

\* Known finding (genuine defect, no small repair: coca's Java model has no node for a compilation
\* unit whose only type is an enum or an annotation type, so the imports of such a file reach no
\* pass): a dependency is reported as unused although its group is imported - but only by such
\* files. The tag is computed for exactly that shape: the observed report is the exact report of
\* the same project with the imports of the enum-only / annotation-only files left out.
ModelledUnits == {"class", "interface"}
ImportsModelled(in) ==
  UNION {{s.imports[k].name : k \in DOMAIN s.imports} : s \in {x \in Range(in.sources) : x.unit \in ModelledUnits}}
TagEnumOnlyImport == "deps.import-only-in-enum-or-annotation-file"

Retag(items, t) == {[it EXCEPT !.tags = t] : it \in items}

\* Free_ManifestOrder: with several manifests in one project (modules) the statement does not say
\* in which order the manifests contribute; any order of whole manifests is accepted.
AcceptsReport(in, imps, deps) ==
  LET per == [i \in DOMAIN in.manifests |-> Cands(in.manifests[i], LAMBDA e : UnusedStatus(e, imps))]
  IN  \E p \in Perms(Len(in.manifests)) : Accepts(deps, Concat(per, p, 1))

DiffUnused(what, in, imps, ol) ==
  LET per == [i \in DOMAIN in.manifests |-> Cands(in.manifests[i], LAMBDA e : UnusedStatus(e, imps))]
      id  == [i \in 1..Len(in.manifests) |-> i]
  IN  IF ol.panic THEN {Item(what \o "-panic", "", {})}
      ELSE IF AcceptsReport(in, imps, ol.deps) THEN {}
      ELSE Retag(Explain(what, ol.deps, Concat(per, id, 1)),
                 IF AcceptsReport(in, ImportsModelled(in), ol.deps) THEN {TagEnumOnlyImport} ELSE {})

Diff(rec) ==
  LET in   == rec.input
      o    == rec.observed
      imps == Imports(in)
  IN  IF o.timeout THEN {Item("no-termination", "", {})}
      ELSE UNION {DiffExtract(in.manifests[i], o.extract[i]) : i \in DOMAIN in.manifests} \cup
           DiffUnused("unused", in, imps, o.unused) \cup
           (IF o.table.panic THEN {Item("table-panic", "", {})}
            ELSE IF ~o.table.wellformed THEN {Item("table-malformed", "", {})}
            ELSE DiffUnused("table", in, imps, [panic |-> FALSE, deps |-> o.table.deps]))
=============================================================================
