---------------------------- MODULE BadSmellRef ----------------------------
(* Property-level Reference for C10: bad-smell findings match the documented         *)
(* thresholds exactly; the ignore option removes exactly the named kinds; sorting by *)
(* type groups findings by kind with sized kinds in non-increasing size order.       *)
(* Written from the statement in properties.jsonl, not from the code.                *)
(*                                                                                   *)
(* Pure operators over one trace record `rec` (the JSON shape shared by the TLC      *)
(* generator, the Go renderer/projector and the trace validator):                    *)
(*   rec.input  = [files  : Seq(File), ignore : Seq(kind), sort : BOOLEAN]           *)
(*     File     = [name, kind : "class" | "interface", ext : BOOLEAN,                *)
(*                 methods : Seq(Method), padGet : Nat, padNormal : Nat]             *)
(*                 (padGet / padNormal = that many further trivial one-line methods: *)
(*                  getters resp. ordinary methods without parameters or statements) *)
(*     Method   = [nk : "get" | "set" | "normal",  \* getX / setX / any other name   *)
(*                 ann : Nat,        \* annotation lines above the header line       *)
(*                 params : Nat,     \* number of formal parameters (all of them)    *)
(*                 va : BOOLEAN,     \* the last parameter is a variable-arity one   *)
(*                 abs : BOOLEAN,    \* no body (abstract / plain interface method)  *)
(*                 len : Nat,        \* requested distance header line -> closing    *)
(*                                   \* brace (the renderer reports what it achieved)*)
(*                 stmts : Seq(Group)]  \* the TOP-LEVEL statements of the body      *)
(*     Group    = [t, h, nh, n]: n consecutive top-level statements of kind t whose  *)
(*                 own parenthesised head spans h lines and whose block contains a   *)
(*                 nested `if` (for t = "if" also an `else if`) whose condition      *)
(*                 spans nh lines (0 = nothing nested).  t \in {"if", "switch",      *)
(*                 "while", "sync", "for", "try", "do", "assert", "expr", "local",   *)
(*                 "block"}                                                          *)
(*   rec.facts  = [files : Seq([path, methods : Seq([first, start, close,            *)
(*                 conds : Seq(<<s, e>>)])]), syntaxErrors : Nat]                    *)
(*                 what the renderer knows about the                                 *)
(*                 text it wrote: per method (explicit ones, then padGet getters,    *)
(*                 then padNormal ordinary ones) the line of its first annotation /  *)
(*                 modifier, of its header (return type and name), of its closing    *)
(*                 brace (or `;`), and per top-level `if`, in order, the lines of    *)
(*                 the opening and the closing parenthesis of its condition          *)
(*   rec.observed = [panic, api : Seq(Finding),                                      *)
(*                   cli : [ran, failed, wellformed, grouped, list : Seq(Finding),   *)
(*                          groups : Seq([key, items : Seq(Finding)])]]              *)
(*     Finding  = [kind, file, line, size]   (line 0 = the finding names no line)    *)
(*   `api` = BadSmellApp.AnalysisPath + IdentifyBadSmell(ignore) in process,         *)
(*   `cli` = coca_reporter/bs.json of `coca bs -p DIR -x <ignore> [-s type]`.        *)
EXTENDS Naturals, Integers, Sequences, FiniteSets, TLC

-----------------------------------------------------------------------------
(* The documented thresholds, as the statement words them *)
LongMethodOver    == 30   \* closing brace MORE THAN 30 lines below the declaration's start line
ParamsOver        == 5    \* MORE THAN 5 parameters
LargeAtLeast      == 20   \* AT LEAST 20 methods that are not getters/setters
RepeatAtLeast     == 8    \* AT LEAST 8 top-level if statements, or AT LEAST 8 top-level switch statements
CondLinesAtLeast  == 4    \* a top-level if condition spanning AT LEAST 4 lines

Seven == {"longMethod", "longParameterList", "largeClass", "dataClass", "lazyElement",
          "repeatedSwitches", "complexCondition"}
\* kinds that carry a size and are ordered by it under `-s type` (DESIGN.md §5 C10)
Sized == {"largeClass", "repeatedSwitches", "longParameterList", "longMethod", "dataClass"}
HeaderLevel == {"longMethod", "longParameterList", "repeatedSwitches"}   \* line = the method's start line
ClassLevel  == {"largeClass", "dataClass", "lazyElement"}

Range(s) == {s[i] : i \in DOMAIN s}

RECURSIVE SumSeq(_)
SumSeq(s) == IF s = <<>> THEN 0 ELSE Head(s) + SumSeq(Tail(s))

Trivial(nk) == [nk |-> nk, ann |-> 0, params |-> 0, va |-> FALSE, abs |-> FALSE, len |-> 0, stmts |-> <<>>]
\* all methods of a file, in the order of rec.facts
AllMethods(f) == f.methods \o [k \in 1..f.padGet |-> Trivial("get")] \o [k \in 1..f.padNormal |-> Trivial("normal")]

IsGS(m) == m.nk \in {"get", "set"}
\* number of top-level statements of kind t
TopCount(m, t) == SumSeq([g \in DOMAIN m.stmts |-> IF m.stmts[g].t = t THEN m.stmts[g].n ELSE 0])

\* requested condition heights of the top-level ifs, in order (only used to cross-check the facts)
RECURSIVE IfHeights(_)
IfHeights(gs) ==
  IF gs = <<>> THEN <<>>
  ELSE (IF Head(gs).t = "if" THEN [k \in 1..Head(gs).n |-> Head(gs).h] ELSE <<>>) \o IfHeights(Tail(gs))

Item(k, w) == [prop |-> "C10", kind |-> k, where |-> w, tags |-> {}]
FStr(x) == x.kind \o "@" \o x.file \o ":" \o ToString(x.line) \o "#" \o ToString(x.size)

-----------------------------------------------------------------------------
(* The renderer is not trusted blindly: its facts must be consistent with the abstract *)
(* input (a renderer that breaks the contract yields a loud item, never a silent pass) *)
FactsOK(in, fa) ==
  /\ fa.syntaxErrors = 0            \* the repository's own Java grammar accepts every rendered file
  /\ Len(fa.files) = Len(in.files)
  /\ \A i \in DOMAIN in.files : \A k \in DOMAIN in.files : i # k => fa.files[i].path # fa.files[k].path
  /\ \A i \in DOMAIN in.files :
       LET ms == AllMethods(in.files[i])
           mf == fa.files[i].methods
       IN  /\ Len(mf) = Len(ms)
           /\ \A j \in DOMAIN ms :
                /\ mf[j].first >= 1 /\ mf[j].start = mf[j].first + ms[j].ann /\ mf[j].close >= mf[j].start
                /\ ms[j].abs => ms[j].stmts = <<>>
                /\ \A g \in DOMAIN ms[j].stmts : ms[j].stmts[g].n >= 1
                /\ ms[j].va => ms[j].params >= 1
                /\ Len(mf[j].conds) = TopCount(ms[j], "if")
                /\ LET hs == IfHeights(ms[j].stmts)
                   IN  \A c \in DOMAIN mf[j].conds :
                         /\ mf[j].conds[c][2] - mf[j].conds[c][1] + 1 = hs[c]
                         /\ mf[j].conds[c][1] > mf[j].start /\ mf[j].conds[c][2] <= mf[j].close
                         /\ \A c2 \in DOMAIN mf[j].conds : c2 < c => mf[j].conds[c2][2] < mf[j].conds[c][1]
                \* members do not share lines
                /\ \A j2 \in DOMAIN ms : j2 # j => (mf[j2].close < mf[j].first \/ mf[j].close < mf[j2].first)

-----------------------------------------------------------------------------
(* Interpretive decisions: where the statement is silent the Reference is permissive.  *)
(*                                                                                     *)
(* Free_C10_DeclStart: "the line their declaration starts on" - when annotations sit   *)
(*   on lines above the header (return type + name) either the first annotation line,  *)
(*   the header line or any line between is accepted as the start line, for the `line` *)
(*   attribute and for the 30-line measure: longMethod is REQUIRED when the brace lies *)
(*   more than 30 lines below the header line, FORBIDDEN when it lies at most 30 lines *)
(*   below the first annotation line, and free between; a reported finding must be     *)
(*   self-consistent (brace more than 30 lines below the line it names).               *)
(* Free_C10_LongMethodSize: the "size" of a long method is the measured distance d or  *)
(*   the number of lines d + 1 the method occupies from the named line.                *)
(* Free_C10_NoBrace: a method without body has no closing brace; a longMethod finding  *)
(*   for it is never required (the same numeric consistency applies if one is made).   *)
(* Free_C10_RepeatedSwitchesPerMeasure: a method reaching the threshold with its ifs   *)
(*   AND with its switches may be reported once or once per measure; each finding's    *)
(*   size is the count of a measure that reaches the threshold.                        *)
(* Free_C10_InterfaceClassLevel: "classes with ... methods" - whether an interface is  *)
(*   a class in that sense is not stated: largeClass / dataClass / lazyElement are     *)
(*   required for classes only, and tolerated (with the right size) for interfaces.    *)
(* Free_C10_UnsizedKinds: lazyElement and complexCondition carry no size; their size   *)
(*   attribute and their order under `-s type` are not judged. Class-level findings    *)
(*   name no line; their line attribute is not judged.                                 *)
(* Free_C10_OtherKinds: kinds the statement does not list (refusedBequest,             *)
(*   graphConnectedCall) are neither required nor forbidden - but an ignored kind must *)
(*   be absent whichever kind it is, and a group holds only findings of its own kind.  *)
(* Free_C10_OrderUnsorted: the order of the flat report, and the order among findings  *)
(*   of equal size inside a group, are not stated.                                     *)
(* Outside the quantifier (never generated): nested / anonymous / several types in one *)
(*   file, names that start with get/set/is without being accessors, constructors at   *)
(*   a threshold, an `if` and its `(` on different lines, several statements per line. *)

-----------------------------------------------------------------------------
(* Judging a flat list of findings (a bag; Free_C10_OrderUnsorted) *)

FlatDiff(in, fa, fs, ch) ==
  LET N     == Len(in.files)
      ign   == Range(in.ignore)
      ms    == [i \in 1..N |-> AllMethods(in.files[i])]
      mf    == [i \in 1..N |-> fa.files[i].methods]
      nAll  == [i \in 1..N |-> Len(ms[i])]
      nNorm == [i \in 1..N |-> Cardinality({j \in DOMAIN ms[i] : ~IsGS(ms[i][j])})]
      ifs(i, j) == TopCount(ms[i][j], "if")
      sws(i, j) == TopCount(ms[i][j], "switch")
      rsizes(i, j) == (IF ifs(i, j) >= RepeatAtLeast THEN {ifs(i, j)} ELSE {}) \cup
                      (IF sws(i, j) >= RepeatAtLeast THEN {sws(i, j)} ELSE {})
      nsat(i, j)   == (IF ifs(i, j) >= RepeatAtLeast THEN 1 ELSE 0) + (IF sws(i, j) >= RepeatAtLeast THEN 1 ELSE 0)
      height(c)    == c[2] - c[1] + 1
      fileOf(x)    == {i \in 1..N : fa.files[i].path = x.file}
      \* the method whose start-line candidates (Free_C10_DeclStart) contain the named line
      methOf(i, x) == {j \in DOMAIN mf[i] : mf[i][j].first <= x.line /\ x.line <= mf[i][j].start}
      \* does the finding name a subject for which the statement allows this kind?
      posOK(x) ==
        CASE x.kind = "longMethod"        -> \E i \in fileOf(x) : \E j \in methOf(i, x) : mf[i][j].close - x.line > LongMethodOver
          [] x.kind = "longParameterList" -> \E i \in fileOf(x) : \E j \in methOf(i, x) : ms[i][j].params > ParamsOver
          [] x.kind = "repeatedSwitches"  -> \E i \in fileOf(x) : \E j \in methOf(i, x) : rsizes(i, j) # {}
          [] x.kind = "complexCondition"  -> \E i \in fileOf(x) : \E j \in DOMAIN mf[i] : \E c \in DOMAIN mf[i][j].conds :
                                               mf[i][j].conds[c][1] = x.line /\ height(mf[i][j].conds[c]) >= CondLinesAtLeast
          [] x.kind = "lazyElement"       -> \E i \in fileOf(x) : nAll[i] = 0
          [] x.kind = "dataClass"         -> \E i \in fileOf(x) : nAll[i] > 0 /\ nNorm[i] = 0
          [] x.kind = "largeClass"        -> \E i \in fileOf(x) : nNorm[i] >= LargeAtLeast
          [] OTHER -> TRUE                                                          \* Free_C10_OtherKinds
      sizeOK(x) ==
        CASE x.kind = "longMethod"        -> \E i \in fileOf(x) : \E j \in methOf(i, x) :
                                               x.size \in {mf[i][j].close - x.line, mf[i][j].close - x.line + 1}   \* Free_C10_LongMethodSize
          [] x.kind = "longParameterList" -> \E i \in fileOf(x) : \E j \in methOf(i, x) : x.size = ms[i][j].params
          [] x.kind = "repeatedSwitches"  -> \E i \in fileOf(x) : \E j \in methOf(i, x) : x.size \in rsizes(i, j)
          [] x.kind = "dataClass"         -> \E i \in fileOf(x) : x.size = nAll[i]
          [] x.kind = "largeClass"        -> \E i \in fileOf(x) : x.size = nNorm[i]
          [] OTHER -> TRUE                                                          \* Free_C10_UnsizedKinds
      \* the subject a finding is about (to count findings per subject)
      subject(x) ==
        IF x.kind \in HeaderLevel
        THEN <<x.kind, x.file, UNION {{<<"m", j>> : j \in methOf(i, x)} : i \in fileOf(x)}>>
        ELSE IF x.kind = "complexCondition" THEN <<x.kind, x.file, x.line>>
        ELSE <<x.kind, x.file, 0>>
      allowed(x) ==
        IF x.kind = "repeatedSwitches"
        THEN LET cand == UNION {{nsat(i, j) : j \in methOf(i, x)} : i \in fileOf(x)}
             IN  IF cand = {} THEN 1 ELSE CHOOSE n \in cand : \A n2 \in cand : n2 <= n      \* Free_C10_RepeatedSwitchesPerMeasure
        ELSE 1
      K == DOMAIN fs
      has(kind, i, lo, hi) == \E k \in K : fs[k].kind = kind /\ fs[k].file = fa.files[i].path /\ lo <= fs[k].line /\ fs[k].line <= hi
      hasC(kind, i)        == \E k \in K : fs[k].kind = kind /\ fs[k].file = fa.files[i].path
      want(kind)           == kind \notin ign
      missing(kind, i, line) == Item("missing-finding", ch \o ":" \o kind \o "@" \o fa.files[i].path \o ":" \o ToString(line))
  IN
    \* --- the ignore option removes the named kinds (whatever kind is named)
    {Item("ignored-kind-reported", ch \o ":" \o FStr(fs[k])) : k \in {k2 \in K : fs[k2].kind \in ign}} \cup
    \* --- nothing is reported that the statement does not allow ("exactly for")
    {Item("spurious-finding", ch \o ":" \o FStr(fs[k])) : k \in {k2 \in K : fs[k2].kind \notin ign /\ ~posOK(fs[k2])}} \cup
    {Item("wrong-size", ch \o ":" \o FStr(fs[k])) : k \in {k2 \in K : fs[k2].kind \notin ign /\ posOK(fs[k2]) /\ ~sizeOK(fs[k2])}} \cup
    {Item("duplicate-finding", ch \o ":" \o FStr(fs[k])) :
       k \in {k2 \in K : fs[k2].kind \in Seven \ ign /\ posOK(fs[k2]) /\
                         Cardinality({k3 \in K : fs[k3].kind = fs[k2].kind /\ subject(fs[k3]) = subject(fs[k2])}) > allowed(fs[k2])}} \cup
    \* --- everything the statement demands is reported, with its file and start line
    UNION {UNION {
        (IF want("longMethod") /\ ~ms[i][j].abs /\ mf[i][j].close - mf[i][j].start > LongMethodOver          \* Free_C10_DeclStart, Free_C10_NoBrace
            /\ ~has("longMethod", i, mf[i][j].first, mf[i][j].start)
         THEN {missing("longMethod", i, mf[i][j].start)} ELSE {}) \cup
        (IF want("longParameterList") /\ ms[i][j].params > ParamsOver
            /\ ~has("longParameterList", i, mf[i][j].first, mf[i][j].start)
         THEN {missing("longParameterList", i, mf[i][j].start)} ELSE {}) \cup
        (IF want("repeatedSwitches") /\ rsizes(i, j) # {}
            /\ ~has("repeatedSwitches", i, mf[i][j].first, mf[i][j].start)
         THEN {missing("repeatedSwitches", i, mf[i][j].start)} ELSE {}) \cup
        (IF want("complexCondition")
         THEN {missing("complexCondition", i, mf[i][j].conds[c][1]) :
                 c \in {c2 \in DOMAIN mf[i][j].conds : height(mf[i][j].conds[c2]) >= CondLinesAtLeast
                                                       /\ ~has("complexCondition", i, mf[i][j].conds[c2][1], mf[i][j].conds[c2][1])}}
         ELSE {})
      : j \in DOMAIN ms[i]} : i \in 1..N} \cup
    UNION {
        IF in.files[i].kind # "class" THEN {}                                      \* Free_C10_InterfaceClassLevel
        ELSE (IF want("lazyElement") /\ nAll[i] = 0 /\ ~hasC("lazyElement", i) THEN {missing("lazyElement", i, 0)} ELSE {}) \cup
             (IF want("dataClass") /\ nAll[i] > 0 /\ nNorm[i] = 0 /\ ~hasC("dataClass", i) THEN {missing("dataClass", i, 0)} ELSE {}) \cup
             (IF want("largeClass") /\ nNorm[i] >= LargeAtLeast /\ ~hasC("largeClass", i) THEN {missing("largeClass", i, 0)} ELSE {})
      : i \in 1..N}

-----------------------------------------------------------------------------
(* Judging the grouped report of `-s type` *)

RECURSIVE Flatten(_)
Flatten(gs) == IF gs = <<>> THEN <<>> ELSE Head(gs).items \o Flatten(Tail(gs))

GroupDiff(gs) ==
  {Item("group-key-repeated", gs[a].key) : a \in {a2 \in DOMAIN gs : \E b \in DOMAIN gs : b < a2 /\ gs[b].key = gs[a2].key}} \cup
  UNION {{Item("group-foreign-kind", gs[a].key \o ":" \o FStr(gs[a].items[k])) :
            k \in {k2 \in DOMAIN gs[a].items : gs[a].items[k2].kind # gs[a].key}} : a \in DOMAIN gs} \cup
  {Item("group-not-sorted-by-size", gs[a].key) :
     a \in {a2 \in DOMAIN gs : gs[a2].key \in Sized /\
              \E k \in DOMAIN gs[a2].items : k > 1 /\ gs[a2].items[k - 1].size < gs[a2].items[k].size}}

-----------------------------------------------------------------------------
Diff(rec) ==
  LET in == rec.input
      fa == rec.facts
      o  == rec.observed
  IN  IF ~FactsOK(in, fa) THEN {Item("harness-bad-facts", "")}
      ELSE
        (IF o.panic THEN {Item("panic", "api")} ELSE FlatDiff(in, fa, o.api, "api")) \cup
        (IF ~o.cli.ran THEN (IF in.sort THEN {Item("harness-sort-not-observed", "")} ELSE {})
         ELSE IF o.cli.failed THEN {Item("cli-failed", "")}
         ELSE IF ~o.cli.wellformed THEN {Item("malformed-report", "")}
         ELSE IF in.sort
              THEN (IF ~o.cli.grouped THEN {Item("not-grouped", "")}
                    ELSE GroupDiff(o.cli.groups) \cup FlatDiff(in, fa, Flatten(o.cli.groups), "cli"))
              ELSE FlatDiff(in, fa, IF o.cli.grouped THEN Flatten(o.cli.groups) ELSE o.cli.list, "cli"))
=============================================================================
