\* all layouts of <= 6 cells (site of width 3 / filler of width 1 or 2), new name shorter / equal / longer, every visit order
SPECIFICATION Spec
CONSTANTS
  MaxCells = 6
  OldLen = 3
  NewLens = {1, 3, 6}
INVARIANTS C05_AllSitesOnlySites C05_LengthAccounting Emit
PROPERTY C05_Terminates
