\* thorough, "bodies" (Go, wide alphabet): adds array / pointer-to-qualified field types, unnamed and 3-name grouped
\* parameters, deferred package calls.
SPECIFICATION Spec
CONSTANTS
  Langs = {"go"}
  Detail = "bodies"
  MaxDecls = 2
  MaxImports = 2
  Wide = TRUE
  SharedCell = FALSE
  FirstNameOnly = FALSE
  GlueImportAs = FALSE
INVARIANTS C20_NoCrash C20_GoDeclsExact C20_PyDeclsExact C20_GoMapOwnNames C20_PyNoStaleClass Emit
