\* multi: which of a.C (importing b.E or not), a.D, b.E, c.C, importer b.U (1..2 imports of a.C/a.D/b.E), importer d.V
\* (import c.C) exist, and every list of 1..2 moves out of {a.C->t.C, a.D->t.D, b.E->t.E, c.C->s.deep.C}
SPECIFICATION Spec
CONSTANTS
  Pool = "multi"
  NameRule = "file"
  CopyNode = TRUE
  KeepCR = TRUE
INVARIANTS X01_MovedExactly X01_NoCrash X01_OtherProjectsUntouched X01_TablesNotMixed Emit
