-------------------------------- MODULE Deps --------------------------------
(* Implementation-shaped Machine of coca's build-dependency front-ends and of the      *)
(* unused-dependency report (C19):                                                      *)
(*   xmlparse.ParseXML            token loop with an explicit element stack             *)
(*   deps.AnalysisMaven/BuildDeps walks over root.Elements / <dependencies> / children  *)
(*   ast_groovy listener          EnterScriptStatement -> buildGroovyMap ->             *)
(*                                buildBlockStatements -> BuildDependency/ConvertToJDep *)
(*   deps.DepAnalysisApp.AnalysisPath   BuildImportMap, needRemoveMap loop, result loop *)
(* One action per loop body; registers are fields of the records x (xmlparse), mv        *)
(* (maven walk), gr (groovy listener), ap (AnalysisPath), named after the real ones.     *)
(* The manifest is written one item at a time (the decoder is streaming; the listener    *)
(* visits one statement at a time), so TLC enumerates every small manifest.              *)
(*                                                                                       *)
(* Repaired = TRUE  : the algorithm with proposed_fixes/C19-1..3 applied                 *)
(* Repaired = FALSE : the algorithm of the pinned tree (TLC then finds the defects:      *)
(*                    quotes kept, panics on project()/fileTree()/GString/empty block/   *)
(*                    block comment, bogus entry for conf(project(':x')))                *)
(* The Machine is judged by the same Reference (DepsRef) that judges the real code.      *)
EXTENDS DepsRef, Integers, Json

CONSTANTS
  Repaired,      \* BOOLEAN
  Kinds,         \* subset of {"pom", "gradle"}
  MaxEntries,    \* entries in the dependencies block
  Groups,        \* group ids of the alphabet
  PomShapes,     \* indices into PomShapeTable
  Notations,     \* gradle notations of the alphabet
  Variants,      \* subset of {"plain", "versioned", "interp", "closure", "commented"}
  Confs,         \* gradle configurations of the alphabet
  SurroundLevel, \* 0: nothing around; 1: a few section sets; 2: all section kinds
  SrcMax,        \* number of Java sources (0..2)
  ImpMax,        \* imports per source (1..2)
  Units,         \* kinds of the only type of a source file
  ExtraImports   \* import names besides <group>.Api and <group>.*

VARIABLES
  man,       \* the manifest written so far (the abstract input; grows one entry at a time)
  closed,    \* the dependencies block has been closed
  sources,   \* the Java sources (chosen when the report is computed)
  phase,     \* "xml" | "maven" | "builddeps" | "script" | "block" | "extracted" | "mark" | "collect" | "done"
  panicked,  \* the real code would have panicked
  x,         \* xmlparse.ParseXML : [toks, st, root]
  mv,        \* AnalysisMaven / BuildDeps : [ei, depsNode, di, ci, dependency, deps]
  gr,        \* groovy listener : [stmts, results, nodeDeps, after]
  extracted, \* what the front-end returned
  ap         \* AnalysisPath : [mavenDeps, importMap, depIndex, needRemoveMap, results]

vars == <<man, closed, sources, phase, panicked, x, mv, gr, extracted, ap>>

-----------------------------------------------------------------------------
(* strings, as the Go code manipulates them *)

Min(S) == CHOOSE a \in S : \A b \in S : a <= b
Ch(s, i) == SubSeq(s, i, i)
Tail1(s) == SubSeq(s, 2, Len(s))

RECURSIVE RemoveChar(_, _)        \* strings.ReplaceAll(s, ch, "")
RemoveChar(s, ch) == IF Len(s) = 0 THEN ""
                     ELSE (IF Ch(s, 1) = ch THEN "" ELSE Ch(s, 1)) \o RemoveChar(Tail1(s), ch)

RECURSIVE SplitColon(_)           \* strings.Split(s, ":")
SplitColon(s) == LET idx == {i \in 1..Len(s) : Ch(s, i) = ":"}
                 IN  IF idx = {} THEN <<s>>
                     ELSE <<SubSeq(s, 1, Min(idx) - 1)>> \o SplitColon(SubSeq(s, Min(idx) + 1, Len(s)))

IsQuote(c) == c = "'" \/ c = "\""
RECURSIVE TrimQuotes(_)           \* strings.Trim(s, "'\"")
TrimQuotes(s) == IF Len(s) > 0 /\ IsQuote(Ch(s, 1)) THEN TrimQuotes(Tail1(s))
                 ELSE IF Len(s) > 0 /\ IsQuote(Ch(s, Len(s))) THEN TrimQuotes(SubSeq(s, 1, Len(s) - 1))
                 ELSE s

RECURSIVE TrimSpace(_)            \* strings.TrimSpace (blank is the only white space the Machine writes)
TrimSpace(s) == IF Len(s) > 0 /\ Ch(s, 1) = " " THEN TrimSpace(Tail1(s))
                ELSE IF Len(s) > 0 /\ Ch(s, Len(s)) = " " THEN TrimSpace(SubSeq(s, 1, Len(s) - 1))
                ELSE s

Contains(s, sub) == sub = "" \/ \E i \in 1..Len(s) : At(sub, s, i)      \* strings.Contains

Dep(g, a, s) == [group |-> g, artifact |-> a, scope |-> s]

-----------------------------------------------------------------------------
(* the alphabet of manifests *)

Entry(n, g, a, s, v, ch, cm) ==
  [notation |-> n, group |-> g, artifact |-> a, scope |-> s, version |-> v, children |-> ch, comment |-> cm]

\* <dependency> shapes: order of the children, optional children, comments
PomShapeTable == <<
  [children |-> <<"groupId", "artifactId">>,                                          scope |-> "",        version |-> "",    comment |-> ""],
  [children |-> <<"artifactId", "groupId", "scope">>,                                 scope |-> "test",    version |-> "",    comment |-> ""],
  [children |-> <<"groupId", "artifactId", "version", "scope">>,                      scope |-> "runtime", version |-> "1.0", comment |-> "plain"],
  [children |-> <<"scope", "exclusions", "groupId", "artifactId">>,                   scope |-> "test",    version |-> "",    comment |-> ""],
  [children |-> <<"groupId", "artifactId", "exclusions">>,                            scope |-> "",        version |-> "",    comment |-> "dep"],
  [children |-> <<"groupId", "artifactId", "version", "type", "classifier", "optional">>, scope |-> "",    version |-> "2.0", comment |-> "inner"],
  [children |-> <<"artifactId", "version", "scope", "systemPath", "groupId">>,        scope |-> "system",  version |-> "1.0", comment |-> ""],
  [children |-> <<"groupId", "exclusions", "artifactId", "scope">>,                   scope |-> "compile", version |-> "",    comment |-> "inner"] >>

PomEntries(k) ==
  {Entry("dep", g, "lib" \o ToString(k), PomShapeTable[i].scope, PomShapeTable[i].version, PomShapeTable[i].children, PomShapeTable[i].comment) :
     g \in Groups, i \in PomShapes}

StringGradle == {"sq", "dq", "psq", "pdq"}
VariantOk(n, v) ==
  CASE v = "plain"     -> TRUE
    [] v = "versioned" -> n \in StringGradle \cup {"map", "platform"}
    [] v = "interp"    -> n \in {"dq", "pdq"}
    [] v = "closure"   -> n \in {"psq", "pdq"}
    [] v = "commented" -> n \in StringGradle
VersionOf(v) == CASE v = "plain" -> "" [] v = "interp" -> "${libVersion}" [] OTHER -> "1.0"

GradleEntries(k) ==
  UNION {{Entry(n, g, "lib" \o ToString(k), c, VersionOf(v),
                 IF v = "closure" THEN <<"closure">> ELSE <<>>, IF v = "commented" THEN "inner" ELSE "") :
             g \in Groups, c \in Confs, v \in {w \in Variants : VariantOk(n, w)}} : n \in Notations}

\* what is written around the dependencies block
PomSurround ==
  CASE SurroundLevel = 0 -> {<<<<>>, <<>>>>}
    [] SurroundLevel = 1 -> {<<<<>>, <<>>>>, <<<<"coords", "depMgmt">>, <<"build">>>>, <<<<"comment", "properties">>, <<"profiles", "comment">>>>,
                             <<<<"reporting">>, <<>>>>}
    [] OTHER -> {<<<<>>, <<>>>>, <<<<"coords", "depMgmt">>, <<"build">>>>, <<<<"comment", "properties">>, <<"profiles", "comment">>>>,
                 <<<<"parent", "meta", "modules">>, <<"repositories", "depMgmt">>>>, <<<<"profiles", "build">>, <<"coords">>>>,
                 <<<<"reporting", "coords">>, <<"reporting">>>>}
GradleSurround ==
  CASE SurroundLevel = 0 -> {<<<<>>, <<>>>>}
    [] SurroundLevel = 1 -> {<<<<>>, <<>>>>, <<<<"plugins", "buildscript">>, <<"test">>>>, <<<<"comment", "coords">>, <<"comment">>>>}
    [] OTHER -> {<<<<>>, <<>>>>, <<<<"plugins", "buildscript">>, <<"test">>>>, <<<<"comment", "coords">>, <<"comment">>>>,
                 <<<<"apply", "repositories", "configurations", "ext">>, <<"task", "jar">>>>, <<<<"buildscript">>, <<"comment", "plugins">>>>}

Manifest(k, b, a) == [kind |-> k, dir |-> "", before |-> b, after |-> a, entries |-> <<>>, layout |-> 0]

\* Java sources
ImportPool == UNION {{[name |-> g \o ".Api", form |-> "type"], [name |-> g, form |-> "star"]} : g \in Groups}
              \cup {[name |-> n, form |-> "type"] : n \in ExtraImports}
ImportLists == {<<>>} \cup {<<a>> : a \in ImportPool}
               \cup (IF ImpMax >= 2 THEN {<<p[1], p[2]>> : p \in {q \in ImportPool \X ImportPool : q[1] # q[2]}} ELSE {})
Source(u, is) == [dir |-> "", tree |-> "main", unit |-> u, imports |-> is]
OneSource == {Source(u, is) : u \in Units, is \in ImportLists \ {<<>>}}
SourceChoices == {<<>>} \cup (IF SrcMax >= 1 THEN {<<s>> : s \in OneSource} ELSE {})
                        \cup (IF SrcMax >= 2 THEN {<<s, t>> : s \in OneSource, t \in OneSource} ELSE {})

-----------------------------------------------------------------------------
(* pom.xml as the token stream encoding/xml hands to ParseXML *)

TStart(n) == [t |-> "start", name |-> n, text |-> ""]
TEnd(n)   == [t |-> "end", name |-> n, text |-> ""]
TChars(s) == [t |-> "chars", name |-> "", text |-> s]
TComment  == [t |-> "comment", name |-> "", text |-> ""]
Ws == TChars(" ")                    \* indentation / line breaks between elements
Leaf(n, v) == <<TStart(n), TChars(v), TEnd(n), Ws>>
Wrap(n, body) == <<TStart(n), Ws>> \o body \o <<TEnd(n), Ws>>

RECURSIVE Flat(_)
Flat(ss) == IF ss = <<>> THEN <<>> ELSE Head(ss) \o Flat(Tail(ss))

PomChild(e, c) ==
  CASE c = "groupId"    -> Leaf("groupId", e.group)
    [] c = "artifactId" -> Leaf("artifactId", e.artifact)
    [] c = "version"    -> Leaf("version", e.version)
    [] c = "scope"      -> Leaf("scope", e.scope)
    [] c = "exclusions" -> Wrap("exclusions", Wrap("exclusion", Leaf("groupId", "org.excluded.group") \o Leaf("artifactId", "excluded-artifact")))
    [] OTHER            -> Leaf(c, "x")      \* type, classifier, optional, systemPath

PomEntryTokens(e) ==
  LET n    == Len(e.children)
      kids == Flat([k \in 1..n |-> (IF e.comment = "inner" /\ k = (n \div 2) + 1 THEN <<TComment, Ws>> ELSE <<>>) \o PomChild(e, e.children[k])])
  IN  (IF e.comment \in {"plain", "dep"} THEN <<TComment, Ws>> ELSE <<>>) \o Wrap("dependency", kids)

OtherDependency(g) == Wrap("dependencies", Wrap("dependency", Leaf("groupId", g) \o Leaf("artifactId", "other") \o Leaf("scope", "import")))
PomSection(s) ==
  CASE s = "coords"       -> Leaf("groupId", "com.example.app") \o Leaf("artifactId", "demo-app") \o Leaf("version", "0.0.1")
    [] s = "parent"       -> Wrap("parent", Leaf("groupId", "org.parent.boot") \o Leaf("artifactId", "starter-parent") \o <<TStart("relativePath"), TEnd("relativePath"), Ws, TComment, Ws>>)
    [] s = "meta"         -> Leaf("name", "demo") \o Leaf("description", "Demo project")
    [] s = "properties"   -> Wrap("properties", Leaf("java.version", "1.8"))
    [] s = "depMgmt"      -> Wrap("dependencyManagement", OtherDependency("org.bom.cloud"))
    [] s = "build"        -> Wrap("build", Wrap("plugins", Wrap("plugin", Leaf("groupId", "org.plugin.tools") \o OtherDependency("org.plugin.dep"))))
    [] s = "profiles"     -> Wrap("profiles", Wrap("profile", Leaf("id", "ci") \o OtherDependency("org.profile.only")))
    [] s = "modules"      -> Wrap("modules", Leaf("module", "core"))
    [] s = "repositories" -> Wrap("repositories", Wrap("repository", Leaf("id", "central")))
    [] s = "comment"      -> <<TComment, Ws>>
    \* a reporting plug-in whose configuration uses element names that HTML knows as void elements (link, param, base, meta):
    \* to an XML reader they are ordinary elements with content and an end tag
    [] s = "reporting"    -> Wrap("reporting", Wrap("plugins", Wrap("plugin", Leaf("groupId", "org.plugin.docs") \o
                               Wrap("configuration", Wrap("links", Leaf("link", "https://docs.example.org/api/")) \o Leaf("param", "-Xdoclint:none") \o Leaf("base", ".") \o Leaf("meta", "x")))))

Sections(ss) == Flat([k \in DOMAIN ss |-> PomSection(ss[k])])
PomOpen(b)  == <<TStart("project"), Ws>> \o Leaf("modelVersion", "4.0.0") \o Sections(b) \o <<TStart("dependencies"), Ws>>
PomClose(a) == <<TEnd("dependencies"), Ws>> \o Sections(a) \o <<TEnd("project"), Ws>>

Node(n) == [name |-> n, elements |-> <<>>]
ElNode(n) == [type |-> "XMLNode", val |-> n]
ElText(s) == [type |-> "text", val |-> s]
NoNode == [name |-> "", elements |-> <<>>]

-----------------------------------------------------------------------------
(* build.gradle as the parse-tree shapes the listener looks at *)

Coordinates(e) == e.group \o ":" \o e.artifact \o (IF e.version = "" THEN "" ELSE ":" \o e.version)
Quoted(q, e) == q \o Coordinates(e) \o q

\* an argument of a command expression: expr = ExpressionListElement (FALSE: named argument),
\* lit = "string" (LiteralPrmrAlt/StringLiteral) | "gstring" (GstringPrmrAlt) | "other"; text = GetText()
Arg(ex, lit, tx) == [expr |-> ex, lit |-> lit, text |-> tx]
Interp(e) == Len(e.version) > 0 /\ Ch(e.version, 1) = "$"

\* [paren: the path expression has >= 2 children `conf(...)`, parenArgs: texts of the enhanced argument
\*  list, cmdArgs: the argument list of the command expression]
Shape(e) ==
  CASE e.notation = "sq"       -> [paren |-> FALSE, parenArgs |-> <<>>, cmdArgs |-> <<Arg(TRUE, "string", Quoted("'", e))>>]
    [] e.notation = "dq"       -> [paren |-> FALSE, parenArgs |-> <<>>, cmdArgs |-> <<Arg(TRUE, IF Interp(e) THEN "gstring" ELSE "string", Quoted("\"", e))>>]
    [] e.notation = "psq"      -> [paren |-> TRUE, parenArgs |-> <<Quoted("'", e)>>, cmdArgs |-> <<>>]
    [] e.notation = "pdq"      -> [paren |-> TRUE, parenArgs |-> <<Quoted("\"", e)>>, cmdArgs |-> <<>>]
    [] e.notation = "project"  -> [paren |-> FALSE, parenArgs |-> <<>>, cmdArgs |-> <<Arg(TRUE, "other", "project(':" \o e.artifact \o "')")>>]
    [] e.notation = "pproject" -> [paren |-> TRUE, parenArgs |-> <<"project(':" \o e.artifact \o "')">>, cmdArgs |-> <<>>]
    [] e.notation = "filetree" -> [paren |-> FALSE, parenArgs |-> <<>>, cmdArgs |-> <<Arg(TRUE, "other", "fileTree(dir:'libs',include:['*.jar'])")>>]
    [] e.notation = "files"    -> [paren |-> FALSE, parenArgs |-> <<>>, cmdArgs |-> <<Arg(TRUE, "other", "files('libs/" \o e.artifact \o ".jar')")>>]
    [] e.notation = "platform" -> [paren |-> FALSE, parenArgs |-> <<>>, cmdArgs |-> <<Arg(TRUE, "other", "platform(" \o Quoted("'", e) \o ")")>>]
    [] e.notation = "map"      -> [paren |-> FALSE, parenArgs |-> <<>>,
                                   cmdArgs |-> <<Arg(FALSE, "other", "group:'" \o e.group \o "'"), Arg(FALSE, "other", "name:'" \o e.artifact \o "'")>>]

\* a top-level script statement: postfix = the command expression starts with a postfix/path expression,
\* ident = text of an identifier primary ("" = another primary, e.g. a literal), n = children of the path expression
Stmt(pf, id, n) == [postfix |-> pf, ident |-> id, n |-> n]
GradleBlock(b) ==
  CASE b = "coords"  -> <<Stmt(FALSE, "", 0), Stmt(FALSE, "", 0), Stmt(FALSE, "", 0)>>     \* assignments
    [] b = "comment" -> <<Stmt(TRUE, "", 1)>>            \* the line comment is skipped by the lexer; the block comment reaches the
                                                          \* parser as a slashy-string literal statement
    [] b = "apply"   -> <<Stmt(TRUE, "apply", 1)>>
    [] b = "task"    -> <<Stmt(TRUE, "task", 1)>>
    [] OTHER         -> <<Stmt(TRUE, b, 2)>>             \* name { ... }
TopStatements(bs) == Flat([k \in DOMAIN bs |-> GradleBlock(bs[k])])

\* ConvertToJDep: <<>> = nil, PanicVal = index out of range, <<dep>> otherwise
PanicVal == <<Dep("!panic", "", "")>>
ConvertToJDep(text) ==
  IF Repaired
  THEN IF ~(Len(text) >= 2 /\ IsQuote(Ch(text, 1)) /\ Ch(text, Len(text)) = Ch(text, 1)) THEN <<>>
       ELSE LET sp == SplitColon(TrimQuotes(text))
            IN  IF Len(sp) < 2 THEN <<>> ELSE <<Dep(sp[1], sp[2], "")>>
  ELSE LET sp == SplitColon(RemoveChar(text, "'"))
       IN  IF Len(sp) < 2 THEN PanicVal ELSE <<Dep(sp[1], sp[2], "")>>

\* the loops over argument lists: the last argument that yields a dependency wins
RECURSIVE ParenArgs(_, _, _)
ParenArgs(args, i, res) ==
  IF i > Len(args) THEN res
  ELSE LET d == ConvertToJDep(args[i])
       IN  IF d = PanicVal THEN d
           ELSE ParenArgs(args, i + 1, IF Repaired /\ d = <<>> THEN res ELSE d)

RECURSIVE BuildDependency(_, _, _)
BuildDependency(args, i, res) ==
  IF i > Len(args) THEN res
  ELSE IF ~args[i].expr THEN BuildDependency(args, i + 1, res)                  \* named argument: not an ExpressionListElement
  ELSE IF Repaired
       THEN LET d == ConvertToJDep(args[i].text)
            IN  BuildDependency(args, i + 1, IF d = <<>> THEN res ELSE d)
       ELSE IF args[i].lit # "string" THEN PanicVal                           \* .(*parser.LiteralPrmrAltContext)
            ELSE LET d == ConvertToJDep(args[i].text)
                 IN  IF d = PanicVal THEN d ELSE BuildDependency(args, i + 1, d)

-----------------------------------------------------------------------------

Init ==
  /\ man \in {Manifest("pom", s[1], s[2]) : s \in (IF "pom" \in Kinds THEN PomSurround ELSE {})} \cup
             {Manifest("gradle", s[1], s[2]) : s \in (IF "gradle" \in Kinds THEN GradleSurround ELSE {})}
  /\ closed = FALSE /\ sources = <<>> /\ panicked = FALSE /\ extracted = <<>>
  /\ phase = IF man.kind = "pom" THEN "xml" ELSE "script"
  /\ x = [toks |-> IF man.kind = "pom" THEN PomOpen(man.before) ELSE <<>>, st |-> <<>>, root |-> NoNode]
  /\ mv = [ei |-> 1, depsNode |-> NoNode, di |-> 1, ci |-> 1, dependency |-> Dep("", "", ""), deps |-> <<>>]
  /\ gr = [stmts |-> IF man.kind = "gradle" THEN TopStatements(man.before) ELSE <<>>, results |-> <<>>, nodeDeps |-> <<>>, after |-> FALSE]
  /\ ap = [mavenDeps |-> <<>>, importMap |-> {}, depIndex |-> 1, needRemoveMap |-> {}, results |-> <<>>]

Panic == /\ panicked' = TRUE /\ phase' = "done"
         /\ UNCHANGED <<man, closed, sources, x, mv, gr, extracted, ap>>

-----------------------------------------------------------------------------
(* pom.xml: the writer (input enumeration) *)

WriteDependency ==
  /\ phase = "xml" /\ x.toks = <<>> /\ ~closed /\ Len(man.entries) < MaxEntries
  /\ \E e \in PomEntries(Len(man.entries) + 1) :
       /\ man' = [man EXCEPT !.entries = Append(@, e)]
       /\ x' = [x EXCEPT !.toks = PomEntryTokens(e)]
  /\ UNCHANGED <<closed, sources, phase, panicked, mv, gr, extracted, ap>>

WriteClose ==
  /\ phase = "xml" /\ x.toks = <<>> /\ ~closed
  /\ closed' = TRUE
  /\ x' = [x EXCEPT !.toks = PomClose(man.after)]
  /\ UNCHANGED <<man, sources, phase, panicked, mv, gr, extracted, ap>>

(* xmlparse.ParseXML: one action per token kind *)

Tok == Head(x.toks)
Top == x.st[Len(x.st)]
Pop(s) == SubSeq(s, 1, Len(s) - 1)

XmlStart ==     \* case xml.StartElement: push a node
  /\ phase = "xml" /\ x.toks # <<>> /\ Tok.t = "start"
  /\ x' = [x EXCEPT !.toks = Tail(@), !.st = Append(@, Node(Tok.name))]
  /\ UNCHANGED <<man, closed, sources, phase, panicked, mv, gr, extracted, ap>>

XmlEnd ==       \* case xml.EndElement: pop; append to the parent, or it is the root
  /\ phase = "xml" /\ x.toks # <<>> /\ Tok.t = "end"
  /\ IF Len(x.st) = 0 THEN x' = [x EXCEPT !.toks = Tail(@)]
     ELSE IF Len(x.st) > 1
          THEN LET n  == Top
                   pn == x.st[Len(x.st) - 1]
               IN  x' = [x EXCEPT !.toks = Tail(@),
                                  !.st = Append(Pop(Pop(@)), [pn EXCEPT !.elements = Append(@, ElNode(n))])]
          ELSE x' = [x EXCEPT !.toks = Tail(@), !.st = <<>>, !.root = Top]
  /\ UNCHANGED <<man, closed, sources, phase, panicked, mv, gr, extracted, ap>>

XmlCharData ==  \* case xml.CharData: non-blank trimmed content becomes a text element of the open node
  /\ phase = "xml" /\ x.toks # <<>> /\ Tok.t = "chars"
  /\ LET content == TrimSpace(Tok.text)
     IN  IF Len(x.st) > 0 /\ content # ""
         THEN x' = [x EXCEPT !.toks = Tail(@), !.st = Append(Pop(@), [Top EXCEPT !.elements = Append(@, ElText(content))])]
         ELSE x' = [x EXCEPT !.toks = Tail(@)]
  /\ UNCHANGED <<man, closed, sources, phase, panicked, mv, gr, extracted, ap>>

XmlComment ==   \* case xml.Comment (ProcInst, Directive): nothing
  /\ phase = "xml" /\ x.toks # <<>> /\ Tok.t = "comment"
  /\ x' = [x EXCEPT !.toks = Tail(@)]
  /\ UNCHANGED <<man, closed, sources, phase, panicked, mv, gr, extracted, ap>>

XmlEof ==       \* the token loop ends; an unclosed tag panics
  /\ phase = "xml" /\ x.toks = <<>> /\ closed
  /\ IF x.st # <<>> THEN Panic
     ELSE /\ phase' = "maven" /\ mv' = [mv EXCEPT !.ei = 1]
          /\ UNCHANGED <<man, closed, sources, panicked, x, gr, extracted, ap>>

(* deps.AnalysisMaven: the first child of the root named "dependencies" *)

MavenScan ==
  /\ phase = "maven"
  /\ IF mv.ei > Len(x.root.elements)
     THEN /\ extracted' = <<>> /\ phase' = "extracted"               \* return nil
          /\ UNCHANGED <<man, closed, sources, panicked, x, mv, gr, ap>>
     ELSE LET el == x.root.elements[mv.ei]
          IN  IF el.type # "XMLNode" THEN Panic                       \* element.Val.(xmlparse.XMLNode)
              ELSE IF el.val.name = "dependencies"
                   THEN /\ phase' = "builddeps"
                        /\ mv' = [mv EXCEPT !.depsNode = el.val, !.di = 1, !.ci = 1, !.deps = <<>>, !.dependency = Dep("", "", "")]
                        /\ UNCHANGED <<man, closed, sources, panicked, x, gr, extracted, ap>>
                   ELSE /\ mv' = [mv EXCEPT !.ei = @ + 1]
                        /\ UNCHANGED <<man, closed, sources, phase, panicked, x, gr, extracted, ap>>

(* deps.BuildDeps: outer loop over the children of <dependencies>, inner loop over their children *)

LastText(node, old) ==          \* for _, textNode := range node.Elements { field = textNode.Val.(string) }
  IF node.elements = <<>> THEN old ELSE node.elements[Len(node.elements)].val
AllText(node) == \A k \in DOMAIN node.elements : node.elements[k].type = "text"

BuildDepsChild ==
  /\ phase = "builddeps" /\ mv.di <= Len(mv.depsNode.elements)
  /\ LET depEl == mv.depsNode.elements[mv.di]
     IN  IF depEl.type # "XMLNode" THEN Panic                         \* depElement.Val.(xmlparse.XMLNode)
         ELSE IF mv.ci > Len(depEl.val.elements)
              THEN /\ mv' = [mv EXCEPT !.deps = Append(@, mv.dependency), !.di = @ + 1, !.ci = 1, !.dependency = Dep("", "", "")]
                   /\ UNCHANGED <<man, closed, sources, phase, panicked, x, gr, extracted, ap>>
              ELSE LET c == depEl.val.elements[mv.ci]
                   IN  IF c.type # "XMLNode" THEN Panic               \* depValue.Val.(xmlparse.XMLNode)
                       ELSE IF c.val.name \in {"groupId", "artifactId", "scope"} /\ ~AllText(c.val) THEN Panic   \* textNode.Val.(string)
                       ELSE /\ mv' = [mv EXCEPT !.ci = @ + 1,
                                                !.dependency = CASE c.val.name = "groupId"    -> [@ EXCEPT !.group = LastText(c.val, @)]
                                                                 [] c.val.name = "artifactId" -> [@ EXCEPT !.artifact = LastText(c.val, @)]
                                                                 [] c.val.name = "scope"      -> [@ EXCEPT !.scope = LastText(c.val, @)]
                                                                 [] OTHER -> @]
                            /\ UNCHANGED <<man, closed, sources, phase, panicked, x, gr, extracted, ap>>

BuildDepsReturn ==
  /\ phase = "builddeps" /\ mv.di > Len(mv.depsNode.elements)
  /\ extracted' = mv.deps /\ phase' = "extracted"
  /\ UNCHANGED <<man, closed, sources, panicked, x, mv, gr, ap>>

-----------------------------------------------------------------------------
(* build.gradle: GroovyIdentifierListener *)

\* EnterScriptStatement / buildGroovyMap on a statement that is not the dependencies block
ScriptStatement ==
  /\ phase = "script" /\ gr.stmts # <<>>
  /\ LET s == Head(gr.stmts)
     IN  IF ~s.postfix \/ (s.ident # "" /\ s.ident # "dependencies")
         THEN /\ gr' = [gr EXCEPT !.stmts = Tail(@)]                            \* not a path expression / another identifier: return nil
              /\ UNCHANGED <<man, closed, sources, phase, panicked, x, mv, extracted, ap>>
         ELSE IF s.n < 2
              THEN IF Repaired
                   THEN /\ gr' = [gr EXCEPT !.stmts = Tail(@)]                  \* GetChildCount() < 2: return nil
                        /\ UNCHANGED <<man, closed, sources, phase, panicked, x, mv, extracted, ap>>
                   ELSE Panic                                                    \* pathExprCtx.GetChild(1): index out of range
              ELSE /\ gr' = [gr EXCEPT !.stmts = Tail(@)]                       \* no closure of dependencies
                   /\ UNCHANGED <<man, closed, sources, phase, panicked, x, mv, extracted, ap>>

\* the walker reaches `dependencies { ... }`: buildBlockStatements starts
EnterDependencies ==
  /\ phase = "script" /\ gr.stmts = <<>> /\ ~gr.after
  /\ phase' = "block" /\ gr' = [gr EXCEPT !.results = <<>>]
  /\ UNCHANGED <<man, closed, sources, panicked, x, mv, extracted, ap>>

\* one iteration of `for _, blockStatement := range statementsContext.AllBlockStatement()`;
\* the statement is written (chosen) here
BlockStatement ==
  /\ phase = "block" /\ Len(man.entries) < MaxEntries
  /\ \E e \in GradleEntries(Len(man.entries) + 1) :
       LET sh  == Shape(e)
           \* e.comment = "inner": a block comment before the entry is one more block statement, a lone literal:
           \* no parentheses, no command arguments, result stays nil
           r1  == IF sh.paren THEN ParenArgs(sh.parenArgs, 1, <<>>) ELSE <<>>
           r2  == IF r1 = PanicVal THEN r1
                  ELSE IF sh.cmdArgs # <<>> THEN BuildDependency(sh.cmdArgs, 1, <<>>) ELSE r1
       IN  /\ man' = [man EXCEPT !.entries = Append(@, e)]
           /\ IF r2 = PanicVal
              THEN /\ panicked' = TRUE /\ phase' = "done" /\ closed' = TRUE /\ gr' = gr
              ELSE /\ gr' = [gr EXCEPT !.results = IF r2 = <<>> THEN @ ELSE Append(@, [r2[1] EXCEPT !.scope = e.scope])]
                   /\ UNCHANGED <<phase, panicked, closed>>
  /\ UNCHANGED <<sources, x, mv, extracted, ap>>

\* the loop ends: nodeDeps = results; an empty block has no BlockStatements child
ExitDependencies ==
  /\ phase = "block"
  /\ closed' = TRUE
  /\ IF man.entries = <<>> /\ ~Repaired
     THEN /\ panicked' = TRUE /\ phase' = "done" /\ gr' = gr                    \* BlockStatements().(*parser.BlockStatementsContext) on nil
     ELSE /\ gr' = [gr EXCEPT !.nodeDeps = gr.results, !.stmts = TopStatements(man.after), !.after = TRUE]
          /\ phase' = "script" /\ UNCHANGED panicked
  /\ UNCHANGED <<man, sources, x, mv, extracted, ap>>

GetDepsInfo ==
  /\ phase = "script" /\ gr.stmts = <<>> /\ gr.after
  /\ extracted' = gr.nodeDeps /\ phase' = "extracted"
  /\ UNCHANGED <<man, closed, sources, panicked, x, mv, gr, ap>>

-----------------------------------------------------------------------------
(* deps.DepAnalysisApp.AnalysisPath *)

\* the Java passes deliver one node per class / interface; a file whose only type is an enum or an
\* annotation type yields no node (known finding), so its imports are in no node
ClassNodes(ss) == SelectSeq(ss, LAMBDA s : s.unit \in {"class", "interface"})
BuildImportMap(nodes) == UNION {{n.imports[k].name : k \in DOMAIN n.imports} : n \in Range(nodes)}

StartAnalysisPath ==
  /\ phase = "extracted"
  /\ \E ss \in SourceChoices :
       /\ sources' = ss
       /\ ap' = [mavenDeps |-> extracted, importMap |-> BuildImportMap(ClassNodes(ss)), depIndex |-> 1, needRemoveMap |-> {}, results |-> <<>>]
  /\ phase' = "mark"
  /\ UNCHANGED <<man, closed, panicked, x, mv, gr, extracted>>

MarkUsed ==      \* for depIndex, dep := range mavenDeps { for key := range importMap { if strings.Contains(key, dep.GroupId) ...
  /\ phase = "mark"
  /\ IF ap.depIndex > Len(ap.mavenDeps)
     THEN /\ phase' = "collect" /\ ap' = [ap EXCEPT !.depIndex = 1]
     ELSE /\ ap' = [ap EXCEPT !.depIndex = @ + 1,
                              !.needRemoveMap = IF \E key \in ap.importMap : Contains(key, ap.mavenDeps[ap.depIndex].group)
                                                THEN @ \cup {ap.depIndex} ELSE @]
          /\ UNCHANGED phase
  /\ UNCHANGED <<man, closed, sources, panicked, x, mv, gr, extracted>>

Collect ==       \* for index, dep := range mavenDeps { if _, ok := needRemoveMap[index]; !ok { results = append(results, dep) } }
  /\ phase = "collect"
  /\ IF ap.depIndex > Len(ap.mavenDeps)
     THEN /\ phase' = "done" /\ ap' = ap
     ELSE /\ ap' = [ap EXCEPT !.depIndex = @ + 1,
                              !.results = IF ap.depIndex \in ap.needRemoveMap THEN @ ELSE Append(@, ap.mavenDeps[ap.depIndex])]
          /\ UNCHANGED phase
  /\ UNCHANGED <<man, closed, sources, panicked, x, mv, gr, extracted>>

Finished == phase = "done"
Done == Finished /\ UNCHANGED vars

Next == WriteDependency \/ WriteClose \/ XmlStart \/ XmlEnd \/ XmlCharData \/ XmlComment \/ XmlEof
        \/ MavenScan \/ BuildDepsChild \/ BuildDepsReturn
        \/ ScriptStatement \/ EnterDependencies \/ BlockStatement \/ ExitDependencies \/ GetDepsInfo
        \/ StartAnalysisPath \/ MarkUsed \/ Collect \/ Done

Spec == Init /\ [][Next]_vars

-----------------------------------------------------------------------------
(* Properties: the Machine's output satisfies the Reference *)

Input == [manifests |-> <<man>>, sources |-> sources]

\* no in-quantifier manifest makes the front-ends or the report panic
C19_NoPanic == ~panicked

\* the front-end returns every declared dependency once, with group, artifact and scope, in order
C19_ExtractedExact ==
  phase = "extracted" => DiffExtract(man, [panic |-> FALSE, deps |-> extracted]) = {}

\* mid-way: after every statement / every <dependency> the list built so far is exact for the entries
\* written so far (an entry in another notation never disturbs what is already there or comes next)
C19_PrefixExact ==
  /\ phase = "block" => Accepts(gr.results, Cands(man, Status))
  /\ (phase = "builddeps" /\ mv.ci = 1) =>
        Accepts(mv.deps, Cands([man EXCEPT !.entries = SubSeq(@, 1, mv.di - 1)], Status))

\* nothing is ever extracted for a project reference or a file tree
C19_OtherNotationsSkipped ==
  \A r \in Range(gr.results) \cup Range(mv.deps) :
     \E k \in DOMAIN man.entries : Status(man.entries[k]) # "never" /\ Match(r, [e |-> man.entries[k], kind |-> man.kind])

\* the report is exactly the unused sub-list - except for the known finding (imports of enum-only /
\* annotation-only files), which the Reference labels
C19_UnusedExact ==
  (Finished /\ ~panicked) =>
     \A it \in DiffUnused("unused", Input, Imports(Input), [panic |-> FALSE, deps |-> ap.results]) : TagEnumOnlyImport \in it.tags

\* generation: every explored project becomes a replay case for the real code
\* (`machine` = what the Machine computed; compared with the real code's output as informational drift only)
Emit == Finished => PrintT(<<"CASE", ToJson([input |-> Input,
                                             machine |-> [panic |-> panicked, extracted |-> extracted, unused |-> ap.results]])>>)

=============================================================================
