\* NOT part of any check: the Machine of the code BEFORE the proposed repairs C11-1 / C11-2.
\* TLC reports C11_FindingsExact violated (a Maven tree panics; @Test @Ignore loses IgnoreTest).
SPECIFICATION Spec
CONSTANTS
  MaxBody = 1
  Alphabet = {"assertEq", "plain", "thisHelper"}
  AnnoKinds = {"T", "TI", "IT"}
  HelperKinds = {"none", "assert"}
  PathKinds = {"flatTest", "mavenTest"}
  Repaired = FALSE
INVARIANTS C11_FindingsExact C11_OnlyTestFiles C11_FileAttribution C11_LoopBounds
