\* thorough, count part: 4 declared methods two of which share their full name (overloads), call lists <= 3 over 4 targets... kept at <= 2 (194481 models)
SPECIFICATION Spec
CONSTANTS
  Part = "count"
  Repaired = TRUE
  MaxCalls = 2
  Targets = 4
  WithOverload = TRUE
  PreToks = {"public", "private", "protected", "static", "final", "abstract", "synchronized"}
  MaxPre = 0
  RetKinds = {"null"}
  MaxRets = 0
  MaxMembers = 1
  WithCtor = FALSE
  MaxPieces = 1
  MaxNames = 1
INVARIANTS C18_CountsConserved C18_CountReference C18_StaticIsPermutationInvariant C18_NullableExactOnce C18_SummaryNumbers C18_NoStaleMethodState C18_ConceptSum Emit
