\* thorough, count part: 4 declared methods two of which share their full name (overloads), call lists of length <= 2 over the three declared keys (28 561 models)
SPECIFICATION Spec
CONSTANTS
  Part = "count"
  Repaired = TRUE
  MaxCalls = 2
  Targets = 3
  WithOverload = TRUE
  PreToks = {"public", "private", "protected", "static", "final", "abstract", "synchronized"}
  MaxPre = 0
  RetKinds = {"null"}
  MaxRets = 0
  MaxMembers = 1
  WithCtor = FALSE
  MaxPieces = 1
  MaxNames = 1
INVARIANTS C18_CountsConserved C18_CountReference C18_StaticIsPermutationInvariant C18_NullableExactOnce C18_SummaryNumbers C18_NoStaleMethodState C18_ConceptSum Emit
