------------------------------ MODULE Rename ------------------------------
(* Machine of the rename refactoring's edit sequencing on ONE source line (C05):     *)
(* rename.startParse visits the sites the model attributes to the method in an order *)
(* that is not fixed (the functions of a type come out of a map), and for each site  *)
(* rename.updateSelfRefs reads the file, splices `line[:start] + new + line[stop:]`  *)
(* using the ORIGINAL analysis columns shifted by the replacements already applied   *)
(* to their left (appliedEdits, fix: rename splices by character columns ...), and   *)
(* writes the file back. A line is a sequence of cells; a character is <<cell, k>>.  *)
(* TLC explores every layout, every length relation old/new and every visit order,   *)
(* including a site being visited twice.                                             *)
EXTENDS Naturals, Integers, Sequences, FiniteSets, TLC, Json

CONSTANTS MaxCells, OldLen, NewLens

VARIABLES cells,      \* the layout: Seq([site : BOOLEAN, w : width in characters])
          newLen,     \* length of the new name
          line,       \* current content of the line (sequence of characters)
          applied,    \* appliedEdits for this line: set of [column, delta]
          todo,       \* sites (cell indices) not yet visited
          revisits    \* how many times a site may still be visited again

vars == <<cells, newLen, line, applied, todo, revisits>>

CellSpace == {[site |-> TRUE, w |-> OldLen]} \cup {[site |-> FALSE, w |-> w] : w \in {1, 2}}
Layouts == UNION {[1..n -> CellSpace] : n \in 1..MaxCells}

RECURSIVE Flat(_, _, _)
\* characters of cells i.. ; site cells are rendered with `len` characters of tag t
Flat(cs, i, rep) ==
  IF i > Len(cs) THEN <<>>
  ELSE (IF cs[i].site /\ rep.on THEN [k \in 1..rep.len |-> <<0, k>>] ELSE [k \in 1..cs[i].w |-> <<i, k>>]) \o Flat(cs, i + 1, rep)
Original(cs) == Flat(cs, 1, [on |-> FALSE, len |-> 0])
\* Reference: simultaneous substitution of every site
Expected(cs, n) == Flat(cs, 1, [on |-> TRUE, len |-> n])

RECURSIVE Col(_, _)
Col(cs, i) == IF i = 1 THEN 0 ELSE Col(cs, i - 1) + cs[i - 1].w      \* analysis column (0-based) of cell i

Init ==
  /\ cells \in {cs \in Layouts : \E i \in DOMAIN cs : cs[i].site}
  /\ newLen \in NewLens
  /\ line = Original(cells)
  /\ applied = {}
  /\ todo = {i \in DOMAIN cells : cells[i].site}
  /\ revisits = 1

RECURSIVE SumDelta(_)
SumDelta(es) == IF es = {} THEN 0 ELSE LET e == CHOOSE x \in es : TRUE IN e.delta + SumDelta(es \ {e})

\* updateSelfRefs for the site in cell i
Visit(i) ==
  LET start == Col(cells, i)
      stop  == start + OldLen
      shift == SumDelta({e \in applied : e.column < start})
      done  == \E e \in applied : e.column = start
  IN  IF done THEN UNCHANGED <<line, applied>>
      ELSE /\ line' = SubSeq(line, 1, start + shift) \o [k \in 1..newLen |-> <<0, k>>] \o SubSeq(line, stop + shift + 1, Len(line))
           /\ applied' = applied \cup {[column |-> start, delta |-> newLen - OldLen]}

VisitNext == \E i \in todo : Visit(i) /\ todo' = todo \ {i} /\ UNCHANGED <<cells, newLen, revisits>>
VisitAgain == /\ revisits > 0
              /\ \E i \in {j \in DOMAIN cells : cells[j].site} \ todo : Visit(i) /\ revisits' = revisits - 1
              /\ UNCHANGED <<cells, newLen, todo>>
Finished == todo = {}
Done == Finished /\ revisits = 0 /\ UNCHANGED vars

Next == VisitNext \/ VisitAgain \/ Done
Spec == Init /\ [][Next]_vars /\ WF_vars(VisitNext)

\* whatever the visit order, when all sites have been visited the line is the simultaneous substitution
C05_AllSitesOnlySites == Finished => line = Expected(cells, newLen)
\* every intermediate line differs from the original only inside visited sites (prefix of unvisited text intact)
C05_LengthAccounting == Len(line) = Len(Original(cells)) + Cardinality(applied) * (newLen - OldLen)
C05_Terminates == <>Finished

Emit == Finished => PrintT(<<"CASE", ToJson([cells |-> cells, newLen |-> newLen])>>)
=============================================================================
