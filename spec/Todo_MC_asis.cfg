\* the unrepaired ParseComment (fixed offset t[2:] also for `#` comments): TLC finds the `#` crash and
\* the `#TODO` miss by itself.  Not part of the check plan; run by hand with -continue and ShowDiff.
SPECIFICATION Spec
CONSTANTS
  MaxLen = 3
  Starts <- StartsNone
  Alphabet <- AlphaBase
  Files <- FilesQuick
  FilterLists <- FiltersQuick
  HashStrip = 2
INVARIANTS C17_NoCrashOnAnyShape C17_ReportedExact
