\* by hand only (tlc -continue): the Machine of the code AS FOUND (binary search over the unsorted kind list,
\* variable-arity parameter not counted, interface method bodies not scanned); ShowDiff prints every
\* discrepancy, which is how the three defects are rediscovered from the Machine alone.
SPECIFICATION Spec
CONSTANTS
  Profiles = {"shape", "sort"}
  Lens = {30, 31}
  Params = {5, 6}
  IfCounts = {7, 8}
  SwitchCounts = {7, 8}
  Heights = {3, 4}
  NameKinds = {"normal"}
  TypeKinds = {"class", "interface"}
  Anns = {0}
  ClassNormals = {0, 20}
  ClassGets = {0, 1}
  SortLevels = {0, 1}
  SortKinds = {"largeClass", "repeatedSwitches", "longParameterList", "longMethod", "dataClass"}
  SortMaxFiles = 2
  SortMix = FALSE
  IgnoreSets = {{}}
  ConfigIgnoreOver = {"longMethod"}
  Sorts = {FALSE, TRUE}
  Repaired = FALSE
INVARIANTS C10_LayoutOK ShowDiff
