\* two Analysis calls in one process, quick: every ordered pair of models of <= 2 classes with <= 1 function; the registers
\* serviceNodeMap / returnTypeMap / longParameterList are carried from the first call into the second
SPECIFICATION Spec
CONSTANTS
  MaxCalls = 2
  MaxClasses = 2
  MaxMethods = 1
  ClassPoolName = "pair"
  NamePool = {"doSave"}
  RetPool = {"Order"}
  ParamPoolName = "pair2"
  Ctors = FALSE
  LifecycleStore = "merge"
  CtorIsMethod = FALSE
INVARIANTS X08_Lifecycle X08_ReturnTypes X08_Related X08_SplitAgrees X08_Registers Emit
