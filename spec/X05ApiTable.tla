------------------------------ MODULE X05ApiTable ------------------------------
(* Implementation-shaped Machine of the presentation layer of `coca api` (cmd/api.go) and of *)
(* `coca call -r` (cmd/call.go):                                                            *)
(*   filterAPIs := FilterApiByPrefix(apiPrefix, restApis)         FilterAll / FilterStep     *)
(*   dotContent, counts := analyser.AnalysisByFiles(filterAPIs, ..)   AnalyseStep (one API:  *)
(*                         root marker + BuildCallChain; Size = len(Split(chain, " -> ")))   *)
(*   if Sort { SortAPIs(counts) }            SortStep  (sort.Slice by Size <, not stable:    *)
(*                                                      any non-decreasing arrangement)     *)
(*   for _, v := range counts { table.Append(.., replacePackage(v.Caller)) }   RowStep       *)
(*                         (the same loop fills api.csv in writeCsv: one register `rows`)   *)
(*   if RemovePackageNames != "" { dotContent = replacePackage(dotContent) }   DotStep       *)
(*   call:  content = strings.ReplaceAll(content, RemoveName, "")              DotStep       *)
(* replacePackage compiles name1|name2|.. (dots escaped) and deletes every match in the     *)
(* text: leftmost position first, at one position the first listed alternative that         *)
(* matches.  The code model is a fixed small project (ModelPool); the APIs, the flags and    *)
(* the root are chosen by TLC.  At the end the Machine's flagged output is judged against    *)
(* its own plain output (the same path with the flags off) by the Reference's relational     *)
(* Diff, and the input is emitted as a replay case.  One switch names where the code as it   *)
(* is deviates from the statement (proposed_fixes/X05.md):                                   *)
(*   RemoveForm "anywhere"  every occurrence in the whole text is deleted (as written)        *)
(*              "prefix"    only a prefix of a node name, once (X05-1.patch)                  *)
(*   CsvForm    "joined"    api.csv = the cells joined by commas, whatever they contain        *)
(*              "quoted"    a csv writer quotes a cell that contains a comma (X05-2.patch)    *)
(* The registered cfgs run the code AS IT IS and demand that every discrepancy carries the    *)
(* Reference's tag of that shape; `_repaired` demands exactness.                              *)
EXTENDS X05ApiTableRef, Json

CONSTANTS Cmd,           \* "api" | "call"
          ModelPool,     \* name of the code model
          UriPool, RemovePool,
          MaxApis,
          RemoveForm,
          CsvForm        \* "joined": the cells are joined by commas as they are (as written); "quoted": a csv writer (X05-2.patch)

\* ------------------------------------------------------------------ the code model (deps.json)
Callee(p, n, f) == [pkg |-> p, node |-> n, name |-> f]
Methods ==
  CASE ModelPool = "shop" ->
        << [pkg |-> "app.web.webapp", node |-> "Main", name |-> "run",
            calls |-> <<Callee("app.svc", "S", "a"), Callee("app.svc", "S", "b")>>],
           [pkg |-> "app.web.webapp", node |-> "Main", name |-> "list", calls |-> <<>>],
           [pkg |-> "app.svc", node |-> "S", name |-> "a", calls |-> <<Callee("org.lib", "Y", "n")>>],
           [pkg |-> "app.svc", node |-> "S", name |-> "b", calls |-> <<>>] >>
    [] ModelPool = "plain" ->
        << [pkg |-> "com.acme.web", node |-> "C", name |-> "get", calls |-> <<Callee("com.acme.core", "S", "find")>>],
           [pkg |-> "com.acme.web", node |-> "C", name |-> "put", calls |-> <<>>],
           [pkg |-> "com.acme.core", node |-> "S", name |-> "find", calls |-> <<>>] >>
Handlers == CASE ModelPool = "shop" -> {1, 2, 3} [] ModelPool = "plain" -> {1, 2, 3}

Uris ==
  CASE UriPool = "ab"    -> {"/a", "/a/b", "/b"}
    [] UriPool = "comma" -> {"/a", "/b/{id:[0-9]{1,3}}"}
    [] UriPool = "inside" -> {"/a", "/a/app.x"}
Removes ==
  CASE RemovePool = "shop"  -> {<<>>, <<"app.">>, <<"app.web.webapp.", "org.lib.">>, <<"app.", "app.svc.">>}
    [] RemovePool = "plain" -> {<<>>, <<"com.acme.">>, <<"com.acme.web.", "com.acme.core.">>, <<"com.acme">>, <<"com.acme.web.", "">>}
    [] RemovePool = "call"  -> {<<"app.">>, <<"app.svc.">>, <<"org.lib.">>, <<"com.acme.">>, <<"nowhere.">>}
Aggregates == {"", "/a"}

MethodMap == [f \in {FullName(Methods[i]) : i \in DOMAIN Methods} |->
                LET m == Methods[CHOOSE i \in DOMAIN Methods : FullName(Methods[i]) = f]
                IN  [k \in DOMAIN m.calls |-> FullName(m.calls[k])]]
HasCalls(f) == f \in DOMAIN MethodMap /\ MethodMap[f] # <<>>

\* BuildCallChain: for each child, first the child's own chain (if it has calls), then the edge to it.
\* (The models here need at most 3 expansions; the expansion budget of 7 is C03's subject.)
RECURSIVE Chain(_), ChainList(_, _, _)
Chain(f) == IF HasCalls(f) THEN ChainList(f, MethodMap[f], 1) ELSE <<>>
ChainList(f, lst, k) ==
  IF k > Len(lst) THEN <<>>
  ELSE (IF HasCalls(lst[k]) THEN Chain(lst[k]) ELSE <<>>) \o << <<f, lst[k]>> >> \o ChainList(f, lst, k + 1)

\* ------------------------------------------------------------------ replacePackage / strings.ReplaceAll
RECURSIVE DeleteAll(_, _, _)
DeleteAll(names, s, i) ==
  IF i > Len(s) THEN ""
  ELSE LET hits == {k \in DOMAIN names : names[k] # "" /\ OccursAt(s, names[k], i)}
       IN  IF hits = {} THEN SubSeq(s, i, i) \o DeleteAll(names, s, i + 1)
           ELSE LET k == CHOOSE x \in hits : \A y \in hits : x <= y          \* the first listed alternative
                IN  DeleteAll(names, s, i + Len(names[k]))
DeletePrefix(names, s) ==
  LET hits == {k \in DOMAIN names : names[k] # "" /\ OccursAt(s, names[k], 1)}
  IN  IF hits = {} THEN s ELSE LET k == CHOOSE x \in hits : \A y \in hits : x <= y IN SubSeq(s, Len(names[k]) + 1, Len(s))

\* a node name / any other piece of text, after -r
ReplNode(names, s) == IF RemoveForm = "anywhere" THEN DeleteAll(names, s, 1) ELSE DeletePrefix(names, s)
ReplText(names, s) == IF RemoveForm = "anywhere" THEN DeleteAll(names, s, 1) ELSE s

VARIABLES apis,            \* input: restApis (apis.json)
          flags,           \* input
          phase,           \* "input" | "filter" | "analyse" | "sort" | "rows" | "dot" | "done"
          fi, filterAPIs,  \* FilterApiByPrefix
          ai, counts, segs,\* AnalysisByFiles: counts and the graph, one segment per API
          counts0,         \* counts as they were before SortAPIs (history, for the sort property)
          ri, rows,        \* the table / csv rows
          edges            \* call.dot

vars == <<apis, flags, phase, fi, filterAPIs, ai, counts, segs, counts0, ri, rows, edges>>

RootOf(i) == FullName(Methods[i])

Init ==
  /\ apis = <<>>
  /\ flags \in IF Cmd = "api"
               THEN {[count |-> TRUE, sort |-> s, remove |-> r, aggregate |-> a, root |-> ""] : s \in BOOLEAN, r \in Removes, a \in Aggregates}
               ELSE {[count |-> FALSE, sort |-> FALSE, remove |-> r, aggregate |-> "", root |-> RootOf(h)] : r \in {x \in Removes : Len(x) = 1}, h \in Handlers}
  /\ phase = "input"
  /\ fi = 1 /\ filterAPIs = <<>> /\ ai = 1 /\ counts = <<>> /\ segs = <<>> /\ counts0 = <<>>
  /\ ri = 1 /\ rows = <<>> /\ edges = <<>>

NewApi ==
  /\ Cmd = "api" /\ phase = "input" /\ Len(apis) < MaxApis
  /\ \E u \in Uris, h \in Handlers :
       apis' = Append(apis, [verb |-> "GET", uri |-> u, pkg |-> Methods[h].pkg, node |-> Methods[h].node, name |-> Methods[h].name])
  /\ UNCHANGED <<flags, phase, fi, filterAPIs, ai, counts, segs, counts0, ri, rows, edges>>

StartRun ==
  /\ phase = "input"
  /\ IF Cmd = "call"
     THEN /\ edges' = Chain(flags.root)                 \* CallGraph.Analysis (no lookup)
          /\ phase' = "dot"
          /\ UNCHANGED filterAPIs
     ELSE IF flags.aggregate = ""
     THEN /\ filterAPIs' = apis /\ phase' = "analyse" /\ UNCHANGED edges        \* `restFieldsApi = apis`
     ELSE /\ phase' = "filter" /\ UNCHANGED <<filterAPIs, edges>>
  /\ UNCHANGED <<apis, flags, fi, ai, counts, segs, counts0, ri, rows>>

FilterStep ==
  /\ phase = "filter" /\ fi <= Len(apis)
  /\ filterAPIs' = IF StartsWith(apis[fi].uri, flags.aggregate) THEN Append(filterAPIs, apis[fi]) ELSE filterAPIs
  /\ fi' = fi + 1
  /\ UNCHANGED <<apis, flags, phase, ai, counts, segs, counts0, ri, rows, edges>>

EndFilter ==
  /\ phase = "filter" /\ fi > Len(apis)
  /\ phase' = "analyse"
  /\ UNCHANGED <<apis, flags, fi, filterAPIs, ai, counts, segs, counts0, ri, rows, edges>>

AnalyseStep ==          \* loop body of AnalysisByFiles
  /\ phase = "analyse" /\ ai <= Len(filterAPIs)
  /\ LET a == filterAPIs[ai]
         caller == FullName(a)
         chain == Chain(caller)
     IN  /\ segs' = Append(segs, [marker |-> <<a.verb \o " " \o a.uri, caller>>, edges |-> chain])
         /\ counts' = Append(counts, [size |-> Len(chain) + 1, method |-> a.verb, uri |-> a.uri, caller |-> caller])
  /\ ai' = ai + 1
  /\ UNCHANGED <<apis, flags, phase, fi, filterAPIs, counts0, ri, rows, edges>>

EndAnalyse ==
  /\ phase = "analyse" /\ ai > Len(filterAPIs)
  /\ phase' = IF flags.sort THEN "sort" ELSE "rows"
  /\ counts0' = counts
  /\ UNCHANGED <<apis, flags, fi, filterAPIs, ai, counts, segs, ri, rows, edges>>

Perms(n) == {p \in [1..n -> 1..n] : \A i, j \in 1..n : p[i] = p[j] => i = j}

SortStep ==             \* SortAPIs: some arrangement that is non-decreasing by Size
  /\ phase = "sort"
  /\ \E p \in Perms(Len(counts)) :
       LET c == [k \in DOMAIN counts |-> counts[p[k]]]
       IN  /\ \A k \in 1..Len(c) - 1 : ~(c[k + 1].size < c[k].size)
           /\ counts' = c
  /\ phase' = "rows"
  /\ UNCHANGED <<apis, flags, fi, filterAPIs, ai, segs, counts0, ri, rows, edges>>

RowStep ==              \* table.Append / csvTable.Append
  /\ phase = "rows" /\ ri <= Len(counts)
  /\ rows' = Append(rows, [counts[ri] EXCEPT !.caller = ReplNode(flags.remove, @)])
  /\ ri' = ri + 1
  /\ UNCHANGED <<apis, flags, phase, fi, filterAPIs, ai, counts, segs, counts0, edges>>

EndRows ==
  /\ phase = "rows" /\ ri > Len(counts)
  /\ phase' = "dot"
  /\ UNCHANGED <<apis, flags, fi, filterAPIs, ai, counts, segs, counts0, ri, rows, edges>>

ReplEdges(es) == [k \in DOMAIN es |-> <<ReplNode(flags.remove, es[k][1]), ReplNode(flags.remove, es[k][2])>>]

DotStep ==              \* replacePackage(dotContent) / strings.ReplaceAll(content, RemoveName, "")
  /\ phase = "dot"
  /\ segs' = [k \in DOMAIN segs |-> [marker |-> <<ReplText(flags.remove, segs[k].marker[1]), ReplNode(flags.remove, segs[k].marker[2])>>,
                                     edges |-> ReplEdges(segs[k].edges)]]
  /\ edges' = ReplEdges(edges)
  /\ phase' = "done"
  /\ UNCHANGED <<apis, flags, fi, filterAPIs, ai, counts, counts0, ri, rows>>

Finished == phase = "done"
Done == Finished /\ UNCHANGED vars

Next == NewApi \/ StartRun \/ FilterStep \/ EndFilter \/ AnalyseStep \/ EndAnalyse \/ SortStep \/ RowStep \/ EndRows \/ DotStep \/ Done
Spec == Init /\ [][Next]_vars

-----------------------------------------------------------------------------
(* input / output in the shapes of the Reference *)

Input == [cmd |-> Cmd, methods |-> Methods, apis |-> apis, flags |-> flags]

\* the plain run: the same path with the flags off
PlainSeg(i) == [marker |-> <<apis[i].verb \o " " \o apis[i].uri, FullName(apis[i])>>, edges |-> Chain(FullName(apis[i]))]
PlainRow(i) == [size |-> Len(Chain(FullName(apis[i]))) + 1, method |-> apis[i].verb, uri |-> apis[i].uri, caller |-> FullName(apis[i])]
PlainRows == [i \in DOMAIN apis |-> PlainRow(i)]
\* api.csv as a reader that splits at commas sees it
CsvOf(rs) == IF CsvForm = "joined" /\ \E k \in DOMAIN rs : HasComma(rs[k].uri) \/ HasComma(rs[k].caller) \/ HasComma(rs[k].method)
             THEN [ok |-> FALSE, rows |-> <<>>]
             ELSE [ok |-> TRUE, rows |-> rs]
BaseOut == [dotok |-> TRUE, segs |-> [i \in DOMAIN apis |-> PlainSeg(i)], edges |-> IF Cmd = "call" THEN Chain(flags.root) ELSE <<>>,
            table |-> [present |-> Cmd = "api", ok |-> TRUE, rows |-> PlainRows], csv |-> CsvOf(PlainRows)]
WithOut == [dotok |-> TRUE, segs |-> segs, edges |-> edges,
            table |-> [present |-> Cmd = "api", ok |-> TRUE, rows |-> rows], csv |-> CsvOf(rows)]
MachineDiff == Diff([input |-> Input, observed |-> [panic |-> FALSE, base |-> BaseOut, with |-> WithOut]])

-----------------------------------------------------------------------------
(* Properties *)

X05_OutputExactOrTagged == Finished => \A d \in MachineDiff : d.tags # {}
X05_OutputExact == Finished => MachineDiff = {}

\* registers
IsSubseqByPrefix(sub, all, prefix) == sub = SelectSeq(all, LAMBDA a : StartsWith(a.uri, prefix))
X05_FilterKeepsOrder == phase \in {"analyse", "sort", "rows", "dot", "done"} /\ Cmd = "api" => IsSubseqByPrefix(filterAPIs, apis, flags.aggregate)
Bag(s) == [x \in Range(s) |-> Cardinality({i \in DOMAIN s : s[i] = x})]
X05_SortIsAPermutation == phase \in {"rows", "dot", "done"} /\ Cmd = "api" =>
  /\ Bag(counts) = Bag(counts0)
  /\ (flags.sort => NonDecreasing(counts))
  /\ (~flags.sort => counts = counts0)
X05_OneRowPerApi == Finished /\ Cmd = "api" => Len(rows) = Len(filterAPIs) /\ Len(segs) = Len(filterAPIs)

Emit == Finished => PrintT(<<"CASE", ToJson([input |-> Input])>>)

ShowDiff == Finished => LET d == MachineDiff
                        IN  IF d = {} THEN TRUE ELSE PrintT(<<"NOTE", ToJson([apis |-> apis, flags |-> flags, diff |-> d])>>)
=============================================================================
