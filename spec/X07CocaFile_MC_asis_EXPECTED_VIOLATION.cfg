\* the code as it is (no repair): the Machine violates X07_Complete (LatestData.java is skipped; the root named latestData
\* or below a directory the .gitignore names loses every file), X07_Sound (a "/gen" line does nothing unless the root is
\* named ".") and X07_NoDirectory (the directory pkg.java is returned).  Not part of a check; run with `tlc -continue` and
\* INVARIANT ShowDiff to list every violating case.
SPECIFICATION Spec
CONSTANTS
  Universe <- UniverseJava
  Walkers = {"code", "test"}
  Roots <- RootsAll
  Patterns <- PatternsJava
  MaxLines = 1
  PathBase = "spelled"
  TestDataTest = "substring"
  DirTest = "none"
INVARIANTS X07_Complete X07_Sound X07_NoDirectory X07_Once X07_Slice
