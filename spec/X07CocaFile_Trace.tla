--------------------------- MODULE X07CocaFile_Trace ---------------------------
(* Trace validation: every line of trace.ndjson is one directory tree, built on disk in a *)
(* fresh process and walked by the real cocafile functions (or by the coca binary:        *)
(* `coca analysis` / `coca tbs`) once for every way of naming the root the case lists;    *)
(* Diff (X07CocaFileRef) is the oracle.  Never blocks: each discrepancy is printed and    *)
(* the rest of the trace is still checked.                                                *)
EXTENDS X07CocaFileRef, Json
VARIABLE l
Trace == ndJsonDeserialize("trace.ndjson")
Init == l = 1
Step == /\ l <= Len(Trace)
        /\ LET d == Diff(Trace[l])
           IN  IF d = {} THEN TRUE ELSE PrintT(<<"DIFF", l, ToJson(d)>>)
        /\ l' = l + 1
Spec == Init /\ [][Step]_l
Accepted == TLCGet("stats").diameter - 1 = Len(Trace)
=============================================================================
