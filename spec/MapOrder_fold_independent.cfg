SPECIFICATION Spec
CONSTANTS
  Keys <- Rindep
  Shape = "fold"
  SortKey <- SKr
INVARIANTS C08_FoldOrderIndependent
