---------------------------- MODULE JavaShapes ----------------------------
(* The derivation machine over the shape space of JavaShapesRef (see there). *)
EXTENDS JavaShapesRef

CONSTANTS MaxFeatures

VARIABLES chosen, project, done
vars == <<chosen, project, done>>

Init == chosen = {} /\ project = "single" /\ done = FALSE

AddFeature == /\ ~done /\ Cardinality(chosen) < MaxFeatures
              /\ \E f \in Features \ chosen : chosen' = chosen \cup {f}
              /\ UNCHANGED <<project, done>>
Finish == /\ ~done /\ chosen # {}
          /\ \E p \in {"single", "sandwich"} : project' = p
          /\ done' = TRUE /\ UNCHANGED chosen
Done == done /\ UNCHANGED vars
Next == AddFeature \/ Finish \/ Done
Spec == Init /\ [][Next]_vars

\* the shape space is what it claims to be
C09_ShapeSpace == chosen \subseteq Features /\ Cardinality(chosen) <= MaxFeatures

Emit == done => PrintT(<<"CASE", ToJson([features |-> chosen, project |-> project])>>)
=============================================================================
