\* quick, "bodies": <= 2 imports, then one type (struct A with 4 field lists incl. grouped names `x, y int`, pointer
\* and qualified field types; interface with a parameterised method) and one member: method M on A (value / pointer
\* receiver) or function F with 4 parameter lists (grouped names), 0/1 results and every body of <= 2 statements over
\* package calls, receiver calls, defer, assignment from a call, return.
SPECIFICATION Spec
CONSTANTS
  Langs = {"go"}
  Detail = "bodies"
  MaxDecls = 2
  MaxImports = 2
  Wide = FALSE
  SharedCell = FALSE
  FirstNameOnly = FALSE
  GlueImportAs = FALSE
INVARIANTS C20_NoCrash C20_GoDeclsExact C20_PyDeclsExact C20_GoMapOwnNames C20_PyNoStaleClass Emit
