--------------------------- MODULE X10SessionRef ---------------------------
(* Property-level Reference for command SESSIONS (extension X10).                          *)
(*                                                                                        *)
(* coca is used as a sequence of commands in one working directory: `coca analysis`       *)
(* leaves coca_reporter/deps.json and identify.json, `coca api`, `call`, `rcall`, `arch`, *)
(* `count`, `concept`, `evaluate`, `suggest` read them, `api` keeps apis.json and `tbs`   *)
(* keeps tidentify.json for later requests, and every command leaves its own report       *)
(* files next to them. The same commands are also served one after the other by ONE       *)
(* process through the root command of package cmd (the repository's cmd tests, any       *)
(* embedding program).                                                                    *)
(*                                                                                        *)
(* STATEMENT. What a command reports is determined by its own arguments, the source tree  *)
(* it is pointed at, and the files under coca_reporter/ that it READS - nothing else:     *)
(* not by commands whose files it does not read, not by the order of unrelated commands,  *)
(* not by anything an earlier command left in the process. Formally: let the SLICE of     *)
(* step i be the steps that (transitively) wrote the files step i reads, plus i itself.   *)
(* Running the slice alone, in a fresh directory (and a fresh process), makes step i      *)
(* report exactly what it reports in the full session: same outcome, same standard        *)
(* output, same content of every file it writes. And a command changes no file under      *)
(* coca_reporter/ other than its own.                                                     *)
(*                                                                                        *)
(* Which files a command reads and writes is written down below from the command          *)
(* implementations (cmd/*.go, cmd/cmd_util); a presence test counts as a read. The        *)
(* Reference has no other variable: a dependency the table does not know (a stale file    *)
(* consulted after all, a package-level variable or a flag value surviving between two    *)
(* requests of one process) makes the slice run differ from the session and is reported.  *)
(*                                                                                        *)
(* rec.steps    : Seq([cmd, proj, flag])   proj 0 = the command takes no source path      *)
(*                  analysis: flag = -i (recompute the identifiers; FALSE = reuse)        *)
(*                  api:      flag = -f (force a new scan)                                *)
(*                  todo:     flag = the wider extension list (-e .java,.py; else -e .java)*)
(*                  bs:       flag = -s type                                              *)
(* rec.slices   : Seq(Seq(Nat))            slices[i] = the slice of step i, ascending     *)
(* rec.via      : "cli" (one process of the binary per step) | "cmd" (one process serves  *)
(*                the whole run through cmd.NewRootCmd)                                   *)
(* rec.observed : [full : Seq(obs), sliced : Seq(obs)]   obs of every step of the session *)
(*                and, for every i, obs of the LAST step of the run of slices[i];         *)
(*                obs = [failed, stdout, files : Seq([name, hash])]  (canonical hashes of *)
(*                all files under coca_reporter/ after the step)                          *)
EXTENDS Naturals, Sequences, FiniteSets, SequencesExt, TLC

DepsReaders == {"api", "call", "rcall", "arch", "count", "concept", "evaluate", "suggest"}

Has(fs, f)   == f \in DOMAIN fs
DepOf(fs, f) == IF Has(fs, f) THEN fs[f] ELSE {}

\* the files whose presence or content the command looks at
Reads(st) ==
  CASE st.cmd = "analysis" -> IF st.flag THEN {} ELSE {"identify.json"}
    [] st.cmd = "api"      -> {"identify.json", "deps.json"} \cup (IF st.flag THEN {} ELSE {"apis.json"})
    [] st.cmd \in {"arch", "evaluate"} -> {"identify.json", "deps.json"}
    [] st.cmd \in {"call", "rcall", "count", "concept", "suggest"} -> {"deps.json"}
    [] st.cmd = "tbs"      -> {"tidentify.json"}
    [] OTHER               -> {}

\* the files it writes that later commands read (LoadIdentify / LoadTestIdentify write the file when it is missing)
CacheWrites(st, fs) ==
  CASE st.cmd = "analysis" -> IF st.flag THEN {"identify.json", "deps.json"} ELSE {"deps.json"}
    [] st.cmd = "api"      -> (IF Has(fs, "identify.json") THEN {} ELSE {"identify.json"}) \cup
                              (IF st.flag \/ ~Has(fs, "apis.json") THEN {"apis.json"} ELSE {})
    [] st.cmd = "arch"     -> IF Has(fs, "identify.json") THEN {} ELSE {"identify.json"}
    [] st.cmd = "tbs"      -> IF Has(fs, "tidentify.json") THEN {} ELSE {"tidentify.json"}
    [] OTHER               -> {}

\* every file the command (re)writes
Reports(st, fs) ==
  CacheWrites(st, fs) \cup
  (CASE st.cmd = "api"      -> {"api.csv", "api.dot"}
     [] st.cmd = "call"     -> {"call.dot"}
     [] st.cmd = "rcall"    -> {"rcall.dot", "rcallmap.json"}
     [] st.cmd = "arch"     -> {"arch.dot"}
     [] st.cmd = "evaluate" -> {"evaluate.json"}
     [] st.cmd = "bs"       -> {"nodeInfos.json", "bs.json"}
     [] st.cmd = "tbs"      -> {"tdeps.json", "tbs.json"}
     [] st.cmd = "todo"     -> {"simple-todos.json"}
     [] OTHER               -> {})

\* sessions stay on the paths where the commands answer: the readers of deps.json come after an analysis
Applicable(st, fs) == st.cmd \in DepsReaders => Has(fs, "deps.json")

\* the steps a step's reports depend on
StepDep(i, st, fs) == {i} \cup UNION {DepOf(fs, f) : f \in Reads(st)}
After(i, st, fs) ==
  LET w == CacheWrites(st, fs)
      d == StepDep(i, st, fs)
  IN  [f \in DOMAIN fs \cup w |-> IF f \in w THEN d ELSE fs[f]]

\* the file table before each step, and the dependency set of each step
RECURSIVE TablesFrom(_, _, _)
TablesFrom(steps, i, fs) ==
  IF i > Len(steps) THEN <<>>
  ELSE <<fs>> \o TablesFrom(steps, i + 1, After(i, steps[i], fs))
Tables(steps) == TablesFrom(steps, 1, <<>>)
Deps(steps) == LET t == Tables(steps) IN [i \in DOMAIN steps |-> StepDep(i, steps[i], t[i])]
WellFormed(steps) == LET t == Tables(steps) IN \A i \in DOMAIN steps : Applicable(steps[i], t[i])

SliceOf(steps, i) == SetToSortSeq(Deps(steps)[i], LAMBDA a, b : a < b)
SubSession(steps, sl) == [k \in DOMAIN sl |-> steps[sl[k]]]

-----------------------------------------------------------------------------
ItemT(k, w, t) == [prop |-> "X10", kind |-> k, where |-> w, tags |-> t]
Item(k, w) == ItemT(k, w, {})

HashOf(o, f) == IF \E k \in DOMAIN o.files : o.files[k].name = f
                THEN (CHOOSE k \in DOMAIN o.files : o.files[k].name = f)
                ELSE 0
Content(o, f) == IF HashOf(o, f) = 0 THEN "" ELSE o.files[HashOf(o, f)].hash
Names(o) == {o.files[k].name : k \in DOMAIN o.files}
NoObs == [failed |-> FALSE, stdout |-> "", files |-> <<>>]

Where(i, st) == "step " \o ToString(i) \o " " \o st.cmd

Diff(rec) ==
  LET steps == rec.steps
      t     == Tables(steps)
      full  == rec.observed.full
      sl    == rec.observed.sliced
      prev(i) == IF i = 1 THEN NoObs ELSE full[i - 1]
  IN  IF ~WellFormed(steps) \/ Len(full) # Len(steps) \/ Len(sl) # Len(steps) \/ Len(rec.slices) # Len(steps)
      THEN {Item("record-malformed", "")}
      ELSE UNION {
        LET st == steps[i]
            w  == Reports(st, t[i])
        IN  (IF rec.slices[i] = SliceOf(steps, i) THEN {} ELSE {Item("slice-is-not-the-reference-slice", Where(i, st))}) \cup
            (IF full[i].failed = sl[i].failed THEN {} ELSE {Item("outcome-depends-on-more-than-the-slice", Where(i, st))}) \cup
            (IF full[i].stdout = sl[i].stdout THEN {} ELSE {Item("output-depends-on-more-than-the-slice", Where(i, st))}) \cup
            {Item("report-depends-on-more-than-the-slice", Where(i, st) \o " " \o f) :
               f \in {g \in w : Content(full[i], g) # Content(sl[i], g)}} \cup
            \* a command changes no file but its own
            {Item("foreign-file-changed", Where(i, st) \o " " \o f) :
               f \in {g \in (Names(full[i]) \cup Names(prev(i))) \ w : Content(full[i], g) # Content(prev(i), g)}}
        : i \in DOMAIN steps}
=============================================================================
