--------------------------- MODULE X01MoveClassRef ---------------------------
(* Property-level Reference for the extension X01: the move-class refactoring            *)
(* (`coca refactor -m move.config -p DIR`; moveclass.NewMoveClassApp(config, dir),        *)
(* .Analysis(), .Refactoring()).                                                         *)
(*                                                                                      *)
(* STATEMENT.  For any conventional Java project below DIR (one top-level type per file,  *)
(* file a/b/C.java declares package a.b, one declaration per line) and any move           *)
(* configuration of lines `a.b.C -> x.y.C` whose target directory exists, after the        *)
(* refactoring                                                                           *)
(*   (1) the target file x/y/C.java exists and equals the original a/b/C.java except that  *)
(*       its package line reads `package x.y;`;                                           *)
(*   (2) every other file differs from its original only in that each import line naming   *)
(*       a.b.C reads `import x.y.C;`;                                                     *)
(*   (3) every other byte of every file is unchanged (the original a/b/C.java included:    *)
(*       the code copies, it does not delete);                                            *)
(*   (4) several moves in one configuration are all carried out (the configuration is the  *)
(*       sequential composition of its lines: a file created by an earlier line is one of  *)
(*       "every other file" of a later line), and running Analysis twice in one process /  *)
(*       refactoring two projects in a row does not mix their tables.                     *)
(* Quantified over: 1..n files in several packages; package line and imports at any line   *)
(* (after comments, blank lines); several importers; importers with several imports;       *)
(* classes with the same simple name in different packages; static and wildcard imports    *)
(* of the moved class's package (left alone); one or several moves; files without          *)
(* trailing newline; CRLF files; non-ASCII text.                                          *)
(*                                                                                      *)
(* Written from this statement, not from the code.  Pure operators over the record:       *)
(*   rec.input.via      : "api" (NewMoveClassApp / Analysis / Refactoring in-process) or     *)
(*        "cli" (one project; the coca binary: `coca refactor -m move.config -p DIR`)       *)
(*   rec.input.projects : Seq([files, dirs, moves, analyses])   processed in this order    *)
(*        in ONE process, each by  New; Analysis x analyses; Refactoring                   *)
(*     files : Seq([pkg, name, eol, final, lines : Seq([k, pre, name, post])])             *)
(*        path of a file = pkg with "/" for "." , "/", name, ".java"  (below DIR)          *)
(*        eol "\n" | "\r\n";  final: the text ends with a line terminator                  *)
(*        a line is  k = "package": pre "package " name ";" post                          *)
(*                   k = "import" : pre "import " name ";" post    (name may end in ".*")  *)
(*                   k = "static" : pre "import static " name ";" post                    *)
(*                   k = "decl"   : pre post " " name " {"   (post = "public class",       *)
(*                                  "static class", "enum", "public @interface", ...)      *)
(*                   k = "text"   : pre             (anything else: comments, members, })  *)
(*     dirs  : Seq(STRING)  directories (slash form) that exist besides those of the files  *)
(*     moves : Seq([from, to])  qualified names                                           *)
(*   rec.observed : [panic, projects : Seq([before, after])]                              *)
(*        before / after : Seq([path, lines : Seq(STRING)])  every regular file below DIR,  *)
(*        its content split at "\n" (so a CRLF line ends in "\r", and a text that ends     *)
(*        with a terminator has a last element "")                                        *)
(*                                                                                      *)
(* Decisions where the statement is silent:                                              *)
(*   CRLF (decided): (3) says every other byte is unchanged, and a line terminator is not  *)
(*        part of "the line reads ...": a rewritten line of a CRLF file keeps its "\r\n".  *)
(*   Free_X01_Decorated  a rewritten line that had leading blanks or a trailing comment    *)
(*        may either read exactly `import x.y.C;` / `package x.y;` or keep its decoration. *)
(*   Free_X01_Listing    the order in which files are listed.                              *)
(*   Outside the quantifier (InputOK = FALSE => the record is not a case of X01): a move   *)
(*        whose source is not a file of the project, whose target file already exists,     *)
(*        whose target directory does not exist, that renames the class, two moves with    *)
(*        the same source or target, a move of a file created by an earlier move, files     *)
(*        with no or several package lines or whose package line disagrees with the path.  *)
EXTENDS Integers, Sequences, FiniteSets, TLC

Range(s) == {s[i] : i \in DOMAIN s}

-----------------------------------------------------------------------------
(* names and paths *)

RECURSIVE LastDot(_, _)
LastDot(s, i) == IF i = 0 THEN 0 ELSE IF SubSeq(s, i, i) = "." THEN i ELSE LastDot(s, i - 1)
PkgOf(q)    == LET d == LastDot(q, Len(q)) IN IF d = 0 THEN "" ELSE SubSeq(q, 1, d - 1)
SimpleOf(q) == LET d == LastDot(q, Len(q)) IN SubSeq(q, d + 1, Len(q))
RECURSIVE Slashed(_, _)
Slashed(s, i) == IF i > Len(s) THEN ""
                 ELSE (IF SubSeq(s, i, i) = "." THEN "/" ELSE SubSeq(s, i, i)) \o Slashed(s, i + 1)
DirOfPkg(p) == Slashed(p, 1)
PathOfQ(q)  == Slashed(q, 1) \o ".java"
PathOf(f)   == (IF f.pkg = "" THEN "" ELSE DirOfPkg(f.pkg) \o "/") \o f.name \o ".java"
QNameOf(f)  == (IF f.pkg = "" THEN "" ELSE f.pkg \o ".") \o f.name

-----------------------------------------------------------------------------
(* text of a line *)

Canon(l) == CASE l.k = "package" -> "package " \o l.name \o ";"
              [] l.k = "import"  -> "import " \o l.name \o ";"
              [] l.k = "static"  -> "import static " \o l.name \o ";"
              [] l.k = "decl"    -> l.post \o " " \o l.name \o " {"
              [] OTHER           -> ""
TextOf(l) == IF l.k = "text" THEN l.pre
             ELSE IF l.k = "decl" THEN l.pre \o Canon(l)
             ELSE l.pre \o Canon(l) \o l.post
Decorated(l) == l.k # "text" /\ (l.pre # "" \/ (l.k # "decl" /\ l.post # ""))

\* the lines of a file as the projection shows them: the text split at "\n"
Shown(texts, eol, final) ==
  LET n  == Len(texts)
      cr(i) == IF eol = "\r\n" /\ (i < n \/ final) THEN "\r" ELSE ""
  IN  [i \in 1..n |-> texts[i] \o cr(i)] \o (IF final THEN <<"">> ELSE <<>>)

-----------------------------------------------------------------------------
(* the refactoring as the statement defines it: sequential composition of the moves.      *)
(* A state is a sequence of files [path, eol, final, lines : Seq([k, pre, name, post, t])]  *)
(* t = the line was rewritten by some move.                                               *)
(* The three switches describe, for the known-defect tags only, what an implementation     *)
(* does that (a) tells the moved class by the last class/interface declared in its file,   *)
(* (b) does not treat a file created by an earlier move as "another file" of a later one,   *)
(* (c) drops the "\r" of a rewritten line.  The statement is  Sw(TRUE, TRUE, TRUE).          *)

Sw(a, b, c) == [byFile |-> a, copies |-> b, keepCR |-> c]
Statement == Sw(TRUE, TRUE, TRUE)

State0(p) == [i \in DOMAIN p.files |->
               [path |-> PathOf(p.files[i]), eol |-> p.files[i].eol, final |-> p.files[i].final, made |-> FALSE,
                lines |-> [j \in DOMAIN p.files[i].lines |->
                             [k |-> p.files[i].lines[j].k, pre |-> p.files[i].lines[j].pre, name |-> p.files[i].lines[j].name,
                              post |-> p.files[i].lines[j].post, t |-> FALSE]]]]

\* the name under which an implementation with switch (a) off knows the type of a file: the last class or
\* interface declaration of the file ("" when there is none: enum, annotation type)
IsClassOrInterface(l) == l.k = "decl" /\ (LET n == Len(l.post) IN
                           (n >= 5 /\ SubSeq(l.post, n - 4, n) = "class" /\ (n = 5 \/ SubSeq(l.post, n - 5, n - 5) = " "))
                           \/ (n >= 9 /\ SubSeq(l.post, n - 8, n) = "interface" /\ (n = 9 \/ SubSeq(l.post, n - 9, n - 9) = " ")))
LastTypeName(lines) == LET ds == SelectSeq(lines, IsClassOrInterface)
                       IN  IF ds = <<>> THEN "" ELSE ds[Len(ds)].name

Index(S, path) == CHOOSE i \in DOMAIN S : S[i].path = path

ApplyMove(S, mv, sw) ==
  LET src == S[Index(S, PathOfQ(mv.from))]
      known == sw.byFile \/ LastTypeName(src.lines) = SimpleOf(mv.from)
      tgt == [path |-> PathOfQ(mv.to), eol |-> src.eol, final |-> src.final, made |-> TRUE,
              lines |-> [j \in DOMAIN src.lines |->
                           IF src.lines[j].k = "package" /\ known
                           THEN [src.lines[j] EXCEPT !.name = PkgOf(mv.to), !.t = TRUE]
                           ELSE src.lines[j]]]
      rewrite(f) == IF f.made /\ ~sw.copies THEN f
                    ELSE [f EXCEPT !.lines = [j \in DOMAIN f.lines |->
                                                IF f.lines[j].k = "import" /\ f.lines[j].name = mv.from
                                                THEN [f.lines[j] EXCEPT !.name = mv.to, !.t = TRUE]
                                                ELSE f.lines[j]]]
  IN  [i \in DOMAIN S |-> rewrite(S[i])] \o <<tgt>>

RECURSIVE ApplyAll(_, _, _, _)
ApplyAll(S, moves, i, sw) == IF i > Len(moves) THEN S ELSE ApplyAll(ApplyMove(S, moves[i], sw), moves, i + 1, sw)

Expected(p, sw) == ApplyAll(State0(p), p.moves, 1, sw)

\* the strings a line may read (Free_X01_Decorated), without terminator
AllowedTexts(l) == IF ~l.t THEN {TextOf(l)}
                   ELSE {Canon(l)} \cup (IF Decorated(l) THEN {TextOf(l)} ELSE {})

\* per shown element: the set of acceptable strings
AllowedShown(f, sw) ==
  LET n  == Len(f.lines)
      cr(i) == IF f.eol = "\r\n" /\ (i < n \/ f.final) /\ (sw.keepCR \/ ~f.lines[i].t) THEN "\r" ELSE ""
  IN  [i \in 1..n |-> {x \o cr(i) : x \in AllowedTexts(f.lines[i])}] \o (IF f.final THEN <<{""}>> ELSE <<>>)

-----------------------------------------------------------------------------
(* the quantifier *)

FileOK(f) == /\ Cardinality({j \in DOMAIN f.lines : f.lines[j].k = "package"}) = 1
             /\ \A j \in DOMAIN f.lines : f.lines[j].k = "package" => f.lines[j].name = f.pkg
             /\ f.pkg # "" /\ f.name # "" /\ f.eol \in {"\n", "\r\n"}
             /\ \E j \in DOMAIN f.lines : f.lines[j].k = "decl" /\ f.lines[j].name = f.name

RECURSIVE DirsAbove(_, _)
DirsAbove(d, i) == IF i > Len(d) THEN {d}
                   ELSE (IF SubSeq(d, i, i) = "/" THEN {SubSeq(d, 1, i - 1)} ELSE {}) \cup DirsAbove(d, i + 1)
ExistingDirs(p) == UNION {DirsAbove(DirOfPkg(p.files[i].pkg), 1) : i \in DOMAIN p.files}
                   \cup UNION {DirsAbove(p.dirs[i], 1) : i \in DOMAIN p.dirs}

ProjectOK(p) ==
  LET paths == {PathOf(p.files[i]) : i \in DOMAIN p.files}
  IN  /\ \A i \in DOMAIN p.files : FileOK(p.files[i])
      /\ \A i, j \in DOMAIN p.files : i # j => PathOf(p.files[i]) # PathOf(p.files[j])
      /\ p.analyses \in {1, 2}
      /\ \A m \in DOMAIN p.moves :
           LET mv == p.moves[m] IN
           /\ PathOfQ(mv.from) \in paths
           /\ PathOfQ(mv.to) \notin paths
           /\ SimpleOf(mv.from) = SimpleOf(mv.to) /\ PkgOf(mv.to) # "" /\ mv.from # mv.to
           /\ DirOfPkg(PkgOf(mv.to)) \in ExistingDirs(p)
      /\ \A m, n \in DOMAIN p.moves : m # n => p.moves[m].from # p.moves[n].from /\ p.moves[m].to # p.moves[n].to

InputOK(in) == /\ \A i \in DOMAIN in.projects : ProjectOK(in.projects[i])
               /\ in.via \in {"api", "cli"}
               /\ in.via = "cli" => Len(in.projects) = 1 /\ in.projects[1].analyses = 1

-----------------------------------------------------------------------------
(* Known-defect shapes (spec-computed, narrow): an observed line that is not acceptable    *)
(* under the statement but is exactly what the statement with ONE switch off yields.       *)

TagTypeName == "moveclass.package.last-declared-type"
TagStaleCopy == "moveclass.copy.not-another-file"
TagCR == "moveclass.crlf.cr-dropped"
\* the command analyses the project but never calls Refactoring: the tree is byte for byte what it was
TagCliNoop == "moveclass.cli.refactoring-not-called"

-----------------------------------------------------------------------------
(* Diff *)

Item(k, w, t) == [prop |-> "X01", kind |-> k, where |-> w, tags |-> t]

FileAt(listing, path) == listing[CHOOSE i \in DOMAIN listing : listing[i].path = path]
Paths(listing) == {listing[i].path : i \in DOMAIN listing}

\* the rendering was faithful: what is on disk before the run is the text of the abstract files
BeforeOK(p, before) ==
  /\ Paths(before) = {PathOf(p.files[i]) : i \in DOMAIN p.files}
  /\ Len(before) = Len(p.files)
  /\ \A i \in DOMAIN p.files :
       LET f == p.files[i]
       IN  FileAt(before, PathOf(f)).lines = Shown([j \in DOMAIN f.lines |-> TextOf(f.lines[j])], f.eol, f.final)

LineFits(f, sw, obs, i) == i \in DOMAIN obs /\ i \in DOMAIN AllowedShown(f, sw) /\ obs[i] \in AllowedShown(f, sw)[i]

DiffProject(n, p, o, via) ==
  LET exp == Expected(p, Statement)
      noop == IF via = "cli" /\ o.after = o.before THEN {TagCliNoop} ELSE {}
      alt(sw) == Expected(p, sw)
      pre == "#" \o ToString(n) \o " "
      expPaths == {exp[i].path : i \in DOMAIN exp}
      fileDiff(i) ==
        LET f   == exp[i]
            obs == FileAt(o.after, f.path).lines
            all == AllowedShown(f, Statement)
            tagsOf(j) == noop \cup (IF LineFits(alt(Sw(FALSE, TRUE, TRUE))[i], Sw(FALSE, TRUE, TRUE), obs, j) THEN {TagTypeName} ELSE {})
                         \cup (IF LineFits(alt(Sw(TRUE, FALSE, TRUE))[i], Sw(TRUE, FALSE, TRUE), obs, j) THEN {TagStaleCopy} ELSE {})
                         \cup (IF LineFits(alt(Sw(TRUE, TRUE, FALSE))[i], Sw(TRUE, TRUE, FALSE), obs, j) THEN {TagCR} ELSE {})
        IN  IF f.path \notin Paths(o.after)
            THEN {Item(IF f.made THEN "target-missing" ELSE "file-missing", pre \o f.path, IF f.made THEN noop ELSE {})}
            ELSE (IF Len(obs) = Len(all) THEN {} ELSE {Item("line-count", pre \o f.path, {})})
                 \cup {Item(IF j \in DOMAIN f.lines /\ f.lines[j].t THEN "rewrite-wrong" ELSE "byte-changed",
                            pre \o f.path \o ":" \o ToString(j), tagsOf(j))
                         : j \in {x \in DOMAIN all : x \in DOMAIN obs /\ obs[x] \notin all[x]}}
  IN  (IF Len(o.after) = Cardinality(Paths(o.after)) THEN {} ELSE {Item("listing-repeats", pre, {})})
      \cup {Item("file-appeared", pre \o x, {}) : x \in Paths(o.after) \ expPaths}
      \cup UNION {fileDiff(i) : i \in DOMAIN exp}

Diff(rec) ==
  LET in == rec.input
      o  == rec.observed
  IN  IF ~InputOK(in) THEN {Item("harness-bad-input", "", {})}
      ELSE IF o.panic THEN {Item("died", "", {})}
      ELSE IF Len(o.projects) # Len(in.projects) THEN {Item("malformed-observation", "", {})}
      ELSE IF \E n \in DOMAIN in.projects : ~BeforeOK(in.projects[n], o.projects[n].before) THEN {Item("harness-bad-input", "render", {})}
      ELSE UNION {DiffProject(n, in.projects[n], o.projects[n], in.via) : n \in DOMAIN in.projects}
=============================================================================
