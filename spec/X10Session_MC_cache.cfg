\* the commands that share files, longer sessions: every session of 5 commands of the cache users, three projects
SPECIFICATION Spec
CONSTANTS
  MaxSteps = 5
  Projects = {1, 2, 3}
  Commands = {"analysis", "api", "evaluate", "tbs"}
INVARIANTS X10_TableIsReference X10_SliceClosed X10_SliceReplays Emit
