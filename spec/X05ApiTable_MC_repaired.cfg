\* both repairs (proposed_fixes/X05-1.patch, X05-2.patch): exact, no tag needed
SPECIFICATION Spec
CONSTANTS
  Cmd = "api"
  ModelPool = "shop"
  UriPool = "comma"
  RemovePool = "shop"
  MaxApis = 2
  RemoveForm = "prefix"
  CsvForm = "quoted"
INVARIANTS X05_OutputExact X05_FilterKeepsOrder X05_SortIsAPermutation X05_OneRowPerApi
