\* the other predicates (go, py, ts, pom, gradle) over a tree with a directory called nats.go, files whose names merely end
\* with pom.xml / contain .ts; a root that is itself called nats.go
SPECIFICATION Spec
CONSTANTS
  Universe <- UniverseOther
  Walkers = {"go", "py", "ts", "pom", "gradle"}
  Roots <- RootsOther
  Patterns <- PatternsOther
  MaxLines = 1
  PathBase = "relative"
  TestDataTest = "directory"
  DirTest = "isdir"
INVARIANTS X07_Exact X07_Slice Emit
