-------------------------- MODULE X03Visual_Trace --------------------------
(* Trace validation: every line of trace.ndjson is one model handed to the real          *)
(* visual.FromDeps (in-process, through the Java pipeline, or by `coca arch -v`) in a     *)
(* fresh process; Diff (X03VisualRef) is the oracle.  Never blocks: each discrepancy is   *)
(* printed and the rest of the trace is still checked.                                    *)
EXTENDS X03VisualRef, Json
VARIABLE l
Trace == ndJsonDeserialize("trace.ndjson")
Init == l = 1
Step == /\ l <= Len(Trace)
        /\ LET d == Diff(Trace[l])
           IN  IF d = {} THEN TRUE ELSE PrintT(<<"DIFF", l, ToJson(d)>>)
        /\ l' = l + 1
Spec == Init /\ [][Step]_l
Accepted == TLCGet("stats").diameter - 1 = Len(Trace)
=============================================================================
