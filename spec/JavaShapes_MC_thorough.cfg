SPECIFICATION Spec
CONSTANTS MaxFeatures = 3
INVARIANTS C09_ShapeSpace Emit
