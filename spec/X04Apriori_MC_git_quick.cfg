\* git's use, quick: <= 3 commits of 3 or 4 of 4 source files, three option settings (defaults 0.1/0.9; 0.5/0.9; 0.5/0.5 with maxLength 3); every record of >= 3 files is reported
SPECIFICATION Spec
CONSTANTS
  ItemPool = "files"
  MaxTx = 3
  MinTxLen = 3
  MaxTxLen = 4
  Ascending = TRUE
  Mode = "git"
  OptPool = "git"
  IndexForm = "occurrences"
  Sentinel = "inband"
INVARIANTS X04_ResultExactOrTagged X04_CandidatesComplete X04_NoFrequentSetLost X04_CandidateShape X04_IndexTable Emit
