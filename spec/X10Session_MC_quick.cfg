\* quick: every session of 3 commands over two projects and the whole command alphabet
SPECIFICATION Spec
CONSTANTS
  MaxSteps = 3
  Projects = {1, 2}
  Commands = {"analysis", "api", "arch", "evaluate", "call", "rcall", "count", "concept", "suggest", "tbs", "bs", "todo"}
INVARIANTS X10_TableIsReference X10_SliceClosed X10_SliceReplays Emit
