---------------------------- MODULE X05ApiTableRef ----------------------------
(* Property-level Reference for the extension X05: the presentation layer of `coca api`      *)
(* (cmd/api.go, pkg/domain/api_domain: the count table of -c, api.csv, api.dot, --sort,       *)
(* --aggregate, -r/--remove) and the -r/--remove option of `coca call` (cmd/call.go).        *)
(*                                                                                         *)
(* What is documented.  README "Identify Spring API": `coca api -f`; "With Count":           *)
(* `coca api -r com.phodal.pholedge. -c`, "or multi package: coca api -r com.macro.mall.      *)
(* demo.controller.,com.zheng.cms.admin.,com.phodal.pholedge -c" with a table                *)
(* SIZE | METHOD | URI | CALLER whose callers are shown WITHOUT the listed package names;    *)
(* "Build Deps Tree": `coca call -c <method> -r com.phodal.pholedge.`.  Flag help:           *)
(* -r "remove package ParamName", -c "count api size", -s "sort api", -a "aggregate api".     *)
(* Nothing else.  Statement, [doc] = from the above, [code] = what the code sets out to do,   *)
(* written down as a promise where nothing is documented:                                   *)
(*                                                                                         *)
(* (1) [doc] `coca api -c` prints one table row per API of coca_reporter/apis.json, in that   *)
(*     order: Size, Method = the API's HTTP method, URI = its URI, Caller = the full name     *)
(*     package.class.method of its handler.  Size = (number of edges of that API's chain in   *)
(*     api.dot) + 1  (this is C03's Size; here it ties the table to the graph file).         *)
(*     [code] api.csv is written on every run and holds the same rows as the table, comma     *)
(*     separated; without -c no table is printed.                                            *)
(* (2) [code, pinned by api_domain.TestSortApi] with --sort the rows of table and csv are      *)
(*     the same rows in NON-DECREASING Size order (the README's sample table happens to be     *)
(*     in decreasing order, but was printed without -s; the repository's own test demands      *)
(*     smallest first).  Free_X05_TieOrder: rows of equal Size may come in any order           *)
(*     (sort.Slice is not stable).  api.dot is not reordered.                                  *)
(* (3) [code] --aggregate <prefix> (the flag is named "aggregate" but nothing is merged)       *)
(*     keeps exactly the APIs whose URI starts with <prefix>, in their order: table, csv and   *)
(*     api.dot are those of the kept APIs only, each unchanged.                               *)
(* (4) [doc] -r <p1,p2,..>: the listed package names are removed from the node names: a node   *)
(*     name (the Caller cell; every node of api.dot / call.dot) that starts with a listed      *)
(*     name loses that prefix, once; every other name, and everything else (Size, Method,      *)
(*     URI, the "METHOD URI" root markers, the number and order of rows and edges), is         *)
(*     unchanged.  Free_X05_WhichPrefix: when several listed names are prefixes of a node      *)
(*     name, any one of them may be the one removed.  `coca call -r` takes ONE name [code:     *)
(*     the value is not split at commas].                                                      *)
(*                                                                                         *)
(* The Reference states (2)-(4) RELATIONALLY: every case runs the command twice on the same    *)
(* coca_reporter, once plain (`coca api -c` / `coca call -c root`) and once with the flags;    *)
(* the flagged output must be the plain output transformed as stated.  (1) is judged on the    *)
(* plain run.  The call graph itself (which edges) is C03's subject and not judged here.       *)
(*                                                                                         *)
(* Record shapes:                                                                            *)
(*   input  [cmd |-> "api" | "call", methods (not read here), apis : Seq([verb, uri, pkg,       *)
(*           node, name]), flags : [count, sort, remove : Seq(Str), aggregate, root]]          *)
(*   Out    [dotok, segs : Seq([marker : <<src, dst>>, edges : Seq(<<a, b>>)]),                *)
(*           edges : Seq(<<a, b>>)  (call.dot),                                                *)
(*           table : [present, ok, rows : Seq([size, method, uri, caller])], csv : [ok, rows]] *)
(*   observed [panic, base : Out, with : Out]                                                  *)
EXTENDS Integers, Sequences, FiniteSets, TLC

Range(s) == {s[i] : i \in DOMAIN s}

\* ------------------------------------------------------------------ strings
StartsWith(s, p) == Len(p) <= Len(s) /\ SubSeq(s, 1, Len(p)) = p
OccursAt(s, p, i) == i >= 1 /\ i + Len(p) - 1 <= Len(s) /\ SubSeq(s, i, i + Len(p) - 1) = p
\* p occurs in s at some position >= from
OccursFrom(s, p, from) == p # "" /\ \E i \in from..(Len(s) - Len(p) + 1) : OccursAt(s, p, i)
HasComma(s) == OccursFrom(s, ",", 1)

FullName(a) == a.pkg \o "." \o a.node \o "." \o a.name

\* (4) the results the statement allows for a node name (Free_X05_WhichPrefix)
Listed(remove) == {remove[k] : k \in {j \in DOMAIN remove : remove[j] # ""}}
StripAllowed(remove, s) ==
  LET ps == {p \in Listed(remove) : StartsWith(s, p)}
  IN  IF ps = {} THEN {s} ELSE {SubSeq(s, Len(p) + 1, Len(s)) : p \in ps}

-----------------------------------------------------------------------------
(* Known-defect shapes (spec-computed, narrow) *)

\* a listed package name occurs INSIDE a name (not as its prefix): the code deletes every occurrence in the whole text
TagInside == "remove.occurrence-inside-a-name"
\* a cell that contains a comma is written to api.csv as it is
TagCsvComma == "api.csv.comma-in-cell"

InsideNode(remove, s) == \E p \in Listed(remove) : OccursFrom(s, p, 2)       \* a node name: an occurrence that is not the prefix
InsideText(remove, s) == \E p \in Listed(remove) : OccursFrom(s, p, 1)       \* a URI / root marker: any occurrence
TagsNode(remove, s) == IF InsideNode(remove, s) THEN {TagInside} ELSE {}
TagsText(remove, s) == IF InsideText(remove, s) THEN {TagInside} ELSE {}

-----------------------------------------------------------------------------
Item(k, w, t) == [prop |-> "X05", kind |-> k, where |-> w, tags |-> t]

\* (1) the plain run of `coca api -c`
DiffPlain(in, b) ==
  LET n == Len(in.apis)
      expRow(i) == [size |-> Len(b.segs[i].edges) + 1, method |-> in.apis[i].verb, uri |-> in.apis[i].uri, caller |-> FullName(in.apis[i])]
      commaRow(i) == HasComma(in.apis[i].uri) \/ HasComma(FullName(in.apis[i])) \/ HasComma(in.apis[i].verb)
  IN  IF ~b.dotok THEN {Item("malformed-dot", "plain", {})}
      ELSE IF Len(b.segs) # n THEN {Item("api-count-dot", "plain", {})}
      ELSE {Item("root-marker", ToString(i), {})
              : i \in {j \in 1..n : b.segs[j].marker # <<in.apis[j].verb \o " " \o in.apis[j].uri, FullName(in.apis[j])>>}}
           \cup (IF n > 0 /\ (~b.table.present \/ ~b.table.ok) THEN {Item("table-missing-or-malformed", "plain", {})}
                 ELSE IF b.table.present /\ Len(b.table.rows) # n THEN {Item("row-count", "plain", {})}
                 ELSE IF ~b.table.present THEN {}
                 ELSE {Item("row", ToString(i), {}) : i \in {j \in 1..n : b.table.rows[j] # expRow(j)}})
           \cup (IF ~b.csv.ok \/ Len(b.csv.rows) # n
                 THEN {Item("csv-malformed-or-row-count", "plain", IF \E i \in 1..n : commaRow(i) THEN {TagCsvComma} ELSE {})}
                 ELSE {Item("csv-row", ToString(i), IF commaRow(i) THEN {TagCsvComma} ELSE {})
                         : i \in {j \in 1..n : b.csv.rows[j] # expRow(j)}})

\* a flagged row against the plain row it must come from
RowMatches(remove, r, e) ==
  r.size = e.size /\ r.method = e.method /\ r.uri = e.uri /\ r.caller \in StripAllowed(remove, e.caller)

\* can the observed rows be matched one-to-one with the expected rows? (backtracking; lists are short)
RECURSIVE Matching(_, _, _, _, _)
Matching(remove, rows, exp, k, unused) ==
  IF k > Len(rows) THEN unused = {}
  ELSE \E j \in unused : RowMatches(remove, rows[k], exp[j]) /\ Matching(remove, rows, exp, k + 1, unused \ {j})

NonDecreasing(rows) == \A i \in 1..Len(rows) - 1 : rows[i].size <= rows[i + 1].size

\* rows of a flagged run (table or csv) against the expected plain rows `exp` (already restricted by --aggregate)
DiffRows(what, fl, rows, exp) ==
  LET rm == fl.remove
      tagsAll == UNION {TagsNode(rm, exp[j].caller) \cup TagsText(rm, exp[j].uri) \cup TagsText(rm, exp[j].method) : j \in DOMAIN exp}
      commas == IF what = "csv" /\ \E j \in DOMAIN exp : HasComma(exp[j].uri) \/ HasComma(exp[j].caller) THEN {TagCsvComma} ELSE {}
  IN  IF Len(rows) # Len(exp) THEN {Item(what \o "-row-count", "flags", commas)}
      ELSE IF fl.sort
      THEN (IF NonDecreasing(rows) THEN {} ELSE {Item(what \o "-not-sorted", "flags", commas)})
           \cup (IF Matching(rm, rows, exp, 1, DOMAIN exp) THEN {}
                 ELSE {Item(what \o "-rows-differ", "flags", tagsAll \cup commas)})
      ELSE {Item(what \o "-row", ToString(i),
                 TagsNode(rm, exp[i].caller) \cup TagsText(rm, exp[i].uri) \cup TagsText(rm, exp[i].method)
                 \cup (IF what = "csv" /\ (HasComma(exp[i].uri) \/ HasComma(exp[i].caller)) THEN {TagCsvComma} ELSE {}))
              : i \in {j \in DOMAIN rows : ~RowMatches(rm, rows[j], exp[j])}}

EdgeMatches(remove, e, p) == e[1] \in StripAllowed(remove, p[1]) /\ e[2] \in StripAllowed(remove, p[2])
EdgeTags(remove, p) == TagsNode(remove, p[1]) \cup TagsNode(remove, p[2])

\* (2)-(4) the flagged run of `coca api` against the plain run
DiffFlagged(in, b, w) ==
  LET fl == in.flags
      n == Len(in.apis)
      selIdx == SelectSeq([i \in 1..n |-> i], LAMBDA i : StartsWith(in.apis[i].uri, fl.aggregate))      \* (3)
      m == Len(selIdx)
      planRows == [k \in 1..m |-> b.table.rows[selIdx[k]]]
      anyTag == UNION {UNION {EdgeTags(fl.remove, b.segs[i].edges[k]) : k \in DOMAIN b.segs[i].edges}
                       \cup TagsNode(fl.remove, b.segs[i].marker[2]) \cup TagsText(fl.remove, b.segs[i].marker[1]) : i \in 1..n}
      seg(k) ==
        LET p == b.segs[selIdx[k]]
            q == w.segs[k]
        IN  (IF q.marker[1] = p.marker[1] THEN {} ELSE {Item("root-marker-changed", p.marker[1], TagsText(fl.remove, p.marker[1]))})
            \cup (IF q.marker[2] \in StripAllowed(fl.remove, p.marker[2]) THEN {}
                  ELSE {Item("root-marker-handler", p.marker[2], TagsNode(fl.remove, p.marker[2]))})
            \cup (IF Len(q.edges) # Len(p.edges) THEN {Item("edge-count", p.marker[1], anyTag)}
                  ELSE {Item("edge", p.edges[j][1] \o " -> " \o p.edges[j][2], EdgeTags(fl.remove, p.edges[j]))
                          : j \in {x \in DOMAIN p.edges : ~EdgeMatches(fl.remove, q.edges[x], p.edges[x])}})
  IN  (IF ~w.dotok THEN {Item("malformed-dot", "flags", anyTag)}
       ELSE IF Len(w.segs) # m THEN {Item("api-count-dot", "flags", anyTag)}
       ELSE UNION {seg(k) : k \in 1..m})
      \cup (IF ~fl.count
            THEN (IF w.table.present THEN {Item("table-without-count-flag", "flags", {})} ELSE {})
            ELSE IF m > 0 /\ (~w.table.present \/ ~w.table.ok) THEN {Item("table-missing-or-malformed", "flags", {})}
            ELSE IF ~w.table.present THEN {}
            ELSE DiffRows("table", fl, w.table.rows, planRows))
      \cup (IF ~w.csv.ok THEN {Item("csv-malformed", "flags",
                                     IF \E k \in 1..m : HasComma(planRows[k].uri) \/ HasComma(planRows[k].caller) THEN {TagCsvComma} ELSE {})}
            ELSE DiffRows("csv", fl, w.csv.rows, planRows))

DiffApi(in, o) ==
  IF o.panic THEN {Item("panic", "", {})}
  ELSE LET plain == DiffPlain(in, o.base)
       IN  plain \cup (IF \E d \in plain : d.kind \in {"malformed-dot", "api-count-dot", "table-missing-or-malformed", "row-count"}
                          \/ (Len(in.apis) > 0 /\ ~o.base.table.present)
                       THEN {}                       \* nothing to relate the flagged run to
                       ELSE DiffFlagged(in, o.base, o.with))

\* `coca call -c root -r name`: call.dot is the plain call.dot with the name removed from the node names
DiffCall(in, o) ==
  LET rm == in.flags.remove
      b == o.base
      w == o.with
      anyTag == UNION {EdgeTags(rm, b.edges[k]) : k \in DOMAIN b.edges}
  IN  IF o.panic THEN {Item("panic", "", {})}
      ELSE IF ~b.dotok THEN {}                                          \* C03's subject
      ELSE IF ~w.dotok THEN {Item("malformed-dot", "flags", anyTag)}
      ELSE IF Len(w.edges) # Len(b.edges) THEN {Item("edge-count", "flags", anyTag)}
      ELSE {Item("edge", b.edges[j][1] \o " -> " \o b.edges[j][2], EdgeTags(rm, b.edges[j]))
              : j \in {x \in DOMAIN b.edges : ~EdgeMatches(rm, w.edges[x], b.edges[x])}}

Diff(rec) ==
  CASE rec.input.cmd = "api"  -> DiffApi(rec.input, rec.observed)
    [] rec.input.cmd = "call" -> DiffCall(rec.input, rec.observed)
=============================================================================
