\* kinds: <= 3 commits on one file of <= 3 lines; four kinds of line (code, TODO, assigned TODO, block comment)
SPECIFICATION Spec
CONSTANTS
  MaxCommits = 3
  MaxLines = 3
  MaxNew = 2
  FilePoolName = "one"
  Kinds = {"code", "todo", "assigned", "block"}
  Moves = FALSE
  RangeEnd = "line"
  PrettyArg = "plain"
INVARIANTS X09_Details X09_LogLine X09_WalkIsStamp X09_OpenIsTag X09_SameTree Emit
