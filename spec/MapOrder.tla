------------------------------ MODULE MapOrder ------------------------------
(* Machine of a map-driven loop (C08): Go randomises the order of every `range` over  *)
(* a map, so the loop body runs over the keys in an arbitrary order chosen anew on     *)
(* every run. The pipelines of coca that are built this way have one of three shapes:  *)
(*   collect  : append one result per key                (SetMethodFromMap, arch        *)
(*              relations, tbs duplicate asserts, nullable list, changelog, cloc rows)  *)
(*   sorted   : collect, then sort by a numeric key       (team summary, top authors,    *)
(*              code age, reference counts, bad smells by size)                          *)
(*   fold     : each key updates a shared accumulator keyed by something else            *)
(*              (BuildCommitMessageMap applying renames; MergeHeaderFile)                *)
(* TLC explores EVERY iteration order and checks that the result is order-independent   *)
(* as a collection, and as a sequence when the sort keys are pairwise distinct.         *)
EXTENDS Naturals, Sequences, FiniteSets, TLC

CONSTANTS Keys,        \* the keys of the map
          Shape,       \* "collect" | "sorted" | "fold"
          SortKey      \* function Keys -> Nat (used by "sorted")

VARIABLES pending, acc, result, done
vars == <<pending, acc, result, done>>

Range(s) == {s[i] : i \in DOMAIN s}
Bag(s) == [x \in Range(s) |-> Cardinality({i \in DOMAIN s : s[i] = x})]

Init == pending = Keys /\ acc = <<>> /\ result = <<>> /\ done = FALSE

\* the loop body for one key
Visit == /\ pending # {} /\ \E k \in pending : pending' = pending \ {k} /\ acc' = Append(acc, k)
         /\ UNCHANGED <<result, done>>

\* sort.Slice is not stable: any permutation that is non-increasing in the key is a possible outcome
SortedPerms(s) == {p \in [DOMAIN s -> Range(s)] : Range(p) = Range(s) /\ \A i \in 1..Len(s) - 1 : SortKey[p[i]] >= SortKey[p[i + 1]]}

\* "fold": the keys are renames  k = <<from, to>>  applied to an accumulator of names (switchMapFile)
ApplyRename(names, k) == IF k[1] \in names THEN (names \ {k[1]}) \cup {k[2]} ELSE names
RECURSIVE FoldRenames(_, _, _)
FoldRenames(names, s, i) == IF i > Len(s) THEN names ELSE FoldRenames(ApplyRename(names, s[i]), s, i + 1)

Finish == /\ pending = {} /\ ~done /\ done' = TRUE
          /\ CASE Shape = "collect" -> result' = acc
               [] Shape = "sorted"  -> result' \in SortedPerms(acc)
               [] Shape = "fold"    -> result' = <<FoldRenames({"a"}, acc, 1)>>
          /\ UNCHANGED <<pending, acc>>
Done == done /\ UNCHANGED vars
Next == Visit \/ Finish \/ Done
Spec == Init /\ [][Next]_vars

\* one canonical order to compare with
Canon == CHOOSE s \in [1..Cardinality(Keys) -> Keys] : Range(s) = Keys /\ (Shape # "sorted" \/ \A i \in 1..Len(s) - 1 : SortKey[s[i]] >= SortKey[s[i + 1]])
KeysDistinct == \A a, b \in Keys : a # b => SortKey[a] # SortKey[b]

C08_CollectionInvariant == (done /\ Shape # "fold") => Bag(result) = Bag(Canon)
C08_PromisedOrderInvariant == (done /\ Shape = "sorted" /\ KeysDistinct) => result = Canon
\* a fold over renames is order-SENSITIVE when a chain a->b, b->c lies in one map: this invariant fails for such
\* key sets, which is why the parser must hand the changes of a commit over in the order git printed them
C08_FoldOrderIndependent == (done /\ Shape = "fold") => result = <<FoldRenames({"a"}, Canon, 1)>>
=============================================================================
