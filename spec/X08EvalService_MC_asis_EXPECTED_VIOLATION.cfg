\* the code as shipped (no repair): the Machine violates X08_Lifecycle (the map of a later service replaces the map of
\* an earlier one; two constructors share their first word).  Not part of a check; run with `tlc -continue` and
\* INVARIANT ShowDiff to list every violating model.
SPECIFICATION Spec
CONSTANTS
  MaxCalls = 1
  MaxClasses = 2
  MaxMethods = 2
  ClassPoolName = "services"
  NamePool = {"doSave", "doUpdate", "getA", "getB"}
  RetPool = {"void"}
  ParamPoolName = "none"
  Ctors = TRUE
  LifecycleStore = "overwrite"
  CtorIsMethod = TRUE
INVARIANTS X08_Lifecycle X08_ReturnTypes X08_Related X08_SplitAgrees X08_Registers
