\* evaluate's use: <= 5 long-parameter methods (4 or 5 of 5 names each; with 5 methods a group of 4 of them sits exactly on the support 0.8)
SPECIFICATION Spec
CONSTANTS
  ItemPool = "params"
  MaxTx = 5
  MinTxLen = 4
  MaxTxLen = 5
  Ascending = TRUE
  Mode = "evaluate"
  OptPool = "evaluate"
  IndexForm = "occurrences"
  Sentinel = "inband"
INVARIANTS X04_ResultExactOrTagged X04_CandidatesComplete X04_NoFrequentSetLost X04_CandidateShape X04_IndexTable Emit
