\* git's use: <= 5 commits of 3 or 4 of 4 source files, three option settings
SPECIFICATION Spec
CONSTANTS
  ItemPool = "files"
  MaxTx = 5
  MinTxLen = 3
  MaxTxLen = 4
  Ascending = TRUE
  Mode = "git"
  OptPool = "git"
  IndexForm = "occurrences"
  Sentinel = "inband"
INVARIANTS X04_ResultExactOrTagged X04_CandidatesComplete X04_NoFrequentSetLost X04_CandidateShape X04_IndexTable Emit
