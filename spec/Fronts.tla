------------------------------- MODULE Fronts -------------------------------
(* Implementation-shaped Machine of coca's Go and Python front-ends (C20).              *)
(*                                                                                      *)
(* Go:  ast_go.CocagoParser.Visitor - the callback given to ast.Inspect, one action per *)
(*      node type it switches on (ImportSpec, TypeSpec, Ident, StructType,              *)
(*      InterfaceType, FuncDecl), its registers currentStruct / dsMap / lastIdent /     *)
(*      currentFile.{Imports, Members}, and the heap of CodeDataStruct values that      *)
(*      dsMap points into (`cells`: pointer aliasing is what went wrong there).         *)
(*      AddFunctionDecl / BuildFunction / BuildMethodCall are evaluated inside          *)
(*      VisitFuncDecl (they are pure functions of the declaration and the imports).     *)
(* Py:  ast_python.PythonIdentListener - one action per listener callback               *)
(*      (EnterImport_stmt, EnterFrom_stmt, Enter/ExitClassdef, Enter/ExitFuncdef) with  *)
(*      the package-level registers currentCodeFile, currentDataStruct, hasEnterMember. *)
(*                                                                                      *)
(* The source file is chosen incrementally: NextDecl / NextImport / NextItem append one *)
(* declaration to `file` and queue the node events the real walker produces for it;     *)
(* Finish may happen after any declaration, so every prefix is a complete input.        *)
(* The Machine's output is judged by the same Reference (FrontsRef!DiffFile) that       *)
(* judges the real code in Fronts_Trace.                                                *)
(*                                                                                      *)
(* The Machine models the code AFTER the proposed repairs C20-1..C20-4. The three       *)
(* switches below re-create the unrepaired algorithms (Fronts_MC_unrepaired.cfg shows   *)
(* TLC finding the defects in the Machine itself).                                      *)
EXTENDS FrontsRef, Json

CONSTANTS Langs,          \* subset of {"go", "py"}
          Detail,         \* "structure": many declarations, every interleaving; "bodies": one type, rich members
          MaxDecls,       \* declarations / items per file (imports of a Go file not counted)
          MaxImports,     \* imports of a Go file
          Wide,           \* BOOLEAN: the larger alphabet
          SharedCell,     \* TRUE = unrepaired Go visitor: every TypeSpec re-uses the one variable currentStruct (C20-1)
          FirstNameOnly,  \* TRUE = unrepaired: `a, b T` lists only a (C20-2)
          GlueImportAs    \* TRUE = unrepaired: `import a, b as c` lists "basc" (C20-4)

VARIABLES lang,             \* which front-end
          file,             \* the abstract source file chosen so far (the input)
          nodes,            \* node / listener events still to be delivered for the last declaration
          phase,            \* "build" | "crashed" (the walk panicked; the rest of the file is only read) | "done"
          \* ---- Go visitor
          currentStruct,    \* pointer (cell id; 0 = nil)
          cells,            \* heap: cell id -> CodeDataStruct [name, props, methods]
          dsMap,            \* NodeName -> cell id
          lastIdent,
          members,          \* currentFile.Members without functions: Seq([id, type])
          \* ---- shared by both
          imports,          \* currentFile.Imports / currentCodeFile.Imports
          funcs,            \* members that carry a function (Go: DataStructID "default"; Python: module-level defs)
          panicked,
          \* ---- Python listener
          currentDataStruct, \* NilDS or the class being filled
          hasEnterMember,
          dataStructures,   \* currentCodeFile.DataStructures
          out               \* the finished observation (FileObs of FrontsRef)

vars == <<lang, file, nodes, phase, currentStruct, cells, dsMap, lastIdent, members, imports, funcs, panicked,
          currentDataStruct, hasEnterMember, dataStructures, out>>
goRegs == <<currentStruct, cells, dsMap, lastIdent, members>>
pyRegs == <<currentDataStruct, hasEnterMember, dataStructures>>

-----------------------------------------------------------------------------
(* alphabets of declarations *)

F(ns, form, pkg, base) == [names |-> ns, form |-> form, pkg |-> pkg, base |-> base]
IntF(ns) == F(ns, "ident", "", "int")
S(k, q, n) == [k |-> k, q |-> q, name |-> n, lhs |-> IF k = "assign" THEN "t" ELSE "", args |-> <<>>]
Decl(k, name, fields, specs, recv, ptr, rv, params, results, body) ==
  [k |-> k, name |-> name, fields |-> fields, specs |-> specs, recv |-> recv, ptr |-> ptr, rv |-> rv,
   params |-> params, results |-> results, body |-> body]
Struct(n, fs) == Decl("struct", n, fs, <<>>, "", FALSE, "", <<>>, <<>>, <<>>)
Iface(n, sp)  == Decl("iface", n, <<>>, sp, "", FALSE, "", <<>>, <<>>, <<>>)
Method(t, p, m, ps, rs, b) == Decl("method", m, <<>>, <<>>, t, p, "r", ps, rs, b)
Func(n, ps, rs, b) == Decl("func", n, <<>>, <<>>, "", FALSE, "", ps, rs, b)
MSpec(n, ps) == [name |-> n, params |-> ps, results |-> <<>>]
Imp(p, a) == [path |-> p, alias |-> a]

GoImportAlphabet == {Imp("fmt", ""), Imp("net/http", "h")} \cup (IF Wide THEN {Imp("encoding/json", "")} ELSE {})

TNames == IF Wide THEN {"A", "B", "c"} ELSE {"A", "b"}       \* exported and unexported type names
Ptrs(m) == IF Wide THEN BOOLEAN ELSE {m = "M"}
GoStructure ==
  {Struct(n, fs) : n \in TNames, fs \in {<<>>, <<IntF(<<"x">>)>>}} \cup
  {Iface("I", sp) : sp \in {<<>>, <<MSpec("Get", <<>>)>>}} \cup
  UNION {{Method(t, p, m, <<>>, <<>>, b) : t \in TNames, p \in Ptrs(m), b \in {<<>>, <<S("call", "r", "N")>>}} : m \in {"M", "N"}} \cup
  {Func("F", <<>>, <<>>, <<>>)}

\* "bodies": one struct with rich field lists, then members with parameters, results and statement sequences
FieldLists == {<<>>, <<IntF(<<"x">>)>>, <<IntF(<<"x", "y">>)>>,
               <<IntF(<<"x">>), F(<<"b">>, "star", "", "A"), F(<<"q">>, "sel", "h", "Request")>>} \cup
              (IF Wide THEN {<<F(<<"l", "k">>, "array", "", "string"), F(<<"z">>, "starsel", "h", "Client")>>} ELSE {})
ParamLists == {<<>>, <<IntF(<<"p">>)>>, <<IntF(<<"p", "q">>)>>, <<IntF(<<"p">>), F(<<"s">>, "sel", "h", "Request")>>} \cup
              (IF Wide THEN {<<IntF(<<>>)>>, <<F(<<"a", "b", "c">>, "star", "", "A")>>} ELSE {})
Stmts(isMethod, quals) ==
  {S("call", q, "Println") : q \in quals} \cup {S("assign", q, "Sprint") : q \in quals} \cup
  (IF isMethod THEN {S("call", "r", "N"), S("defer", "r", "Close")} ELSE {}) \cup
  (IF Wide THEN {S("defer", q, "Close") : q \in quals} ELSE {})
Bodies(isMethod, quals) ==
  LET st == Stmts(isMethod, quals)
  IN  {<<>>} \cup {<<a>> : a \in st} \cup {<<a, b>> : a \in st, b \in st} \cup
      {<<a, S("return", "", "")>> : a \in st}
GoBodies(f) ==          \* first a type, then members of it / functions (the orders are the business of "structure")
  LET quals == Quals(f)
      rs == {<<>>, <<F(<<>>, "ident", "", "error")>>}
  IN  IF f.decls = <<>>
      THEN {Struct("A", fs) : fs \in FieldLists} \cup
           {Iface("I", <<MSpec("Get", ps), MSpec("Put", <<>>)>>) : ps \in ParamLists}
      ELSE (IF "A" \in GoTypeNames(f)
            THEN {Method("A", p, "M", ps, r, b) : p \in BOOLEAN, ps \in ParamLists, r \in rs, b \in Bodies(TRUE, quals)}
            ELSE {}) \cup
           {Func("F", ps, r, b) : ps \in ParamLists, r \in rs, b \in Bodies(FALSE, quals)}

GoAlphabet(f) == IF Detail = "bodies" THEN GoBodies(f) ELSE GoStructure

\* a declaration may follow: no second declaration of a name
GoFresh(f, d) ==
  CASE d.k = "method" -> d.name \notin Range(NamesOf(MethodsOn(f, d.recv)))
    [] OTHER          -> d.name \notin GoTypeNames(f) \cup Range(NamesOf(GoFuncs(f)))

\* ---- Python
N(n, a) == [name |-> n, as |-> a]
Deco(n, as) == [name |-> n, args |-> as]
PyFn(n, ds, nested) == [name |-> n, decos |-> ds, params |-> <<"self">>, nested |-> nested]
PyItem(k, source, names, paren, name, decos, methods, nested) ==
  [k |-> k, source |-> source, names |-> names, paren |-> paren, name |-> name, decos |-> decos, bases |-> <<>>,
   methods |-> methods, params |-> <<>>, nested |-> nested]
PyImport(names) == PyItem("import", "", names, FALSE, "", <<>>, <<>>, <<>>)
PyFrom(src, names, paren) == PyItem("from", src, names, paren, "", <<>>, <<>>, <<>>)
PyClass(n, ds, ms) == PyItem("class", "", <<>>, FALSE, n, ds, ms, <<>>)
PyFunc(n, ds, nested) == PyItem("func", "", <<>>, FALSE, n, ds, <<>>, nested)

PyImportAlphabet ==
  {PyImport(<<N("os", "")>>), PyImport(<<N("os.path", "p"), N("sys", "")>>), PyFrom(".", <<N("x", "")>>, FALSE),
   PyFrom("k", <<N("u", ""), N("v", "")>>, TRUE), PyFrom("m", <<>>, FALSE)} \cup
  (IF Wide THEN {PyImport(<<N("a", ""), N("b", "c")>>), PyFrom("..m", <<N("y", "z"), N("w", "")>>, FALSE)} ELSE {})
DecoLists == {<<>>, <<Deco("d", <<>>)>>} \cup
             (IF Wide \/ Detail = "bodies"
              THEN {<<Deco("d", <<>>), Deco("e.f", <<"1">>)>>, <<Deco("d", <<>>), Deco("e.f", <<"1">>), Deco("g", <<>>)>>} ELSE {})
MethodLists(c) ==
  LET m == PyFn("m", <<>>, <<>>)
      n == PyFn("n", <<Deco("s", <<>>)>>, <<>>)
      mi == PyFn("m", <<>>, <<"in_" \o c>>)
  IN  {<<>>, <<m>>, <<m, n>>, <<mi>>} \cup
      (IF Wide \/ Detail = "bodies" THEN {<<n, m>>, <<mi, n>>, <<PyFn("m", <<Deco("d", <<>>), Deco("s", <<"1">>)>>, <<>>)>>} ELSE {})
PyAlphabet ==
  PyImportAlphabet \cup
  UNION {{PyClass(c, ds, ms) : ds \in DecoLists, ms \in MethodLists(c)} : c \in {"A", "B"}} \cup
  UNION {{PyFunc(fn, ds, nested) : ds \in DecoLists, nested \in {<<>>, <<"in_" \o fn>>}} : fn \in {"f", "G"}}
PyFresh(f, it) ==
  it.k \in {"class", "func"} => it.name \notin Range(NamesOf(PyClasses(f))) \cup Range(NamesOf(PyFuncs(f)))

-----------------------------------------------------------------------------
RECURSIVE SeqOf(_)      \* the elements of a finite set in some order
SeqOf(set) == IF set = {} THEN <<>> ELSE LET x == CHOOSE y \in set : TRUE IN <<x>> \o SeqOf(set \ {x})

NilDS == [nil |-> TRUE, name |-> "", decos |-> <<>>, methods |-> <<>>]
NoObs == [panic |-> FALSE, accepts |-> TRUE, imports |-> <<>>, types |-> <<>>, funcs |-> <<>>, members |-> <<>>]
EmptyFile == [pkg |-> "demo", imports |-> <<>>, decls |-> <<>>, items |-> <<>>, style |-> 0]

Init ==
  /\ lang \in Langs
  /\ file = EmptyFile /\ nodes = <<>> /\ phase = "build"
  /\ currentStruct = 0 /\ cells = <<>> /\ dsMap = <<>> /\ lastIdent = "" /\ members = <<>>
  /\ imports = <<>> /\ funcs = <<>> /\ panicked = FALSE
  /\ currentDataStruct = NilDS /\ hasEnterMember = FALSE /\ dataStructures = <<>>
  /\ out = NoObs

Ev(n, d) == [n |-> n, d |-> d]
Next1 == Tail(nodes)

-----------------------------------------------------------------------------
(* Go: choosing the file *)

GoNextImport ==     \* imports precede every other declaration (the Go grammar demands it)
  /\ lang = "go" /\ phase = "build" /\ nodes = <<>> /\ file.decls = <<>> /\ Len(file.imports) < MaxImports
  /\ \E im \in GoImportAlphabet :
       /\ \A x \in Range(file.imports) : x.path # im.path
       /\ file' = [file EXCEPT !.imports = Append(@, im)]
       /\ nodes' = <<Ev("ImportSpec", im)>>
  /\ UNCHANGED <<lang, phase, goRegs, imports, funcs, panicked, pyRegs, out>>

\* the node events ast.Inspect delivers for one declaration, in its pre-order
GoNodes(d) ==
  CASE d.k = "struct" -> <<Ev("TypeSpec", d), Ev("Ident", d), Ev("StructType", d)>>
    [] d.k = "iface"  -> <<Ev("TypeSpec", d), Ev("Ident", d), Ev("InterfaceType", d)>>
    [] OTHER          -> <<Ev("FuncDecl", d)>>

GoNextDecl ==
  /\ lang = "go" /\ phase \in {"build", "crashed"} /\ nodes = <<>> /\ Len(file.decls) < MaxDecls
  /\ \E d \in GoAlphabet(file) :
       /\ GoFresh(file, d)
       /\ file' = [file EXCEPT !.decls = Append(@, d)]
       /\ nodes' = IF phase = "crashed" THEN <<>> ELSE GoNodes(d)
  /\ UNCHANGED <<lang, phase, goRegs, imports, funcs, panicked, pyRegs, out>>

-----------------------------------------------------------------------------
(* Go: the visitor *)

Head1 == Head(nodes)

\* BuildImport: "/" becomes "."
VisitImportSpec ==
  /\ phase = "build" /\ nodes # <<>> /\ Head1.n = "ImportSpec"
  /\ imports' = Append(imports, [source |-> Dotted(Head1.d.path), as |-> Head1.d.alias, usage |-> <<>>])
  /\ nodes' = Next1
  /\ UNCHANGED <<lang, file, phase, goRegs, funcs, panicked, pyRegs, out>>

NewCell(name) == [name |-> name, props |-> <<>>, methods |-> <<>>]
SetMap(m, k, v) == [x \in DOMAIN m \cup {k} |-> IF x = k THEN v ELSE m[x]]

\* getDataStruct(dsMap, name): the entry of that name, created on first use.  Sets cells' and dsMap'; yields the id.
GetDataStruct(name, id) ==
  IF name \in DOMAIN dsMap
  THEN /\ id = dsMap[name] /\ cells' = cells /\ dsMap' = dsMap
  ELSE /\ id = Len(cells) + 1 /\ cells' = Append(cells, NewCell(name)) /\ dsMap' = SetMap(dsMap, name, id)

VisitTypeSpec ==
  /\ phase = "build" /\ nodes # <<>> /\ Head1.n = "TypeSpec"
  /\ IF SharedCell
     THEN \* unrepaired: `currentStruct = CodeDataStruct{}; dsMap[name] = &currentStruct` - ONE variable, cell 1, for all types
          /\ cells' = IF cells = <<>> THEN <<NewCell(Head1.d.name)>> ELSE [cells EXCEPT ![1] = NewCell(Head1.d.name)]
          /\ dsMap' = SetMap(dsMap, Head1.d.name, 1)
          /\ currentStruct' = 1
     ELSE \E id \in 1..(Len(cells) + 1) : GetDataStruct(Head1.d.name, id) /\ currentStruct' = id
  /\ nodes' = Next1
  /\ UNCHANGED <<lang, file, phase, lastIdent, members, imports, funcs, panicked, pyRegs, out>>

VisitIdent ==
  /\ phase = "build" /\ nodes # <<>> /\ Head1.n = "Ident"
  /\ lastIdent' = Head1.d.name
  /\ nodes' = Next1
  /\ UNCHANGED <<lang, file, phase, currentStruct, cells, dsMap, members, imports, funcs, panicked, pyRegs, out>>

\* BuildPropertyField: the element type, qualified when written qualified
TypeValue(f) == IF f.pkg = "" THEN f.base ELSE f.pkg \o "." \o f.base
\* BuildFieldToProperty / the field loop of AddStructType
Props(fs) ==
  LET flat == IF FirstNameOnly
              THEN [i \in DOMAIN fs |-> [name |-> IF fs[i].names = <<>> THEN "" ELSE fs[i].names[1], f |-> fs[i]]]
              ELSE FlatFields(fs)
  IN  [i \in DOMAIN flat |-> [name |-> flat[i].name, type |-> TypeValue(flat[i].f)]]

VisitStructType ==      \* AddStructType(currentStruct.NodeName, ...)
  /\ phase = "build" /\ nodes # <<>> /\ Head1.n = "StructType"
  /\ IF currentStruct = 0 THEN UNCHANGED <<members, cells>>
     ELSE LET name == cells[currentStruct].name
          IN  /\ members' = Append(members, [id |-> name, type |-> "struct"])
              /\ cells' = IF name \in DOMAIN dsMap
                          THEN [cells EXCEPT ![dsMap[name]].props = Props(Head1.d.fields)]
                          ELSE cells
  /\ nodes' = Next1
  /\ UNCHANGED <<lang, file, phase, currentStruct, dsMap, lastIdent, imports, funcs, panicked, pyRegs, out>>

VisitInterfaceType ==   \* AddInterface(x, lastIdent, ...): a fresh struct replaces the entry made by the TypeSpec
  /\ phase = "build" /\ nodes # <<>> /\ Head1.n = "InterfaceType"
  /\ IF Head1.d.specs = <<>> THEN UNCHANGED <<members, cells, dsMap>>       \* `if len(x.Methods.List) < 1 { break }`
     ELSE /\ members' = Append(members, [id |-> lastIdent, type |-> "interface"])
          /\ cells' = Append(cells, [name |-> lastIdent, methods |-> <<>>,
                                     props |-> [i \in DOMAIN Head1.d.specs |-> [name |-> Head1.d.specs[i].name, type |-> "func"]]])
          /\ dsMap' = SetMap(dsMap, lastIdent, Len(cells) + 1)
  /\ nodes' = Next1
  /\ UNCHANGED <<lang, file, phase, currentStruct, lastIdent, imports, funcs, panicked, pyRegs, out>>

\* BuildMethodCall, statement by statement
CallsOf(stmts) ==
  LET one(s) ==
        CASE s.k \in {"call", "defer"} -> <<[node |-> s.q, fn |-> s.name]>>
          \* BuildLocalVars: a call on the right-hand side is recorded (without function name) when its
          \* qualifier is literally the source of an import
          [] s.k = "assign" -> IF s.name # "" /\ \E im \in Range(imports) : im.source = s.q
                               THEN <<[node |-> s.q, fn |-> ""]>> ELSE <<>>
          [] OTHER -> <<>>                 \* return: only calls on parameters are recorded
  IN  Concat([i \in DOMAIN stmts |-> one(stmts[i])])
BuildFunction(d) == [name |-> d.name, params |-> Props(d.params), decos |-> <<>>, calls |-> CallsOf(d.body)]

PanicObs == [NoObs EXCEPT !.panic = TRUE]

VisitFuncDecl ==        \* AddFunctionDecl, then the receiver's entry gets the method
  /\ phase = "build" /\ nodes # <<>> /\ Head1.n = "FuncDecl"
  /\ LET d  == Head1.d
         fn == BuildFunction(d)
     IN  IF d.k = "func"
         THEN /\ funcs' = Append(funcs, fn)         \* member "default" carrying the function
              /\ nodes' = Next1
              /\ UNCHANGED <<cells, dsMap, panicked, phase, out>>
         ELSE IF SharedCell /\ d.recv \notin DOMAIN dsMap
              THEN \* unrepaired: `dsMap[recv].Functions = ...` with dsMap[recv] == nil
                   /\ panicked' = TRUE /\ phase' = "crashed" /\ nodes' = <<>> /\ out' = PanicObs
                   /\ UNCHANGED <<funcs, cells, dsMap>>
              ELSE /\ IF d.recv \in DOMAIN dsMap
                      THEN /\ cells' = [cells EXCEPT ![dsMap[d.recv]].methods = Append(@, fn)]
                           /\ dsMap' = dsMap
                      ELSE /\ cells' = Append(cells, [NewCell(d.recv) EXCEPT !.methods = <<fn>>])
                           /\ dsMap' = SetMap(dsMap, d.recv, Len(cells) + 1)
                   /\ nodes' = Next1
                   /\ UNCHANGED <<funcs, panicked, phase, out>>
  /\ UNCHANGED <<lang, file, currentStruct, lastIdent, members, imports, pyRegs>>

TypeObsOf(c) == [name |-> c.name, pkg |-> "", props |-> c.props, decos |-> <<>>, methods |-> c.methods]

GoFinish ==             \* `for _, ds := range dsMap { DataStructures = append(.., *ds) }`, sorted by name
  /\ lang = "go" /\ phase \in {"build", "crashed"} /\ nodes = <<>>
  /\ phase' = "done"
  /\ out' = IF phase = "crashed" THEN out
            ELSE [NoObs EXCEPT !.imports = imports, !.funcs = funcs, !.members = members,
                               !.types = LET ns == SeqOf(DOMAIN dsMap)
                                         IN  [i \in DOMAIN ns |-> TypeObsOf(cells[dsMap[ns[i]]])]]
  /\ UNCHANGED <<lang, file, nodes, goRegs, imports, funcs, panicked, pyRegs>>

-----------------------------------------------------------------------------
(* Python: choosing the module, and the listener *)

NestedFn(n) == [name |-> n, decos |-> <<>>, nested |-> <<>>]
FnEvents(fn) ==
  <<Ev("EnterFuncdef", fn)>> \o
  Concat([i \in DOMAIN fn.nested |-> <<Ev("EnterFuncdef", NestedFn(fn.nested[i])), Ev("ExitFuncdef", NestedFn(fn.nested[i]))>>]) \o
  <<Ev("ExitFuncdef", fn)>>
\* the callbacks the parse-tree walker makes for one statement of the module
PyEvents(it) ==
  CASE it.k = "import" -> <<Ev("EnterImport_stmt", it)>>
    [] it.k = "from"   -> <<Ev("EnterFrom_stmt", it)>>
    [] it.k = "class"  -> <<Ev("EnterClassdef", it)>> \o Concat([i \in DOMAIN it.methods |-> FnEvents(it.methods[i])]) \o
                          <<Ev("ExitClassdef", it)>>
    [] OTHER           -> FnEvents([name |-> it.name, decos |-> it.decos, nested |-> it.nested])

PyNextItem ==
  /\ lang = "py" /\ phase \in {"build", "crashed"} /\ nodes = <<>> /\ Len(file.items) < MaxDecls
  /\ \E it \in PyAlphabet :
       /\ PyFresh(file, it)
       /\ file' = [file EXCEPT !.items = Append(@, it)]
       /\ nodes' = IF phase = "crashed" THEN <<>> ELSE PyEvents(it)
  /\ UNCHANGED <<lang, phase, goRegs, imports, funcs, panicked, pyRegs, out>>

GetText(n) == IF n.as # "" THEN n.name \o "as" \o n.as ELSE n.name     \* ctx.GetText(): the tokens without blanks

EnterImport_stmt ==
  /\ phase = "build" /\ nodes # <<>> /\ Head1.n = "EnterImport_stmt"
  /\ LET ns    == Head1.d.names
         rest  == Tail(ns)
         usage == (IF ns[1].as # "" THEN <<ns[1].as>> ELSE <<>>) \o
                  [i \in DOMAIN rest |-> IF GlueImportAs THEN GetText(rest[i])
                                         ELSE IF rest[i].as # "" THEN rest[i].as ELSE rest[i].name]
     IN  imports' = Append(imports, [source |-> ns[1].name, as |-> "", usage |-> usage])
  /\ nodes' = Next1
  /\ UNCHANGED <<lang, file, phase, goRegs, funcs, panicked, pyRegs, out>>

EnterFrom_stmt ==       \* the names are cut out of GetText() at the commas: `a as b` arrives as "aasb"
  /\ phase = "build" /\ nodes # <<>> /\ Head1.n = "EnterFrom_stmt"
  /\ LET ns    == Head1.d.names
         usage == IF ns = <<>> THEN <<"*">> ELSE [i \in DOMAIN ns |-> GetText(ns[i])]
     IN  imports' = Append(imports, [source |-> Head1.d.source, as |-> "", usage |-> usage])
  /\ nodes' = Next1
  /\ UNCHANGED <<lang, file, phase, goRegs, funcs, panicked, pyRegs, out>>

EnterClassdef ==
  /\ phase = "build" /\ nodes # <<>> /\ Head1.n = "EnterClassdef"
  /\ hasEnterMember' = TRUE
  /\ currentDataStruct' = [nil |-> FALSE, name |-> Head1.d.name, decos |-> NamesOf(Head1.d.decos), methods |-> <<>>]
  /\ nodes' = Next1
  /\ UNCHANGED <<lang, file, phase, goRegs, imports, funcs, panicked, dataStructures, out>>

ExitClassdef ==
  /\ phase = "build" /\ nodes # <<>> /\ Head1.n = "ExitClassdef"
  /\ hasEnterMember' = FALSE
  /\ IF currentDataStruct.nil      \* `*currentDataStruct` with currentDataStruct == nil (a class nested in a class)
     THEN /\ panicked' = TRUE /\ phase' = "crashed" /\ nodes' = <<>> /\ out' = PanicObs
          /\ UNCHANGED <<dataStructures, currentDataStruct>>
     ELSE /\ dataStructures' = Append(dataStructures, [name |-> currentDataStruct.name, pkg |-> "", props |-> <<>>,
                                                        decos |-> currentDataStruct.decos, methods |-> currentDataStruct.methods])
          /\ currentDataStruct' = NilDS
          /\ nodes' = Next1
          /\ UNCHANGED <<panicked, phase, out>>
  /\ UNCHANGED <<lang, file, goRegs, imports, funcs>>

EnterFuncdef ==
  /\ phase = "build" /\ nodes # <<>> /\ Head1.n = "EnterFuncdef"
  /\ hasEnterMember' = TRUE
  /\ LET function == [name |-> Head1.d.name, params |-> <<>>, decos |-> NamesOf(Head1.d.decos), calls |-> <<>>]
     IN  IF ~currentDataStruct.nil
         THEN /\ currentDataStruct' = [currentDataStruct EXCEPT !.methods = Append(@, function)]
              /\ UNCHANGED funcs
         ELSE /\ funcs' = Append(funcs, function)
              /\ UNCHANGED currentDataStruct
  /\ nodes' = Next1
  /\ UNCHANGED <<lang, file, phase, goRegs, imports, panicked, dataStructures, out>>

ExitFuncdef ==
  /\ phase = "build" /\ nodes # <<>> /\ Head1.n = "ExitFuncdef"
  /\ hasEnterMember' = FALSE
  /\ nodes' = Next1
  /\ UNCHANGED <<lang, file, phase, goRegs, imports, funcs, panicked, currentDataStruct, dataStructures, out>>

PyFinish ==             \* GetCodeFileInfo
  /\ lang = "py" /\ phase \in {"build", "crashed"} /\ nodes = <<>>
  /\ phase' = "done"
  /\ out' = IF phase = "crashed" THEN out ELSE [NoObs EXCEPT !.imports = imports, !.funcs = funcs, !.types = dataStructures]
  /\ UNCHANGED <<lang, file, nodes, goRegs, imports, funcs, panicked, pyRegs>>

Finished == phase = "done"
Done == Finished /\ UNCHANGED vars

Next == GoNextImport \/ GoNextDecl \/ VisitImportSpec \/ VisitTypeSpec \/ VisitIdent \/ VisitStructType
        \/ VisitInterfaceType \/ VisitFuncDecl \/ GoFinish
        \/ PyNextItem \/ EnterImport_stmt \/ EnterFrom_stmt \/ EnterClassdef \/ ExitClassdef \/ EnterFuncdef
        \/ ExitFuncdef \/ PyFinish \/ Done

Spec == Init /\ [][Next]_vars

-----------------------------------------------------------------------------
(* Properties *)

Untagged(d) == {it \in d : it.tags = {}}

\* neither front-end crashes on a file inside the quantifier (after a crash the rest of the file is still
\* chosen, so "a method declared before its receiver type" is seen as the complete, in-quantifier file it is)
C20_NoCrash == InQuant(lang, file) => ~panicked

\* the finished model lists every declaration exactly once under its own name (the property-level Reference);
\* items carrying a known-finding tag are the listed defect shapes (counted in the evidence)
C20_GoDeclsExact == (Finished /\ lang = "go") => Untagged(DiffGoFile(file, out, "")) = {}
C20_PyDeclsExact == (Finished /\ lang = "py") => Untagged(DiffPyFile(file, out, "")) = {}

\* implementation-level: every key of dsMap points to a struct that carries that very name (what aliasing breaks)
C20_GoMapOwnNames == \A n \in DOMAIN dsMap : dsMap[n] \in DOMAIN cells /\ cells[dsMap[n]].name = n
\* implementation-level: between two statements of a module no class is open (no stale currentDataStruct)
C20_PyNoStaleClass == (lang = "py" /\ nodes = <<>> /\ ~panicked) => (currentDataStruct.nil /\ ~hasEnterMember)

\* generation: every explored in-quantifier file becomes a replay case for the real code; the Machine's own
\* output travels with it (drift diagnostics only)
Emit == (Finished /\ InQuant(lang, file)) =>
          PrintT(<<"CASE", ToJson([input |-> [lang |-> lang, files |-> <<file>>], machine |-> out])>>)

=============================================================================
