\* the code as it is, judged without tags: TLC finds the name app.web.webapp.Main.run losing the app. inside webapp. and the csv row with a comma.  Not part of a check; run with tlc -continue and INVARIANT ShowDiff.
SPECIFICATION Spec
CONSTANTS
  Cmd = "api"
  ModelPool = "shop"
  UriPool = "comma"
  RemovePool = "shop"
  MaxApis = 2
  RemoveForm = "anywhere"
  CsvForm = "joined"
INVARIANTS X05_OutputExact X05_FilterKeepsOrder X05_SortIsAPermutation X05_OneRowPerApi
