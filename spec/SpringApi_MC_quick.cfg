\* every abstract file with <= 2 members (6315 files), one file per process (histories: SpringApi_Gen.cfg)
SPECIFICATION Spec
CONSTANTS
  MaxFiles = 1
  MaxMembers = 2
VIEW View
INVARIANTS C12_EntriesExact C12_OwnClass Emit
PROPERTY C07_NoCarryOver
