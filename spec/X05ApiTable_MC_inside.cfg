\* the code AS IT IS with a URI that contains a listed package name
SPECIFICATION Spec
CONSTANTS
  Cmd = "api"
  ModelPool = "shop"
  UriPool = "inside"
  RemovePool = "shop"
  MaxApis = 2
  RemoveForm = "anywhere"
  CsvForm = "joined"
INVARIANTS X05_OutputExactOrTagged X05_FilterKeepsOrder X05_SortIsAPermutation X05_OneRowPerApi Emit
