\* by hand only: the code AS FOUND (binary search over the unsorted modifier list, last return wins, only a leading annotation captured);
\* TLC exhibits the defects from the Machine (run with -continue to enumerate all violating end states)
SPECIFICATION Spec
CONSTANTS
  Part = "eval"
  Repaired = FALSE
  MaxCalls = 0
  Targets = 3
  WithOverload = FALSE
  PreToks = {"public", "static", "final", "@Nullable", "@Override"}
  MaxPre = 3
  RetKinds = {"null", "other"}
  MaxRets = 2
  MaxMembers = 1
  WithCtor = FALSE
  MaxPieces = 1
  MaxNames = 1
INVARIANTS C18_CountsConserved C18_CountReference C18_StaticIsPermutationInvariant C18_NullableExactOnce C18_SummaryNumbers C18_NoStaleMethodState C18_ConceptSum Emit
