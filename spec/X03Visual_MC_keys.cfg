\* names that contain the separator of the code's concatenated counter key: "x.y" -> "x.y.coca.x.y" and
\* "x.y.coca.x.y" -> "x.y" are two pairs with one concatenation; <= 2 classes, <= 3 calls each
SPECIFICATION Spec
CONSTANTS
  MaxDeps = 2
  MaxCalls = 3
  Pkgs = {"x", "x.y.coca.x"}
  ClassNames = {"y"}
  CalleeNames = {"y", ""}
  ValueLoop = "index"
  CalleeTest = "classname"
  KeyForm = "pair"
INVARIANTS X03_NodesExact X03_LinksExact X03_LinkValues X03_Groups X03_CounterTable Emit
